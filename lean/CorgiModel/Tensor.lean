/-
  CorgiModel.Tensor — the value of an array: dimensions + row-major values.
  Mirrors `src/array/mod.rs`: the `From` constructors, `flatten_indices`, `Index`, `PartialEq`.
-/
import CorgiModel.Basic

namespace Corgi

structure Tensor (S : Type) where
  dims : List Nat
  vals : List S
  deriving Repr

variable {S : Type}

/-- `Array::from((dimensions, values))` (`mod.rs` `From<(Vec<usize>, Rc<Vec<Float>>)>`):
    first every dimension must be ≥ 1, then the product must equal the number of values. -/
def Tensor.mk? (dims : List Nat) (vals : List S) : R (Tensor S) :=
  if !(dims.all (fun d => decide (1 ≤ d))) then throw .badDims
  else if prod dims != vals.length then throw .countMismatch
  else pure ⟨dims, vals⟩

/-- `Array::from(values)` — a flat vector. -/
def Tensor.ofFlat (vals : List S) : R (Tensor S) := Tensor.mk? [vals.length] vals

/-- `Array::from(dimensions)` — zeros. -/
def Tensor.zeros [ScalarOps S] (dims : List Nat) : R (Tensor S) :=
  Tensor.mk? dims (List.replicate (prod dims) zero)

/-- `Array::from(Vec<Array>)` — nesting. The dimension check runs first (vacuous on an empty
    vector), then `contents.first().unwrap()` panics on an empty vector. -/
def Tensor.ofNested (ts : List (Tensor S)) : R (Tensor S) :=
  match ts with
  | [] => throw .emptyNest
  | t :: rest =>
    if !(rest.all (fun u => u.dims == t.dims)) then throw .nestedMismatch
    else Tensor.mk? (ts.length :: t.dims) (ts.flatMap (·.vals))

/-- `flatten_indices(indices, dimensions)`: skip the surplus leading indices, then fold
    `acc * d + i` over the remaining positions whose dimension is not 1. -/
def flattenIndices (idx dims : List Nat) : R Nat :=
  if idx.length < dims.length then throw .indexOOB
  else match idx.drop (idx.length - dims.length) with
    | [] => throw .indexOOB
    | first :: rest =>
      pure ((rest.zip (dims.drop 1)).foldl
        (fun acc p => if p.2 != 1 then acc * p.2 + p.1 else acc) first)

/-- `a[vec![..]]` -/
def Tensor.index (t : Tensor S) (idx : List Nat) : R S := do
  let off ← flattenIndices idx t.dims
  getR t.vals off

/-- `a[i]` -/
def Tensor.indexFlat (t : Tensor S) (i : Nat) : R S := getR t.vals i

/-- `a == b`: dimensions and values, nothing else. -/
def Tensor.beq [BEq S] (a b : Tensor S) : Bool := a.dims == b.dims && a.vals == b.vals

def Tensor.size (t : Tensor S) : Nat := t.vals.length

end Corgi
