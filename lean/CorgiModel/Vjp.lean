/-
  CorgiModel.Vjp — the backward closures, written like the Rust closures: by calling the forward
  operations (so that broadcasting inside closures behaves as in the code).
  During a closure call all stored operands are untracked, so these calls build no graph.
-/
import CorgiModel.Ops

namespace Corgi

/-- Which closure a node carries, with the parameters the Rust closure captures. -/
inductive OpTag (S : Type) where
  | add | mul | div | neg
  | scale (s : S)
  | powf (e : S)
  | ln | exp | recip
  | sum (k : Nat)
  | reshape
  | matmul (ta tb : Bool)
  | unroll (depth rows cols sr sc fr fc : Nat)
  | expand
  | relu | sigmoid
  /-- harness-defined `Array::op` nodes: 0 = n-ary same-shape sum, 1 = binary same-shape product,
      2 = unary doubling, 3 = ternary `a*b + c` -/
  | custom (kind : Nat)
  deriving Repr

variable {S : Type} [Add S] [Mul S] [Neg S] [Sub S] [ScalarOps S]

def whenT {α} (t : Bool) (x : R α) : R (Option α) :=
  if t then x.map some else pure none

def flag (t : List Bool) (i : Nat) : R Bool := getR t i
def kid (c : List (Tensor S)) (i : Nat) : R (Tensor S) := getR c i

/-- `mul_values(a, b)` — zips, truncating to the shorter. -/
def mulValues (a b : List S) : List S := List.zipWith (· * ·) a b

/-- the slice operation of `sum`'s closure: the block's delta element repeated over the summed block -/
def sumBackOp (n : Nat) (slices : List (List S)) : R (List S) :=
  match slices with
  | [s] => do
    let v ← getR s 0
    pure (List.replicate n v)
  | _ => throw .modelGap

/-- The closure of a node: operand values `c`, the node's own forward value `self`
    (for the closures that cache it), saved flags `t`, incoming delta `x`. -/
def vjp (tag : OpTag S) (c : List (Tensor S)) (self : Tensor S) (t : List Bool) (x : Tensor S) :
    R (List (Option (Tensor S))) :=
  match tag with
  | .add => do
    pure [if (← flag t 0) then some x else none, if (← flag t 1) then some x else none]
  | .mul => do
    let c0 ← kid c 0; let c1 ← kid c 1
    let a ← whenT (← flag t 0) (mul c1 x)
    let b ← whenT (← flag t 1) (mul c0 x)
    pure [a, b]
  | .div => do
    let c0 ← kid c 0; let c1 ← kid c 1
    let a ← whenT (← flag t 0) (div x c1)
    let b ← whenT (← flag t 1) (do
      let q ← div (neg c0) (powf c1 (one + one))
      mul q x)
    pure [a, b]
  | .neg => pure [some (neg x)]
  | .scale s => pure [some (scale x s)]
  | .powf e => do
    let c0 ← kid c 0
    let r ← mul (scale (powf c0 (e - one)) e) x
    pure [some r]
  | .ln => do
    let c0 ← kid c 0
    let r ← mul x (recip c0)
    pure [some r]
  | .exp => do
    let c0 ← kid c 0
    let r ← Tensor.mk? c0.dims (mulValues x.vals self.vals)
    pure [some r]
  | .recip => do
    let c0 ← kid c 0
    let r ← mul (neg (powf (recip c0) (one + one))) x
    pure [some r]
  | .sum _ => do
    let c0 ← kid c 0
    let n := prod (c0.dims.drop (x.dims.length - 1))
    let r ← slicedOp [x] (sumBackOp n) x.dims c0.dims 1 0
    pure [some r]
  | .reshape => do
    let c0 ← kid c 0
    let r ← whenT (← flag t 0) (reshape x c0.dims)
    pure [r]
  | .matmul ta tb => do
    let c0 ← kid c 0; let c1 ← kid c 1
    let a ← whenT (← flag t 0)
      (if ta then matmul c1 tb x true none else matmul x false c1 (!tb) none)
    let b ← whenT (← flag t 1)
      (if tb then matmul x true c0 ta none else matmul c0 (!ta) x false none)
    pure [a, b, if (← flag t 2) then some x else none]
  | .unroll depth rows cols sr sc fr fc => do
    let r ← whenT (← flag t 0) (rollBlocks x depth rows cols sr sc fr fc true)
    pure [r]
  | .expand => do
    let c0 ← kid c 0
    let r ← expandConvBack x c0.dims
    pure [some r]
  | .relu => do
    let c0 ← kid c 0
    let d : Tensor S := ⟨c0.dims, c0.vals.map (fun v => if ScalarOps.pos v then one else zero)⟩
    let r ← mul d x
    pure [some r]
  | .sigmoid => do
    let c0 ← kid c 0
    let r ← Tensor.mk? c0.dims (mulValues (self.vals.map (fun v => v * (one - v))) x.vals)
    pure [some r]
  | .custom 0 => pure (t.map (fun b => if b then some x else none))
  | .custom 1 => do
    let c0 ← kid c 0; let c1 ← kid c 1
    let a ← whenT (← flag t 0) (Tensor.mk? x.dims (mulValues c1.vals x.vals))
    let b ← whenT (← flag t 1) (Tensor.mk? x.dims (mulValues c0.vals x.vals))
    pure [a, b]
  | .custom 2 => do
    let a ← whenT (← flag t 0) (pure (scale x (one + one)))
    pure [a]
  | .custom 3 => do
    let c0 ← kid c 0; let c1 ← kid c 1
    let a ← whenT (← flag t 0) (Tensor.mk? x.dims (mulValues c1.vals x.vals))
    let b ← whenT (← flag t 1) (Tensor.mk? x.dims (mulValues c0.vals x.vals))
    pure [a, b, if (← flag t 2) then some x else none]
  | .custom _ => throw .modelGap

end Corgi
