/-
  CorgiModel.Ops — forward values of every operation, one definition per Rust function
  (`arithmetic.rs`, `linalg.rs`, `image.rs`, `nonlinearity.rs`, `cost.rs`).
-/
import CorgiModel.Walk

namespace Corgi

variable {S : Type} [Add S] [Mul S] [Neg S] [Sub S] [ScalarOps S]

def lastDim (dims : List Nat) : R Nat := dimFromEnd dims 1

/-- `iter().sum()` -/
def sumList (v : List S) : S := v.foldl (· + ·) zero

/-- the slice operation of `element_wise_op`: `f(arrays[0][i % self_length], arrays[1][i % other_length])` -/
def ewiseOp (f : S → S → S) (sl ol n : Nat) (slices : List (List S)) : R (List S) :=
  match slices with
  | [x, y] => tabulateM (fun i => do
      let u ← getR x (i % sl)
      let v ← getR y (i % ol)
      pure (f u v)) n
  | _ => throw .modelGap

/-- `element_wise_op`: the slice operation indexes both operand slices modulo their last
    dimension. -/
def ewise (f : S → S → S) (a b : Tensor S) : R (Tensor S) := do
  let dims ← ewiseDims a.dims b.dims
  let sl ← lastDim a.dims
  let ol ← lastDim b.dims
  let n ← lastDim dims
  slicedOp [a, b] (ewiseOp f sl ol n) dims dims 1 0

def mapT (f : S → S) (a : Tensor S) : Tensor S := ⟨a.dims, a.vals.map f⟩

def add (a b : Tensor S) : R (Tensor S) := ewise (· + ·) a b
def mul (a b : Tensor S) : R (Tensor S) := ewise (· * ·) a b
def div (a b : Tensor S) : R (Tensor S) := ewise ScalarOps.div a b
/-- `scale_values(a, s)` -/
def scale (a : Tensor S) (s : S) : Tensor S := mapT (· * s) a
/-- `-a` is `scale_values(a, -1.0)` -/
def neg (a : Tensor S) : Tensor S := scale a (-one)
/-- `a - b` is `a + (-b)` -/
def sub (a b : Tensor S) : R (Tensor S) := add a (neg b)
def powf (a : Tensor S) (e : S) : Tensor S := mapT (fun x => ScalarOps.powf x e) a
def ln (a : Tensor S) : Tensor S := mapT ScalarOps.ln a
def exp (a : Tensor S) : Tensor S := mapT ScalarOps.exp a
def recip (a : Tensor S) : Tensor S := mapT (fun x => ScalarOps.div one x) a
def relu (a : Tensor S) : Tensor S := mapT (fun x => if ScalarOps.pos x then x else zero) a
def sigmoidS (x : S) : S := ScalarOps.div one (one + ScalarOps.exp (-x))
def sigmoid (a : Tensor S) : Tensor S := mapT sigmoidS a
/-- `alpha * x + y` -/
def axpy (alpha : S) (x y : Tensor S) : R (Tensor S) := add (scale x alpha) y

/-- the slice operation of `sum`: `output_slice[0] = arrays[0].iter().sum()` -/
def sumOp (slices : List (List S)) : R (List S) :=
  match slices with
  | [x] => pure [sumList x]
  | _ => throw .modelGap

/-- `sum(dimension_count)` -/
def sum (a : Tensor S) (k : Nat) : R (Tensor S) :=
  if k = 0 then pure a
  else
    let leadingCount := a.dims.length - k
    let target := a.dims.take leadingCount ++ List.replicate k 1
    slicedOp [a] sumOp a.dims target k k

def sumAll (a : Tensor S) : S := sumList a.vals

/-- `reshape`: same values under new dimensions (the constructor checks the count). -/
def reshape (a : Tensor S) (dims : List Nat) : R (Tensor S) := Tensor.mk? dims a.vals

def softmax (a : Tensor S) : R (Tensor S) := do
  let e := exp a
  let s ← sum e 1
  div e s

/-- One output element of `matmul_slice`: `init + Σ_k a[..] * b[..]`. -/
def matmulEntry (rows cols sumLen : Nat) (a : List S) (ta : Bool) (b : List S) (tb : Bool)
    (init : S) (r j : Nat) : R S := do
  let terms ← tabulateM (fun k => do
    let x ← getR a (if ta then k * rows + r else r * sumLen + k)
    let y ← getR b (if tb then j * sumLen + k else k * cols + j)
    pure (x * y)) sumLen
  pure (init + sumList terms)

/-- `matmul_slice` on an output block initialised with `init`. -/
def matmulSlice (rows cols sumLen : Nat) (a : List S) (ta : Bool) (b : List S) (tb : Bool)
    (init : List S) : R (List S) := do
  let computed ← tabulateM (fun q => do
    let i0 ← getR init q
    matmulEntry rows cols sumLen a ta b tb i0 (q / cols) (q % cols)) (rows * cols)
  -- entries beyond rows*cols keep their initial value
  pure (computed ++ init.drop (rows * cols))

/-- `slice.iter().cycle().take(n)` -/
def cycleTake (v : List S) (n : Nat) : R (List S) :=
  if v.isEmpty then throw .modelGap else tabulateM (fun i => getR v (i % v.length)) n

/-- the initial content of an output block: the additive term's block cycled over it, or zeros -/
def matmulInit (setOutput : Bool) (z : List S) (outGroup : Nat) : R (List S) :=
  if setOutput then cycleTake z outGroup else pure (List.replicate outGroup zero)

/-- the slice operation `matmul` hands to `sliced_op` -/
def matmulOp (rows cols sumLen : Nat) (ta tb setOutput : Bool) (outGroup : Nat) (slices : List (List S)) : R (List S) :=
  match slices with
  | [x, y, z] => do
    let init ← matmulInit setOutput z outGroup
    matmulSlice rows cols sumLen x ta y tb init
  | _ => throw .modelGap

/-- The shape bookkeeping of `Array::matmul`: `(inputDims, outputDims, rows, cols, sumLen)`. -/
def matmulShape (ad : List Nat) (ta : Bool) (bd : List Nat) (tb : Bool) :
    R (List Nat × List Nat × Nat × Nat × Nat) := do
  let longer := if ad.length ≥ bd.length then ad else bd
  let lead ← ewiseDims (ad.take (ad.length - 2)) (bd.take (bd.length - 2))
  let inDims := lead ++ longer.drop (longer.length - 2)
  let rows ← if ad.length < 2 && (!ta || bd.length < 2) then pure 1
             else dimFromEnd ad (if ta then 1 else 2)
  let cols ← if bd.length < 2 && (tb || ad.length < 2) then pure 1
             else dimFromEnd bd (if tb then 2 else 1)
  let ai := if ta then 2 else 1
  let bi := if tb then 1 else 2
  let sumLen ← if ad.length < ai then
                 (if bd.length ≥ bi then dimFromEnd bd bi else pure 1)
               else do
                 let s ← dimFromEnd ad ai
                 if bd.length < bi then pure s
                 else do
                   let s' ← dimFromEnd bd bi
                   if s == s' then pure s else throw .innerMismatch
  let leadingCount := inDims.length - 2
  let outDims := inDims.take leadingCount ++ (if inDims.length < 2 then [cols] else [rows, cols])
  pure (inDims, outDims, rows, cols, sumLen)

/-- the additive term must be a single value, or have `cols` columns and 1 or `rows` rows -/
def addTermCheck (c : Option (Tensor S)) (rows cols : Nat) : R Unit :=
  match c with
  | some c =>
    if c.vals.length != 1 then do
      let cl ← dimFromEnd c.dims 1
      let rowsOk ← if c.dims.length < 2 then pure true
                   else do
                     let cr ← dimFromEnd c.dims 2
                     pure (cr == 1 || cr == rows)
      if !(cl == cols && rowsOk) then throw .additive
    else pure ()
  | none => pure ()

/-- the third operand `matmul` stores and slices: the additive term, or a fresh `arr![0.0]` -/
def cOperand (c : Option (Tensor S)) : Tensor S :=
  match c with
  | some c => c
  | none => ⟨[1], [zero]⟩

/-- `Array::matmul((a, ta), (b, tb), c)` -/
def matmul (a : Tensor S) (ta : Bool) (b : Tensor S) (tb : Bool) (c : Option (Tensor S)) :
    R (Tensor S) := do
  let (inDims, outDims, rows, cols, sumLen) ← matmulShape a.dims ta b.dims tb
  addTermCheck c rows cols
  let setOutput := c.isSome
  let leadingCount := inDims.length - 2
  let outGroup := prod (outDims.drop leadingCount)
  slicedOp [a, b, cOperand c] (matmulOp rows cols sumLen ta tb setOutput outGroup) inDims outDims 2 0

/-- source position, inside one image, of element `o` of the unrolled image:
    `o = (((r * cCount + c) * depth + k) * fr + m) * fc + n` reads `image[k, m + sr·r, n + sc·c]` -/
def unrollIdx (cols rows depth sr sc fr fc cCount : Nat) (o : Nat) : Nat :=
  let nn := o % fc
  let m := (o / fc) % fr
  let k := (o / (fc * fr)) % depth
  let c := (o / (fc * fr * depth)) % cCount
  let r := o / (fc * fr * depth * cCount)
  (nn + sc * c) + cols * ((m + sr * r) + rows * k)

/-- the slice operation of `unroll_blocks`: one image in, its windows out -/
def unrollOp (cols rows depth sr sc fr fc cCount total : Nat) (slices : List (List S)) : R (List S) :=
  match slices with
  | [x] => tabulateM (fun o => getR x (unrollIdx cols rows depth sr sc fr fc cCount o)) total
  | _ => throw .modelGap

/-- `unroll_blocks(image, strides, filter)` (im2col) -/
def unrollBlocks (image : Tensor S) (sr sc fr fc : Nat) : R (Tensor S) := do
  let n := image.dims.length
  let depth ← dimFromEnd image.dims 3
  let rows ← dimFromEnd image.dims 2
  let cols ← dimFromEnd image.dims 1
  if rows < fr || cols < fc then throw .underflow
  if sr = 0 || sc = 0 then throw .underflow
  let rCount := (rows - fr) / sr + 1
  let cCount := (cols - fc) / sc + 1
  let count := rCount * cCount
  let size := fr * fc
  let outDims := image.dims.take (n - 3) ++ [count, depth * size]
  slicedOp [image] (unrollOp cols rows depth sr sc fr fc cCount (count * depth * size)) image.dims outDims 3 0

/-- Write (`acc = false`: assign, `true`: accumulate) `x` at position `i`. -/
def putAt (acc : Bool) (v : List S) (i : Nat) (x : S) : R (List S) :=
  match v[i]? with
  | some y => pure (v.set i (if acc then y + x else x))
  | none => throw .indexOOB

def rollLoop (acc : Bool) (idxOf : Nat → Nat) : List S → Nat → List S → R (List S)
  | [], _, out => pure out
  | x :: xs, q, out => do
    let out' ← putAt acc out (idxOf q) x
    rollLoop acc idxOf xs (q + 1) out'

/-- target position, inside one image, of element `q` of its unrolled form -/
def rollIdx (depth rows cols sr sc fr fc cCount : Nat) (q : Nat) : Nat :=
  let size := fr * fc
  let i := q / (size * depth)
  let j := q % (size * depth)
  let strideOffset := cols * sr * (i / cCount) + sc * (i % cCount)
  let d := j / size
  let fi := j % size
  (fi % fc) + cols * (fi / fc) + rows * cols * d + strideOffset

/-- the slice operation of `roll_blocks`: one unrolled image in, the image out -/
def rollOp (acc : Bool) (depth rows cols sr sc fr fc count cCount : Nat) (slices : List (List S)) : R (List S) :=
  match slices with
  | [x] =>
    if x.length < count * (fr * fc) * depth then throw .indexOOB
    else
      rollLoop acc (rollIdx depth rows cols sr sc fr fc cCount) (x.take (count * (fr * fc) * depth)) 0
        (List.replicate (depth * rows * cols) zero)
  | _ => throw .modelGap

/-- `roll_blocks_op(unrolled, image_dimensions, strides, filter, is_accumulated)` -/
def rollBlocks (unrolled : Tensor S) (depth rows cols sr sc fr fc : Nat) (acc : Bool) :
    R (Tensor S) := do
  let n := unrolled.dims.length
  let count ← dimFromEnd unrolled.dims 2
  if cols < fc then throw .underflow
  if sc = 0 then throw .underflow
  let cCount := (cols - fc) / sc + 1
  let outDims := unrolled.dims.take (n - 2) ++ [depth, rows, cols]
  slicedOp [unrolled] (rollOp acc depth rows cols sr sc fr fc count cCount) unrolled.dims outDims 2 0

/-- `expand_conv`: per image, transpose `[windows, filters]` to `[filters, rows, cols]`. -/
def expandConv (t : Tensor S) (rCount cCount : Nat) : R (Tensor S) := do
  let filters ← dimFromEnd t.dims 1
  let stride ← dimFromEnd t.dims 2
  let imageLen := stride * filters
  let total := t.vals.length
  let vals ← tabulateM (fun o =>
    let img := o / imageLen
    let w := o % imageLen
    getR t.vals (img * imageLen + (w / stride) + filters * (w % stride))) total
  Tensor.mk? (t.dims.take (t.dims.length - 2) ++ [filters, rCount, cCount]) vals

/-- The derivative of `expand_conv` (the inverse permutation). -/
def expandConvBack (x : Tensor S) (kidDims : List Nat) : R (Tensor S) := do
  let filters ← dimFromEnd kidDims 1
  let stride ← dimFromEnd kidDims 2
  let imageLen := stride * filters
  let total := prod kidDims
  let vals ← tabulateM (fun o =>
    let img := o / imageLen
    let w := o % imageLen
    -- result[img*L + k + filters*i] = x[img*L + k*stride + i]   with k = w % filters, i = w / filters
    getR x.vals (img * imageLen + (w % filters) * stride + w / filters)) total
  Tensor.mk? kidDims vals

/-- the shape bookkeeping and the refusals of `conv`: `(depth, fr, fc, rCount, cCount)` -/
def convParams (idims fdims : List Nat) (sr sc : Nat) : R (Nat × Nat × Nat × Nat × Nat) := do
  let n := idims.length
  let fn := fdims.length
  if n = 0 then throw .underflow
  if !(n ≥ 3 && fn ≥ 3) then throw .rank
  let depth ← dimFromEnd idims 3
  let rows ← dimFromEnd idims 2
  let cols ← dimFromEnd idims 1
  let fr ← dimFromEnd fdims 2
  let fc ← dimFromEnd fdims 1
  if rows < fr || cols < fc then throw .underflow
  if sr = 0 || sc = 0 then throw .underflow
  pure (depth, fr, fc, (rows - fr) / sr + 1, (cols - fc) / sc + 1)

/-- `image.conv(filters, strides)` -/
def conv (image filters : Tensor S) (sr sc : Nat) : R (Tensor S) := do
  let prm ← convParams image.dims filters.dims sr sc
  let unrolled ← unrollBlocks image sr sc prm.2.1 prm.2.2.1
  let last ← dimFromEnd unrolled.dims 1
  let size := last / prm.1
  let fm ← reshape filters (filters.dims.take (filters.dims.length - 3) ++ [size * prm.1])
  let convolved ← matmul unrolled false fm true none
  expandConv convolved prm.2.2.2.1 prm.2.2.2.2

/-- `cost::mse` -/
def mse (output target : Tensor S) : R (Tensor S) := do
  let d ← sub target output
  pure (scale (powf d (one + one)) (ScalarOps.div one (ScalarOps.ofNat (prod output.dims))))

/-- `cost::cross_entropy` -/
def crossEntropy (output target : Tensor S) : R (Tensor S) := do
  let b ← getR output.dims 0
  let p ← mul (neg target) (ln output)
  pure (scale p (ScalarOps.div one (ScalarOps.ofNat b)))

end Corgi
