/-
  CorgiModel.Basic — panics, the scalar interface, small list helpers.

  Core Lean only (no Mathlib, no Batteries): the driver links as a `lean_exe`.
  Every function is total; where the Rust code panics the model returns `Except Panic`.
-/
namespace Corgi

/-- Why the implementation would panic. Only "panicked / did not" is compared with the
    implementation; the constructor documents the cause for the reader of a replay. -/
inductive Panic where
  | badDims          -- a dimension is zero
  | countMismatch    -- product of dimensions ≠ number of values
  | nestedMismatch   -- nested arrays of different dimensions
  | emptyNest        -- `From<Vec<Array>>` of an empty vector (`first().unwrap()`)
  | incompatible     -- element-wise shapes not broadcast compatible
  | broadcast        -- `sliced_op`: "unable to broadcast arrays to target dimensions"
  | innerMismatch    -- matmul inner dimensions differ
  | additive         -- matmul additive term cannot be broadcast
  | sliceOOB         -- slice out of range
  | indexOOB         -- index out of range / usize underflow in index arithmetic
  | underflow        -- consumer counter below zero (debug build: subtraction overflow)
  | notDifferentiable
  | notSoleOwner     -- `Vec::<Float>::from` on shared storage
  | rank             -- too few dimensions for the operation
  | noGradient       -- `unwrap` of an absent gradient
  | modelGap         -- the model does not cover this use (never produced by the modelled callers)
  deriving DecidableEq, Repr, Inhabited

abbrev R := Except Panic

/-- The part of the scalar interface that is not ring notation. -/
class ScalarOps (S : Type) where
  zero : S
  one : S
  ofNat : Nat → S
  div : S → S → S
  exp : S → S
  ln : S → S
  powf : S → S → S
  /-- `x > 0` -/
  pos : S → Bool

export ScalarOps (zero one)

/-- Product of dimensions (`iter().product()`). -/
def prod : List Nat → Nat
  | [] => 1
  | d :: ds => d * prod ds

/-- `&v[off .. off + len]` -/
def slice {α} (v : List α) (off len : Nat) : R (List α) :=
  if off + len ≤ v.length then pure ((v.drop off).take len) else throw .sliceOOB

/-- `v[i]` -/
def getR {α} (v : List α) (i : Nat) : R α :=
  match v[i]? with
  | some x => pure x
  | none => throw .indexOOB

/-- `dims[dims.len() - i]` (`i = 1` is the last dimension); usize underflow / OOB panics. -/
def dimFromEnd (dims : List Nat) (i : Nat) : R Nat :=
  if i = 0 ∨ dims.length < i then throw .indexOOB else getR dims (dims.length - i)

/-- `mapM` over `List.range n` written structurally (easier to reason about than `List.mapM`). -/
def tabulateM {α} (f : Nat → R α) : Nat → R (List α)
  | 0 => pure []
  | n + 1 => do
    let xs ← tabulateM f n
    let x ← f n
    pure (xs ++ [x])

def mapR {α β} (f : α → R β) : List α → R (List β)
  | [] => pure []
  | x :: xs => do
    let y ← f x
    let ys ← mapR f xs
    pure (y :: ys)

end Corgi
