/-
  CorgiModel.Program — handles, the heap, operations on handles (with the "attach a graph iff an
  operand is tracked" rule), gradient access, the optimizer, layers, the model, and the command
  interpreter `step` that the correspondence check drives.

  Buffers and nodes are append-only arrays; ids are positions.  Deltas and gradients are kept by
  value (a `Tensor`), see DESIGN.md §4.6/§10 for what that leaves to the trusted base.
-/
import CorgiModel.Engine
import CorgiModel.Vjp

namespace Corgi

/-- An `Array` handle: what `clone()` copies.  `buf`/`node` identify the shared `Rc`s. -/
structure Handle where
  dims : List Nat
  buf : Nat
  node : Nat
  tracked : Bool
  keep : Bool
  deriving Repr, DecidableEq

structure NodeRec (S : Type) where
  kids : List Handle
  op : Option (OpTag S)
  /-- buffer of the array the node was created with (closures of `exp`/`sigmoid` cache it) -/
  selfBuf : Nat
  label : String
  /-- dimensions of the array the node was created with -/
  dims : List Nat := []

inductive Act where
  | none | relu | sigmoid | softmax
  deriving Repr, DecidableEq

inductive Layer where
  | dense (w b : Handle) (act : Act)
  | conv (f b : Handle) (sr sc : Nat) (act : Act)

inductive Cost where
  | mse | xent
  deriving Repr, DecidableEq

structure ModelRec (S : Type) where
  layers : List String
  cost : Cost
  lr : S
  output : Option Handle

structure State (S : Type) where
  bufs : Array (List S) := #[]
  nodes : Array (NodeRec S) := #[]
  cnt : Array Nat := #[]
  delta : Array (Option (Tensor S)) := #[]
  grad : Array (Option (Tensor S)) := #[]
  env : List (String × Handle) := []
  layers : List (String × Layer) := []
  models : List (String × ModelRec S) := []
  lastLog : List (Nat × Tensor S) := []

variable {S : Type}

def Handle.slot (h : Handle) : Slot := ⟨h.node, h.dims, h.tracked, h.keep⟩

def State.tensorOf (σ : State S) (h : Handle) : Tensor S := ⟨h.dims, σ.bufs.getD h.buf []⟩

def lookup {α} (l : List (String × α)) (k : String) : Option α :=
  match l with
  | [] => none
  | (k', v) :: rest => if k' == k then some v else lookup rest k

def insert {α} (l : List (String × α)) (k : String) (v : α) : List (String × α) :=
  match l with
  | [] => [(k, v)]
  | (k', v') :: rest => if k' == k then (k, v) :: rest else (k', v') :: insert rest k v

def erase {α} (l : List (String × α)) (k : String) : List (String × α) :=
  l.filter (fun p => p.1 != k)

def State.get (σ : State S) (name : String) : R Handle :=
  match lookup σ.env name with
  | some h => pure h
  | none => throw .modelGap

def State.bind (σ : State S) (name : String) (h : Handle) : State S :=
  { σ with env := insert σ.env name h }

/-- A new array: fresh buffer, fresh node; the graph (`kids`, `tag`) is attached iff `attach`,
    and then the result is `tracked()` (both flags set), as `with_children` does. -/
def State.alloc (σ : State S) (t : Tensor S) (kids : List Handle) (tag : Option (OpTag S))
    (attach : Bool) (label : String := "") : State S × Handle :=
  let b := σ.bufs.size
  let n := σ.nodes.size
  let rec' : NodeRec S :=
    if attach then ⟨kids, tag, b, label, t.dims⟩ else ⟨[], none, b, label, t.dims⟩
  ({ σ with bufs := σ.bufs.push t.vals, nodes := σ.nodes.push rec',
            cnt := σ.cnt.push 0, delta := σ.delta.push none, grad := σ.grad.push none },
   ⟨t.dims, b, n, attach, attach⟩)

/-- A view: existing buffer under new dimensions, fresh node (`reshape`). -/
def State.allocView (σ : State S) (dims : List Nat) (buf : Nat) (kids : List Handle)
    (tag : Option (OpTag S)) (attach : Bool) : State S × Handle :=
  let n := σ.nodes.size
  let rec' : NodeRec S := if attach then ⟨kids, tag, buf, "", dims⟩ else ⟨[], none, buf, "", dims⟩
  ({ σ with nodes := σ.nodes.push rec', cnt := σ.cnt.push 0, delta := σ.delta.push none,
            grad := σ.grad.push none },
   ⟨dims, buf, n, attach, attach⟩)

section ops
variable [Add S] [Mul S] [Neg S] [Sub S] [ScalarOps S] [BEq S]

local notation "HR" => R (State _ × Handle)

def hLeaf (σ : State S) (t : Tensor S) : State S × Handle := σ.alloc t [] none false

def hEwise (tag : OpTag S) (f : Tensor S → Tensor S → R (Tensor S)) (σ : State S) (a b : Handle) : R (State S × Handle) := do
  let t ← f (σ.tensorOf a) (σ.tensorOf b)
  pure (σ.alloc t [a, b] (some tag) (a.tracked || b.tracked))

def hUnary (tag : OpTag S) (f : Tensor S → Tensor S) (σ : State S) (a : Handle) : R (State S × Handle) :=
  pure (σ.alloc (f (σ.tensorOf a)) [a] (some tag) a.tracked)

def hAdd (σ : State S) (a b : Handle) : R (State S × Handle) := hEwise .add add σ a b
def hMul (σ : State S) (a b : Handle) : R (State S × Handle) := hEwise .mul mul σ a b
def hDiv (σ : State S) (a b : Handle) : R (State S × Handle) := hEwise .div div σ a b
def hNeg (σ : State S) (a : Handle) : R (State S × Handle) := hUnary .neg neg σ a
def hScale (σ : State S) (a : Handle) (s : S) : R (State S × Handle) := hUnary (.scale s) (scale · s) σ a
def hPowf (σ : State S) (a : Handle) (e : S) : R (State S × Handle) := hUnary (.powf e) (powf · e) σ a
def hLn (σ : State S) (a : Handle) : R (State S × Handle) := hUnary .ln ln σ a
def hExp (σ : State S) (a : Handle) : R (State S × Handle) := hUnary .exp exp σ a
def hRecip (σ : State S) (a : Handle) : R (State S × Handle) := hUnary .recip recip σ a
def hRelu (σ : State S) (a : Handle) : R (State S × Handle) := hUnary .relu relu σ a
def hSigmoid (σ : State S) (a : Handle) : R (State S × Handle) := hUnary .sigmoid sigmoid σ a

def hSub (σ : State S) (a b : Handle) : R (State S × Handle) := do
  let (σ1, nb) ← hNeg σ b
  hAdd σ1 a nb

def hAxpy (σ : State S) (alpha : S) (x y : Handle) : R (State S × Handle) := do
  let (σ1, sx) ← hScale σ x alpha
  hAdd σ1 sx y

def hSum (σ : State S) (a : Handle) (k : Nat) : R (State S × Handle) :=
  if k = 0 then pure (σ, a)
  else do
    let t ← sum (σ.tensorOf a) k
    pure (σ.alloc t [a] (some (.sum k)) a.tracked)

def hReshape (σ : State S) (a : Handle) (dims : List Nat) : R (State S × Handle) := do
  let t ← reshape (σ.tensorOf a) dims
  pure (σ.allocView t.dims a.buf [a] (some .reshape) a.tracked)

def hSoftmax (σ : State S) (a : Handle) : R (State S × Handle) := do
  let (σ1, e) ← hExp σ a
  let (σ2, s) ← hSum σ1 e 1
  hDiv σ2 e s

def hMatmul (σ : State S) (a : Handle) (ta : Bool) (b : Handle) (tb : Bool) (c : Option Handle) : R (State S × Handle) := do
  let t ← matmul (σ.tensorOf a) ta (σ.tensorOf b) tb (c.map σ.tensorOf)
  -- the third stored operand is `c`, or a fresh untracked `arr![0.0]`
  let (σ1, c') := match c with
    | some c => (σ, c)
    | none => hLeaf σ ⟨[1], [zero]⟩
  let attach := a.tracked || b.tracked || (match c with | some c => c.tracked | none => false)
  pure (σ1.alloc t [a, b, c'] (some (.matmul ta tb)) attach)

def hUnroll (σ : State S) (image : Handle) (sr sc fr fc : Nat) : R (State S × Handle) := do
  let it := σ.tensorOf image
  let t ← unrollBlocks it sr sc fr fc
  let depth ← dimFromEnd it.dims 3
  let rows ← dimFromEnd it.dims 2
  let cols ← dimFromEnd it.dims 1
  pure (σ.alloc t [image] (some (.unroll depth rows cols sr sc fr fc)) image.tracked)

def hExpand (σ : State S) (a : Handle) (rCount cCount : Nat) : R (State S × Handle) := do
  let t ← expandConv (σ.tensorOf a) rCount cCount
  pure (σ.alloc t [a] (some .expand) a.tracked)

def hConv (σ : State S) (image filters : Handle) (sr sc : Nat) : R (State S × Handle) := do
  let prm ← convParams image.dims filters.dims sr sc
  let (σ1, unrolled) ← hUnroll σ image sr sc prm.2.1 prm.2.2.1
  let last ← dimFromEnd unrolled.dims 1
  let size := last / prm.1
  let (σ2, fm) ← hReshape σ1 filters (filters.dims.take (filters.dims.length - 3) ++ [size * prm.1])
  let (σ3, convolved) ← hMatmul σ2 unrolled false fm true none
  hExpand σ3 convolved prm.2.2.2.1 prm.2.2.2.2

def hMse (σ : State S) (output target : Handle) : R (State S × Handle) := do
  let (σ1, d) ← hSub σ target output
  let (σ2, p) ← hPowf σ1 d (one + one)
  hScale σ2 p (ScalarOps.div one (ScalarOps.ofNat (prod output.dims)))

def hXent (σ : State S) (output target : Handle) : R (State S × Handle) := do
  let b ← getR output.dims 0
  let (σ1, nt) ← hNeg σ target
  let (σ2, lo) ← hLn σ1 output
  let (σ3, p) ← hMul σ2 nt lo
  hScale σ3 p (ScalarOps.div one (ScalarOps.ofNat b))

/-- forward values of the harness-defined `Array::op` nodes -/
def customVals (kind : Nat) (ts : List (Tensor S)) : R (List S) := do
  let first ← getR ts 0
  match kind with
  | 0 => pure (ts.foldl (fun acc t => List.zipWith (· + ·) acc t.vals) (first.vals.map (fun _ => zero)))
  | 1 => do let b ← getR ts 1; pure (mulValues first.vals b.vals)
  | 2 => pure (first.vals.map (· * (one + one)))
  | 3 => do
    let b ← getR ts 1; let c ← getR ts 2
    pure (List.zipWith (· + ·) (mulValues first.vals b.vals) c.vals)
  | _ => throw .modelGap

/-- the operand count each harness-defined operation is defined for (kind 0 sums any number) -/
def customArity (kind n : Nat) : R Unit :=
  match kind with
  | 0 => pure ()
  | 1 => if n = 2 then pure () else throw .modelGap
  | 2 => if n = 1 then pure () else throw .modelGap
  | 3 => if n = 3 then pure () else throw .modelGap
  | _ => throw .modelGap

/-- harness-defined `Array::op` nodes (always given a backward closure, so always attached) -/
def hCustom (σ : State S) (kind : Nat) (label : String) (args : List Handle) : R (State S × Handle) := do
  customArity kind args.length
  let ts := args.map σ.tensorOf
  let first ← getR ts 0
  let vals ← customVals kind ts
  let t ← Tensor.mk? first.dims vals
  pure (σ.alloc t args (some (.custom kind)) true label)

def hAct (σ : State S) (act : Act) (a : Handle) : R (State S × Handle) :=
  match act with
  | .none => pure (σ, a)
  | .relu => hRelu σ a
  | .sigmoid => hSigmoid σ a
  | .softmax => hSoftmax σ a

def layerForward (σ : State S) (l : Layer) (input : Handle) : R (State S × Handle) :=
  match l with
  | .dense w b act => do
    let (σ1, r) ← hMatmul σ input false w true (some b)
    hAct σ1 act r
  | .conv f b sr sc act => do
    let (σ1, c) ← hConv σ input f sr sc
    let (σ2, r) ← hAdd σ1 c b
    hAct σ2 act r

end ops

/-! ### the engine on the heap -/

section engine
variable [Add S] [Mul S] [Neg S] [Sub S] [ScalarOps S] [BEq S]

def State.graph (σ : State S) : Graph S where
  kids := fun n => match σ.nodes[n]? with
    | some r => r.kids.map Handle.slot
    | none => []
  vjp := fun n => match σ.nodes[n]? with
    | some r => r.op.map (fun tag => fun t x =>
        vjp tag (r.kids.map σ.tensorOf) ⟨[], σ.bufs.getD r.selfBuf []⟩ t x)
    | none => none

def State.estate (σ : State S) : EState S where
  cnt := fun i => σ.cnt.getD i 0
  delta := fun i => σ.delta.getD i none
  grad := fun i => σ.grad.getD i none
  log := []

def State.withEState (σ : State S) (e : EState S) : State S :=
  let n := σ.nodes.size
  { σ with cnt := Array.ofFn (n := n) (fun i => e.cnt i),
           delta := Array.ofFn (n := n) (fun i => e.delta i),
           grad := Array.ofFn (n := n) (fun i => e.grad i),
           lastLog := e.log.reverse }

/-- `h.backward(seed)` -/
def State.backward (σ : State S) (h : Handle) (seed : Option (Tensor S)) : R (State S) := do
  let e ← Corgi.backward σ.graph (σ.nodes.size + 1) h.node h.dims h.keep seed σ.estate
  pure (σ.withEState e)

def State.setGrad (σ : State S) (node : Nat) (g : Option (Tensor S)) : State S :=
  { σ with grad := σ.grad.setIfInBounds node g }

/-- `GradientDescent::update(parameters)`: gather values and gradients of the parameters that hold
    a gradient (taking the gradient out), step the flat buffer, drain it back into new arrays. -/
def gdGather (σ : State S) : List Handle → State S × List Bool × List S × List S
  | [] => (σ, [], [], [])
  | p :: ps =>
    match σ.grad.getD p.node none with
    | none =>
      let (σ', fr, vs, gs) := gdGather σ ps
      (σ', true :: fr, vs, gs)
    | some g =>
      let σ1 := σ.setGrad p.node none
      let (σ', fr, vs, gs) := gdGather σ1 ps
      (σ', false :: fr, (σ.tensorOf p).vals ++ vs, g.vals ++ gs)

def gdDrain (σ : State S) : List Handle → List Bool → List S → R (State S × List Handle)
  | p :: ps, f :: fs, vals =>
    if f then do
      let (σ', hs) ← gdDrain σ ps fs vals
      pure (σ', p :: hs)
    else do
      let len := (σ.tensorOf p).vals.length
      if vals.length < len then throw .sliceOOB
      let t ← Tensor.mk? p.dims (vals.take len)
      let (σ1, h) := σ.alloc t [] none false
      let h' : Handle := { h with tracked := true, keep := true }
      let (σ', hs) ← gdDrain σ1 ps fs (vals.drop len)
      pure (σ', h' :: hs)
  | _, _, _ => pure (σ, [])

def gdUpdate (σ : State S) (lr : S) (ps : List Handle) : R (State S × List Handle) :=
  let (σ1, frozen, vals, grads) := gdGather σ ps
  let stepped := List.zipWith (fun x g => x - lr * g) vals grads ++ vals.drop grads.length
  gdDrain σ1 ps frozen stepped

end engine

/-! ### ownership: who holds a buffer -/

def State.roots (σ : State S) : List Handle :=
  σ.env.map (·.2)
  ++ σ.layers.flatMap (fun p => match p.2 with
      | .dense w b _ => [w, b]
      | .conv f b _ _ _ => [f, b])
  ++ σ.models.flatMap (fun p => match p.2.output with | some h => [h] | none => [])

/-- one step of the liveness sweep: a live node marks its stored operands -/
def State.markKids (σ : State S) (a : Array Bool) (i : Nat) : Array Bool :=
  if a.getD i false then
    match σ.nodes[i]? with
    | some r => r.kids.foldl (fun (a : Array Bool) k => a.setIfInBounds k.node true) a
    | none => a
  else a

/-- Live nodes: reachable from the roots through stored operands.  Stored operands always belong
    to older nodes, so one descending sweep suffices. -/
def State.live (σ : State S) : Array Bool :=
  let n := σ.nodes.size
  let init : Array Bool := (σ.roots.foldl (fun (a : Array Bool) h => a.setIfInBounds h.node true)
    (Array.replicate n false))
  (List.range n).reverse.foldl σ.markKids init

/-- what a live node `i` adds to the owner count of buffer `b`: its stored operands with that buffer,
    plus the `sigmoid` closure's cached `Rc` of its own result -/
def State.ownStep (σ : State S) (live : Array Bool) (b : Nat) (acc i : Nat) : Nat :=
  if live.getD i false then
    match σ.nodes[i]? with
    | some r => acc + (r.kids.filter (·.buf == b)).length
        + (match r.op with | some .sigmoid => if r.selfBuf == b then 1 else 0 | _ => 0)
    | none => acc
  else acc

/-- Number of `Rc` owners of buffer `b`: root handles plus stored operands of live nodes, plus the
    `sigmoid` closure's cached `Rc` of its own result. -/
def State.owners (σ : State S) (b : Nat) : Nat :=
  (σ.roots.filter (·.buf == b)).length
  + (List.range σ.nodes.size).foldl (σ.ownStep σ.live b) 0

end Corgi
