/-
  CorgiModel.Step — the command language of the correspondence check and its interpreter.
  One command, one output.  The same command file is interpreted by the Rust harness against the
  real crate; outputs are compared line by line.
-/
import CorgiModel.Program
import CorgiSpec.ConvAt

namespace Corgi

inductive Cmd (S : Type) where
  | new (v : String) (dims : List Nat) (vals : List S)
  | flat (v : String) (vals : List S)
  | zeros (v : String) (dims : List Nat)
  | nest (v : String) (parts : List String)
  | tracked (v : String) | untracked (v : String)
  | start (v : String) | stop (v : String)
  | clone (w v : String) | drop (v : String) | move (w v : String)
  | add (w a b : String) | sub (w a b : String) | mul (w a b : String) | div (w a b : String)
  | neg (w a : String) | ln (w a : String) | exp (w a : String) | recip (w a : String)
  | relu (w a : String) | sigmoid (w a : String) | softmax (w a : String)
  | scale (w a : String) (s : S) | powf (w a : String) (e : S)
  | sum (w a : String) (k : Nat) | sumall (a : String)
  | reshape (w a : String) (dims : List Nat)
  | axpy (w : String) (s : S) (a b : String)
  | matmul (w a : String) (ta : Bool) (b : String) (tb : Bool) (c : Option String)
  | conv (w a f : String) (sr sc : Nat)
  | cop (kind : Nat) (w : String) (args : List String)
  | backward (v : String) (seed : Option String)
  /-- the seed passed as a clone of the named handle (shares its storage) instead of a copy -/
  | backwardc (v : String) (seed : String)
  | grad (v : String) | takegrad (w v : String) | cleargrad (v : String) | setgrad (v w : String)
  | show (v : String) | idx (v : String) (i : List Nat) | idxflat (v : String) (i : Nat)
  /-- one element of `a.conv(f, (sr, sc))` (the implementation computes the whole convolution and indexes it) -/
  | convat (a f : String) (sr sc : Nat) (i : List Nat)
  /-- one element of `matmul((a, ta), (b, tb), c)` -/
  | matmulat (a : String) (ta : Bool) (b : String) (tb : Bool) (c : Option String) (i : List Nat)
  | eq (a b : String) | same (a b : String) | samegrad (a b : String)
  | lin (c : String) (al : S) (a : String) (be : S) (b : String)
  | sumgrad (c : String) (parts : List String) | probe (v : String) | flags (v : String) | probekid (v : String) (i : Nat) | own (v : String)
  | log
  | gdupdate (lr : S) (vs : List String)
  /-- a named optimizer object, used for several updates -/
  | gd (g : String) (lr : S)
  | gdstep (g : String) (vs : List String)
  /-- the cost closures applied directly -/
  | cost (w : String) (c : Cost) (output target : String)
  | dense (l : String) (inp out : Nat) (act : Act) (w b : List S)
  | convl (l : String) (f d r c sr sc : Nat) (act : Act) (w b : List S)
  | lfwd (w l a : String)
  /-- `stop_tracking()` / `start_tracking()` on the parameters of a layer (`which`: 0 first, 1 second, 2 both) -/
  | lflag (l : String) (which : Nat) (tr : Bool)
  | model (m : String) (cost : Cost) (lr : S) (layers : List String)
  | fwd (w m a : String) | bwd (m t : String) | update (m : String) | params (m : String)
  | ifgt (v : String) (c : S) (n : Nat)
  | snapshot

/-- Outputs, before rendering. -/
inductive Out (S : Type) where
  | ok
  | tensor (t : Tensor S) (tracked : Bool)
  | noneOut
  | scalar (x : S)
  | bool (b : Bool)
  | flag (b : Bool)
  | probe (cnt : Nat) (pend tr keep : Bool) (kids rc : Nat)
  | kid (tr keep : Bool) (cnt : Nat) (pend : Bool)
  | flags (tr keep : Bool) (kids : Nat)
  | nokid
  | owned (vals : List S)
  | log (entries : List (String × Tensor S))
  | params (ps : List (Tensor S × Option (Tensor S)))
  | snap (entries : List (String × Tensor S × Option (Tensor S)))
  | skip (n : Nat)
  | panic (p : Panic)

variable {S : Type} [Add S] [Mul S] [Neg S] [Sub S] [ScalarOps S] [BEq S]

def showH (σ : State S) (h : Handle) : Out S := .tensor (σ.tensorOf h) h.tracked

/-- Bind the result of an operation and show it. -/
def bindShow (w : String) (r : R (State S × Handle)) : R (State S × Out S) := do
  let (σ, h) ← r
  pure (σ.bind w h, showH σ h)

def setFlags (σ : State S) (v : String) (tr keep : Option Bool) : R (State S × Handle) := do
  let h ← σ.get v
  let h' : Handle := { h with tracked := tr.getD h.tracked, keep := keep.getD h.keep }
  pure (σ.bind v h', h)

def insertSorted {α} (x : String × α) : List (String × α) → List (String × α)
  | [] => [x]
  | y :: ys => if x.1 < y.1 then x :: y :: ys else y :: insertSorted x ys

def sortByName {α} (l : List (String × α)) : List (String × α) := l.foldl (fun acc x => insertSorted x acc) []

def layerParams (l : Layer) : List Handle :=
  match l with
  | .dense w b _ => [w, b]
  | .conv f b _ _ _ => [f, b]

def setLayerParams (l : Layer) (ps : List Handle) : Layer :=
  match l, ps with
  | .dense _ _ act, [w, b] => .dense w b act
  | .conv _ _ sr sc act, [f, b] => .conv f b sr sc act
  | l, _ => l

/-- Split a flat parameter list back into per-layer pairs. -/
def putParams (σ : State S) : List String → List Handle → State S
  | l :: ls, a :: b :: rest =>
    match lookup σ.layers l with
    | some lay => putParams { σ with layers := insert σ.layers l (setLayerParams lay [a, b]) } ls rest
    | none => putParams σ ls rest
  | _, _ => σ

def modelParams (σ : State S) (names : List String) : List Handle :=
  names.flatMap (fun l => match lookup σ.layers l with | some lay => layerParams lay | none => [])

/-- The interpreter. A panic leaves the state as it was (the case ends on both sides). -/
def exec (σ : State S) (c : Cmd S) : R (State S × Out S) :=
  match c with
  | .new v dims vals => do
    let t ← Tensor.mk? dims vals
    bindShow v (pure (hLeaf σ t))
  | .flat v vals => do
    let t ← Tensor.ofFlat vals
    bindShow v (pure (hLeaf σ t))
  | .zeros v dims => do
    let t ← Tensor.zeros dims
    bindShow v (pure (hLeaf σ t))
  | .nest v parts => do
    let hs ← mapR σ.get parts
    let t ← Tensor.ofNested (hs.map σ.tensorOf)
    bindShow v (pure (hLeaf σ t))
  | .tracked v => do
    let (σ', _) ← setFlags σ v (some true) (some true); pure (σ', .ok)
  | .untracked v => do
    let (σ', _) ← setFlags σ v (some false) (some false); pure (σ', .ok)
  | .start v => do
    let (σ', h) ← setFlags σ v (some true) none; pure (σ', .flag h.tracked)
  | .stop v => do
    let (σ', h) ← setFlags σ v (some false) none; pure (σ', .flag h.tracked)
  | .clone w v => do
    let h ← σ.get v; pure (σ.bind w h, .ok)
  | .drop v => do
    let _ ← σ.get v; pure ({ σ with env := erase σ.env v }, .ok)
  | .move w v => do
    let h ← σ.get v
    let σ1 : State S := { σ with env := erase σ.env v }
    pure (σ1.bind w h, .ok)
  | .add w a b => do bindShow w (hAdd σ (← σ.get a) (← σ.get b))
  | .sub w a b => do bindShow w (hSub σ (← σ.get a) (← σ.get b))
  | .mul w a b => do bindShow w (hMul σ (← σ.get a) (← σ.get b))
  | .div w a b => do bindShow w (hDiv σ (← σ.get a) (← σ.get b))
  | .neg w a => do bindShow w (hNeg σ (← σ.get a))
  | .ln w a => do bindShow w (hLn σ (← σ.get a))
  | .exp w a => do bindShow w (hExp σ (← σ.get a))
  | .recip w a => do bindShow w (hRecip σ (← σ.get a))
  | .relu w a => do bindShow w (hRelu σ (← σ.get a))
  | .sigmoid w a => do bindShow w (hSigmoid σ (← σ.get a))
  | .softmax w a => do bindShow w (hSoftmax σ (← σ.get a))
  | .scale w a s => do bindShow w (hScale σ (← σ.get a) s)
  | .powf w a e => do bindShow w (hPowf σ (← σ.get a) e)
  | .sum w a k => do bindShow w (hSum σ (← σ.get a) k)
  | .sumall a => do
    let h ← σ.get a; pure (σ, .scalar (sumAll (σ.tensorOf h)))
  | .reshape w a dims => do bindShow w (hReshape σ (← σ.get a) dims)
  | .axpy w s a b => do bindShow w (hAxpy σ s (← σ.get a) (← σ.get b))
  | .matmul w a ta b tb c => do
    let ch ← match c with
      | some c => do let h ← σ.get c; pure (some h)
      | none => pure none
    bindShow w (hMatmul σ (← σ.get a) ta (← σ.get b) tb ch)
  | .conv w a f sr sc => do bindShow w (hConv σ (← σ.get a) (← σ.get f) sr sc)
  | .cop kind w args => do
    let hs ← mapR σ.get args
    bindShow w (hCustom σ kind w hs)
  | .backward v seed => do
    let h ← σ.get v
    let s ← match seed with
      | some s => do let sh ← σ.get s; pure (some (σ.tensorOf sh))
      | none => pure none
    let σ' ← σ.backward h s
    pure (σ', .ok)
  | .backwardc v seed => do
    let h ← σ.get v
    let sh ← σ.get seed
    let σ' ← σ.backward h (some (σ.tensorOf sh))
    pure (σ', .ok)
  | .grad v => do
    let h ← σ.get v
    match σ.grad.getD h.node none with
    | some g => pure (σ, .tensor g false)
    | none => pure (σ, .noneOut)
  | .takegrad w v => do
    let h ← σ.get v
    match σ.grad.getD h.node none with
    | some g => bindShow w (pure (hLeaf σ g))
    | none => throw .noGradient
  | .cleargrad v => do
    let h ← σ.get v
    pure (σ.setGrad h.node none, .ok)
  | .setgrad v w => do
    let h ← σ.get v
    let g ← σ.get w
    pure (σ.setGrad h.node (some (σ.tensorOf g)), .ok)
  | .show v => do
    let h ← σ.get v; pure (σ, showH σ h)
  | .idx v i => do
    let h ← σ.get v
    let x ← (σ.tensorOf h).index i
    pure (σ, .scalar x)
  | .convat a f sr sc i => do
    let ha ← σ.get a; let hf ← σ.get f
    let img := σ.tensorOf ha
    let flt := σ.tensorOf hf
    -- the element of the sliding-window definition (= indexing the model's `conv`: `convat_spec`)
    if convValidB img flt sr sc && inRange (convOutDims img flt sr sc) i then
      pure (σ, .scalar (convElem img flt sr sc i))
    else throw .modelGap
  | .matmulat a ta b tb c i => do
    let ha ← σ.get a; let hb ← σ.get b
    let ch ← match c with
      | some c => do let h ← σ.get c; pure (some h)
      | none => pure none
    let x := σ.tensorOf ha
    let y := σ.tensorOf hb
    let z := ch.map σ.tensorOf
    if matmulValidB x ta y tb z && inRange (matmulOutDims x ta y tb) i then
      pure (σ, .scalar (matmulElem x ta y tb z i))
    else throw .modelGap
  | .idxflat v i => do
    let h ← σ.get v
    let x ← (σ.tensorOf h).indexFlat i
    pure (σ, .scalar x)
  | .eq a b => do
    let ha ← σ.get a; let hb ← σ.get b
    pure (σ, .bool ((σ.tensorOf ha).beq (σ.tensorOf hb)))
  | .same a b => do
    let ha ← σ.get a; let hb ← σ.get b
    pure (σ, .bool ((σ.tensorOf ha).beq (σ.tensorOf hb)))
  | .samegrad a b => do
    let ha ← σ.get a; let hb ← σ.get b
    let r := match σ.grad.getD ha.node none, σ.grad.getD hb.node none with
      | some x, some y => x.beq y
      | none, none => true
      | _, _ => false
    pure (σ, .bool r)
  | .lin c al a be b => do
    let hc ← σ.get c; let ha ← σ.get a; let hb ← σ.get b
    let r := match σ.grad.getD hc.node none, σ.grad.getD ha.node none, σ.grad.getD hb.node none with
      | some gc, some ga, some gb =>
        gc.beq ⟨ga.dims, List.zipWith (fun x y => al * x + be * y) ga.vals gb.vals⟩
      | none, none, none => true
      | _, _, _ => false
    pure (σ, .bool r)
  | .sumgrad c parts => do
    let hc ← σ.get c
    let hs ← mapR σ.get parts
    let gs := hs.filterMap (fun h => σ.grad.getD h.node none)
    let r := match σ.grad.getD hc.node none, gs with
      | none, [] => true
      | some g, g0 :: rest =>
        g.beq (rest.foldl (fun acc t => ⟨acc.dims, List.zipWith (· + ·) acc.vals t.vals⟩) g0)
      | _, _ => false
    pure (σ, .bool r)
  | .probe v => do
    let h ← σ.get v
    let nk := match σ.nodes[h.node]? with | some r => r.kids.length | none => 0
    pure (σ, .probe (σ.cnt.getD h.node 0) (σ.delta.getD h.node none).isSome h.tracked h.keep nk
      (σ.owners h.buf))
  | .flags v => do
    let h ← σ.get v
    let nk := match σ.nodes[h.node]? with | some r => r.kids.length | none => 0
    pure (σ, .flags h.tracked h.keep nk)
  | .probekid v i => do
    let h ← σ.get v
    match σ.nodes[h.node]? with
    | some r =>
      match r.kids[i]? with
      | some k => pure (σ, .kid k.tracked k.keep (σ.cnt.getD k.node 0) (σ.delta.getD k.node none).isSome)
      | none => pure (σ, .nokid)
    | none => pure (σ, .nokid)
  | .own v => do
    let h ← σ.get v
    -- the handle is consumed either way
    let σ1 : State S := { σ with env := erase σ.env v }
    if σ.owners h.buf = 1 then pure (σ1, .owned (σ.tensorOf h).vals)
    else throw .notSoleOwner
  | .log =>
    let entries := σ.lastLog.filterMap (fun (p : Nat × Tensor S) =>
      match σ.nodes[p.1]? with
      | some r => (match r.op with
          | some (.custom _) => some (r.label, p.2)
          | _ => none)
      | none => none)
    pure (σ, .log entries)
  | .gdupdate lr vs => do
    let hs ← mapR σ.get vs
    let (σ1, hs') ← gdUpdate σ lr hs
    let σ2 := (vs.zip hs').foldl (fun (s : State S) p => s.bind p.1 p.2) σ1
    pure (σ2, .params (hs'.map (fun h => (σ2.tensorOf h, σ2.grad.getD h.node none))))
  | .gd g lr => pure ({ σ with models := insert σ.models ("#gd:" ++ g) ⟨[], .mse, lr, none⟩ }, .ok)
  | .gdstep g vs => do
    match lookup σ.models ("#gd:" ++ g) with
    | some mr =>
      let hs ← mapR σ.get vs
      let (σ1, hs') ← gdUpdate σ mr.lr hs
      let σ2 := (vs.zip hs').foldl (fun (s : State S) p => s.bind p.1 p.2) σ1
      pure (σ2, .params (hs'.map (fun h => (σ2.tensorOf h, σ2.grad.getD h.node none))))
    | none => throw .modelGap
  | .cost w c output target => do
    let o ← σ.get output
    let t ← σ.get target
    bindShow w (match c with
      | .mse => hMse σ o t
      | .xent => hXent σ o t)
  | .dense l inp out act w b => do
    let wt ← Tensor.mk? [out, inp] w
    let bt ← Tensor.mk? [out] b
    let (σ1, wh) := hLeaf σ wt
    let (σ2, bh) := hLeaf σ1 bt
    let tr := fun (h : Handle) => ({ h with tracked := true, keep := true } : Handle)
    pure ({ σ2 with layers := insert σ2.layers l (.dense (tr wh) (tr bh) act) }, .ok)
  | .convl l f d r c sr sc act w b => do
    let wt ← Tensor.mk? [f, d, r, c] w
    let bt ← Tensor.mk? [f, 1, 1] b
    let (σ1, wh) := hLeaf σ wt
    let (σ2, bh) := hLeaf σ1 bt
    let tr := fun (h : Handle) => ({ h with tracked := true, keep := true } : Handle)
    pure ({ σ2 with layers := insert σ2.layers l (.conv (tr wh) (tr bh) sr sc act) }, .ok)
  | .lflag l which tr =>
    match lookup σ.layers l with
    | some lay =>
      match layerParams lay with
      | [a, b] =>
        let a' : Handle := if which = 1 then a else { a with tracked := tr }
        let b' : Handle := if which = 0 then b else { b with tracked := tr }
        pure ({ σ with layers := insert σ.layers l (setLayerParams lay [a', b']) }, .ok)
      | _ => throw .modelGap
    | none => throw .modelGap
  | .lfwd w l a => do
    match lookup σ.layers l with
    | some lay => bindShow w (layerForward σ lay (← σ.get a))
    | none => throw .modelGap
  | .model m cost lr layers =>
    pure ({ σ with models := insert σ.models m ⟨layers, cost, lr, none⟩ }, .ok)
  | .fwd w m a => do
    match lookup σ.models m with
    | some mr =>
      let input ← σ.get a
      let (σ1, out) ← mr.layers.foldlM (fun (p : State S × Handle) l =>
        match lookup p.1.layers l with
        | some lay => layerForward p.1 lay p.2
        | none => throw .modelGap) (σ, input)
      let σ2 : State S := { σ1 with models := insert σ1.models m { mr with output := some out } }
      pure (σ2.bind w out, showH σ2 out)
    | none => throw .modelGap
  | .bwd m t => do
    match lookup σ.models m with
    | some mr =>
      match mr.output with
      | some out =>
        let target ← σ.get t
        let (σ1, err) ← match mr.cost with
          | .mse => hMse σ out target
          | .xent => hXent σ out target
        let σ2 ← σ1.backward err none
        pure (σ2, .scalar (sumAll (σ2.tensorOf err)))
      | none => throw .noGradient
    | none => throw .modelGap
  | .update m => do
    match lookup σ.models m with
    | some mr =>
      let ps := modelParams σ mr.layers
      let (σ1, ps') ← gdUpdate σ mr.lr ps
      pure (putParams σ1 mr.layers ps', .params (ps'.map (fun h => (σ1.tensorOf h, σ1.grad.getD h.node none))))
    | none => throw .modelGap
  | .params m => do
    match lookup σ.models m with
    | some mr =>
      let ps := modelParams σ mr.layers
      pure (σ, .params (ps.map (fun h => (σ.tensorOf h, σ.grad.getD h.node none))))
    | none =>
      -- also accepts a layer name
      match lookup σ.layers m with
      | some lay => pure (σ, .params ((layerParams lay).map (fun h => (σ.tensorOf h, σ.grad.getD h.node none))))
      | none => throw .modelGap
  | .ifgt v c n => do
    let h ← σ.get v
    let x ← (σ.tensorOf h).indexFlat 0
    -- `x > c` is `pos (x - c)`
    pure (σ, .skip (if ScalarOps.pos (x - c) then 0 else n))
  | .snapshot =>
    pure (σ, .snap (sortByName (σ.env.map (fun p => (p.1, σ.tensorOf p.2, σ.grad.getD p.2.node none)))))

/-- One step: a panic is an output and leaves the state unchanged. -/
def step (σ : State S) (c : Cmd S) : State S × Out S :=
  match exec σ c with
  | .ok r => r
  | .error p => (σ, .panic p)

end Corgi
