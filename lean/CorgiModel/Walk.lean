/-
  CorgiModel.Walk — `element_wise_dimensions`, `sliced_op`, `flatten_to` (`src/array/mod.rs`).

  `sliced_op` walks the leading dimensions of `input_dimensions` in row-major order; per iteration
  every operand is sliced at its own leading multi-index — aligned from the last leading dimension
  and kept at 0 along unit dimensions — and the slice operation writes one output block.
  The Rust loop keeps an odometer; the model enumerates `n = 0 .. leading_length-1` and takes
  `unflatten leading n`, which is what the odometer holds at iteration `n`.
-/
import CorgiModel.Tensor

namespace Corgi

variable {S : Type}

/-- Row-major multi-index of `n` in `dims` (the odometer after `n` steps). -/
def unflatten : List Nat → Nat → List Nat
  | [], _ => []
  | _ :: ds, n => (n / prod ds) :: unflatten ds (n % prod ds)

/-- Broadcast two *reversed* dimension lists, the first at least as long as the second. -/
def bcastRev : List Nat → List Nat → R (List Nat)
  | l :: ls, o :: os =>
    if l == o || l == 1 || o == 1 then do
      let r ← bcastRev ls os
      pure (max l o :: r)
    else throw .incompatible
  | ls, [] => pure ls
  | [], _ :: _ => pure []

/-- `element_wise_dimensions(x, y)` -/
def ewiseDims (x y : List Nat) : R (List Nat) := do
  let r ← if x.length > y.length then bcastRev x.reverse y.reverse else bcastRev y.reverse x.reverse
  pure r.reverse

/-- Offset (in groups) of an operand with leading dimensions `adims` at odometer `idx`:
    `fold(0, |acc, (d, i)| acc * d + if d == 1 { 0 } else { i })` over the operand's leading
    dimensions zipped with the last `adims.len()` odometer positions. -/
def projOffset (adims idx : List Nat) : Nat :=
  (adims.zip (idx.drop (idx.length - adims.length))).foldl
    (fun acc p => acc * p.1 + (if p.1 == 1 then 0 else p.2)) 0

/-- The slices handed to the operation at odometer position `idx`. -/
def slicesAt (arrays : List (Tensor S)) (k leadingCount : Nat) (idx : List Nat) : R (List (List S)) :=
  mapR (fun (v : Tensor S) =>
    let g := prod (v.dims.reverse.take k)
    let lead := min (v.dims.length - k) leadingCount
    slice v.vals (projOffset (v.dims.take lead) idx * g) g) arrays

/-- Shape of the result after the trailing `flat` dimensions are merged into one. -/
def flattenTrailing (dims : List Nat) (flat : Nat) : R (List Nat) :=
  if flat = 0 then pure dims
  else if dims.length < flat then throw .indexOOB
  else pure (dims.take (dims.length - flat) ++ [prod (dims.drop (dims.length - flat))])

/-- One iteration of the `sliced_op` loop: the slices at the `n`-th leading multi-index, the output
    offset (`flatten_indices(&indices[..output_dimensions.len()], output_dimensions)`), the block. -/
def slicedBody (arrays : List (Tensor S)) (op : List (List S) → R (List S))
    (inDims outDims : List Nat) (k : Nat) (n : Nat) : R (List S) := do
  let leadingCount := inDims.length - k
  let leading := inDims.take leadingCount
  let outGroup := prod (outDims.drop leadingCount)
  let idx := unflatten leading n
  let slices ← slicesAt arrays k leadingCount idx
  let full := idx ++ List.replicate (max inDims.length outDims.length - leadingCount) 0
  let off ← flattenIndices (full.take outDims.length) outDims
  if off + outGroup > prod outDims then throw .sliceOOB
  -- every modelled caller shares its leading dimensions between input and output, so block
  -- `n` lands at `n * outGroup`; anything else is outside the model and is reported loudly
  if off != n * outGroup then throw .modelGap
  let block ← op slices
  if block.length != outGroup then throw .modelGap
  pure block

/-- `Array::sliced_op` without the graph bookkeeping.
    `op` receives the operand slices and returns the output block (the output starts at zero). -/
def slicedOp [ScalarOps S] (arrays : List (Tensor S)) (op : List (List S) → R (List S))
    (inDims outDims : List Nat) (k flat : Nat) : R (Tensor S) := do
  let valid := arrays.all (fun v =>
    ((v.dims.reverse.drop k).zip (inDims.reverse.drop k)).all (fun p => p.1 == 1 || p.1 == p.2))
  if !valid then throw .broadcast
  let leadingCount := inDims.length - k
  let leading := inDims.take leadingCount
  let leadingLength := prod leading
  let outputLength := prod outDims
  let outGroup := prod (outDims.drop leadingCount)
  let outDims' ← flattenTrailing outDims flat
  if leadingCount = 0 then
    let slices ← slicesAt arrays k 0 []
    if outputLength < outGroup then throw .sliceOOB
    let block ← op slices
    if block.length != outGroup then throw .modelGap
    Tensor.mk? outDims' (block ++ List.replicate (outputLength - outGroup) zero)
  else
    -- the slices of the first iteration are taken before the loop
    let _ ← slicesAt arrays k leadingCount (List.replicate leadingCount 0)
    let blocks ← tabulateM (slicedBody arrays op inDims outDims k) leadingLength
    if leadingLength * outGroup != outputLength then throw .modelGap
    Tensor.mk? outDims' blocks.flatten

/-- Target offset of the source multi-index `idx` in `flatten_to`. -/
def flattenOffset (target idx : List Nat) (skip : Nat) : Nat :=
  (target.zip (idx.drop skip)).foldl (fun acc p => acc * p.1 + (if p.1 == 1 then 0 else p.2)) 0

/-- Add `x` at position `i` (`values[offset] += value`). -/
def addAt [Add S] (v : List S) (i : Nat) (x : S) : R (List S) :=
  match v[i]? with
  | some y => pure (v.set i (y + x))
  | none => throw .indexOOB

/-- `flatten_to` main loop: every value is summed into its target index, in source order. -/
def flattenLoop [Add S] (src target : List Nat) (skip : Nat) : List S → Nat → List S → R (List S)
  | [], _, acc => pure acc
  | x :: xs, n, acc => do
    let acc' ← addAt acc (flattenOffset target (unflatten src n) skip) x
    flattenLoop src target skip xs (n + 1) acc'

/-- `self.flatten_to(dimensions)` -/
def flattenTo [Add S] [ScalarOps S] [BEq S] (t : Tensor S) (target : List Nat) : R (Tensor S) :=
  if t.dims == target then pure t
  else do
    let skip := t.dims.length - target.length
    let vals ← flattenLoop t.dims target skip t.vals 0 (List.replicate (prod target) zero)
    Tensor.mk? target vals

end Corgi
