/-
  CorgiModel.Engine — `propagate_consumers` and `backward` (`src/array/mod.rs`), statement by
  statement, over an abstract view of the recorded graph.

  A *node* is the identity of the three shared cells (consumer count, pending delta, gradient).
  A *slot* is an operand handle stored inside a consumer: node id, dimensions and the two flags the
  operand handle had when the operation was applied.  The engine's control flow reads only counts,
  flags and the `Some/None` pattern returned by the closures.
-/
import CorgiModel.Ops

namespace Corgi

structure Slot where
  node : Nat
  dims : List Nat
  tracked : Bool
  keep : Bool
  deriving Repr, DecidableEq

/-- The backward closure of a node: `(was_tracked, delta) ↦ per-operand contributions`. -/
abbrev Closure (S : Type) := List Bool → Tensor S → R (List (Option (Tensor S)))

/-- What the engine sees of the heap during one pass (immutable during the pass). -/
structure Graph (S : Type) where
  kids : Nat → List Slot
  vjp : Nat → Option (Closure S)

/-- The mutable per-node cells, plus a ghost log: every entry into `backward` on a node, with the
    delta it took from the cell (for a node with a closure: the delta the closure receives). -/
structure EState (S : Type) where
  cnt : Nat → Nat
  delta : Nat → Option (Tensor S)
  grad : Nat → Option (Tensor S)
  log : List (Nat × Tensor S)

def upd {α} (f : Nat → α) (k : Nat) (v : α) : Nat → α := fun i => if i = k then v else f i

variable {S : Type}

/-- Consumer counts.  Wrapped in a structure so that functions returning counts return *data*
    (a bare `Nat → Nat` result would be compiled as an extra argument and re-run per lookup). -/
structure Cnt where
  get : Nat → Nat

def Cnt.set (c : Cnt) (k v : Nat) : Cnt := ⟨upd c.get k v⟩

/-- The loop of `propagate_consumers` over the stored operands. -/
def propKids (rec : Nat → Cnt → Cnt) : List Slot → Cnt → Cnt
  | [], c => c
  | s :: ss, c =>
    if s.tracked then
      let old := c.get s.node
      let c1 := c.set s.node (old + 1)
      -- don't double-count consumers
      let c2 := if old = 0 then rec s.node c1 else c1
      propKids rec ss c2
    else propKids rec ss c

/-- `propagate_consumers` (fuel = recursion depth bound). -/
def propagate (G : Graph S) : Nat → Nat → Cnt → Cnt
  | 0, _, c => c
  | f + 1, n, c => propKids (propagate G f) (G.kids n) c

section
variable [Add S] [Mul S] [Neg S] [Sub S] [ScalarOps S] [BEq S]

/-- `match child.delta.take() { Some(x) => &x + &delta', None => delta' }` -/
def mergeDelta (old : Option (Tensor S)) (d' : Tensor S) : R (Tensor S) :=
  match old with
  | some x => add x d'
  | none => pure d'

/-- The delivery loop of `backward`: for every `Some(delta)` returned for operand `i`, merge it into
    the operand's pending delta (always reduced to the operand's dimensions), decrement the
    operand's count and recurse exactly on the 1 → 0 transition. -/
def deliver (rec : Nat → Bool → EState S → R (EState S)) :
    List Slot → List (Option (Tensor S)) → EState S → R (EState S)
  | _, [], σ => pure σ
  | [], some _ :: _, _ => throw .indexOOB
  | [], none :: ds, σ => deliver rec [] ds σ
  | _ :: ss, none :: ds, σ => deliver rec ss ds σ
  | s :: ss, some d :: ds, σ => do
    let d' ← flattenTo d s.dims
    let nd ← mergeDelta (σ.delta s.node) d'
    if σ.cnt s.node = 0 then throw .underflow
    let σ2 : EState S :=
      { σ with delta := upd σ.delta s.node (some nd), cnt := upd σ.cnt s.node (σ.cnt s.node - 1) }
    let σ3 ← if σ.cnt s.node = 1 then rec s.node s.keep σ2 else pure σ2
    deliver rec ss ds σ3

/-- The final accumulation of `backward` into the gradient cell. -/
def storeGrad (n : Nat) (x : Tensor S) (σ : EState S) : R (EState S) := do
  let g ← mergeDelta (σ.grad n) x
  pure { σ with grad := upd σ.grad n (some g) }

/-- The middle of `backward`: call the closure (all stored operands untracked meanwhile, then
    restored) and deliver its answers; a node without a closure must be a leaf. -/
def enter (G : Graph S) (rec : Nat → Bool → EState S → R (EState S)) (n : Nat) (x : Tensor S)
    (σ0 : EState S) : R (EState S) :=
  match G.vjp n with
  | some cl => do
    let ds ← cl ((G.kids n).map (·.tracked)) x
    deliver rec (G.kids n) ds σ0
  | none => if (G.kids n).isEmpty then pure σ0 else throw .notDifferentiable

/-- `backward` on a handle of node `n` whose pending delta is set (the recursive case
    `child.backward(None)`, and the root after its seed has been put into the cell). -/
def process (G : Graph S) : Nat → Nat → Bool → EState S → R (EState S)
  | 0, _, _, _ => throw .modelGap
  | f + 1, n, keep, σ =>
    match σ.delta n with
    | none => throw .modelGap
    | some x => do
      let σ1 ← enter G (process G f) n x { σ with delta := upd σ.delta n none, log := (n, x) :: σ.log }
      if (G.kids n).isEmpty || keep then storeGrad n x σ1 else pure σ1

/-- the seed, or all ones of the handle's dimensions when omitted -/
def seedOrOnes (seed : Option (Tensor S)) (dims : List Nat) : R (Tensor S) :=
  match seed with
  | some s => pure s
  | none => Tensor.mk? dims (List.replicate (prod dims) one)

/-- `Array::backward(seed)` on a handle of node `n` with dimensions `dims` and keep flag `keep`.
    If a delta is pending it is used (and the seed ignored); otherwise consumer counts are
    propagated and the seed (ones when omitted) becomes the delta. -/
def backward (G : Graph S) (fuel : Nat) (n : Nat) (dims : List Nat) (keep : Bool)
    (seed : Option (Tensor S)) (σ : EState S) : R (EState S) :=
  match σ.delta n with
  | some _ => process G fuel n keep σ
  | none => do
    let cnt := (propagate G fuel n ⟨σ.cnt⟩).get
    let x ← seedOrOnes seed dims
    process G fuel n keep { σ with cnt := cnt, delta := upd σ.delta n (some x) }

end
end Corgi
