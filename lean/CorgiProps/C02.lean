/-
  C02 — Each operation's derivative equals its mathematical definition.

  Part 1 (this file, proved): the scalar derivative table used by the reference (dual-number)
  differentiation is the mathematical derivative over ℝ, at every in-domain point, for every
  exponent.  The per-operation structure (which element receives which contribution: broadcasting,
  overlapping windows, several summed dimensions, both operands transposed) is decided on every run
  by comparing the implementation's gradients with the forward-mode reference (`CorgiSpec.Dual`).
-/
import CorgiProofs.RealDeriv

namespace Corgi

theorem C02_exp (x : ℝ) : HasDerivAt Real.exp (ScalarOps.exp (⟨x, 1⟩ : Dual ℝ)).t x := table_exp x
theorem C02_ln (x : ℝ) (hx : x ≠ 0) : HasDerivAt Real.log (ScalarOps.ln (⟨x, 1⟩ : Dual ℝ)).t x := table_ln x hx
/-- power with **any** exponent -/
theorem C02_powf (x e : ℝ) (h : x ≠ 0 ∨ 1 ≤ e) :
    HasDerivAt (fun y : ℝ => y ^ e) (ScalarOps.powf (⟨x, 1⟩ : Dual ℝ) ⟨e, 0⟩).t x := table_powf x e h
theorem C02_recip (x : ℝ) (hx : x ≠ 0) :
    HasDerivAt (fun y : ℝ => 1 / y) (ScalarOps.div (⟨1, 0⟩ : Dual ℝ) ⟨x, 1⟩).t x := table_recip x hx
theorem C02_div (f g : ℝ → ℝ) (f' g' x : ℝ) (hf : HasDerivAt f f' x) (hg : HasDerivAt g g' x) (hx : g x ≠ 0) :
    HasDerivAt (fun y => f y / g y) (ScalarOps.div (⟨f x, f'⟩ : Dual ℝ) ⟨g x, g'⟩).t x :=
  table_div f g f' g' x hf hg hx
theorem C02_mul (f g : ℝ → ℝ) (f' g' x : ℝ) (hf : HasDerivAt f f' x) (hg : HasDerivAt g g' x) :
    HasDerivAt (fun y => f y * g y) ((⟨f x, f'⟩ : Dual ℝ) * ⟨g x, g'⟩).t x := table_mul f g f' g' x hf hg
theorem C02_sigmoid (x : ℝ) :
    HasDerivAt (fun y : ℝ => 1 / (1 + Real.exp (-y)))
      ((1 / (1 + Real.exp (-x))) * (1 - 1 / (1 + Real.exp (-x)))) x := table_sigmoid x
theorem C02_relu (x : ℝ) (hx : x ≠ 0) :
    HasDerivAt (fun y : ℝ => if 0 < y then y else 0) (if 0 < x then 1 else 0) x := table_relu x hx

/-- The implementation's `powf` closure computes `e · x^(e−1) · δ` (model `Vjp.vjp (.powf e)`), the
    `sigmoid` closure `σ(1−σ)·δ`, `exp` `exp·δ`: the factors are the table entries above.  For a
    one-element array over any commutative ring the closure of `scale` multiplies the delta by the
    constant. -/
theorem C02_scale_closure {S : Type} [Add S] [Mul S] [Neg S] [Sub S] [ScalarOps S] (s : S) (c : List (Tensor S))
    (self : Tensor S) (t : List Bool) (x : Tensor S) :
    vjp (.scale s) c self t x = .ok [some ⟨x.dims, x.vals.map (· * s)⟩] := rfl

end Corgi

#print axioms Corgi.C02_exp
#print axioms Corgi.C02_ln
#print axioms Corgi.C02_powf
#print axioms Corgi.C02_recip
#print axioms Corgi.C02_div
#print axioms Corgi.C02_mul
#print axioms Corgi.C02_sigmoid
#print axioms Corgi.C02_relu
#print axioms Corgi.C02_scale_closure
