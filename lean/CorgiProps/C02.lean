/-
  C02 — Each operation's derivative equals its mathematical definition.

  Part 1 (proved): the scalar derivative table used by the reference (dual-number) differentiation
  is the mathematical derivative over ℝ, at every in-domain point, for every exponent.
  Part 2 (proved): over ℝ, for operands and delta of one (any valid) shape, the backward closure of
  every point-wise operation — neg, scale, powf (any exponent), ln, exp, reciprocal, relu, sigmoid,
  and add / mul / div in both operands — returns, element by element, `delta · f'(operand)` with `f'`
  the `HasDerivAt` derivative of the forward function: the transpose of the (diagonal) Jacobian
  applied to the delta (`C02_closure_*`).  A broadcast operand's contribution is then reduced by
  `flatten_to`, proved to be the sum over the broadcast positions (C03_reduction_is_sum) — the
  transpose of the broadcasting map.
  The structure of the remaining operations (sum over several dimensions, reshape, matmul with all
  flags/additive term, conv with overlapping windows) is decided on every run by comparing the
  implementation's gradients with the forward-mode reference (`CorgiSpec.Dual`).
-/
import CorgiProofs.RealDeriv
import CorgiProofs.RealClosures
import CorgiProofs.LinearHeap
import CorgiProofs.Adjoint
import CorgiProofs.AdjointMatmul
import CorgiProofs.AdjointConv

namespace Corgi

theorem C02_exp (x : ℝ) : HasDerivAt Real.exp (ScalarOps.exp (⟨x, 1⟩ : Dual ℝ)).t x := table_exp x
theorem C02_ln (x : ℝ) (hx : x ≠ 0) : HasDerivAt Real.log (ScalarOps.ln (⟨x, 1⟩ : Dual ℝ)).t x := table_ln x hx
/-- power with **any** exponent -/
theorem C02_powf (x e : ℝ) (h : x ≠ 0 ∨ 1 ≤ e) :
    HasDerivAt (fun y : ℝ => y ^ e) (ScalarOps.powf (⟨x, 1⟩ : Dual ℝ) ⟨e, 0⟩).t x := table_powf x e h
theorem C02_recip (x : ℝ) (hx : x ≠ 0) :
    HasDerivAt (fun y : ℝ => 1 / y) (ScalarOps.div (⟨1, 0⟩ : Dual ℝ) ⟨x, 1⟩).t x := table_recip x hx
theorem C02_div (f g : ℝ → ℝ) (f' g' x : ℝ) (hf : HasDerivAt f f' x) (hg : HasDerivAt g g' x) (hx : g x ≠ 0) :
    HasDerivAt (fun y => f y / g y) (ScalarOps.div (⟨f x, f'⟩ : Dual ℝ) ⟨g x, g'⟩).t x :=
  table_div f g f' g' x hf hg hx
theorem C02_mul (f g : ℝ → ℝ) (f' g' x : ℝ) (hf : HasDerivAt f f' x) (hg : HasDerivAt g g' x) :
    HasDerivAt (fun y => f y * g y) ((⟨f x, f'⟩ : Dual ℝ) * ⟨g x, g'⟩).t x := table_mul f g f' g' x hf hg
theorem C02_sigmoid (x : ℝ) :
    HasDerivAt (fun y : ℝ => 1 / (1 + Real.exp (-y)))
      ((1 / (1 + Real.exp (-x))) * (1 - 1 / (1 + Real.exp (-x)))) x := table_sigmoid x
theorem C02_relu (x : ℝ) (hx : x ≠ 0) :
    HasDerivAt (fun y : ℝ => if 0 < y then y else 0) (if 0 < x then 1 else 0) x := table_relu x hx

/-- The implementation's `powf` closure computes `e · x^(e−1) · δ` (model `Vjp.vjp (.powf e)`), the
    `sigmoid` closure `σ(1−σ)·δ`, `exp` `exp·δ`: the factors are the table entries above.  For a
    one-element array over any commutative ring the closure of `scale` multiplies the delta by the
    constant. -/
theorem C02_scale_closure {S : Type} [Add S] [Mul S] [Neg S] [Sub S] [ScalarOps S] (s : S) (c : List (Tensor S))
    (self : Tensor S) (t : List Bool) (x : Tensor S) :
    vjp (.scale s) c self t x = .ok [some ⟨x.dims, x.vals.map (· * s)⟩] := rfl


/-! ### Part 2: the closures of the point-wise operations are `delta · f'` (over ℝ, any valid shape) -/
section closures
variable (d : List Nat) (c x self : Tensor ℝ)

theorem C02_closure_neg (hc : Shaped d c) (hx : Shaped d x) :
    vjp (.neg : OpTag ℝ) [c] self [true] x = .ok [some (diag (fun _ => -1) d x c)] ∧
    ∀ y : ℝ, HasDerivAt (fun y => -y) (-1) y := closure_neg d c x self hc hx

theorem C02_closure_scale (s : ℝ) (hc : Shaped d c) (hx : Shaped d x) :
    vjp (.scale s : OpTag ℝ) [c] self [true] x = .ok [some (diag (fun _ => s) d x c)] ∧
    ∀ y : ℝ, HasDerivAt (fun y => y * s) s y := closure_scale d c x self s hc hx

theorem C02_closure_powf (e : ℝ) (hne : d ≠ []) (hpos : ∀ k ∈ d, 1 ≤ k) (hc : Shaped d c) (hx : Shaped d x) :
    vjp (.powf e : OpTag ℝ) [c] self [true] x = .ok [some (diag (fun y => e * y ^ (e - 1)) d x c)] ∧
    ∀ y : ℝ, (y ≠ 0 ∨ 1 ≤ e) → HasDerivAt (fun y : ℝ => y ^ e) (e * y ^ (e - 1)) y :=
  closure_powf d c x self e hne hpos hc hx

theorem C02_closure_ln (hne : d ≠ []) (hpos : ∀ k ∈ d, 1 ≤ k) (hc : Shaped d c) (hx : Shaped d x) :
    vjp (.ln : OpTag ℝ) [c] self [true] x = .ok [some (diag (fun y => 1 / y) d x c)] ∧
    ∀ y : ℝ, y ≠ 0 → HasDerivAt Real.log (1 / y) y := closure_ln d c x self hne hpos hc hx

theorem C02_closure_exp (hne : d ≠ []) (hpos : ∀ k ∈ d, 1 ≤ k) (hc : Shaped d c) (hx : Shaped d x) :
    vjp (.exp : OpTag ℝ) [c] (exp c) [true] x = .ok [some (diag Real.exp d x c)] ∧
    ∀ y : ℝ, HasDerivAt Real.exp (Real.exp y) y := closure_exp d c x hne hpos hc hx

theorem C02_closure_recip (hne : d ≠ []) (hpos : ∀ k ∈ d, 1 ≤ k) (hc : Shaped d c) (hx : Shaped d x) :
    vjp (.recip : OpTag ℝ) [c] self [true] x = .ok [some (diag (fun y => -((1 / y) ^ (2 : ℝ))) d x c)] ∧
    ∀ y : ℝ, y ≠ 0 → HasDerivAt (fun y : ℝ => 1 / y) (-((1 / y) ^ (2 : ℝ))) y :=
  closure_recip d c x self hne hpos hc hx

theorem C02_closure_relu (hne : d ≠ []) (hpos : ∀ k ∈ d, 1 ≤ k) (hc : Shaped d c) (hx : Shaped d x) :
    vjp (.relu : OpTag ℝ) [c] self [true] x = .ok [some (diag (fun y => if 0 < y then 1 else 0) d x c)] ∧
    ∀ y : ℝ, y ≠ 0 → HasDerivAt (fun y : ℝ => if 0 < y then y else 0) (if 0 < y then 1 else 0) y :=
  closure_relu d c x self hne hpos hc hx

theorem C02_closure_sigmoid (hne : d ≠ []) (hpos : ∀ k ∈ d, 1 ≤ k) (hc : Shaped d c) (hx : Shaped d x) :
    vjp (.sigmoid : OpTag ℝ) [c] (sigmoid c) [true] x
      = .ok [some (diag (fun y => (1 / (1 + Real.exp (-y))) * (1 - 1 / (1 + Real.exp (-y)))) d x c)] ∧
    ∀ y : ℝ, HasDerivAt (fun y : ℝ => 1 / (1 + Real.exp (-y)))
      ((1 / (1 + Real.exp (-y))) * (1 - 1 / (1 + Real.exp (-y)))) y := closure_sigmoid d c x hne hpos hc hx

theorem C02_closure_add (a b : Tensor ℝ) :
    vjp (.add : OpTag ℝ) [a, b] self [true, true] x = .ok [some x, some x] := closure_add x self a b

theorem C02_closure_mul (a b : Tensor ℝ) (hne : d ≠ []) (hpos : ∀ k ∈ d, 1 ≤ k) (ha : Shaped d a) (hb : Shaped d b)
    (hx : Shaped d x) :
    vjp (.mul : OpTag ℝ) [a, b] self [true, true] x
      = .ok [some (diag (fun v => v) d x b), some (diag (fun u => u) d x a)] ∧
    ∀ u v : ℝ, HasDerivAt (fun u => u * v) v u ∧ HasDerivAt (fun v => u * v) u v :=
  closure_mul d x self a b hne hpos ha hb hx

theorem C02_closure_div (a b : Tensor ℝ) (hne : d ≠ []) (hpos : ∀ k ∈ d, 1 ≤ k) (ha : Shaped d a) (hb : Shaped d b)
    (hx : Shaped d x) :
    vjp (.div : OpTag ℝ) [a, b] self [true, true] x
      = .ok [some (diag (fun v => 1 / v) d x b),
             some ⟨d, List.zipWith (· * ·) (List.zipWith (fun u v => -u / v ^ (2 : ℝ)) a.vals b.vals) x.vals⟩] ∧
    ∀ u v : ℝ, v ≠ 0 → HasDerivAt (fun u => u / v) (1 / v) u ∧ HasDerivAt (fun v => u / v) (-u / v ^ (2 : ℝ)) v :=
  closure_div d x self a b hne hpos ha hb hx

end closures

/-! non-vacuity: a `[2,3]` operand and delta over ℝ are `Shaped` -/
example : Shaped [2, 3] (⟨[2, 3], [1, 2, 3, 4, 5, 6]⟩ : Tensor ℝ) := ⟨rfl, rfl⟩

end Corgi

#print axioms Corgi.C02_exp
#print axioms Corgi.C02_ln
#print axioms Corgi.C02_powf
#print axioms Corgi.C02_recip
#print axioms Corgi.C02_div
#print axioms Corgi.C02_mul
#print axioms Corgi.C02_sigmoid
#print axioms Corgi.C02_relu
#print axioms Corgi.C02_scale_closure
#print axioms Corgi.C02_closure_neg
#print axioms Corgi.C02_closure_scale
#print axioms Corgi.C02_closure_powf
#print axioms Corgi.C02_closure_ln
#print axioms Corgi.C02_closure_exp
#print axioms Corgi.C02_closure_recip
#print axioms Corgi.C02_closure_relu
#print axioms Corgi.C02_closure_sigmoid
#print axioms Corgi.C02_closure_add
#print axioms Corgi.C02_closure_mul
#print axioms Corgi.C02_closure_div

/-! ### the stored closures over ℝ satisfy the value laws (`Sem`) — instances and non-vacuity -/

namespace Corgi

instance : AddLaws ℝ where
  add_comm := add_comm
  add_assoc := add_assoc
  zero_add := zero_add

instance : MulLaws ℝ where
  left_distrib := mul_add
  right_distrib := add_mul
  div_add := fun a b c => add_div a b c

instance : CommLaws ℝ where
  mul_comm := mul_comm
  mul_assoc := mul_assoc
  mul_zero := mul_zero
  div_smul := fun α a c => mul_div_assoc α a c

/-- a two-node heap: a tracked leaf `a : [2]` and the recorded product `a * a` -/
noncomputable def exHeap : State ℝ :=
  let p := hLeaf ({} : State ℝ) ⟨[2], [3, 4]⟩
  let a : Handle := { p.2 with tracked := true, keep := true }
  (p.1.alloc ⟨[2], [9, 16]⟩ [a, a] (some .mul) true).1

theorem exHeap_good : Good exHeap := by
  have h0 := (good_init : Good ({} : State ℝ))
  have h1 := heapInv_alloc ({} : State ℝ) h0.heap ⟨[2], [3, 4]⟩ [] none false "" (by simp) (by simp)
  have hv : ({ (hLeaf ({} : State ℝ) ⟨[2], [3, 4]⟩).2 with tracked := true, keep := true } : Handle).Valid
      (hLeaf ({} : State ℝ) ⟨[2], [3, 4]⟩).1 := h1.2.1
  have h2 := heapInv_alloc _ h1.1 ⟨[2], [9, 16]⟩ [_, _] (some (.mul : OpTag ℝ)) true "" (valid2 hv hv)
    (fun _ => ⟨.mul, rfl, by simp [tagOK]⟩)
  exact ⟨h2.1, ⟨by simp [exHeap, State.alloc, hLeaf], by simp [exHeap, State.alloc, hLeaf],
    by simp [exHeap, State.alloc, hLeaf]⟩⟩

/-- **non-vacuity of `C01_pathsum_of_stored_closures`**: the hypothesis `ShapeOK` holds of a heap with a
    recorded operation -/
theorem exHeap_shapeOK : ShapeOK exHeap := by
  have hnodes : exHeap.nodes = #[⟨[], none, 0, "", [2]⟩, ⟨[⟨[2], 0, 0, true, true⟩, ⟨[2], 0, 0, true, true⟩], some .mul, 1, "", [2]⟩] := by
    simp [exHeap, State.alloc, hLeaf]
  have hbufs : exHeap.bufs = #[[3, 4], [9, 16]] := by simp [exHeap, State.alloc, hLeaf]
  refine ⟨?_, ?_, ?_⟩
  · intro n r hn
    rw [hnodes] at hn
    match n, hn with
    | 0, hn => simp at hn; subst hn; simp [DimsOK]
    | 1, hn => simp at hn; subst hn; simp [DimsOK]
    | n + 2, hn => simp at hn
  · intro n r hn k hk
    rw [hnodes] at hn
    match n, hn with
    | 0, hn => simp at hn; subst hn; simp at hk
    | 1, hn =>
      simp at hn; subst hn
      simp at hk
      subst hk
      exact ⟨_, by rw [hnodes]; rfl, rfl⟩
    | n + 2, hn => simp at hn
  · intro n r tag hn hop
    rw [hnodes] at hn
    match n, hn with
    | 0, hn => simp at hn; subst hn; simp at hop
    | 1, hn =>
      simp at hn; subst hn
      simp at hop; subst hop
      refine ⟨⟨[2], [3, 4]⟩, ⟨[2], [3, 4]⟩, ?_, ?_, ?_, ?_, ?_⟩
      · simp [State.tensorOf, hbufs]
      · exact ⟨⟨by simp, by simp [prod]⟩, by simp⟩
      · exact ⟨⟨by simp, by simp [prod]⟩, by simp⟩
      · rfl
      · rfl
    | n + 2, hn => simp at hn

end Corgi

namespace Corgi
variable {S : Type} [Add S] [Mul S] [Neg S] [Sub S] [ScalarOps S] [BEq S]

/-- **`sum(k)`: the closure is the transpose of the forward map.**  Forward (C07, `sum_spec`): the block sums
    `specSum a k`.  Closure (`sumBack_spec`): every element of the delta repeated over the block it summed.
    For every well-formed operand and every delta of the result's shape, over a commutative ring:
    `⟨sum(k)(a), x⟩ = ⟨a, closure(x)⟩` — the defining property of the transposed (Jacobian of the) linear map. -/
theorem C02_sum_closure_is_transpose [AddLaws S] [MulLaws S] [CommLaws S] (a x : Tensor S) (k : Nat) (hk : 1 ≤ k)
    (ha : a.WF) (hx : Shaped (a.dims.take (a.dims.length - k) ++ [1]) x) :
    dot (specSum a k).vals x.vals
      = dot a.vals (x.vals.flatMap (List.replicate (prod (a.dims.drop (a.dims.length - k))))) := by
  rw [specSum_vals a k (by omega)]
  apply blockSums_adjoint
  · rw [← ha.2, ← prod_take_mul_drop a.dims (a.dims.length - k)]
  · rw [hx.2, prod_append]; simp [prod]

/-- **`reshape`: the closure is the transpose of the forward map** (both keep the buffer and change the
    dimensions only): `⟨reshape(a), x⟩ = ⟨a, reshape-back(x)⟩`. -/
theorem C02_reshape_closure_is_transpose (a x t back : Tensor S) (d : List Nat)
    (hf : reshape a d = .ok t) (hb : reshape x a.dims = .ok back) : dot t.vals x.vals = dot a.vals back.vals := by
  have h1 : t.vals = a.vals := by
    unfold reshape Tensor.mk? at hf
    split at hf
    · simp [throw, throwThe, MonadExceptOf.throw] at hf
    · split at hf
      · simp [throw, throwThe, MonadExceptOf.throw] at hf
      · simp only [pure, Except.pure, Except.ok.injEq] at hf; rw [← hf]
  have h2 : back.vals = x.vals := by
    unfold reshape Tensor.mk? at hb
    split at hb
    · simp [throw, throwThe, MonadExceptOf.throw] at hb
    · split at hb
      · simp [throw, throwThe, MonadExceptOf.throw] at hb
      · simp only [pure, Except.pure, Except.ok.injEq] at hb; rw [← hb]
  rw [h1, h2]

/-- **`matmul`, left operand: the summation kernel of the closure is the transpose of the product's.**
    With `A : m×k`, `B : k×n` and a delta `X : m×n` given entry-wise (any entry functions, any sizes), over a
    commutative ring: `⟨A·B, X⟩ = ⟨A, X·Bᵀ⟩` — the closure's product for the left operand
    (`linEntry_matmul_left`: `specMatmul` of the delta with `b` under the flags the code passes) is built from
    exactly the right-hand kernel.  PARTIAL: stated on `sumRange` kernels, not yet lifted through
    `Tensor.ofFn` / `get` index bookkeeping to `specMatmul` on tensors with batch dimensions. -/
theorem C02_matmul_kernel_is_transpose_left [AddLaws S] [MulLaws S] [CommLaws S] (m k n : Nat) (A B X : Nat → Nat → S) :
    sumRange m (fun r => sumRange n (fun j => sumRange k (fun t => A r t * B t j) * X r j))
      = sumRange m (fun r => sumRange k (fun t => A r t * sumRange n (fun j => B t j * X r j))) :=
  matmul_kernel_adjoint_left m k n A B X

/-- **`matmul`, right operand**: `⟨A·B, X⟩ = ⟨B, Aᵀ·X⟩` on the same kernels. -/
theorem C02_matmul_kernel_is_transpose_right [AddLaws S] [MulLaws S] [CommLaws S] (m k n : Nat) (A B X : Nat → Nat → S) :
    sumRange m (fun r => sumRange n (fun j => sumRange k (fun t => A r t * B t j) * X r j))
      = sumRange k (fun t => sumRange n (fun j => B t j * sumRange m (fun r => A r t * X r j))) :=
  matmul_kernel_adjoint_right m k n A B X

/-- **`matmul` of two matrices: the left closure is the transpose of the forward map.**  Forward (C05,
    `matmul_spec_none`): `specMatmul a false b false none`.  Left closure (`linEntry_matmul_left` with the flags
    the code passes for an untransposed pair): `specMatmul x false b true none`.  For every well-formed
    `a : [m,k]`, every `b : [k,n]` and every delta `x : [m,n]`, over a commutative ring: `⟨a·b, x⟩ = ⟨a, x·bᵀ⟩`.
    PARTIAL: rank-2 operands, untransposed flags; batch dimensions and the other three flag pairs rest on the
    kernel identity (`C02_matmul_kernel_is_transpose_*`) plus index bookkeeping not yet done. -/
theorem C02_matmul2d_left_closure_is_transpose [AddLaws S] [MulLaws S] [CommLaws S] (a b x : Tensor S) (m k n : Nat)
    (ha : a.dims = [m, k]) (hb : b.dims = [k, n]) (hx : x.dims = [m, n]) (hwa : a.WF) (hwx : x.WF) :
    dot (specMatmul a false b false none).vals x.vals = dot a.vals (specMatmul x false b true none).vals :=
  matmul2d_adjoint_left a b x m k n ha hb hx hwa hwx

/-- **right closure**: `⟨a·b, x⟩ = ⟨b, aᵀ·x⟩` with the closure's product `specMatmul a true x false none`. -/
theorem C02_matmul2d_right_closure_is_transpose [AddLaws S] [MulLaws S] [CommLaws S] (a b x : Tensor S) (m k n : Nat)
    (ha : a.dims = [m, k]) (hb : b.dims = [k, n]) (hx : x.dims = [m, n]) (hwb : b.WF) (hwx : x.WF) :
    dot (specMatmul a false b false none).vals x.vals = dot b.vals (specMatmul a true x false none).vals :=
  matmul2d_adjoint_right a b x m k n ha hb hx hwb hwx

/-- non-vacuity: a 2×3 by 3×2 product with a 2×2 delta meets the hypotheses -/
example : (⟨[2, 3], [1, 2, 3, 4, 5, 6]⟩ : Tensor ℝ).WF ∧ (⟨[2, 2], [1, 0, 0, 1]⟩ : Tensor ℝ).WF := by
  refine ⟨⟨?_, ?_⟩, ⟨?_, ?_⟩⟩ <;> simp [prod]

/-- **convolution, first stage (`unroll_blocks`): the closure is the transpose of the forward map**, per
    image and with overlapping windows.  Forward slice operation (`unrollOp`, the one `unrollBlocks` runs on
    every image): a gather through `unrollIdx`.  Closure slice operation (`rollOp true`, the one the stored
    closure runs through `rollBlocks … true`): a scatter-add through `rollIdx`.  Whenever both return, over a
    commutative ring, `⟨unroll(img), xs⟩ = ⟨img, roll(xs)⟩`.  PARTIAL: per image slice (the batch loop
    `slicedOp` is not lifted) and for this stage only (`expand_conv`'s permutation and the product in between
    are the matmul / reshape cases). -/
theorem C02_unroll_closure_is_transpose [AddLaws S] [MulLaws S] [CommLaws S]
    (depth rows cols sr sc fr fc count cCount : Nat) (img xs U B : List S)
    (himg : img.length = depth * rows * cols) (hxs : xs.length = count * (fr * fc) * depth)
    (hin : ∀ o, o < count * (fr * fc) * depth → unrollIdx cols rows depth sr sc fr fc cCount o < depth * rows * cols)
    (hU : unrollOp cols rows depth sr sc fr fc cCount (count * (fr * fc) * depth) [img] = .ok U)
    (hB : rollOp true depth rows cols sr sc fr fc count cCount [xs] = .ok B) :
    dot U xs = dot img B :=
  unroll_roll_slice_adjoint depth rows cols sr sc fr fc count cCount img xs U B himg hxs hin hU hB

/-- the read position of `unroll_blocks` and the write position of `roll_blocks` are the same function -/
theorem C02_unroll_roll_same_index (cols rows depth sr sc fr fc cCount o : Nat) :
    unrollIdx cols rows depth sr sc fr fc cCount o = rollIdx depth rows cols sr sc fr fc cCount o :=
  unrollIdx_eq_rollIdx cols rows depth sr sc fr fc cCount o

/-- non-vacuity: a 1×1×3 image, 1×2 filter, stride 1 (two overlapping windows) meets every hypothesis -/
example : ∃ U B : List ℝ,
    (∀ o, o < 2 * (1 * 2) * 1 → unrollIdx 3 1 1 1 1 1 2 2 o < 1 * 1 * 3) ∧
    unrollOp 3 1 1 1 1 1 2 2 (2 * (1 * 2) * 1) [([1, 2, 3] : List ℝ)] = .ok U ∧
    rollOp true 1 1 3 1 1 1 2 2 2 [([1, 1, 1, 1] : List ℝ)] = .ok B := by
  have hin : ∀ o, o < 2 * (1 * 2) * 1 → unrollIdx 3 1 1 1 1 1 2 2 o < 1 * 1 * 3 := by
    intro o ho
    have : o = 0 ∨ o = 1 ∨ o = 2 ∨ o = 3 := by omega
    rcases this with rfl | rfl | rfl | rfl <;> decide
  refine ⟨[1, 2, 2, 3], rollPure (rollIdx 1 1 3 1 1 1 2 2) [1, 1, 1, 1] 0 (List.replicate (1 * 1 * 3) zero), hin, ?_, ?_⟩
  · simp [unrollOp, tabulateM, getR, unrollIdx, bind, Except.bind, pure, Except.pure]
  · rw [rollOp]
    simp only [List.length_cons, List.length_nil]
    rw [if_neg (by decide), List.take_of_length_le (by simp), rollLoop_ok]
    intro i hi
    rw [List.length_replicate, Nat.zero_add, ← unrollIdx_eq_rollIdx]
    exact hin i (by simpa using hi)

/-- **convolution, last stage (`expand_conv`): the closure is the transpose of the forward map**, for every
    batch size.  Forward: `expandConv` (per image, `[windows, filters]` to `[filters, rows, cols]`); closure:
    `expandConvBack` on the operand's dimensions (what the stored closure of an `.expand` node runs).  Whenever
    both return, over a commutative ring, `⟨expand(t), x⟩ = ⟨t, back(x)⟩`. -/
theorem C02_expand_closure_is_transpose [AddLaws S] [MulLaws S] [CommLaws S] (t x out back : Tensor S)
    (lead : List Nat) (nImg stride filters r c : Nat)
    (hd : t.dims = lead ++ [stride, filters]) (hp : prod t.dims = nImg * (stride * filters)) (hwf : prod t.dims = t.vals.length)
    (hx : x.vals.length = nImg * (stride * filters))
    (hf : expandConv t r c = .ok out) (hb : expandConvBack x t.dims = .ok back) :
    dot out.vals x.vals = dot t.vals back.vals :=
  expandConv_closure_adjoint t x out back lead nImg stride filters r c hd hp hwf hx hf hb

/-- non-vacuity: two images of 2 windows × 3 filters meet the hypotheses and both operations return -/
example : ∃ out back : Tensor Nat,
    expandConv (⟨[2, 2, 3], [1, 2, 3, 4, 5, 6, 7, 8, 9, 10, 11, 12]⟩ : Tensor Nat) 1 2 = .ok out ∧
    expandConvBack (⟨[2, 3, 1, 2], [1, 0, 0, 1, 0, 0, 2, 0, 0, 0, 0, 3]⟩ : Tensor Nat) [2, 2, 3] = .ok back ∧
    out.vals = [1, 4, 2, 5, 3, 6, 7, 10, 8, 11, 9, 12] := by
  refine ⟨_, _, rfl, rfl, rfl⟩

/-- **`unroll_blocks`, every admissible shape, nothing assumed about success**: for an image of `D×R×C`
    values, a window `fr×fc` that fits (the shapes `conv` accepts) and any strides, both slice operations return
    and `⟨unroll(img), xs⟩ = ⟨img, roll(xs)⟩` for every delta of the unrolled length. -/
theorem C02_unroll_closure_is_transpose_total [AddLaws S] [MulLaws S] [CommLaws S] (D R C sr sc fr fc : Nat) (img xs : List S)
    (hfr : fr ≤ R) (hfc : fc ≤ C) (hfr1 : 1 ≤ fr) (hfc1 : 1 ≤ fc) (hD : 1 ≤ D)
    (himg : img.length = D * R * C)
    (hxs : xs.length = (((R - fr) / sr + 1) * ((C - fc) / sc + 1)) * (fr * fc) * D) :
    ∃ U B : List S,
      unrollOp C R D sr sc fr fc ((C - fc) / sc + 1) ((((R - fr) / sr + 1) * ((C - fc) / sc + 1)) * (fr * fc) * D) [img] = .ok U ∧
      rollOp true D R C sr sc fr fc (((R - fr) / sr + 1) * ((C - fc) / sc + 1)) ((C - fc) / sc + 1) [xs] = .ok B ∧
      dot U xs = dot img B :=
  unroll_roll_slice_adjoint_total D R C sr sc fr fc img xs hfr hfc hfr1 hfc1 hD himg hxs

/-- **convolution, first stage, whole batch: the stored closure's operation is the transpose of `unroll_blocks`.**
    For every image batch `a : B ++ [D, R, C]` (any batch dimensions), every window that fits, all strides and
    every delta `x` of the unrolled shape: both `unrollBlocks` and the closure's `rollBlocks … true` return, the
    result has the operand's dimensions, and `⟨unroll_blocks(a), x⟩ = ⟨a, roll_blocks(x)⟩` over a commutative
    ring — overlapping windows accumulate, windows a stride skips receive nothing. -/
theorem C02_unroll_blocks_closure_is_transpose [AddLaws S] [MulLaws S] [CommLaws S] (a x : Tensor S) (B : List Nat)
    (D R C sr sc fr fc : Nat) (hda : a.dims = B ++ [D, R, C]) (hwa : a.WF)
    (hfr : fr ≤ R) (hfc : fc ≤ C) (hfr1 : 1 ≤ fr) (hfc1 : 1 ≤ fc) (hsr : 1 ≤ sr) (hsc : 1 ≤ sc)
    (hx : Shaped (B ++ [((R - fr) / sr + 1) * ((C - fc) / sc + 1), D * (fr * fc)]) x) :
    ∃ U back : Tensor S, unrollBlocks a sr sc fr fc = .ok U ∧ rollBlocks x D R C sr sc fr fc true = .ok back ∧
      back.dims = a.dims ∧ dot U.vals x.vals = dot a.vals back.vals :=
  unrollBlocks_closure_adjoint a x B D R C sr sc fr fc hda hwa hfr hfc hfr1 hfc1 hsr hsc hx

/-- non-vacuity: a batch of two 1×2×3 images, a 1×2 window, strides 1 -/
example : (⟨[2, 1, 2, 3], [1, 2, 3, 4, 5, 6, 7, 8, 9, 10, 11, 12]⟩ : Tensor ℝ).WF ∧
    Shaped ([2] ++ [((2 - 1) / 1 + 1) * ((3 - 2) / 1 + 1), 1 * (1 * 2)])
      (⟨[2, 4, 2], [1, 0, 0, 1, 1, 0, 0, 1, 1, 0, 0, 1, 1, 0, 0, 1]⟩ : Tensor ℝ) := by
  refine ⟨⟨?_, ?_⟩, ?_, ?_⟩ <;> simp [prod]

/-- **`matmul` with the second operand transposed (the product `conv` forms with the reshaped filters): the left
    closure is the transpose of the forward map.**  For `a : [m,k]`, `b : [n,k]` and a delta `x : [m,n]`:
    `⟨a·bᵀ, x⟩ = ⟨a, x·b⟩`, the right-hand product being `specMatmul x false b false none`, the one the left
    closure forms under the flags the code passes for this pair. -/
theorem C02_matmul2d_FT_left_closure_is_transpose [AddLaws S] [MulLaws S] [CommLaws S] (a b x : Tensor S) (m k n : Nat)
    (ha : a.dims = [m, k]) (hb : b.dims = [n, k]) (hx : x.dims = [m, n]) (hwa : a.WF) (hwx : x.WF) :
    dot (specMatmul a false b true none).vals x.vals = dot a.vals (specMatmul x false b false none).vals :=
  matmul2d_FT_adjoint_left a b x m k n ha hb hx hwa hwx

/-- **`a · bᵀ`, right closure** (the filters' side of `conv`'s product): for `a : [m,k]`, `b : [n,k]`, delta
    `x : [m,n]`: `⟨a·bᵀ, x⟩ = ⟨b, xᵀ·a⟩`, the right-hand product being `specMatmul x true a false none`. -/
theorem C02_matmul2d_FT_right_closure_is_transpose [AddLaws S] [MulLaws S] [CommLaws S] (a b x : Tensor S) (m k n : Nat)
    (ha : a.dims = [m, k]) (hb : b.dims = [n, k]) (hx : x.dims = [m, n]) (hwb : b.WF) (hwx : x.WF) :
    dot (specMatmul a false b true none).vals x.vals = dot b.vals (specMatmul x true a false none).vals :=
  matmul2d_FT_adjoint_right a b x m k n ha hb hx hwb hwx

/-- **`aᵀ · b`, left closure**: for `a : [k,m]`, `b : [k,n]`, delta `x : [m,n]`: `⟨aᵀ·b, x⟩ = ⟨a, b·xᵀ⟩`, the
    right-hand product being `specMatmul b false x true none` (in `a`'s own `[k,m]` layout). -/
theorem C02_matmul2d_TF_left_closure_is_transpose [AddLaws S] [MulLaws S] [CommLaws S] (a b x : Tensor S) (m k n : Nat)
    (ha : a.dims = [k, m]) (hb : b.dims = [k, n]) (hx : x.dims = [m, n]) (hwa : a.WF) (hwx : x.WF) :
    dot (specMatmul a true b false none).vals x.vals = dot a.vals (specMatmul b false x true none).vals :=
  matmul2d_TF_adjoint_left a b x m k n ha hb hx hwa hwx

end Corgi

#print axioms Corgi.exHeap_shapeOK
#print axioms Corgi.C02_sum_closure_is_transpose
#print axioms Corgi.C02_reshape_closure_is_transpose
#print axioms Corgi.C02_matmul_kernel_is_transpose_left
#print axioms Corgi.C02_matmul_kernel_is_transpose_right
#print axioms Corgi.C02_matmul2d_left_closure_is_transpose
#print axioms Corgi.C02_matmul2d_right_closure_is_transpose
#print axioms Corgi.C02_unroll_closure_is_transpose
#print axioms Corgi.C02_unroll_roll_same_index
#print axioms Corgi.C02_expand_closure_is_transpose
#print axioms Corgi.C02_unroll_closure_is_transpose_total
#print axioms Corgi.C02_unroll_blocks_closure_is_transpose
#print axioms Corgi.C02_matmul2d_FT_left_closure_is_transpose
#print axioms Corgi.C02_matmul2d_FT_right_closure_is_transpose
#print axioms Corgi.C02_matmul2d_TF_left_closure_is_transpose
