/-
  C17 — Gradients are linear in the seed; an omitted seed means all ones.
-/
import CorgiModel.Program

set_option linter.unusedSectionVars false

namespace Corgi
variable {S : Type} [Add S] [Mul S] [Neg S] [Sub S] [ScalarOps S] [BEq S]

/-- An omitted seed is a seed of ones of the handle's dimensions: the two calls are the same
    computation from the first step on. -/
theorem C17_default (G : Graph S) (fuel n : Nat) (dims : List Nat) (keep : Bool) (σ : EState S)
    (ones : Tensor S) (h : Tensor.mk? dims (List.replicate (prod dims) (one : S)) = .ok ones) :
    backward G fuel n dims keep none σ = backward G fuel n dims keep (some ones) σ := by
  unfold backward
  cases σ.delta n with
  | some _ => rfl
  | none => simp [seedOrOnes, h, bind, Except.bind, pure, Except.pure]

/-- …and the ones tensor exists for every well-formed shape. -/
theorem C17_ones_exists (dims : List Nat) (hpos : ∀ d ∈ dims, 1 ≤ d) :
    Tensor.mk? dims (List.replicate (prod dims) (one : S)) = .ok ⟨dims, List.replicate (prod dims) one⟩ := by
  unfold Tensor.mk?
  have : dims.all (fun d => decide (1 ≤ d)) = true := by simpa using hpos
  simp [this, pure, Except.pure]

end Corgi

#print axioms Corgi.C17_default
#print axioms Corgi.C17_ones_exists
