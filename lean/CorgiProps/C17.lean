/-
  C17 — Gradients are linear in the seed; an omitted seed means all ones.
-/
import CorgiProofs.PathSum
import CorgiProofs.Instances
import CorgiProofs.ShapeCheckSound

set_option linter.unusedSectionVars false

namespace Corgi
variable {S : Type} [Add S] [Mul S] [Neg S] [Sub S] [ScalarOps S] [BEq S]

/-- An omitted seed is a seed of ones of the handle's dimensions: the two calls are the same
    computation from the first step on. -/
theorem C17_default (G : Graph S) (fuel n : Nat) (dims : List Nat) (keep : Bool) (σ : EState S)
    (ones : Tensor S) (h : Tensor.mk? dims (List.replicate (prod dims) (one : S)) = .ok ones) :
    backward G fuel n dims keep none σ = backward G fuel n dims keep (some ones) σ := by
  unfold backward
  cases σ.delta n with
  | some _ => rfl
  | none => simp [seedOrOnes, h, bind, Except.bind, pure, Except.pure]

/-- …and the ones tensor exists for every well-formed shape. -/
theorem C17_ones_exists (dims : List Nat) (hpos : ∀ d ∈ dims, 1 ≤ d) :
    Tensor.mk? dims (List.replicate (prod dims) (one : S)) = .ok ⟨dims, List.replicate (prod dims) one⟩ := by
  unfold Tensor.mk?
  have : dims.all (fun d => decide (1 ≤ d)) = true := by simpa using hpos
  simp [this, pure, Except.pure]

/-- **Additivity in the seed.**  The change of every gradient coordinate produced with the seed
    `s₁ + s₂` is the sum of the changes produced with `s₁` and with `s₂` (three passes from the same
    clean state over the same graph). -/
theorem C17_additive [AddLaws S] {G : Graph S} (sem : Sem G) (wf : G.WF) (lawful : G.Lawful)
    (ℓ j fuel root : Nat) (hkeep : ∀ n s, s ∈ G.kids n → s.tracked = true → s.node = ℓ → ((G.kids ℓ).isEmpty || s.keep) = stores sem ℓ)
    (hf : root < fuel) (dims : List Nat) (σ σ₁ σ₂ σ₃ : EState S)
    (hclean : σ.Clean) (hlog : σ.log = []) (hg : ∀ g, σ.grad ℓ = some g → Shaped (sem.dimsOf ℓ) g)
    (s₁ s₂ : Tensor S) (h₁ : Shaped (sem.dimsOf root) s₁) (h₂ : Shaped (sem.dimsOf root) s₂)
    (ok₁ : backward G fuel root dims (sem.κ root) (some s₁) σ = .ok σ₁)
    (ok₂ : backward G fuel root dims (sem.κ root) (some s₂) σ = .ok σ₂)
    (ok₃ : backward G fuel root dims (sem.κ root) (some (tadd s₁ s₂)) σ = .ok σ₃) :
    gradVal ℓ j σ₃ = gradVal ℓ j σ + (P sem ℓ j root s₁ + P sem ℓ j root s₂) ∧
    gradVal ℓ j σ₁ = gradVal ℓ j σ + P sem ℓ j root s₁ ∧
    gradVal ℓ j σ₂ = gradVal ℓ j σ + P sem ℓ j root s₂ := by
  have e₁ := (backward_pathsum sem ℓ j wf hkeep lawful fuel root hf dims (some s₁) σ σ₁ hclean hlog hg s₁ rfl h₁ ok₁).1
  have e₂ := (backward_pathsum sem ℓ j wf hkeep lawful fuel root hf dims (some s₂) σ σ₂ hclean hlog hg s₂ rfl h₂ ok₂).1
  have e₃ := (backward_pathsum sem ℓ j wf hkeep lawful fuel root hf dims (some (tadd s₁ s₂)) σ σ₃ hclean hlog hg _ rfl
    (h₁.tadd h₂) ok₃).1
  rw [P_add sem ℓ j root s₁ s₂ h₁ h₂] at e₃
  exact ⟨e₃, e₁, e₂⟩

/-- **Homogeneity.**  If every operation's contribution commutes with scaling by `α` (true of every
    built-in closure over a commutative ring: they are linear in the delta), the change produced with
    the seed `α·s` is `α` times the change produced with `s`. -/
theorem C17_homogeneous [AddLaws S] {G : Graph S} (sem : Sem G) (wf : G.WF) (lawful : G.Lawful)
    (ℓ j fuel root : Nat) (hkeep : ∀ n s, s ∈ G.kids n → s.tracked = true → s.node = ℓ → ((G.kids ℓ).isEmpty || s.keep) = stores sem ℓ)
    (hf : root < fuel) (dims : List Nat) (σ σ' : EState S)
    (hclean : σ.Clean) (hlog : σ.log = []) (hg : ∀ g, σ.grad ℓ = some g → Shaped (sem.dimsOf ℓ) g)
    (α : S) (hα0 : α * zero = zero) (hdist : ∀ a b : S, α * (a + b) = α * a + α * b)
    (hΛ : ∀ n i s x, (G.kids n)[i]? = some s → Shaped (sem.dimsOf n) x → sem.Λ n i (tsmul α x) = tsmul α (sem.Λ n i x))
    (s : Tensor S) (hs : Shaped (sem.dimsOf root) s)
    (ok : backward G fuel root dims (sem.κ root) (some (tsmul α s)) σ = .ok σ') :
    gradVal ℓ j σ' = gradVal ℓ j σ + α * P sem ℓ j root s := by
  have e := (backward_pathsum sem ℓ j wf hkeep lawful fuel root hf dims (some (tsmul α s)) σ σ' hclean hlog hg _ rfl
    (hs.tsmul α) ok).1
  rw [e]
  congr 1
  exact Pf_smul sem ℓ j α hα0 hdist hΛ (root + 1) root s hs

/-! non-vacuity: the hypotheses are satisfiable — a graph with 2^n paths, with its `Sem` -/
example : chain2.WF ∧ chain2.Lawful := ⟨chain2_wf, chain2_lawful⟩
example : Shaped (chain2Sem.dimsOf 3) (⟨[1], [5]⟩ : Tensor Int) := ⟨rfl, rfl⟩

/-- **Additivity in the seed, of the stored closures themselves.**  In any good state that passes the
    shape check (`ShapeOK`; see C01), for the gradient of any leaf `ℓ`: the change produced by a pass from
    `root` with the seed `s₁ + s₂` is the sum of the changes produced with `s₁` and with `s₂` — with no
    assumption about the operations: every built-in closure was proved additive (`vjp_lin`). -/
theorem C17_additive_stored_closures [AddLaws S] [MulLaws S] [CommLaws S] {σ : State S} (g : Good σ) (hs : ShapeOK σ)
    (ℓ j root : Nat) (hleaf : σ.graph.kids ℓ = []) (hroot : root < σ.nodes.size) (dims : List Nat) (keep : Bool)
    (hg : ∀ t, σ.estate.grad ℓ = some t → Shaped (σ.dimsOf ℓ) t)
    (s₁ s₂ : Tensor S) (h₁ : Shaped (σ.dimsOf root) s₁) (h₂ : Shaped (σ.dimsOf root) s₂) (e₁ e₂ e₃ : EState S)
    (ok₁ : backward σ.graph (σ.nodes.size + 1) root dims keep (some s₁) σ.estate = .ok e₁)
    (ok₂ : backward σ.graph (σ.nodes.size + 1) root dims keep (some s₂) σ.estate = .ok e₂)
    (ok₃ : backward σ.graph (σ.nodes.size + 1) root dims keep (some (tadd s₁ s₂)) σ.estate = .ok e₃) :
    gradVal ℓ j e₃ = gradVal ℓ j σ.estate
        + (P (σ.sem (fun _ => keep) g.heap hs) ℓ j root s₁ + P (σ.sem (fun _ => keep) g.heap hs) ℓ j root s₂) ∧
    gradVal ℓ j e₁ = gradVal ℓ j σ.estate + P (σ.sem (fun _ => keep) g.heap hs) ℓ j root s₁ ∧
    gradVal ℓ j e₂ = gradVal ℓ j σ.estate + P (σ.sem (fun _ => keep) g.heap hs) ℓ j root s₂ :=
  C17_additive (σ.sem (fun _ => keep) g.heap hs) (graph_wf σ g.heap) (graph_lawful σ g.heap) ℓ j (σ.nodes.size + 1) root
    (fun n s _ _ _ => by simp [stores, hleaf]) (by omega) dims σ.estate e₁ e₂ e₃ (estate_clean σ g.heap) rfl hg
    s₁ s₂ h₁ h₂ ok₁ ok₂ ok₃

/-- **Homogeneity in the seed, of the stored closures themselves**: over a commutative ring every built-in
    closure commutes with scaling the delta (`vjp_lin`, second half), so in every good state passing the
    shape check the change produced with the seed `α·s` is `α` times the change produced with `s` — the
    hypothesis `hΛ` of `C17_homogeneous` is discharged.  With `C17_additive_stored_closures`: the gradient
    is **linear in the seed**. -/
theorem C17_homogeneous_stored_closures [AddLaws S] [MulLaws S] [CommLaws S] {σ : State S} (g : Good σ) (hs : ShapeOK σ)
    (ℓ j root : Nat) (hleaf : σ.graph.kids ℓ = []) (hroot : root < σ.nodes.size) (dims : List Nat) (keep : Bool)
    (hg : ∀ t, σ.estate.grad ℓ = some t → Shaped (σ.dimsOf ℓ) t)
    (α : S) (s : Tensor S) (h : Shaped (σ.dimsOf root) s) (e : EState S)
    (ok : backward σ.graph (σ.nodes.size + 1) root dims keep (some (tsmul α s)) σ.estate = .ok e) :
    gradVal ℓ j e = gradVal ℓ j σ.estate + α * P (σ.sem (fun _ => keep) g.heap hs) ℓ j root s :=
  C17_homogeneous (σ.sem (fun _ => keep) g.heap hs) (graph_wf σ g.heap) (graph_lawful σ g.heap) ℓ j (σ.nodes.size + 1) root
    (fun n s _ _ _ => by simp [stores, hleaf]) (by omega) dims σ.estate e (estate_clean σ g.heap) rfl hg
    α (CommLaws.mul_zero α) (MulLaws.left_distrib α)
    (fun n i sl x hk hx => σ.sem_smul (fun _ => keep) g.heap hs α n i sl x hk hx) s h ok

end Corgi

#print axioms Corgi.C17_default
#print axioms Corgi.C17_ones_exists
#print axioms Corgi.C17_additive
#print axioms Corgi.C17_homogeneous
#print axioms Corgi.C17_additive_stored_closures
#print axioms Corgi.C17_homogeneous_stored_closures
