/-
  C11 — One pass evaluates each node's derivative once, with its complete adjoint.
  (Counting half; the "complete adjoint" half is the path-sum theorem of C01.)
-/
import CorgiProofs.EngineTop
import CorgiProofs.Reachable

set_option linter.unusedSectionVars false

namespace Corgi
variable {S : Type} [Add S] [Mul S] [Neg S] [Sub S] [ScalarOps S] [BEq S]

/-- **Exactly once.**  For every graph whose stored operands are older than their consumer (any
    fan-out, diamonds, self-products, depth) and lawful closures: a pass that completes from a clean
    state enters a node if and only if it is reachable from the root through tracked operands, and
    enters it once (the log has no duplicates).  The closure of a node is invoked on entry. -/
theorem C11_once (G : Graph S) (wf : G.WF) (lawful : G.Lawful) (fuel root : Nat) (hf : root < fuel)
    (dims : List Nat) (keep : Bool) (seed : Option (Tensor S)) (σ σ' : EState S)
    (hclean : σ.Clean) (hlog : σ.log = []) (hok : backward G fuel root dims keep seed σ = .ok σ') :
    (logN σ').Nodup ∧ ∀ m, m ∈ logN σ' ↔ Reach G root m :=
  let h := backward_counts G wf lawful fuel root hf dims keep seed σ σ' hclean hlog hok
  ⟨h.2.1, h.2.2.1⟩

/-- **Only after all consumers.**  Every node is entered after every reachable node that holds a
    tracked operand slot pointing to it (the log lists the most recent entry first). -/
theorem C11_after (G : Graph S) (wf : G.WF) (lawful : G.Lawful) (fuel root : Nat) (hf : root < fuel)
    (dims : List Nat) (keep : Bool) (seed : Option (Tensor S)) (σ σ' : EState S)
    (hclean : σ.Clean) (hlog : σ.log = []) (hok : backward G fuel root dims keep seed σ = .ok σ') :
    LogOrder G root (logN σ') :=
  (backward_counts G wf lawful fuel root hf dims keep seed σ σ' hclean hlog hok).2.2.2

/-- **Work is linear.**  The number of node entries is the number of distinct reachable nodes, whatever
    the number of paths. -/
theorem C11_linear_work (G : Graph S) (wf : G.WF) (lawful : G.Lawful) (fuel root : Nat) (hf : root < fuel)
    (dims : List Nat) (keep : Bool) (seed : Option (Tensor S)) (σ σ' : EState S)
    (hclean : σ.Clean) (hlog : σ.log = []) (hok : backward G fuel root dims keep seed σ = .ok σ')
    (nodes : List Nat) (hnd : nodes.Nodup) (hall : ∀ m, m ∈ nodes ↔ Reach G root m) :
    σ'.log.length = nodes.length := by
  obtain ⟨h1, h2⟩ := C11_once G wf lawful fuel root hf dims keep seed σ σ' hclean hlog hok
  have hp : (logN σ').Perm nodes := (List.perm_ext_iff_of_nodup h1 hnd).mpr (fun m => by rw [h2 m, hall m])
  have := hp.length_eq
  simpa [logN] using this

/-! non-vacuity: a self-product chain `y₁ = x·x, y₂ = y₁·y₁` is a well-founded graph with lawful
    closures, and the pass completes on it -/
def chainG : Graph Int where
  kids := fun n => if n = 0 then [] else [⟨n - 1, [1], true, true⟩, ⟨n - 1, [1], true, true⟩]
  vjp := fun n => if n = 0 then none else some (fun _ x => pure [some x, some x])

example : chainG.WF := by
  intro n s hs
  simp only [chainG] at hs
  split at hs
  · simp at hs
  · simp at hs; rcases hs with rfl | rfl <;> simp <;> omega

example : chainG.Lawful := by
  intro n cl x ds hv hcl
  simp only [chainG] at hv hcl ⊢
  split at hv
  · simp at hv
  · simp at hv; subst hv
    rename_i hn
    simp [hn, pure, Except.pure] at hcl ⊢
    subst hcl; simp


/-- **Exactly once, consumers first, in every reachable state.**  In the state after any history of
    commands, a completed pass on any bound array `v` with any seed entered exactly the nodes reachable
    from it through tracked stored operands, each exactly once, each only after all its consumers —
    with no assumption on the graph: the recorded graph of a reachable state is always well-founded
    with lawful closures (`graph_wf`, `graph_lawful`), and the engine state always clean. -/
theorem C11_once_reachable {σ σ' : State S} (hr : Reachable σ) (v : String) (h : Handle)
    (seed : Option (Tensor S)) (hg : σ.get v = .ok h) (hok : σ.backward h seed = .ok σ') :
    ∃ e : EState S, σ' = σ.withEState e ∧
      (logN e).Nodup ∧ (∀ m, m ∈ logN e ↔ Reach σ.graph h.node m) ∧ LogOrder σ.graph h.node (logN e) ∧
      σ'.lastLog.map (·.1) = (logN e).reverse := by
  obtain ⟨e, _, he, _, _, _, h1, h2, h3⟩ := good_backward_counts hr.good (get_valid hr.good.roots hg) seed hok
  exact ⟨e, he, h1, h2, h3, by rw [he]; exact lastLog_nodes σ e⟩

end Corgi

#print axioms Corgi.C11_once
#print axioms Corgi.C11_after
#print axioms Corgi.C11_linear_work
#print axioms Corgi.C11_once_reachable
