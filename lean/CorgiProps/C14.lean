/-
  C14 — Each training iteration steps parameters along the true current-loss gradient.
  (Composition lemmas; the per-iteration value claim is decided on every run against the forward-mode
  reference and the per-parameter SGD formula, see DESIGN.md §8.)
-/
import CorgiProofs.EngineTop
import CorgiModel.Step
import CorgiProofs.Reachable

set_option linter.unusedSectionVars false

namespace Corgi
variable {S : Type} [Add S] [Mul S] [Neg S] [Sub S] [ScalarOps S] [BEq S]

/-- The backward pass of an iteration starts from a clean engine state and ends in one: whatever
    happened in earlier iterations, no counter or pending delta of theirs is left for the next
    pass to see (so the gradient of iteration `t` is a function of the graph of iteration `t` only,
    by C10/C01). -/
theorem C14_no_leak (G : Graph S) (wf : G.WF) (lawful : G.Lawful) (fuel root : Nat) (hf : root < fuel)
    (dims : List Nat) (keep : Bool) (σ σ' : EState S) (hclean : σ.Clean) (hlog : σ.log = [])
    (hok : backward G fuel root dims keep none σ = .ok σ') : σ'.Clean :=
  (backward_counts G wf lawful fuel root hf dims keep none σ σ' hclean hlog hok).1

/-- After `update`, every parameter that held a gradient is a **fresh leaf**: a new buffer, a new
    node with no stored operands, tracked, and with no gradient — nothing of the previous
    iteration's graph is reachable from it. -/
theorem C14_fresh_parameter (σ : State S) (t : Tensor S) :
    let r := σ.alloc t [] none false
    (r.1.nodes[r.2.node]?).map (·.kids) = some [] ∧ r.1.grad.size = σ.grad.size + 1 ∧ r.1.grad.back? = some none ∧
      r.2.buf = σ.bufs.size := by
  simp [State.alloc]


/-- **No leak across iterations, for every training history**: after any sequence of `fwd`, `bwd`,
    `update` (and any other) commands, the engine state the next iteration starts from is clean. -/
theorem C14_no_leak_reachable (cs : List (Cmd S)) :
    (∀ i, (run cs ({} : State S)).cnt.getD i 0 = 0) ∧ (∀ i, (run cs ({} : State S)).delta.getD i none = none) :=
  (reachable_good cs).heap.clean


/-- **`update` is one gradient-descent step on exactly the model's parameters**: the command is the
    optimizer update (C13: per parameter `old − lr·gradient`, gradients taken, frozen parameters
    untouched) applied, with the model's learning rate, to the parameters of the model's layers in
    order, which are then put back into the layers. -/
theorem C14_update_unfold (σ : State S) (m : String) (mr : ModelRec S) (h : lookup σ.models m = some mr) :
    exec σ (.update m) = (gdUpdate σ mr.lr (modelParams σ mr.layers)).bind (fun r =>
      .ok (putParams r.1 mr.layers r.2, .params (r.2.map (fun h => (r.1.tensorOf h, r.1.grad.getD h.node none))))) := by
  simp only [exec, h, bind, Except.bind, pure, Except.pure]

/-- **`backward` of an iteration differentiates the cost of the current output against the target,
    from the default (all-ones) seed**: the command builds the cost node on the output recorded by the
    last forward pass and runs the pass from it with no explicit seed (C17: ones). -/
theorem C14_bwd_unfold (σ : State S) (m t : String) (mr : ModelRec S) (out target : Handle)
    (h : lookup σ.models m = some mr) (ho : mr.output = some out) (ht : σ.get t = .ok target) :
    exec σ (.bwd m t) = ((match mr.cost with | .mse => hMse σ out target | .xent => hXent σ out target).bind (fun r =>
      (r.1.backward r.2 none).bind (fun σ2 => .ok (σ2, .scalar (sumAll (σ2.tensorOf r.2)))))) := by
  simp only [exec, h, ho, ht, bind, Except.bind, pure, Except.pure]
  cases mr.cost <;> simp only [] <;> (first | (cases hMse σ out target <;> rfl) | (cases hXent σ out target <;> rfl))

end Corgi

#print axioms Corgi.C14_no_leak
#print axioms Corgi.C14_fresh_parameter
#print axioms Corgi.C14_no_leak_reachable
#print axioms Corgi.C14_update_unfold
#print axioms Corgi.C14_bwd_unfold
