/-
  C06 — Convolution equals the direct sliding-window definition.
  `C06_conv`: for every batch shape, depth, image / filter size, filter count and stride, `conv`
  returns exactly the sliding-window tensor `specConv` (over scalars whose addition is a commutative
  monoid — the flat dot product of the implementation is regrouped into the triple sum of the
  definition).  Refusals: `C06_refuse_rank`, `C06_refuse_size`.
-/
import CorgiModel.Ops
import CorgiSpec.Ops
import CorgiProofs.Conv
import CorgiProofs.Instances
import CorgiProofs.Composite
import CorgiProofs.ConvAt

set_option linter.unusedSectionVars false

namespace Corgi
variable {S : Type} [Add S] [Mul S] [Neg S] [Sub S] [ScalarOps S]

/-- fewer than three dimensions on either side is refused -/
theorem C06_refuse_rank (img flt : Tensor S) (sr sc : Nat)
    (h : img.dims.length < 3 ∨ flt.dims.length < 3) : ∃ p, conv img flt sr sc = .error p := by
  unfold conv convParams
  by_cases h0 : img.dims.length = 0
  · exact ⟨.underflow, by simp [h0, bind, Except.bind, throw, throwThe, MonadExceptOf.throw]⟩
  · have : (decide (img.dims.length ≥ 3) && decide (flt.dims.length ≥ 3)) = false := by
      rcases h with h | h <;> simp <;> omega
    exact ⟨.rank, by simp [h0, this, bind, Except.bind, throw, throwThe, MonadExceptOf.throw, pure, Except.pure]⟩

/-- a filter larger than the image, or a zero stride, is refused -/
theorem C06_refuse_size (l : List Nat) (depth rows cols : Nat) (fl : List Nat) (fd fr fc : Nat) (iv fv : List S)
    (sr sc : Nat) (h : rows < fr ∨ cols < fc ∨ sr = 0 ∨ sc = 0) :
    ∃ p, conv (⟨l ++ [depth, rows, cols], iv⟩ : Tensor S) ⟨fl ++ [fd, fr, fc], fv⟩ sr sc = .error p := by
  unfold conv convParams
  have e1 : (l ++ [depth, rows, cols]).length ≠ 0 := by simp
  have d3 : dimFromEnd (l ++ [depth, rows, cols]) 3 = .ok depth := by simp [dimFromEnd, getR, pure, Except.pure]
  have d2 : dimFromEnd (l ++ [depth, rows, cols]) 2 = .ok rows := by simp [dimFromEnd, getR, pure, Except.pure]
  have d1 : dimFromEnd (l ++ [depth, rows, cols]) 1 = .ok cols := by simp [dimFromEnd, getR, pure, Except.pure]
  have f2 : dimFromEnd (fl ++ [fd, fr, fc]) 2 = .ok fr := by simp [dimFromEnd, getR, pure, Except.pure]
  have f1 : dimFromEnd (fl ++ [fd, fr, fc]) 1 = .ok fc := by simp [dimFromEnd, getR, pure, Except.pure]
  have hr : (decide ((l ++ [depth, rows, cols]).length ≥ 3) && decide ((fl ++ [fd, fr, fc]).length ≥ 3)) = true := by simp
  simp only [e1, if_false, hr, Bool.not_true, Bool.false_eq_true, d3, d2, d1, f2, f1, bind, Except.bind, pure, Except.pure]
  by_cases h1 : (decide (rows < fr) || decide (cols < fc)) = true
  · exact ⟨.underflow, by simp [h1, throw, throwThe, MonadExceptOf.throw]⟩
  · have h2 : sr = 0 ∨ sc = 0 := by
      simp at h1
      rcases h with h | h | h | h
      · omega
      · omega
      · exact Or.inl h
      · exact Or.inr h
    exact ⟨.underflow, by simp [h1, h2, throw, throwThe, MonadExceptOf.throw]⟩

/-- Output size of the specification: `[batch…, count, (rows−frows)/sr+1, (cols−fcols)/sc+1]`. -/
theorem C06_spec_dims (batch : List Nat) (depth rows cols count fd fr fc sr sc : Nat) (iv fv : List S) :
    (specConv (⟨batch ++ [depth, rows, cols], iv⟩ : Tensor S) ⟨[count, fd, fr, fc], fv⟩ sr sc).dims
      = batch ++ [count, (rows - fr) / sr + 1, (cols - fc) / sc + 1] := by
  simp [specConv, Tensor.ofFn]


/-- **The value formula.**  Image `B ++ [D, R, C]` (any batch dimensions `B`, possibly none), filters
    `[K, D, fr, fc]`, both well-formed, `fr ≤ R`, `fc ≤ C`, strides ≥ 1: the result has dimensions
    `B ++ [K, (R−fr)/sr+1, (C−fc)/sc+1]` and entry
    `[b.., f, y, x] = Σ_k Σ_m Σ_n image[b.., k, y·sr+m, x·sc+n] · filter[f, k, m, n]` —
    overlapping and non-overlapping windows, uneven strides, every batch size alike. -/
theorem C06_conv [AddLaws S] (B : List Nat) (D R C K fr fc sr sc : Nat) (iv fv : List S)
    (hwi : (⟨B ++ [D, R, C], iv⟩ : Tensor S).WF) (hwf : (⟨[K, D, fr, fc], fv⟩ : Tensor S).WF)
    (hfr : fr ≤ R) (hfc : fc ≤ C) (hsr : 1 ≤ sr) (hsc : 1 ≤ sc) :
    conv (⟨B ++ [D, R, C], iv⟩ : Tensor S) ⟨[K, D, fr, fc], fv⟩ sr sc
      = .ok (specConv (⟨B ++ [D, R, C], iv⟩ : Tensor S) ⟨[K, D, fr, fc], fv⟩ sr sc) :=
  conv_spec B D R C K fr fc sr sc iv fv hwi hwf hfr hfc hsr hsc

/-- the im2col stage on its own, for any scalars: every window's patch, read from the image -/
theorem C06_unroll (B : List Nat) (D R C sr sc fr fc : Nat) (iv : List S)
    (hposB : ∀ d ∈ B, 1 ≤ d) (hD : 1 ≤ D) (hR : 1 ≤ R) (hC : 1 ≤ C)
    (hlen : iv.length = prod B * (D * R * C))
    (hfr : fr ≤ R) (hfc : fc ≤ C) (hfr1 : 1 ≤ fr) (hfc1 : 1 ≤ fc) (hsr : 1 ≤ sr) (hsc : 1 ≤ sc) :
    ∃ vals, unrollBlocks (⟨B ++ [D, R, C], iv⟩ : Tensor S) sr sc fr fc
      = .ok ⟨B ++ [((R - fr) / sr + 1) * ((C - fc) / sc + 1), D * (fr * fc)], vals⟩ :=
  ⟨_, unroll_flat B D R C sr sc fr fc iv hposB hD hR hC hlen hfr hfc hfr1 hfc1 hsr hsc⟩

/-! non-vacuity: a batched image with overlapping, unevenly strided windows over ℤ meets the hypotheses -/
example : (⟨[2] ++ [2, 4, 5], List.replicate 80 (1 : Int)⟩ : Tensor Int).WF ∧
    (⟨[3, 2, 2, 3], List.replicate 36 (1 : Int)⟩ : Tensor Int).WF ∧ 2 ≤ 4 ∧ 3 ≤ 5 := by
  refine ⟨⟨by decide, by decide⟩, ⟨by decide, by decide⟩, by decide, by decide⟩


/-- **The executed path.**  The `conv` command (and `Conv::forward`) runs a pipeline of four recorded
    nodes — im2col, a view of the filters, the matrix product, the per-image transposition.  Whenever
    that pipeline returns a handle, the array it denotes is the sliding-window tensor: the theorem above
    transfers to what the interpreter (and, through the correspondence check, the code) executes. -/
theorem C06_conv_executed [AddLaws S] [BEq S] (σ σ' : State S) (img flt r : Handle) (B : List Nat) (D R C K fr fc sr sc : Nat)
    (hdi : img.dims = B ++ [D, R, C]) (hdf : flt.dims = [K, D, fr, fc])
    (hwi : (σ.tensorOf img).WF) (hwf : (σ.tensorOf flt).WF) (hbuf : flt.buf < σ.bufs.size)
    (hfr : fr ≤ R) (hfc : fc ≤ C) (hsr : 1 ≤ sr) (hsc : 1 ≤ sc)
    (hok : hConv σ img flt sr sc = .ok (σ', r)) :
    σ'.tensorOf r = specConv (σ.tensorOf img) (σ.tensorOf flt) sr sc := by
  have h1 := (sound_hConv σ img flt sr sc hbuf σ' r hok).1
  have ei : σ.tensorOf img = ⟨B ++ [D, R, C], (σ.tensorOf img).vals⟩ := by simp [State.tensorOf, hdi]
  have ef : σ.tensorOf flt = ⟨[K, D, fr, fc], (σ.tensorOf flt).vals⟩ := by simp [State.tensorOf, hdf]
  rw [ei] at hwi
  rw [ef] at hwf
  rw [ei, ef] at h1 ⊢
  rw [conv_spec B D R C K fr fc sr sc _ _ hwi hwf hfr hfc hsr hsc] at h1
  simp only [Except.ok.injEq] at h1
  exact h1.symm

/-- **Single elements at any size.**  The `convat` command of the correspondence check (the implementation
    computes `image.conv(filters, strides)` and indexes it; the model evaluates only `convElem`, the triple sum
    of the definition at that index) compares the implementation with the model's own `conv`: for every valid
    configuration and every in-range index, indexing the model's `conv` result gives exactly `convElem`.  This
    carries the tie to image sizes (10^5 .. 10^6 elements) at which building the model's whole result is out of
    reach — where size-dependent code paths of an implementation live. -/
theorem C06_convat [AddLaws S] [BEq S] (img flt : Tensor S) (sr sc : Nat) (i : List Nat)
    (hv : convValidB img flt sr sc = true) (hi : inRange (convOutDims img flt sr sc) i = true) :
    ∃ t, conv img flt sr sc = .ok t ∧ t.index i = .ok (convElem img flt sr sc i) :=
  convat_spec img flt sr sc i hv hi

end Corgi

#print axioms Corgi.C06_convat
#print axioms Corgi.C06_refuse_rank
#print axioms Corgi.C06_refuse_size
#print axioms Corgi.C06_spec_dims
#print axioms Corgi.C06_conv
#print axioms Corgi.C06_unroll
#print axioms Corgi.C06_conv_executed
