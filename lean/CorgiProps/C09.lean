/-
  C09 — Tracking decides exactly where gradients are computed and stored.
-/
import CorgiProofs.EngineTop
import CorgiProofs.EngineFrame
import CorgiModel.Step
import CorgiProofs.Reachable
import CorgiProofs.Tracking

set_option linter.unusedSectionVars false

namespace Corgi
variable {S : Type} [Add S] [Mul S] [Neg S] [Sub S] [ScalarOps S] [BEq S]

/-- A freshly allocated result carries a graph iff `attach`; then both flags are set, otherwise
    none is and the new node stores no operand at all (it keeps no reference to them). -/
theorem alloc_flags (σ : State S) (t : Tensor S) (kids : List Handle) (tag : Option (OpTag S)) (attach : Bool)
    (label : String) :
    (σ.alloc t kids tag attach label).2.tracked = attach ∧ (σ.alloc t kids tag attach label).2.keep = attach ∧
    ((σ.alloc t kids tag attach label).1.nodes[(σ.alloc t kids tag attach label).2.node]?).map (·.kids)
      = some (if attach then kids else []) := by
  simp only [State.alloc]
  refine ⟨trivial, trivial, ?_⟩
  cases attach <;> simp

/-- **The iff rule**, for every element-wise operation: the result is tracked exactly when one of
    the operands is, and an untracked result stores no operand. -/
theorem C09_iff_ewise (tag : OpTag S) (f : Tensor S → Tensor S → R (Tensor S)) (σ σ' : State S)
    (a b r : Handle) (h : hEwise tag f σ a b = .ok (σ', r)) :
    r.tracked = (a.tracked || b.tracked) ∧ r.keep = r.tracked ∧
    (σ'.nodes[r.node]?).map (·.kids) = some (if r.tracked then [a, b] else []) := by
  simp only [hEwise, bind, Except.bind] at h
  cases hf : f (σ.tensorOf a) (σ.tensorOf b) with
  | error e => simp [hf] at h
  | ok t =>
    simp only [hf, pure, Except.pure] at h
    have := alloc_flags σ t [a, b] (some tag) (a.tracked || b.tracked) ""
    simp only [Except.ok.injEq] at h
    have e1 := congrArg Prod.fst h
    have e2 := congrArg Prod.snd h
    simp only at e1 e2
    subst e1 e2
    exact ⟨this.1, by rw [this.2.1, this.1], by rw [this.1]; exact this.2.2⟩

/-- …for every unary operation… -/
theorem C09_iff_unary (tag : OpTag S) (f : Tensor S → Tensor S) (σ σ' : State S) (a r : Handle)
    (h : hUnary tag f σ a = .ok (σ', r)) :
    r.tracked = a.tracked ∧ r.keep = r.tracked ∧
    (σ'.nodes[r.node]?).map (·.kids) = some (if r.tracked then [a] else []) := by
  simp only [hUnary, pure, Except.pure, Except.ok.injEq] at h
  have := alloc_flags σ (f (σ.tensorOf a)) [a] (some tag) a.tracked ""
  have e1 := congrArg Prod.fst h
  have e2 := congrArg Prod.snd h
  simp only at e1 e2
  subst e1 e2
  exact ⟨this.1, by rw [this.2.1, this.1], by rw [this.1]; exact this.2.2⟩

/-- …and for `matmul`, **including its additive term**. -/
theorem C09_iff_matmul (σ σ' : State S) (a b r : Handle) (ta tb : Bool) (c : Option Handle)
    (h : hMatmul σ a ta b tb c = .ok (σ', r)) :
    r.tracked = (a.tracked || b.tracked || (match c with | some c => c.tracked | none => false)) ∧
    r.keep = r.tracked := by
  simp only [hMatmul, bind, Except.bind] at h
  cases hm : matmul (σ.tensorOf a) ta (σ.tensorOf b) tb (c.map σ.tensorOf) with
  | error e => simp [hm] at h
  | ok t =>
    simp only [hm, pure, Except.pure] at h
    cases c <;> (simp only [State.alloc] at h; cases h; exact ⟨rfl, rfl⟩)

/-- **A pass stores gradients only where it entered**, and it enters only the root and nodes reached
    through operands that were tracked when they were used: nothing below an untracked stored
    operand is entered (`Reach` only follows tracked slots), and every other gradient cell is
    untouched. -/
theorem C09_only (G : Graph S) (wf : G.WF) (lawful : G.Lawful) (fuel root : Nat) (hf : root < fuel)
    (dims : List Nat) (keep : Bool) (seed : Option (Tensor S)) (σ σ' : EState S)
    (hclean : σ.Clean) (hlog : σ.log = []) (hok : backward G fuel root dims keep seed σ = .ok σ') :
    ∀ m, ¬ Reach G root m → σ'.grad m = σ.grad m := by
  intro m hm
  have hc := backward_counts G wf lawful fuel root hf dims keep seed σ σ' hclean hlog hok
  exact backward_frame G fuel root dims keep seed σ σ' hok m (fun hin => hm ((hc.2.2.1 m).mp hin))

/-- **The pass leaves every flag as it found it**: on the heap, `backward` changes neither the
    handles bound to names, nor the recorded nodes (whose stored operands carry the operand flags). -/
theorem C09_flags_kept (σ σ' : State S) (h : Handle) (seed : Option (Tensor S))
    (hok : σ.backward h seed = .ok σ') :
    σ'.env = σ.env ∧ σ'.nodes = σ.nodes ∧ σ'.bufs = σ.bufs ∧ σ'.layers = σ.layers := by
  simp only [State.backward, bind, Except.bind] at hok
  cases hb : Corgi.backward σ.graph (σ.nodes.size + 1) h.node h.dims h.keep seed σ.estate with
  | error e => simp [hb] at hok
  | ok e =>
    simp only [hb, pure, Except.pure] at hok
    cases hok
    exact ⟨rfl, rfl, rfl, rfl⟩

/-- **Setting a flag on a clone never changes the original**: a flag setter rebinds one name. -/
theorem C09_clone_local (σ σ' : State S) (v w : String) (tr keep : Option Bool) (h : Handle)
    (hne : w ≠ v) (hok : setFlags σ v tr keep = .ok (σ', h)) :
    lookup σ'.env w = lookup σ.env w := by
  simp only [setFlags, bind, Except.bind] at hok
  cases hg : σ.get v with
  | error e => simp [hg] at hok
  | ok hv =>
    simp only [hg, pure, Except.pure] at hok
    cases hok
    simp only [State.bind]
    -- `insert` only touches the binding of `v`
    generalize σ.env = env
    induction env with
    | nil => simp [insert, lookup]; exact fun e => hne e.symm
    | cons p rest ih =>
      obtain ⟨k, x⟩ := p
      simp only [insert]
      by_cases hk : k = v
      · subst hk
        have : (w == k) = false := by simp [hne]
        simp [lookup, BEq.comm, hne, Ne.symm hne]
      · have hkv : (k == v) = false := by simp [hk]
        simp only [hkv, Bool.false_eq_true, if_false, lookup]
        by_cases hkw : k = w
        · simp [hkw]
        · simp [hkw, ih]


/-- **Only where tracked, in every reachable state**: a completed pass in the state after any history
    changes the gradient cell of no node that is not reachable from the root through tracked stored
    operands. -/
theorem C09_only_reachable {σ σ' : State S} (hr : Reachable σ) (v : String) (h : Handle)
    (seed : Option (Tensor S)) (hg : σ.get v = .ok h) (hok : σ.backward h seed = .ok σ') :
    ∀ m, m < σ.nodes.size → ¬ Reach σ.graph h.node m → σ'.grad.getD m none = σ.grad.getD m none := by
  obtain ⟨e, hb, he, hwf, hl, _, _, h2, _⟩ := good_backward_counts hr.good (get_valid hr.good.roots hg) seed hok
  intro m hm hnr
  have := backward_frame σ.graph _ h.node h.dims h.keep seed σ.estate e hb m (fun hin => hnr ((h2 m).mp hin))
  rw [he]
  simp only [State.withEState]
  rw [ofFn_getD _ _ _ _ hm, this]
  rfl


/-- **The iff rule for every composite operation**: subtraction, `axpy`, `sum`, `reshape`, softmax,
    matmul with its additive term, conv, both costs and both layer kinds return a result that is
    tracked exactly when one of their array arguments (operands, parameters) is. -/
theorem C09_iff_composites (σ : State S) (a b : Handle) (s : S) (k : Nat) (dims : List Nat) (sr sc : Nat) (l : Layer) :
    TrkIs (hSub σ a b) (a.tracked || b.tracked) ∧ TrkIs (hAxpy σ s a b) (a.tracked || b.tracked) ∧
    TrkIs (hSum σ a k) a.tracked ∧ TrkIs (hReshape σ a dims) a.tracked ∧ TrkIs (hSoftmax σ a) a.tracked ∧
    TrkIs (hConv σ a b sr sc) (a.tracked || b.tracked) ∧
    TrkIs (hMse σ a b) (b.tracked || a.tracked) ∧ TrkIs (hXent σ a b) (b.tracked || a.tracked) ∧
    TrkIs (layerForward σ l a)
      (match l with
       | .dense w bb _ => a.tracked || w.tracked || bb.tracked
       | .conv f bb _ _ _ => a.tracked || f.tracked || bb.tracked) :=
  ⟨trk_hSub σ a b, trk_hAxpy σ s a b, trk_hSum σ a k, trk_hReshape σ a dims, trk_hSoftmax σ a, trk_hConv σ a b sr sc,
   trk_hMse σ a b, trk_hXent σ a b, trk_layerForward σ l a⟩

end Corgi

#print axioms Corgi.C09_iff_ewise
#print axioms Corgi.C09_iff_unary
#print axioms Corgi.C09_iff_matmul
#print axioms Corgi.C09_only
#print axioms Corgi.C09_flags_kept
#print axioms Corgi.C09_clone_local
#print axioms Corgi.C09_only_reachable
#print axioms Corgi.C09_iff_composites
