/-
  C01 — Reverse-mode gradients are exact on arbitrary computation graphs.

  `C01_backward_pathsum`: on every well-founded graph (any fan-out, diamonds, self-products, any depth;
  data-dependent control flow only decides *which* graph was recorded) with lawful closures whose
  per-operand contributions `Λ n i` are additive and shape-correct, a pass that completes from a clean
  state leaves on every node `ℓ` — in particular on every tracked leaf —
      grad'(ℓ)[j] = grad(ℓ)[j] + P root ℓ seed [j],
  where `P` is the sum over all tracked paths from the root to `ℓ` of the composed contributions
  (`Pf_unfold`): every path exactly once, none dropped, none counted twice.  With `Λ n i` = the
  transpose-Jacobian of operation `n` with respect to operand `i` (C02), the right-hand side is the
  seed-weighted sum of partial derivatives (chain rule).
  `C01_every_path_once`: the value-free half (exactly once / consumers first / nothing else touched).
-/
import CorgiProofs.PathSum
import CorgiProofs.EngineFrame
import CorgiProofs.Reachable
import CorgiProofs.LinearHeap
import CorgiProofs.ShapeCheckSound

set_option linter.unusedSectionVars false

namespace Corgi
variable {S : Type} [Add S] [Mul S] [Neg S] [Sub S] [ScalarOps S] [BEq S]

theorem C01_every_path_once (G : Graph S) (wf : G.WF) (lawful : G.Lawful) (fuel root : Nat)
    (hf : root < fuel) (dims : List Nat) (keep : Bool) (seed : Option (Tensor S)) (σ σ' : EState S)
    (hclean : σ.Clean) (hlog : σ.log = []) (hok : backward G fuel root dims keep seed σ = .ok σ') :
    (logN σ').Nodup ∧ (∀ m, m ∈ logN σ' ↔ Reach G root m) ∧ LogOrder G root (logN σ') ∧
    (∀ m, ¬ Reach G root m → σ'.grad m = σ.grad m) ∧ σ'.Clean := by
  have hc := backward_counts G wf lawful fuel root hf dims keep seed σ σ' hclean hlog hok
  refine ⟨hc.2.1, hc.2.2.1, hc.2.2.2, ?_, hc.1⟩
  intro m hm
  exact backward_frame G fuel root dims keep seed σ σ' hok m (fun hin => hm ((hc.2.2.1 m).mp hin))

/-- **The gradient left on `ℓ` is the path sum of the seed** (coordinate by coordinate). -/
theorem C01_backward_pathsum [AddLaws S] {G : Graph S} (sem : Sem G) (wf : G.WF) (lawful : G.Lawful)
    (ℓ j fuel root : Nat) (hkeep : ∀ n s, s ∈ G.kids n → s.tracked = true → s.node = ℓ → ((G.kids ℓ).isEmpty || s.keep) = stores sem ℓ)
    (hf : root < fuel) (dims : List Nat) (seed : Option (Tensor S)) (σ σ' : EState S)
    (hclean : σ.Clean) (hlog : σ.log = []) (hg : ∀ g, σ.grad ℓ = some g → Shaped (sem.dimsOf ℓ) g)
    (x : Tensor S) (hseed : seedOrOnes seed dims = .ok x) (hxs : Shaped (sem.dimsOf root) x)
    (hok : backward G fuel root dims (sem.κ root) seed σ = .ok σ') :
    gradVal ℓ j σ' = gradVal ℓ j σ + P sem ℓ j root x :=
  (backward_pathsum sem ℓ j wf hkeep lawful fuel root hf dims seed σ σ' hclean hlog hg x hseed hxs hok).1

/-- What the path sum is: the delta itself where the node stores its gradient, plus the path sums of
    the contributions to every tracked stored operand — i.e. the sum over all tracked paths. -/
theorem C01_pathsum_unfold [AddLaws S] {G : Graph S} (sem : Sem G) (wf : G.WF) (ℓ j m : Nat) (x : Tensor S) :
    P sem ℓ j m x = (if m = ℓ ∧ stores sem m = true then coord j x.vals else zero)
      + sumSlots sem (P sem ℓ j) m x (G.kids m) 0 := Pf_unfold sem ℓ j wf m x

/-- A tracked leaf stores its gradient (`stores` is true for every node without stored operands). -/
theorem C01_leaf_stores {G : Graph S} (sem : Sem G) (m : Nat) (h : G.kids m = []) : stores sem m = true := by
  simp [stores, h]

/-- the gradient stored afterwards has exactly the node's shape (C03 for the observed cell) -/
theorem C01_grad_shape [AddLaws S] {G : Graph S} (sem : Sem G) (wf : G.WF) (lawful : G.Lawful)
    (ℓ fuel root : Nat) (hkeep : ∀ n s, s ∈ G.kids n → s.tracked = true → s.node = ℓ → ((G.kids ℓ).isEmpty || s.keep) = stores sem ℓ)
    (hf : root < fuel) (dims : List Nat) (seed : Option (Tensor S)) (σ σ' : EState S)
    (hclean : σ.Clean) (hlog : σ.log = []) (hg : ∀ g, σ.grad ℓ = some g → Shaped (sem.dimsOf ℓ) g)
    (x : Tensor S) (hseed : seedOrOnes seed dims = .ok x) (hxs : Shaped (sem.dimsOf root) x)
    (hok : backward G fuel root dims (sem.κ root) seed σ = .ok σ') :
    ∀ g, σ'.grad ℓ = some g → Shaped (sem.dimsOf ℓ) g :=
  (backward_pathsum sem ℓ 0 wf hkeep lawful fuel root hf dims seed σ σ' hclean hlog hg x hseed hxs hok).2


/-- **Every path once, in every reachable state**: the value-free half holds for the pass on any
    bound array in the state after any history of commands, with no assumption about the graph. -/
theorem C01_every_path_once_reachable {σ σ' : State S} (hr : Reachable σ) (v : String) (h : Handle)
    (seed : Option (Tensor S)) (hg : σ.get v = .ok h) (hok : σ.backward h seed = .ok σ') :
    ∃ e : EState S, σ' = σ.withEState e ∧ σ.graph.WF ∧ σ.graph.Lawful ∧ σ.estate.Clean ∧
      (logN e).Nodup ∧ (∀ m, m ∈ logN e ↔ Reach σ.graph h.node m) ∧ LogOrder σ.graph h.node (logN e) ∧ e.Clean := by
  obtain ⟨e, _, he, hwf, hl, hc, h1, h2, h3⟩ := good_backward_counts hr.good (get_valid hr.good.roots hg) seed hok
  exact ⟨e, he, hwf, hl, estate_clean σ hr.good.heap, h1, h2, h3, hc⟩

/-- **The path-sum theorem in every reachable state**: the structural hypotheses of
    `C01_backward_pathsum` (well-founded, lawful, clean start) are discharged by the reachability
    invariant; what remains assumed is `Sem` — the per-operation value laws (C02). -/
theorem C01_backward_pathsum_reachable [AddLaws S] {σ : State S} (hr : Reachable σ) (sem : Sem σ.graph)
    (ℓ j : Nat) (hkeep : ∀ n s, s ∈ σ.graph.kids n → s.tracked = true → s.node = ℓ → ((σ.graph.kids ℓ).isEmpty || s.keep) = stores sem ℓ)
    (v : String) (h : Handle) (seed : Option (Tensor S)) (hg : σ.get v = .ok h)
    (hk : σ.graph.kids h.node = [] ∨ h.keep = sem.κ h.node)
    (hgr : ∀ g, σ.estate.grad ℓ = some g → Shaped (sem.dimsOf ℓ) g)
    (x : Tensor S) (hseed : seedOrOnes seed h.dims = .ok x) (hxs : Shaped (sem.dimsOf h.node) x)
    (e : EState S) (hok : Corgi.backward σ.graph (σ.nodes.size + 1) h.node h.dims h.keep seed σ.estate = .ok e) :
    gradVal ℓ j e = gradVal ℓ j σ.estate + P sem ℓ j h.node x := by
  have hv := get_valid hr.good.roots hg
  have hok : Corgi.backward σ.graph (σ.nodes.size + 1) h.node h.dims (sem.κ h.node) seed σ.estate = .ok e := by
    rcases hk with hleaf | hk
    · rw [← hok]
      simp only [Corgi.backward]
      cases σ.estate.delta h.node with
      | some d => exact process_leaf_keep _ _ _ _ _ _ hleaf
      | none =>
        simp only [bind, Except.bind]
        cases seedOrOnes seed h.dims with
        | error e => rfl
        | ok x => exact process_leaf_keep _ _ _ _ _ _ hleaf
    · rw [← hk]; exact hok
  exact (backward_pathsum sem ℓ j (graph_wf σ hr.good.heap) hkeep (graph_lawful σ hr.good.heap) (σ.nodes.size + 1) h.node
    (by have := hv.1; omega) h.dims seed σ.estate e (estate_clean σ hr.good.heap) rfl hgr x hseed hxs hok).1

/-- **For a leaf no assumption about keep flags is left**: a node without stored operands always
    stores its gradient, so the keep-flag hypothesis of the path-sum theorem is vacuous — whatever mixture
    of `tracked()`, `start_tracking()`, clones and re-flagged handles built the graph. -/
theorem C01_leaf_needs_no_keep [AddLaws S] {G : Graph S} (sem : Sem G) (ℓ : Nat) (hleaf : G.kids ℓ = []) :
    ∀ n s, s ∈ G.kids n → s.tracked = true → s.node = ℓ → ((G.kids ℓ).isEmpty || s.keep) = stores sem ℓ := by
  intro n s _ _ _; simp [stores, hleaf]

/-- **The path-sum theorem with nothing assumed about the operations.**  In any good state (so: after any
    history of commands) whose recorded nodes store operands of the shapes their forward operations left
    them with (`ShapeOK`: every node's tag is one of the closures proved linear in `LinearTags`), a pass
    from any valid handle `h` with a seed of `h`'s shape leaves on a leaf `ℓ`, coordinate by coordinate,
    its previous gradient plus the sum over all tracked paths from `h` to `ℓ` of the composed
    contributions — where the contribution `Λ n i` along an edge is *the stored closure's own `i`-th
    answer*, reduced by `flatten_to` (`State.sem_Λ`), not an assumed law. -/
theorem C01_pathsum_of_stored_closures [AddLaws S] [MulLaws S] [CommLaws S] {σ : State S} (g : Good σ) (hs : ShapeOK σ)
    (ℓ j : Nat) (hleaf : σ.graph.kids ℓ = []) (h : Handle) (hv : h.Valid σ) (seed : Option (Tensor S))
    (hgr : ∀ t, σ.estate.grad ℓ = some t → Shaped (σ.dimsOf ℓ) t)
    (x : Tensor S) (hseed : seedOrOnes seed h.dims = .ok x) (hxs : Shaped (σ.dimsOf h.node) x)
    (e : EState S) (hok : Corgi.backward σ.graph (σ.nodes.size + 1) h.node h.dims h.keep seed σ.estate = .ok e) :
    gradVal ℓ j e = gradVal ℓ j σ.estate + P (σ.sem (fun _ => h.keep) g.heap hs) ℓ j h.node x :=
  (backward_pathsum (σ.sem (fun _ => h.keep) g.heap hs) ℓ j (graph_wf σ g.heap)
    (fun n s _ _ _ => by simp [stores, hleaf]) (graph_lawful σ g.heap) (σ.nodes.size + 1) h.node
    (by have := hv.1; omega) h.dims seed σ.estate e (estate_clean σ g.heap) rfl hgr x hseed hxs hok).1

/-- … and the gradient it leaves has the leaf's shape -/
theorem C01_grad_shape_of_stored_closures [AddLaws S] [MulLaws S] [CommLaws S] {σ : State S} (g : Good σ) (hs : ShapeOK σ)
    (ℓ : Nat) (hleaf : σ.graph.kids ℓ = []) (h : Handle) (hv : h.Valid σ) (seed : Option (Tensor S))
    (hgr : ∀ t, σ.estate.grad ℓ = some t → Shaped (σ.dimsOf ℓ) t)
    (x : Tensor S) (hseed : seedOrOnes seed h.dims = .ok x) (hxs : Shaped (σ.dimsOf h.node) x)
    (e : EState S) (hok : Corgi.backward σ.graph (σ.nodes.size + 1) h.node h.dims h.keep seed σ.estate = .ok e) :
    ∀ t, e.grad ℓ = some t → Shaped (σ.dimsOf ℓ) t :=
  (backward_pathsum (σ.sem (fun _ => h.keep) g.heap hs) ℓ 0 (graph_wf σ g.heap)
    (fun n s _ _ _ => by simp [stores, hleaf]) (graph_lawful σ g.heap) (σ.nodes.size + 1) h.node
    (by have := hv.1; omega) h.dims seed σ.estate e (estate_clean σ g.heap) rfl hgr x hseed hxs hok).2

/-- **The hypothesis is decided at run time.**  `shapeOKb` is an executable check of `ShapeOK` (sound:
    `shapeOKb_sound`); the model driver evaluates it on the state before every pass of every correspondence
    run, so for each executed pass on which it answers `ok` — and the runs tie the model's states to the
    implementation's — the path-sum statement below holds with no assumption left about the operations. -/
theorem C01_pathsum_when_check_passes [AddLaws S] [MulLaws S] [CommLaws S] {σ : State S} (g : Good σ) (hb : shapeOKb σ = true)
    (ℓ j : Nat) (hleaf : σ.graph.kids ℓ = []) (h : Handle) (hv : h.Valid σ) (seed : Option (Tensor S))
    (hgr : ∀ t, σ.estate.grad ℓ = some t → Shaped (σ.dimsOf ℓ) t)
    (x : Tensor S) (hseed : seedOrOnes seed h.dims = .ok x) (hxs : Shaped (σ.dimsOf h.node) x)
    (e : EState S) (hok : Corgi.backward σ.graph (σ.nodes.size + 1) h.node h.dims h.keep seed σ.estate = .ok e) :
    gradVal ℓ j e = gradVal ℓ j σ.estate
      + P (σ.sem (fun _ => h.keep) g.heap (shapeOKb_sound σ hb)) ℓ j h.node x :=
  C01_pathsum_of_stored_closures g (shapeOKb_sound σ hb) ℓ j hleaf h hv seed hgr x hseed hxs e hok

end Corgi

#print axioms Corgi.C01_every_path_once
#print axioms Corgi.C01_backward_pathsum
#print axioms Corgi.C01_pathsum_unfold
#print axioms Corgi.C01_leaf_stores
#print axioms Corgi.C01_grad_shape
#print axioms Corgi.C01_every_path_once_reachable
#print axioms Corgi.C01_backward_pathsum_reachable
#print axioms Corgi.C01_leaf_needs_no_keep
#print axioms Corgi.C01_pathsum_of_stored_closures
#print axioms Corgi.C01_grad_shape_of_stored_closures
#print axioms Corgi.C01_pathsum_when_check_passes
