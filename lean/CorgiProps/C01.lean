/-
  C01 — Reverse-mode gradients are exact on arbitrary computation graphs.

  Proved here (value-free half): on every well-founded graph — any fan-out, diamonds, self-products,
  any depth — a pass enters exactly the nodes reachable from the result through tracked operands,
  each exactly once and only after all its consumers have delivered, and touches no other gradient
  cell.  Hence no path is dropped (every reachable node is entered, with every delivery made before
  it is entered) and none is followed twice (each node's closure runs once on the merged delta).
  The value half (the merged delta equals the seed-weighted sum of partial derivatives) is decided on
  every run against the forward-mode reference `CorgiSpec.Dual.refGrad`; see DESIGN.md §8 C01.
-/
import CorgiProofs.EngineTop
import CorgiProofs.EngineFrame

set_option linter.unusedSectionVars false

namespace Corgi
variable {S : Type} [Add S] [Mul S] [Neg S] [Sub S] [ScalarOps S] [BEq S]

theorem C01_every_path_once_partial (G : Graph S) (wf : G.WF) (lawful : G.Lawful) (fuel root : Nat)
    (hf : root < fuel) (dims : List Nat) (keep : Bool) (seed : Option (Tensor S)) (σ σ' : EState S)
    (hclean : σ.Clean) (hlog : σ.log = []) (hok : backward G fuel root dims keep seed σ = .ok σ') :
    (logN σ').Nodup ∧ (∀ m, m ∈ logN σ' ↔ Reach G root m) ∧ LogOrder G root (logN σ') ∧
    (∀ m, ¬ Reach G root m → σ'.grad m = σ.grad m) ∧ σ'.Clean := by
  have hc := backward_counts G wf lawful fuel root hf dims keep seed σ σ' hclean hlog hok
  refine ⟨hc.2.1, hc.2.2.1, hc.2.2.2, ?_, hc.1⟩
  intro m hm
  exact backward_frame G fuel root dims keep seed σ σ' hok m (fun hin => hm ((hc.2.2.1 m).mp hin))

end Corgi

#print axioms Corgi.C01_every_path_once_partial
