/-
  C13 — A gradient-descent update is exactly one step per parameter and clears gradients.
-/
import CorgiModel.Program

set_option linter.unusedSectionVars false

namespace Corgi
variable {S : Type} [Add S] [Mul S] [Neg S] [Sub S] [ScalarOps S] [BEq S]

/-- The positional step distributes over parameters whose value and gradient buffers have the same
    length: stepping the concatenation is concatenating the per-parameter steps.  (This is where the
    alignment guaranteed by C03 — gradient shape = parameter shape — is needed.) -/
theorem C13_step_blocks (f : S → S → S) :
    ∀ (blocks : List (List S × List S)), (∀ b ∈ blocks, b.1.length = b.2.length) →
      List.zipWith f (blocks.flatMap (·.1)) (blocks.flatMap (·.2)) = blocks.flatMap (fun b => List.zipWith f b.1 b.2)
  | [], _ => by simp
  | b :: bs, h => by
    have hb : b.1.length = b.2.length := h b (by simp)
    have ih := C13_step_blocks f bs (fun x hx => h x (by simp [hx]))
    simp only [List.flatMap_cons]
    rw [List.zipWith_append hb, ih]

/-- A parameter without a gradient is left untouched (same handle), and gathering does not change
    any buffer. -/
theorem C13_frozen_first (σ : State S) (p : Handle) (ps : List Handle)
    (h : σ.grad.getD p.node none = none) :
    gdGather σ (p :: ps) =
      ((gdGather σ ps).1, true :: (gdGather σ ps).2.1, (gdGather σ ps).2.2.1, (gdGather σ ps).2.2.2) := by
  simp [gdGather, h]

/-- A parameter with a gradient contributes its values and its gradient values at the same position
    of the two flat buffers, and its gradient is taken (cleared). -/
theorem C13_unfrozen_first (σ : State S) (p : Handle) (ps : List Handle) (g : Tensor S)
    (h : σ.grad.getD p.node none = some g) :
    let r := gdGather (σ.setGrad p.node none) ps
    gdGather σ (p :: ps) = (r.1, false :: r.2.1, (σ.tensorOf p).vals ++ r.2.2.1, g.vals ++ r.2.2.2) := by
  simp [gdGather, h]

/-- Draining: a frozen parameter keeps its handle. -/
theorem C13_drain_frozen (σ : State S) (p : Handle) (ps : List Handle) (fs : List Bool) (vals : List S)
    (σ' : State S) (hs : List Handle) (h : gdDrain σ ps fs vals = .ok (σ', hs)) :
    gdDrain σ (p :: ps) (true :: fs) vals = .ok (σ', p :: hs) := by
  simp [gdDrain, h, bind, Except.bind, pure, Except.pure]

end Corgi

#print axioms Corgi.C13_step_blocks
#print axioms Corgi.C13_frozen_first
#print axioms Corgi.C13_unfrozen_first
#print axioms Corgi.C13_drain_frozen
