/-
  C13 — A gradient-descent update is exactly one step per parameter and clears gradients.
-/
import CorgiProofs.Optim

set_option linter.unusedSectionVars false

namespace Corgi
variable {S : Type} [Add S] [Mul S] [Neg S] [Sub S] [ScalarOps S] [BEq S]

/-- **The update, for every parameter list.**  Let the parameters have pairwise distinct nodes and
    valid handles, and let every gradient have its parameter's length (guaranteed for gradients
    produced by passes: C03).  Then `update` succeeds and, reading the final state:
    a parameter without a gradient keeps its handle untouched; a parameter with gradient `g` becomes a
    fresh leaf array (no stored operands, no gradient) of the same dimensions, tracked, whose values
    are `old − lr·g` element by element — each parameter combined with its own gradient only,
    whatever the number of parameters, their shapes and which of them are frozen. -/
theorem C13_update (σ : State S) (lr : S) (ps : List Handle) (hnd : (ps.map (·.node)).Nodup)
    (hbuf : ∀ p ∈ ps, p.buf < σ.bufs.size)
    (hwf : ∀ p ∈ ps, (∀ x ∈ p.dims, 1 ≤ x) ∧ prod p.dims = (σ.tensorOf p).vals.length)
    (halign : ∀ p ∈ ps, ∀ g, gradOf σ p = some g → g.vals.length = (σ.tensorOf p).vals.length)
    (hsz : σ.grad.size = σ.nodes.size) :
    ∃ σ' hs', gdUpdate σ lr ps = .ok (σ', hs') ∧
      DrainOK σ' ps (ps.map (fun p => (gradOf σ p).isNone))
        ((unfrozenBlocks σ ps).map (fun b => List.zipWith (fun x g => x - lr * g) b.1 b.2)) hs' := by
  refine ⟨_, _, gdUpdate_spec σ lr ps hnd hbuf hwf halign, ?_⟩
  apply drainSpec_ok
  · exact blocksFit_stepped σ _ ps (fun p hp g hg => ⟨halign p hp g hg, (hwf p hp).2⟩)
  · have := (gdGather_spec ps σ hnd)
    -- gathering only clears gradient cells: sizes are unchanged
    have hgs : ∀ (ps : List Handle) (σ : State S), (gdGather σ ps).1.grad.size = σ.grad.size ∧ (gdGather σ ps).1.nodes = σ.nodes := by
      intro ps
      induction ps with
      | nil => intro σ; exact ⟨rfl, rfl⟩
      | cons p ps ih =>
        intro σ
        simp only [gdGather]
        cases σ.grad.getD p.node none with
        | none => exact ih σ
        | some g =>
          have := ih (σ.setGrad p.node none)
          simp only [State.setGrad, Array.size_setIfInBounds] at this
          exact this
    rw [(hgs ps σ).1, (hgs ps σ).2]; exact hsz

/-- the gradients of the parameters are taken: afterwards none of the old parameter nodes holds one -/
theorem C13_gradients_cleared (σ : State S) (ps : List Handle) (hnd : (ps.map (·.node)).Nodup) :
    ∀ p ∈ ps, gradOf (gdGather σ ps).1 p = none := (gdGather_spec ps σ hnd).2.2.2.2.2

/-- …and no other gradient cell is touched by the gathering. -/
theorem C13_other_gradients_kept (σ : State S) (ps : List Handle) (hnd : (ps.map (·.node)).Nodup) (q : Handle)
    (hq : ∀ p ∈ ps, p.node ≠ q.node) : gradOf (gdGather σ ps).1 q = gradOf σ q :=
  (gdGather_spec ps σ hnd).2.2.2.2.1 q hq

/-- The positional step distributes over parameters whose value and gradient buffers have the same
    length — and only then: this is where the alignment guaranteed by C03 is needed. -/
theorem C13_step_blocks (f : S → S → S) (blocks : List (List S × List S)) (h : ∀ b ∈ blocks, b.1.length = b.2.length) :
    List.zipWith f (blocks.flatMap (·.1)) (blocks.flatMap (·.2)) = (blocks.map (fun b => List.zipWith f b.1 b.2)).flatten :=
  step_blocks f blocks h

/-- Without the alignment the statement is false in the model (positional drain): two parameters
    `[1,2]`, `[3]` with gradients `[10]`, `[20,30]` — the second parameter is stepped by the first
    parameter's missing entry. -/
example : List.zipWith (fun (x g : Int) => x - g) ([1, 2] ++ [3]) ([10] ++ [20, 30]) = [-9, -18, -27]
    ∧ (List.zipWith (fun (x g : Int) => x - g) [1, 2] [10]) ++ (List.zipWith (fun (x g : Int) => x - g) [3] [20, 30]) = [-9, -17] := by
  decide

end Corgi

#print axioms Corgi.C13_update
#print axioms Corgi.C13_gradients_cleared
#print axioms Corgi.C13_other_gradients_kept
#print axioms Corgi.C13_step_blocks
