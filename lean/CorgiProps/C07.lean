/-
  C07 — Reductions, reshape and point-wise functions compute their definitions.
-/
import CorgiProps.C16
import CorgiSpec.Ops
import CorgiProofs.SumSpec
import CorgiProofs.Pointwise
import CorgiSpec.Oracle
import CorgiProofs.Composite

namespace Corgi
variable {S : Type} [Add S] [Mul S] [Neg S] [Sub S] [ScalarOps S]

omit [Add S] [Mul S] [Neg S] [Sub S] [ScalarOps S] in
/-- `reshape` keeps the row-major values under the new dimensions, and refuses a different element
    count (or a zero dimension). -/
theorem C07_reshape (a : Tensor S) (d : List Nat) (t : Tensor S) :
    reshape a d = .ok t ↔ ((∀ x ∈ d, 1 ≤ x) ∧ prod d = a.vals.length ∧ t = ⟨d, a.vals⟩) :=
  C16_mk d a.vals t

omit [Add S] [Mul S] [Neg S] [Sub S] [ScalarOps S] in
theorem C07_reshape_refuses (a : Tensor S) (d : List Nat) (h : prod d ≠ a.vals.length) :
    ∃ p, reshape a d = .error p :=
  C16_mk_refuses d a.vals (fun hh => h hh.2)

/-- Every point-wise function keeps the dimensions and applies its scalar function to each value. -/
theorem C07_maps (a : Tensor S) (s e : S) :
    scale a s = ⟨a.dims, a.vals.map (· * s)⟩ ∧
    neg a = ⟨a.dims, a.vals.map (· * (-one))⟩ ∧
    powf a e = ⟨a.dims, a.vals.map (fun x => ScalarOps.powf x e)⟩ ∧
    ln a = ⟨a.dims, a.vals.map ScalarOps.ln⟩ ∧
    exp a = ⟨a.dims, a.vals.map ScalarOps.exp⟩ ∧
    recip a = ⟨a.dims, a.vals.map (fun x => ScalarOps.div one x)⟩ ∧
    relu a = ⟨a.dims, a.vals.map (fun x => if ScalarOps.pos x then x else zero)⟩ ∧
    sigmoid a = ⟨a.dims, a.vals.map (fun x => ScalarOps.div one (one + ScalarOps.exp (-x)))⟩ :=
  ⟨rfl, rfl, rfl, rfl, rfl, rfl, rfl, rfl⟩

/-- In a commutative ring, negation as the code computes it (`x * -1`) is `-x`. -/
theorem C07_neg_ring {R : Type} [Lean.Grind.CommRing R] (x : R) : x * (-1) = -x := by grind

/-- **`sum(k)`** for every well-formed array of any rank and every `1 ≤ k ≤ rank`: the last `k`
    dimensions collapse into one unit dimension holding the sums of the trailing blocks. -/
theorem C07_sum (a : Tensor S) (k : Nat) (hwf : a.WF) (hk : 1 ≤ k) (hkr : k ≤ a.dims.length) :
    sum a k = .ok (specSum a k) := sum_spec a k hwf hk hkr

/-- the specification's shape: leading dimensions, then one unit dimension -/
theorem C07_sum_dims (a : Tensor S) (k : Nat) (hk : 1 ≤ k) :
    (specSum a k).dims = a.dims.take (a.dims.length - k) ++ [1] := by
  have : ¬ k = 0 := by omega
  simp [specSum, this]

/-- `sum(0)` is the identity, `sum_all` is the total. -/
theorem C07_sum_zero (a : Tensor S) : sum a 0 = .ok a := rfl
theorem C07_sumAll (a : Tensor S) : sumAll a = a.vals.foldl (· + ·) zero := rfl

/-! non-vacuity -/
example : (⟨[2, 3], [1, 2, 3, 4, 5, (6 : Int)]⟩ : Tensor Int).WF := by simp [Tensor.WF, prod]


/-- **softmax normalises every row of the last dimension**: for every well-formed array of rank ≥ 1
    (any number of leading dimensions, any row length), `softmax a` is the specification's tensor —
    `a`'s dimensions, element `i` = `exp aᵢ / Σ exp` over `i`'s row (composition of the point-wise
    `exp`, `sum(1)` and the broadcast division, each proved). -/
theorem C07_softmax [BEq S] (a : Tensor S) (L : List Nat) (n : Nat) (hd : a.dims = L ++ [n]) (hwf : a.WF) :
    softmax a = .ok (specSoftmax a) := by
  rw [softmax_spec a L n hd hwf]
  congr 1
  simp [specSoftmax, softmaxFlat, hd]


/-- **The executed path**: the `softmax` command records three nodes (exp, sum(1), division); whenever
    it returns a handle, the array it denotes is the row-normalised exponentials. -/
theorem C07_softmax_executed [BEq S] (σ σ' : State S) (a r : Handle) (L : List Nat) (n : Nat) (hd : a.dims = L ++ [n])
    (hwf : (σ.tensorOf a).WF) (hok : hSoftmax σ a = .ok (σ', r)) :
    σ'.tensorOf r = specSoftmax (σ.tensorOf a) := by
  have h1 := (sound_hSoftmax σ a σ' r hok).1
  rw [C07_softmax (σ.tensorOf a) L n (by simpa [State.tensorOf] using hd) hwf] at h1
  simp only [Except.ok.injEq] at h1
  exact h1.symm

end Corgi

#print axioms Corgi.C07_reshape
#print axioms Corgi.C07_reshape_refuses
#print axioms Corgi.C07_maps
#print axioms Corgi.C07_neg_ring
#print axioms Corgi.C07_sum
#print axioms Corgi.C07_sum_dims
#print axioms Corgi.C07_sum_zero
#print axioms Corgi.C07_sumAll
#print axioms Corgi.C07_softmax
#print axioms Corgi.C07_softmax_executed
