/-
  C19 — The single-precision build gives the same results to single precision.
  Proved: shapes and acceptance of the shape-level bookkeeping do not mention scalar values at all.
  Not proved (validated by differential runs only): agreement "to within single-precision rounding".
-/
import CorgiProofs.Broadcast

set_option linter.unusedSectionVars false

namespace Corgi

/-- Construction accepts or refuses by dimensions and *count* only: for any two scalar types and
    value lists of the same length the outcome is the same and the dimensions are equal. -/
theorem C19_mk_scalar_independent {S T : Type} (d : List Nat) (v : List S) (w : List T) (h : v.length = w.length) :
    (Tensor.mk? d v).map (·.dims) = (Tensor.mk? d w).map (·.dims) := by
  unfold Tensor.mk?
  rw [h]
  split
  · rfl
  · split <;> rfl

/-- The broadcast shape and the refusal of incompatible shapes are functions of the dimensions only
    (`element_wise_dimensions` never sees a value). -/
theorem C19_ewise_dims (x y : List Nat) :
    ewiseDims x y = if Compat x y then .ok (bdims x y) else .error .incompatible := ewiseDims_spec x y

end Corgi

#print axioms Corgi.C19_mk_scalar_independent
#print axioms Corgi.C19_ewise_dims
