/-
  C18 — Dropping results releases everything they held.
-/
import CorgiModel.Step

set_option linter.unusedSectionVars false

namespace Corgi
variable {S : Type} [Add S] [Mul S] [Neg S] [Sub S] [ScalarOps S] [BEq S]

/-- The owners of a buffer are determined by the live names, the layers, the model outputs and the
    recorded nodes only: a backward pass — with all its pending deltas and stored gradients — does
    not change who owns any buffer (stored gradients never keep a graph alive). -/
theorem C18_pass_holds_nothing (σ σ' : State S) (h : Handle) (seed : Option (Tensor S)) (b : Nat)
    (hok : σ.backward h seed = .ok σ') : σ'.owners b = σ.owners b := by
  simp only [State.backward, bind, Except.bind] at hok
  cases hb : Corgi.backward σ.graph (σ.nodes.size + 1) h.node h.dims h.keep seed σ.estate with
  | error e => simp [hb] at hok
  | ok e =>
    simp only [hb, pure, Except.pure] at hok
    cases hok
    rfl

/-- Gradient reads, clears and sets do not change ownership either. -/
theorem C18_grad_ops_hold_nothing (σ : State S) (n : Nat) (g : Option (Tensor S)) (b : Nat) :
    (σ.setGrad n g).owners b = σ.owners b := rfl

/-- With no live name, no layer and no model output there is no root, hence no live node: nothing
    owns any buffer. -/
theorem C18_no_roots_no_owners (σ : State S) (h1 : σ.env = []) (h2 : σ.layers = []) (h3 : σ.models = []) :
    σ.roots = [] := by
  simp [State.roots, h1, h2, h3]

end Corgi

#print axioms Corgi.C18_pass_holds_nothing
#print axioms Corgi.C18_grad_ops_hold_nothing
#print axioms Corgi.C18_no_roots_no_owners
