/-
  C18 — Dropping results releases everything they held.
-/
import CorgiModel.Step
import CorgiProofs.Owners

set_option linter.unusedSectionVars false

namespace Corgi
variable {S : Type} [Add S] [Mul S] [Neg S] [Sub S] [ScalarOps S] [BEq S]

/-- The owners of a buffer are determined by the live names, the layers, the model outputs and the
    recorded nodes only: a backward pass — with all its pending deltas and stored gradients — does
    not change who owns any buffer (stored gradients never keep a graph alive). -/
theorem C18_pass_holds_nothing (σ σ' : State S) (h : Handle) (seed : Option (Tensor S)) (b : Nat)
    (hok : σ.backward h seed = .ok σ') : σ'.owners b = σ.owners b := by
  simp only [State.backward, bind, Except.bind] at hok
  cases hb : Corgi.backward σ.graph (σ.nodes.size + 1) h.node h.dims h.keep seed σ.estate with
  | error e => simp [hb] at hok
  | ok e =>
    simp only [hb, pure, Except.pure] at hok
    cases hok
    rfl

/-- Gradient reads, clears and sets do not change ownership either. -/
theorem C18_grad_ops_hold_nothing (σ : State S) (n : Nat) (g : Option (Tensor S)) (b : Nat) :
    (σ.setGrad n g).owners b = σ.owners b := rfl

/-- With no live name, no layer and no model output there is no root, hence no live node: nothing
    owns any buffer. -/
theorem C18_no_roots_no_owners (σ : State S) (h1 : σ.env = []) (h2 : σ.layers = []) (h3 : σ.models = []) :
    σ.roots = [] := by
  simp [State.roots, h1, h2, h3]


/-- **Dropping results releases everything they held.**  In *any* state — whatever graphs were built
    and dropped, however many passes ran, whatever gradients are stored — if every remaining root handle
    (live names, layer parameters, model outputs) is a leaf, then the owners of a buffer are exactly the
    root handles that name it: no dropped result, no finished pass, no gradient cell keeps a reference. -/
theorem C18_released (σ : State S) (b : Nat)
    (hleaf : ∀ h ∈ σ.roots, ∃ r, σ.nodes[h.node]? = some r ∧ r.kids = [] ∧ r.op = none) :
    σ.owners b = (σ.roots.filter (·.buf == b)).length := owners_all_leaves σ b hleaf

/-- …so a leaf named once can be taken back by value: `into_values` (the `own` command) succeeds. -/
theorem C18_sole_owner_can_unwrap (σ : State S) (v : String) (h : Handle) (hg : σ.get v = .ok h)
    (hleaf : ∀ h ∈ σ.roots, ∃ r, σ.nodes[h.node]? = some r ∧ r.kids = [] ∧ r.op = none)
    (hone : (σ.roots.filter (·.buf == h.buf)).length = 1) :
    ∃ σ', exec σ (.own v) = .ok (σ', .owned (σ.tensorOf h).vals) := by
  have := owners_all_leaves σ h.buf hleaf
  simp only [exec, hg, bind, Except.bind, pure, Except.pure, this, hone, if_true]
  exact ⟨_, rfl⟩

end Corgi

#print axioms Corgi.C18_pass_holds_nothing
#print axioms Corgi.C18_grad_ops_hold_nothing
#print axioms Corgi.C18_no_roots_no_owners
#print axioms Corgi.C18_released
#print axioms Corgi.C18_sole_owner_can_unwrap
