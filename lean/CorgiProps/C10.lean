/-
  C10 — Gradients accumulate additively across passes; a finished pass leaves no residue.
-/
import CorgiProofs.EngineTop
import CorgiProofs.PathSum
import CorgiProofs.Reachable
import CorgiProofs.ShapeCheckSound

set_option linter.unusedSectionVars false

namespace Corgi
variable {S : Type} [Add S] [Mul S] [Neg S] [Sub S] [ScalarOps S] [BEq S]

/-- **No residue.**  A pass that completes from a clean state (all counters zero, no pending delta)
    ends in a clean state: every counter is back to zero and every pending sum is empty — on every
    well-founded graph, for every root (a result, an interior node, a node shared with earlier
    passes) and every seed. -/
theorem C10_clean (G : Graph S) (wf : G.WF) (lawful : G.Lawful) (fuel root : Nat) (hf : root < fuel)
    (dims : List Nat) (keep : Bool) (seed : Option (Tensor S)) (σ σ' : EState S)
    (hclean : σ.Clean) (hlog : σ.log = []) (hok : backward G fuel root dims keep seed σ = .ok σ') :
    σ'.Clean :=
  (backward_counts G wf lawful fuel root hf dims keep seed σ σ' hclean hlog hok).1

/-- **Any sequence of passes** over the same recorded graph (on the same result again, on different
    results sharing sub-graphs, on an interior node and later on a result containing it): the state is
    clean after each of them, so every pass starts from the same counter / pending-sum state whatever
    ran before it.  `passes` lists (root, dims, keep, seed) of the successive `backward` calls. -/
def runPasses (G : Graph S) (fuel : Nat) : List (Nat × List Nat × Bool × Option (Tensor S)) → EState S → R (EState S)
  | [], σ => pure σ
  | (root, dims, keep, seed) :: ps, σ => do
    let σ1 ← backward G fuel root dims keep seed { σ with log := [] }
    runPasses G fuel ps σ1

theorem C10_clean_history (G : Graph S) (wf : G.WF) (lawful : G.Lawful) (fuel : Nat)
    (ps : List (Nat × List Nat × Bool × Option (Tensor S))) (hfuel : ∀ p ∈ ps, p.1 < fuel) :
    ∀ (σ σ' : EState S), σ.Clean → runPasses G fuel ps σ = .ok σ' → σ'.Clean := by
  induction ps with
  | nil => intro σ σ' h hr; simp [runPasses, pure, Except.pure] at hr; subst hr; exact h
  | cons p ps ih =>
    obtain ⟨root, dims, keep, seed⟩ := p
    intro σ σ' h hr
    simp only [runPasses, bind, Except.bind] at hr
    cases h1 : backward G fuel root dims keep seed { σ with log := [] } with
    | error e => simp [h1] at hr
    | ok σ1 =>
      simp only [h1] at hr
      have hc1 : σ1.Clean := C10_clean G wf lawful fuel root (hfuel (root, dims, keep, seed) (by simp)) dims keep seed _ σ1
        (by exact h) rfl h1
      exact ih (fun p hp => hfuel p (by simp [hp])) σ1 σ' hc1 hr

/-- The gradient cell of a node is only ever changed by adding the delta the node is entered with:
    accumulation is additive by construction of `storeGrad` (`old + delta`, or `delta` when empty). -/
theorem C10_store_adds (n : Nat) (x : Tensor S) (σ σ' : EState S) (h : storeGrad n x σ = .ok σ') :
    (∀ m, m ≠ n → σ'.grad m = σ.grad m) ∧
    (σ.grad n = none → σ'.grad n = some x) ∧
    (∀ g, σ.grad n = some g → ∃ s, add g x = .ok s ∧ σ'.grad n = some s) := by
  simp only [storeGrad, bind, Except.bind] at h
  cases hm : mergeDelta (σ.grad n) x with
  | error e => simp [hm] at h
  | ok g =>
    simp only [hm, pure, Except.pure] at h
    cases h
    refine ⟨fun m hm' => by simp [upd, hm'], ?_, ?_⟩
    · intro hn; simp [mergeDelta, hn, pure, Except.pure] at hm; simp [upd, hm]
    · intro g0 hg; simp [mergeDelta, hg] at hm; exact ⟨g, hm, by simp [upd]⟩

/-- **Accumulation is additive over any sequence of passes.**  Run any list of passes (root and seed
    per pass: the same result again, an interior node and later a result containing it, results
    sharing sub-graphs) from a clean state: coordinate `j` of the gradient of `ℓ` ends as its starting
    value plus the sum of the path sums of the individual passes — what each pass would have added
    alone — independently of what ran before. -/
def passSum [AddLaws S] {G : Graph S} (sem : Sem G) (ℓ j : Nat) : List (Nat × Tensor S) → S
  | [] => zero
  | (root, x) :: ps => P sem ℓ j root x + passSum sem ℓ j ps

def runSeeded (G : Graph S) (κ : Nat → Bool) (fuel : Nat) : List (Nat × Tensor S) → EState S → R (EState S)
  | [], σ => pure σ
  | (root, x) :: ps, σ => do
    let σ1 ← backward G fuel root x.dims (κ root) (some x) { σ with log := [] }
    runSeeded G κ fuel ps σ1

theorem C10_additive [AddLaws S] {G : Graph S} (sem : Sem G) (wf : G.WF) (lawful : G.Lawful) (ℓ j fuel : Nat)
    (hkeep : ∀ n s, s ∈ G.kids n → s.tracked = true → s.node = ℓ → ((G.kids ℓ).isEmpty || s.keep) = stores sem ℓ)
    (ps : List (Nat × Tensor S)) (hfuel : ∀ p ∈ ps, p.1 < fuel) (hshape : ∀ p ∈ ps, Shaped (sem.dimsOf p.1) p.2) :
    ∀ (σ σ' : EState S), σ.Clean → (∀ g, σ.grad ℓ = some g → Shaped (sem.dimsOf ℓ) g) →
      runSeeded G sem.κ fuel ps σ = .ok σ' →
      gradVal ℓ j σ' = gradVal ℓ j σ + passSum sem ℓ j ps ∧ σ'.Clean := by
  induction ps with
  | nil =>
    intro σ σ' hc _ hr
    simp only [runSeeded, pure, Except.pure, Except.ok.injEq] at hr
    subst hr
    exact ⟨by simp [passSum, add_zero'], hc⟩
  | cons p ps ih =>
    obtain ⟨root, x⟩ := p
    intro σ σ' hc hg hr
    simp only [runSeeded, bind, Except.bind] at hr
    cases h1 : backward G fuel root x.dims (sem.κ root) (some x) { σ with log := [] } with
    | error e => simp [h1] at hr
    | ok σ1 =>
      simp only [h1] at hr
      have hx := hshape (root, x) (by simp)
      have hf := hfuel (root, x) (by simp)
      have hps := backward_pathsum sem ℓ j wf hkeep lawful fuel root hf x.dims (some x) { σ with log := [] } σ1 hc rfl hg x rfl hx h1
      have hc1 := (backward_counts G wf lawful fuel root hf x.dims (sem.κ root) (some x) { σ with log := [] } σ1 hc rfl h1).1
      obtain ⟨e2, hc2⟩ := ih (fun p hp => hfuel p (by simp [hp])) (fun p hp => hshape p (by simp [hp])) σ1 σ' hc1 hps.2 hr
      refine ⟨?_, hc2⟩
      rw [e2, hps.1]
      simp only [passSum]
      have : gradVal ℓ j { σ with log := [] } = gradVal ℓ j σ := rfl
      rw [this, AddLaws.add_assoc]


/-- **No residue, in every reachable state.**  After *any* history of commands from the empty
    program — any mixture of operations, passes on the same result again, on results sharing
    sub-graphs, on interior nodes, seeds of every shape, optimizer updates, layer and model commands,
    commands that panicked — every counter is zero and no delta is pending.  No hypothesis about the
    graph: well-foundedness and lawfulness of the recorded closures are themselves invariants of the
    command language (`reachable_good`). -/
theorem C10_clean_reachable (cs : List (Cmd S)) :
    (∀ i, (run cs ({} : State S)).cnt.getD i 0 = 0) ∧ (∀ i, (run cs ({} : State S)).delta.getD i none = none) :=
  (reachable_good cs).heap.clean

/-- and the pass itself, started in any reachable state on any bound array with any seed, ends clean -/
theorem C10_pass_clean_reachable {σ σ' : State S} (hr : Reachable σ) (v : String) (h : Handle)
    (seed : Option (Tensor S)) (hg : σ.get v = .ok h) (hok : σ.backward h seed = .ok σ') :
    (∀ i, σ'.cnt.getD i 0 = 0) ∧ (∀ i, σ'.delta.getD i none = none) :=
  (good_backward hr.good (get_valid hr.good.roots hg) seed hok).heap.clean

/-- **Additive accumulation of the stored closures' gradients.**  In any good state that passes the shape
    check (`ShapeOK`; see C01), any list of passes (roots and seeds of the roots' shapes) leaves on any leaf `ℓ`
    its starting gradient plus the sum of the path sums of the individual passes, with `Λ` = the stored
    closures' own answers — no assumption about the operations — and ends clean. -/
theorem C10_additive_stored_closures [AddLaws S] [MulLaws S] [CommLaws S] {σ : State S} (g : Good σ) (hs : ShapeOK σ)
    (ℓ j : Nat) (hleaf : σ.graph.kids ℓ = []) (keep : Bool) (ps : List (Nat × Tensor S))
    (hroots : ∀ p ∈ ps, p.1 < σ.nodes.size) (hshape : ∀ p ∈ ps, Shaped (σ.dimsOf p.1) p.2)
    (hg : ∀ t, σ.estate.grad ℓ = some t → Shaped (σ.dimsOf ℓ) t) (e : EState S)
    (hrun : runSeeded σ.graph (fun _ => keep) (σ.nodes.size + 1) ps σ.estate = .ok e) :
    gradVal ℓ j e = gradVal ℓ j σ.estate + passSum (σ.sem (fun _ => keep) g.heap hs) ℓ j ps ∧ e.Clean :=
  C10_additive (σ.sem (fun _ => keep) g.heap hs) (graph_wf σ g.heap) (graph_lawful σ g.heap) ℓ j (σ.nodes.size + 1)
    (fun n s _ _ _ => by simp [stores, hleaf]) ps (fun p hp => by have := hroots p hp; omega) hshape
    σ.estate e (estate_clean σ g.heap) hg hrun

end Corgi

#print axioms Corgi.C10_additive_stored_closures
#print axioms Corgi.C10_additive
#print axioms Corgi.C10_clean
#print axioms Corgi.C10_clean_history
#print axioms Corgi.C10_store_adds
#print axioms Corgi.C10_clean_reachable
#print axioms Corgi.C10_pass_clean_reachable
