/-
  C10 — Gradients accumulate additively across passes; a finished pass leaves no residue.
-/
import CorgiProofs.EngineTop

set_option linter.unusedSectionVars false

namespace Corgi
variable {S : Type} [Add S] [Mul S] [Neg S] [Sub S] [ScalarOps S] [BEq S]

/-- **No residue.**  A pass that completes from a clean state (all counters zero, no pending delta)
    ends in a clean state: every counter is back to zero and every pending sum is empty — on every
    well-founded graph, for every root (a result, an interior node, a node shared with earlier
    passes) and every seed. -/
theorem C10_clean (G : Graph S) (wf : G.WF) (lawful : G.Lawful) (fuel root : Nat) (hf : root < fuel)
    (dims : List Nat) (keep : Bool) (seed : Option (Tensor S)) (σ σ' : EState S)
    (hclean : σ.Clean) (hlog : σ.log = []) (hok : backward G fuel root dims keep seed σ = .ok σ') :
    σ'.Clean :=
  (backward_counts G wf lawful fuel root hf dims keep seed σ σ' hclean hlog hok).1

/-- **Any sequence of passes** over the same recorded graph (on the same result again, on different
    results sharing sub-graphs, on an interior node and later on a result containing it): the state is
    clean after each of them, so every pass starts from the same counter / pending-sum state whatever
    ran before it.  `passes` lists (root, dims, keep, seed) of the successive `backward` calls. -/
def runPasses (G : Graph S) (fuel : Nat) : List (Nat × List Nat × Bool × Option (Tensor S)) → EState S → R (EState S)
  | [], σ => pure σ
  | (root, dims, keep, seed) :: ps, σ => do
    let σ1 ← backward G fuel root dims keep seed { σ with log := [] }
    runPasses G fuel ps σ1

theorem C10_clean_history (G : Graph S) (wf : G.WF) (lawful : G.Lawful) (fuel : Nat)
    (ps : List (Nat × List Nat × Bool × Option (Tensor S))) (hfuel : ∀ p ∈ ps, p.1 < fuel) :
    ∀ (σ σ' : EState S), σ.Clean → runPasses G fuel ps σ = .ok σ' → σ'.Clean := by
  induction ps with
  | nil => intro σ σ' h hr; simp [runPasses, pure, Except.pure] at hr; subst hr; exact h
  | cons p ps ih =>
    obtain ⟨root, dims, keep, seed⟩ := p
    intro σ σ' h hr
    simp only [runPasses, bind, Except.bind] at hr
    cases h1 : backward G fuel root dims keep seed { σ with log := [] } with
    | error e => simp [h1] at hr
    | ok σ1 =>
      simp only [h1] at hr
      have hc1 : σ1.Clean := C10_clean G wf lawful fuel root (hfuel (root, dims, keep, seed) (by simp)) dims keep seed _ σ1
        (by exact h) rfl h1
      exact ih (fun p hp => hfuel p (by simp [hp])) σ1 σ' hc1 hr

/-- The gradient cell of a node is only ever changed by adding the delta the node is entered with:
    accumulation is additive by construction of `storeGrad` (`old + delta`, or `delta` when empty). -/
theorem C10_store_adds (n : Nat) (x : Tensor S) (σ σ' : EState S) (h : storeGrad n x σ = .ok σ') :
    (∀ m, m ≠ n → σ'.grad m = σ.grad m) ∧
    (σ.grad n = none → σ'.grad n = some x) ∧
    (∀ g, σ.grad n = some g → ∃ s, add g x = .ok s ∧ σ'.grad n = some s) := by
  simp only [storeGrad, bind, Except.bind] at h
  cases hm : mergeDelta (σ.grad n) x with
  | error e => simp [hm] at h
  | ok g =>
    simp only [hm, pure, Except.pure] at h
    cases h
    refine ⟨fun m hm' => by simp [upd, hm'], ?_, ?_⟩
    · intro hn; simp [mergeDelta, hn, pure, Except.pure] at hm; simp [upd, hm]
    · intro g0 hg; simp [mergeDelta, hg] at hm; exact ⟨g, hm, by simp [upd]⟩

end Corgi

#print axioms Corgi.C10_clean
#print axioms Corgi.C10_clean_history
#print axioms Corgi.C10_store_adds
