/-
  C04 — Element-wise operations follow right-aligned broadcasting, or refuse.
-/
import CorgiProofs.Broadcast

namespace Corgi
variable {S : Type} [Add S] [Mul S] [Neg S] [Sub S] [ScalarOps S]

/-- The result shape is the pairwise maximum of the right-aligned dimensions exactly when they are
    pairwise equal or 1; any other pair is refused.  All ranks, all sizes. -/
theorem C04_dims (x y : List Nat) :
    ewiseDims x y = if Compat x y then .ok (bdims x y) else .error .incompatible :=
  ewiseDims_spec x y

/-- An element-wise operation on incompatible shapes panics — it never returns values. -/
theorem C04_refuse (f : S → S → S) (a b : Tensor S) (h : Compat a.dims b.dims = false) :
    ewise f a b = .error .incompatible := by
  simp [ewise, ewiseDims_spec, h, bind, Except.bind]

/-- …for each of the public operations (`sub` negates first, `axpy` scales first: shapes unchanged). -/
theorem C04_refuse_ops (a b : Tensor S) (s : S) (h : Compat a.dims b.dims = false) :
    add a b = .error .incompatible ∧ mul a b = .error .incompatible ∧ div a b = .error .incompatible
    ∧ sub a b = .error .incompatible ∧ axpy s a b = .error .incompatible := by
  refine ⟨C04_refuse _ a b h, C04_refuse _ a b h, C04_refuse _ a b h, ?_, ?_⟩
  · exact C04_refuse _ a (neg b) (by simpa [neg, scale, mapT] using h)
  · exact C04_refuse _ (scale a s) b (by simpa [scale, mapT] using h)

/-! non-vacuity -/
example : Compat [2, 1, 2] [2, 2] = true ∧ bdims [2, 1, 2] [2, 2] = [2, 2, 2] := by decide
example : Compat [2, 3] [2] = false := by decide

end Corgi

#print axioms Corgi.C04_dims
#print axioms Corgi.C04_refuse
#print axioms Corgi.C04_refuse_ops
