/-
  C04 — Element-wise operations follow right-aligned broadcasting, or refuse.
-/
import CorgiProofs.Broadcast
import CorgiProofs.Ewise
import CorgiProofs.Composite

set_option linter.unusedSectionVars false

namespace Corgi
variable {S : Type} [Add S] [Mul S] [Neg S] [Sub S] [ScalarOps S]

/-- The result shape is the pairwise maximum of the right-aligned dimensions exactly when they are
    pairwise equal or 1; any other pair is refused.  All ranks, all sizes. -/
theorem C04_dims (x y : List Nat) :
    ewiseDims x y = if Compat x y then .ok (bdims x y) else .error .incompatible :=
  ewiseDims_spec x y

/-- An element-wise operation on incompatible shapes panics — it never returns values. -/
theorem C04_refuse (f : S → S → S) (a b : Tensor S) (h : Compat a.dims b.dims = false) :
    ewise f a b = .error .incompatible := by
  simp [ewise, ewiseDims_spec, h, bind, Except.bind]

/-- …for each of the public operations (`sub` negates first, `axpy` scales first: shapes unchanged). -/
theorem C04_refuse_ops (a b : Tensor S) (s : S) (h : Compat a.dims b.dims = false) :
    add a b = .error .incompatible ∧ mul a b = .error .incompatible ∧ div a b = .error .incompatible
    ∧ sub a b = .error .incompatible ∧ axpy s a b = .error .incompatible := by
  refine ⟨C04_refuse _ a b h, C04_refuse _ a b h, C04_refuse _ a b h, ?_, ?_⟩
  · exact C04_refuse _ a (neg b) (by simpa [neg, scale, mapT] using h)
  · exact C04_refuse _ (scale a s) b (by simpa [scale, mapT] using h)

/-- **The element formula, all ranks and sizes.**  For well-formed operands (rank ≥ 1) whose
    dimensions, aligned from the last one, are pairwise equal or 1, every element-wise operation
    returns the array with the pairwise-maximum dimensions whose element at each multi-index is the
    scalar operation applied to the operands' elements at that index (index 0 along broadcast
    dimensions, surplus leading indices dropped). -/
theorem C04_ewise (f : S → S → S) (a b : Tensor S) (hwa : a.WF) (hwb : b.WF)
    (hna : a.dims ≠ []) (hnb : b.dims ≠ []) (hc : Compat a.dims b.dims = true) :
    ewise f a b = .ok (specEwise f a b) := ewise_spec f a b hwa hwb hna hnb hc

theorem C04_add (a b : Tensor S) (hwa : a.WF) (hwb : b.WF) (hna : a.dims ≠ []) (hnb : b.dims ≠ [])
    (hc : Compat a.dims b.dims = true) : add a b = .ok (specEwise (· + ·) a b) := ewise_spec _ a b hwa hwb hna hnb hc
theorem C04_mul (a b : Tensor S) (hwa : a.WF) (hwb : b.WF) (hna : a.dims ≠ []) (hnb : b.dims ≠ [])
    (hc : Compat a.dims b.dims = true) : mul a b = .ok (specEwise (· * ·) a b) := ewise_spec _ a b hwa hwb hna hnb hc
theorem C04_div (a b : Tensor S) (hwa : a.WF) (hwb : b.WF) (hna : a.dims ≠ []) (hnb : b.dims ≠ [])
    (hc : Compat a.dims b.dims = true) : div a b = .ok (specEwise ScalarOps.div a b) := ewise_spec _ a b hwa hwb hna hnb hc

/-- `a - b` is computed as `a + (b · (−1))`, `axpy(α, x, y)` as `x·α + y`: the same formula on the
    mapped operand (a point-wise map keeps dimensions and well-formedness). -/
theorem C04_sub (a b : Tensor S) (hwa : a.WF) (hwb : b.WF) (hna : a.dims ≠ []) (hnb : b.dims ≠ [])
    (hc : Compat a.dims b.dims = true) : sub a b = .ok (specEwise (· + ·) a (neg b)) :=
  ewise_spec _ a (neg b) hwa ⟨hwb.1, by simpa [neg, scale, mapT] using hwb.2⟩ hna hnb (by simpa [neg, scale, mapT] using hc)
theorem C04_axpy (s : S) (a b : Tensor S) (hwa : a.WF) (hwb : b.WF) (hna : a.dims ≠ []) (hnb : b.dims ≠ [])
    (hc : Compat a.dims b.dims = true) : axpy s a b = .ok (specEwise (· + ·) (scale a s) b) :=
  ewise_spec _ (scale a s) b ⟨hwa.1, by simpa [scale, mapT] using hwa.2⟩ hwb hna hnb (by simpa [scale, mapT] using hc)

/-- the result's dimensions are the pairwise maximum -/
theorem C04_result_dims (f : S → S → S) (a b : Tensor S) : (specEwise f a b).dims = bdims a.dims b.dims := rfl

/-! non-vacuity -/
example : (⟨[2, 1, 2], [1, 2, 3, (4 : Nat)]⟩ : Tensor Nat).WF ∧ (⟨[2, 2], [10, 20, 30, (40 : Nat)]⟩ : Tensor Nat).WF := by
  simp [Tensor.WF, prod]
example : Compat [2, 1, 2] [2, 2] = true ∧ bdims [2, 1, 2] [2, 2] = [2, 2, 2] := by decide
example : Compat [2, 3] [2] = false := by decide


/-- **The executed path** of subtraction and `axpy` (two recorded nodes each): whenever the command
    returns a handle, the array it denotes is the broadcast formula above. -/
theorem C04_sub_axpy_executed [BEq S] (σ σ' : State S) (a b r : Handle) (s : S) :
    (a.buf < σ.bufs.size → hSub σ a b = .ok (σ', r) → sub (σ.tensorOf a) (σ.tensorOf b) = .ok (σ'.tensorOf r)) ∧
    (b.buf < σ.bufs.size → hAxpy σ s a b = .ok (σ', r) → axpy s (σ.tensorOf a) (σ.tensorOf b) = .ok (σ'.tensorOf r)) :=
  ⟨fun ha hok => (sound_hSub σ a b ha σ' r hok).1, fun hb hok => (sound_hAxpy σ s a b hb σ' r hok).1⟩

end Corgi

#print axioms Corgi.C04_dims
#print axioms Corgi.C04_refuse
#print axioms Corgi.C04_refuse_ops
#print axioms Corgi.C04_ewise
#print axioms Corgi.C04_add
#print axioms Corgi.C04_mul
#print axioms Corgi.C04_div
#print axioms Corgi.C04_sub
#print axioms Corgi.C04_axpy
#print axioms Corgi.C04_result_dims
#print axioms Corgi.C04_sub_axpy_executed
