/-
  C05 — Matrix multiplication computes the batched, optionally transposed product.
-/
import CorgiProofs.Broadcast
import CorgiProofs.Lists

set_option linter.unusedSectionVars false

namespace Corgi
variable {S : Type} [Add S] [Mul S] [Neg S] [Sub S] [ScalarOps S]

theorem dimFromEnd_append2_1 (l : List Nat) (p q : Nat) : dimFromEnd (l ++ [p, q]) 1 = .ok q := by
  simp [dimFromEnd, getR, pure, Except.pure]
theorem dimFromEnd_append2_2 (l : List Nat) (p q : Nat) : dimFromEnd (l ++ [p, q]) 2 = .ok p := by
  simp [dimFromEnd, getR, pure, Except.pure]

/-- One entry of the per-batch product is the initial value (the additive term) plus the sum over
    the inner index of the transposed-indexed products — by definition of the triple loop. -/
theorem C05_entry (rows cols sumLen : Nat) (a b : List S) (ta tb : Bool) (init : S) (r j : Nat)
    (terms : Nat → S)
    (h : ∀ k, k < sumLen → ∃ x y, a[if ta then k * rows + r else r * sumLen + k]? = some x ∧
        b[if tb then j * sumLen + k else k * cols + j]? = some y ∧ terms k = x * y) :
    matmulEntry rows cols sumLen a ta b tb init r j = .ok (init + sumList ((List.range sumLen).map terms)) := by
  unfold matmulEntry
  rw [tabulateM_ok _ terms sumLen]
  · rfl
  · intro k hk
    obtain ⟨x, y, hx, hy, ht⟩ := h k hk
    simp [getR, hx, hy, ht, bind, Except.bind, pure, Except.pure]

/-! non-vacuity -/
example : Compat [1, 2] [2, 1] = true ∧ bdims [1, 2] [2, 1] = [2, 2] := by decide

end Corgi

#print axioms Corgi.C05_entry
