/-
  C05 — Matrix multiplication computes the batched, optionally transposed product.

  For well-formed operands of rank ≥ 2, for all leading (batch) dimensions, matrix sizes and both
  transpose flags, `matmul` = the specification `specMatmul` (dimensions and every entry), without
  additive term (`C05_product`), with a bias row (`C05_bias`, the dense layer's call) and with a matrix
  additive term broadcast over batches / rows (`C05_addterm`); mismatching inner dimensions and
  incompatible batch dimensions are refused (`C05_refuses_inner`, `C05_refuses_leading`).
-/
import CorgiProofs.Matmul
import CorgiProofs.ConvAt

set_option linter.unusedSectionVars false

namespace Corgi
variable {S : Type} [Add S] [Mul S] [Neg S] [Sub S] [ScalarOps S]

/-- One entry of the per-batch product is the initial value (the additive term) plus the sum over
    the inner index of the transposed-indexed products — by definition of the triple loop. -/
theorem C05_entry (rows cols sumLen : Nat) (a b : List S) (ta tb : Bool) (init : S) (r j : Nat)
    (terms : Nat → S)
    (h : ∀ k, k < sumLen → ∃ x y, a[if ta then k * rows + r else r * sumLen + k]? = some x ∧
        b[if tb then j * sumLen + k else k * cols + j]? = some y ∧ terms k = x * y) :
    matmulEntry rows cols sumLen a ta b tb init r j = .ok (init + sumList ((List.range sumLen).map terms)) := by
  unfold matmulEntry
  rw [tabulateM_ok _ terms sumLen]
  · rfl
  · intro k hk
    obtain ⟨x, y, hx, hy, ht⟩ := h k hk
    simp [getR, hx, hy, ht, bind, Except.bind, pure, Except.pure]

/-- **The product.**  `a : la ++ [a1, a2]`, `b : lb ++ [b1, b2]` well-formed, `la`/`lb` broadcast
    compatible, inner dimensions (after the flags) equal: the result is the specification —
    dimensions `bdims la lb ++ [rows, cols]`, entry `[L.., r, j] = Σ_t a[L↓.., r, t] · b[L↓.., t, j]`
    with the flagged operand's last two indices swapped and `L↓` the batch index projected onto the
    operand (index 0 along its unit dimensions, surplus leading positions dropped). -/
theorem C05_product (a b : Tensor S) (ta tb : Bool) (la lb : List Nat) (a1 a2 b1 b2 : Nat)
    (hda : a.dims = la ++ [a1, a2]) (hdb : b.dims = lb ++ [b1, b2]) (hwa : a.WF) (hwb : b.WF)
    (hc : Compat la lb = true) (hinner : (if ta then a1 else a2) = (if tb then b2 else b1)) :
    matmul a ta b tb none = .ok (specMatmul a ta b tb none) :=
  matmul_spec_none a b ta tb la lb a1 a2 b1 b2 hda hdb hwa hwb hc hinner

/-- **With a bias row**: a rank-1 additive term with one value per output column is added to every
    row of every batch (the call a dense layer makes). -/
theorem C05_bias (a b c : Tensor S) (ta tb : Bool) (la lb : List Nat) (a1 a2 b1 b2 : Nat)
    (hda : a.dims = la ++ [a1, a2]) (hdb : b.dims = lb ++ [b1, b2]) (hwa : a.WF) (hwb : b.WF)
    (hc : Compat la lb = true) (hinner : (if ta then a1 else a2) = (if tb then b2 else b1))
    (hdc : c.dims = [if tb then b1 else b2]) (hwc : c.WF) :
    matmul a ta b tb (some c) = .ok (specMatmul a ta b tb (some c)) :=
  matmul_spec_bias a b c ta tb la lb a1 a2 b1 b2 hda hdb hwa hwb hc hinner hdc hwc

/-- **With a matrix additive term** of dimensions `cl ++ [c1, cols]`, `c1 ∈ {1, rows}`, `cl` fitting
    the batch dimensions: broadcast over batches and, when `c1 = 1`, over rows. -/
theorem C05_addterm (a b c : Tensor S) (ta tb : Bool) (la lb cl : List Nat) (a1 a2 b1 b2 c1 : Nat)
    (hda : a.dims = la ++ [a1, a2]) (hdb : b.dims = lb ++ [b1, b2]) (hwa : a.WF) (hwb : b.WF)
    (hc : Compat la lb = true) (hinner : (if ta then a1 else a2) = (if tb then b2 else b1))
    (hdc : c.dims = cl ++ [c1, if tb then b1 else b2]) (hwc : c.WF)
    (hc1 : c1 = 1 ∨ c1 = (if ta then a2 else a1)) (hfc : Fits cl (bdims la lb) = true) :
    matmul a ta b tb (some c) = .ok (specMatmul a ta b tb (some c)) :=
  matmul_spec_addterm a b c ta tb la lb cl a1 a2 b1 b2 c1 hda hdb hwa hwb hc hinner hdc hwc hc1 hfc

/-- the result's dimensions, read off the specification -/
theorem C05_shape (a b : Tensor S) (ta tb : Bool) (c : Option (Tensor S)) (la lb : List Nat) (a1 a2 b1 b2 : Nat)
    (hda : a.dims = la ++ [a1, a2]) (hdb : b.dims = lb ++ [b1, b2]) :
    (specMatmul a ta b tb c).dims = bdims la lb ++ [if ta then a2 else a1, if tb then b1 else b2] := by
  simp only [specMatmul, Tensor.ofFn, hda, hdb]
  have e1 : (la ++ [a1, a2]).take ((la ++ [a1, a2]).length - 2) = la := by simp
  have e2 : (lb ++ [b1, b2]).take ((lb ++ [b1, b2]).length - 2) = lb := by simp
  have e3 : (la ++ [a1, a2]).drop ((la ++ [a1, a2]).length - 2) = [a1, a2] := by simp
  have e4 : (lb ++ [b1, b2]).drop ((lb ++ [b1, b2]).length - 2) = [b1, b2] := by simp
  simp only [e1, e2, e3, e4, List.getD_cons_zero, List.getD_cons_succ]

/-- mismatching inner dimensions are refused (never a value) -/
theorem C05_refuses_inner (a b : Tensor S) (ta tb : Bool) (c : Option (Tensor S)) (la lb : List Nat) (a1 a2 b1 b2 : Nat)
    (hda : a.dims = la ++ [a1, a2]) (hdb : b.dims = lb ++ [b1, b2])
    (hinner : (if ta then a1 else a2) ≠ (if tb then b2 else b1)) :
    ∃ p, matmul a ta b tb c = .error p :=
  matmul_refuses_inner a b ta tb c la lb a1 a2 b1 b2 hda hdb hinner

/-- incompatible batch dimensions are refused -/
theorem C05_refuses_leading (a b : Tensor S) (ta tb : Bool) (c : Option (Tensor S)) (la lb : List Nat) (a1 a2 b1 b2 : Nat)
    (hda : a.dims = la ++ [a1, a2]) (hdb : b.dims = lb ++ [b1, b2]) (hc : Compat la lb = false) :
    matmul a ta b tb c = .error .incompatible :=
  matmul_refuses_leading a b ta tb c la lb a1 a2 b1 b2 hda hdb hc

/-- **A rank-1 operand next to a rank ≥ 2 operand behaves as a one-row matrix**: with agreeing inner
    dimensions, `matmul` of the vector is, literally, `matmul` of the `1 × k` matrix with the same
    values — whose value is given by `C05_product`. -/
theorem C05_rank1_left (av : List S) (k : Nat) (b : Tensor S) (tb : Bool) (lb : List Nat) (b1 b2 : Nat)
    (hdb : b.dims = lb ++ [b1, b2]) (hinner : k = if tb then b2 else b1) :
    matmul (⟨[k], av⟩ : Tensor S) false b tb none = matmul (⟨[1, k], av⟩ : Tensor S) false b tb none :=
  matmul_rank1_left av k b tb lb b1 b2 hdb hinner

/-- …hence the value: the one-row product of the specification. -/
theorem C05_rank1_left_value (av : List S) (k : Nat) (b : Tensor S) (tb : Bool) (lb : List Nat) (b1 b2 : Nat)
    (hdb : b.dims = lb ++ [b1, b2]) (hinner : k = if tb then b2 else b1)
    (hwa : (⟨[1, k], av⟩ : Tensor S).WF) (hwb : b.WF) :
    matmul (⟨[k], av⟩ : Tensor S) false b tb none = .ok (specMatmul (⟨[1, k], av⟩ : Tensor S) false b tb none) := by
  rw [matmul_rank1_left av k b tb lb b1 b2 hdb hinner]
  exact matmul_spec_none _ b false tb [] lb 1 k b1 b2 rfl hdb hwa hwb (compat_nil_left lb) (by simpa using hinner)

/-- **Two untransposed rank-1 operands give their dot product**, as a one-element array. -/
theorem C05_dot (av bv : List S) (k : Nat) (hk : 1 ≤ k) (ha : av.length = k) (hb : bv.length = k) :
    matmul (⟨[k], av⟩ : Tensor S) false ⟨[k], bv⟩ false none
      = .ok ⟨[1], [zero + sumList ((List.range k).map (fun t => av.getD t zero * bv.getD t zero))]⟩ :=
  matmul_dot av bv k hk ha hb

/-! non-vacuity: a batched, transposed instance meets every hypothesis of `C05_product` / `C05_bias` -/
example : Compat [1, 2] [2, 1] = true ∧ bdims [1, 2] [2, 1] = [2, 2] := by decide
example : (⟨[2, 1, 2, 3], List.replicate 12 (1 : Int)⟩ : Tensor Int).WF := by
  refine ⟨by decide, by decide⟩
example : (if true then 2 else 3) = (if false then 5 else 2) := by decide

/-- **Single elements at any size.**  The `matmulat` command of the correspondence check (the implementation
    computes the whole product and indexes it; the model evaluates only `matmulElem`, the specification's
    sum at that index) compares the implementation with the model's own `matmul`: for well-formed operands of
    rank ≥ 2 (compatible batch dimensions, agreeing inner dimensions, no additive term or a bias row) and every
    in-range index, indexing the model's result gives exactly `matmulElem` — at matrix sizes where building
    the model's whole result is out of reach. -/
theorem C05_matmulat [BEq S] (a b : Tensor S) (ta tb : Bool) (c : Option (Tensor S)) (i : List Nat)
    (hv : matmulValidB a ta b tb c = true) (hi : inRange (matmulOutDims a ta b tb) i = true) :
    ∃ t, matmul a ta b tb c = .ok t ∧ t.index i = .ok (matmulElem a ta b tb c i) :=
  matmulat_spec a b ta tb c i hv hi

end Corgi

#print axioms Corgi.C05_matmulat
#print axioms Corgi.C05_entry
#print axioms Corgi.C05_product
#print axioms Corgi.C05_bias
#print axioms Corgi.C05_addterm
#print axioms Corgi.C05_shape
#print axioms Corgi.C05_refuses_inner
#print axioms Corgi.C05_refuses_leading
#print axioms Corgi.C05_rank1_left
#print axioms Corgi.C05_rank1_left_value
#print axioms Corgi.C05_dot
