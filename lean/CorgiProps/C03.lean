/-
  C03 — Gradients have their array's shape; broadcast contributions are summed.
-/
import CorgiProofs.EngineProcess

set_option linter.unusedSectionVars false

namespace Corgi
variable {S : Type} [Add S] [Mul S] [Neg S] [Sub S] [ScalarOps S] [BEq S] [LawfulBEq S]

/-- Whatever `flatten_to` returns has exactly the requested dimensions. -/
theorem C03_flatten_dims (d : Tensor S) (dims : List Nat) (t : Tensor S)
    (h : flattenTo d dims = .ok t) : t.dims = dims := by
  unfold flattenTo at h
  by_cases hd : (d.dims == dims) = true
  · simp only [hd, if_true, pure, Except.pure] at h
    cases h
    simpa using hd
  · simp only [hd, Bool.false_eq_true, if_false, bind, Except.bind] at h
    cases hl : flattenLoop d.dims dims (d.dims.length - dims.length) d.vals 0 (List.replicate (prod dims) zero) with
    | error e => simp [hl] at h
    | ok vals =>
      simp only [hl] at h
      unfold Tensor.mk? at h
      split at h
      · simp [throw, throwThe, MonadExceptOf.throw] at h
      · split at h
        · simp [throw, throwThe, MonadExceptOf.throw] at h
        · simp only [pure, Except.pure] at h; cases h; rfl

/-- **Every contribution is reduced, the first and every later one.**  In the delivery loop the delta
    handed to an operand always passes through `flatten_to` with the operand's own dimensions before
    it is stored or added to the pending delta: after a successful delivery step the operand's
    pending delta is `mergeDelta old d'` for some `d'` of exactly the operand's dimensions. -/
theorem C03_every_contribution_reduced (rec : Nat → Bool → EState S → R (EState S)) (s : Slot)
    (ss : List Slot) (d : Tensor S) (ds : List (Option (Tensor S))) (σ σ' : EState S)
    (h : deliver rec (s :: ss) (some d :: ds) σ = .ok σ') :
    ∃ d' nd, flattenTo d s.dims = .ok d' ∧ d'.dims = s.dims ∧ mergeDelta (σ.delta s.node) d' = .ok nd := by
  simp only [deliver, bind, Except.bind] at h
  cases h1 : flattenTo d s.dims with
  | error e => simp [h1] at h
  | ok d' =>
    simp only [h1] at h
    cases h2 : mergeDelta (σ.delta s.node) d' with
    | error e => simp [h2] at h
    | ok nd => exact ⟨d', nd, rfl, C03_flatten_dims d s.dims d' h1, h2⟩

/-- The first contribution *is* the reduced delta, so it has the operand's dimensions. -/
theorem C03_first_contribution (d' nd : Tensor S) (h : mergeDelta none d' = .ok nd) : nd = d' := by
  simp [mergeDelta, pure, Except.pure] at h; exact h.symm

end Corgi

#print axioms Corgi.C03_flatten_dims
#print axioms Corgi.C03_every_contribution_reduced
#print axioms Corgi.C03_first_contribution
