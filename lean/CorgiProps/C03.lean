/-
  C03 — Gradients have their array's shape; broadcast contributions are summed.
-/
import CorgiProofs.EngineProcess
import CorgiProofs.FlattenTo
import CorgiProofs.Instances

set_option linter.unusedSectionVars false

namespace Corgi
variable {S : Type} [Add S] [Mul S] [Neg S] [Sub S] [ScalarOps S] [BEq S] [LawfulBEq S]

/-- Whatever `flatten_to` returns has exactly the requested dimensions. -/
theorem C03_flatten_dims (d : Tensor S) (dims : List Nat) (t : Tensor S)
    (h : flattenTo d dims = .ok t) : t.dims = dims := by
  unfold flattenTo at h
  by_cases hd : (d.dims == dims) = true
  · simp only [hd, if_true, pure, Except.pure] at h
    cases h
    simpa using hd
  · simp only [hd, Bool.false_eq_true, if_false, bind, Except.bind] at h
    cases hl : flattenLoop d.dims dims (d.dims.length - dims.length) d.vals 0 (List.replicate (prod dims) zero) with
    | error e => simp [hl] at h
    | ok vals =>
      simp only [hl] at h
      unfold Tensor.mk? at h
      split at h
      · simp [throw, throwThe, MonadExceptOf.throw] at h
      · split at h
        · simp [throw, throwThe, MonadExceptOf.throw] at h
        · simp only [pure, Except.pure] at h; cases h; rfl

/-- **Every contribution is reduced, the first and every later one.**  In the delivery loop the delta
    handed to an operand always passes through `flatten_to` with the operand's own dimensions before
    it is stored or added to the pending delta: after a successful delivery step the operand's
    pending delta is `mergeDelta old d'` for some `d'` of exactly the operand's dimensions. -/
theorem C03_every_contribution_reduced (rec : Nat → Bool → EState S → R (EState S)) (s : Slot)
    (ss : List Slot) (d : Tensor S) (ds : List (Option (Tensor S))) (σ σ' : EState S)
    (h : deliver rec (s :: ss) (some d :: ds) σ = .ok σ') :
    ∃ d' nd, flattenTo d s.dims = .ok d' ∧ d'.dims = s.dims ∧ mergeDelta (σ.delta s.node) d' = .ok nd := by
  simp only [deliver, bind, Except.bind] at h
  cases h1 : flattenTo d s.dims with
  | error e => simp [h1] at h
  | ok d' =>
    simp only [h1] at h
    cases h2 : mergeDelta (σ.delta s.node) d' with
    | error e => simp [h2] at h
    | ok nd => exact ⟨d', nd, rfl, C03_flatten_dims d s.dims d' h1, h2⟩

/-- The first contribution *is* the reduced delta, so it has the operand's dimensions. -/
theorem C03_first_contribution (d' nd : Tensor S) (h : mergeDelta none d' = .ok nd) : nd = d' := by
  simp [mergeDelta, pure, Except.pure] at h; exact h.symm


/-- **Broadcast contributions are summed.**  For every well-formed delta and every operand shape
    that fits it (right-aligned, each dimension `1` or equal, not longer) and differs from it, the
    reduced delta has the operand's dimensions and holds, at each position `q` of the operand, the sum
    (in the delta's row-major order) of the delta's values at *all* positions that project onto `q` —
    none dropped, none taken twice; with equal dimensions the delta is passed through unchanged. -/
theorem C03_reduction_is_sum (t : Tensor S) (target : List Nat) (hwf : t.WF) (hne : (t.dims == target) = false)
    (hfit : Fits target t.dims = true) (hpos : ∀ d ∈ target, 1 ≤ d) :
    flattenTo t target = .ok (sumBroadcast t target) := flattenTo_spec t target hwf hne hfit hpos

theorem C03_same_shape_unchanged (t : Tensor S) (target : List Nat) (h : (t.dims == target) = true) :
    flattenTo t target = .ok t := flattenTo_eqdims t target h

/-! non-vacuity: a `[2,3]` delta reduced onto a `[1,3]` (bias-like) and a `[3]` operand -/
example : Fits [1, 3] [2, 3] = true ∧ Fits [3] [2, 3] = true ∧ ([2, 3] == [1, 3]) = false := by decide
example : (sumBroadcast (⟨[2, 3], [1, 2, 3, 10, 20, 30]⟩ : Tensor Int) [1, 3]).vals = [11, 22, 33] := by decide

end Corgi

#print axioms Corgi.C03_flatten_dims
#print axioms Corgi.C03_every_contribution_reduced
#print axioms Corgi.C03_first_contribution
#print axioms Corgi.C03_reduction_is_sum
#print axioms Corgi.C03_same_shape_unchanged
