/-
  C16 — Construction, row-major layout, indexing and equality are consistent.
  Statements only (helper lemmas live in CorgiProofs); every theorem is about the executable
  model functions that the driver runs against the implementation.
-/
import CorgiProofs.Index
import CorgiProofs.Lists

namespace Corgi
variable {S : Type}

/-- `Array::from((dims, values))` succeeds exactly when every dimension is ≥ 1 and the product of
    the dimensions is the number of values, and then has exactly those dimensions and values. -/
theorem C16_mk (d : List Nat) (v : List S) (t : Tensor S) :
    Tensor.mk? d v = .ok t ↔ ((∀ x ∈ d, 1 ≤ x) ∧ prod d = v.length ∧ t = ⟨d, v⟩) := by
  unfold Tensor.mk?
  by_cases h1 : d.all (fun x => decide (1 ≤ x)) = true
  · have h1' : ∀ x ∈ d, 1 ≤ x := by simpa using h1
    by_cases h2 : prod d = v.length
    · simp [h1, h2, pure, Except.pure]
      constructor
      · intro h; exact ⟨h1', h.symm⟩
      · intro h; exact h.2.symm
    · simp [h1, h2]
  · simp [h1]
    intro h; exact absurd (by simpa using h) h1

/-- …and panics otherwise (zero dimension, or element count mismatch). -/
theorem C16_mk_refuses (d : List Nat) (v : List S) (h : ¬ ((∀ x ∈ d, 1 ≤ x) ∧ prod d = v.length)) :
    ∃ p, Tensor.mk? d v = .error p := by
  cases hr : Tensor.mk? d v with
  | error p => exact ⟨p, rfl⟩
  | ok t => exact absurd (let h' := (C16_mk d v t).mp hr; ⟨h'.1, h'.2.1⟩) h

/-- A flat vector becomes a rank-1 array of its length (an empty vector is refused: dimension 0). -/
theorem C16_flat (v : List S) (hne : v ≠ []) : Tensor.ofFlat v = .ok ⟨[v.length], v⟩ := by
  have : 1 ≤ v.length := by cases v <;> simp_all
  exact (C16_mk [v.length] v _).mpr ⟨by simpa using this, by simp [prod], rfl⟩

/-- Dimensions alone give zeros. -/
theorem C16_zeros [ScalarOps S] (d : List Nat) (h : ∀ x ∈ d, 1 ≤ x) :
    Tensor.zeros (S := S) d = .ok ⟨d, List.replicate (prod d) zero⟩ :=
  (C16_mk d _ _).mpr ⟨h, by simp, rfl⟩

/-- Nesting well-formed arrays of equal dimensions `d` gives dimensions `n :: d` and the
    concatenated values. -/
theorem C16_nested (t : Tensor S) (rest : List (Tensor S)) (hd : ∀ u ∈ rest, u.dims = t.dims)
    (hwf : ∀ u ∈ t :: rest, u.WF) :
    Tensor.ofNested (t :: rest) = .ok ⟨(rest.length + 1) :: t.dims, (t :: rest).flatMap (·.vals)⟩ := by
  unfold Tensor.ofNested
  have hall : rest.all (fun u => u.dims == t.dims) = true := by
    simp only [List.all_eq_true, beq_iff_eq]; exact hd
  simp only [hall, Bool.not_true, Bool.false_eq_true, if_false]
  refine (C16_mk _ _ _).mpr ⟨?_, ?_, by simp⟩
  · intro x hx
    simp at hx
    rcases hx with rfl | hx
    · omega
    · exact (hwf t (by simp)).1 x hx
  · have hlen : ∀ u ∈ t :: rest, u.vals.length = prod t.dims := by
      intro u hu
      have := (hwf u hu).2
      simp at hu
      rcases hu with rfl | hu
      · exact this.symm
      · rw [← this, hd u hu]
    have : ((t :: rest).flatMap (·.vals)).length = (t :: rest).length * prod t.dims := by
      rw [List.flatMap_def]
      have := length_flatten_const (bs := (t :: rest).map (·.vals)) (m := prod t.dims) (by
        intro b hb
        simp only [List.mem_map] at hb
        obtain ⟨u, hu, rfl⟩ := hb
        exact hlen u hu)
      simpa using this
    rw [this]; simp [prod]

/-- Nested element `(i :: idx)` is element `idx` of the `i`-th part. -/
theorem C16_nested_get (ts : List (Tensor S)) (d : List Nat) (hd : ∀ u ∈ ts, u.dims = d)
    (hwf : ∀ u ∈ ts, u.WF) (i : Nat) (idx : List Nat) (hidx : inRange d idx = true) (hne : d ≠ []) :
    (ts.flatMap (·.vals))[rowMajor (ts.length :: d) (i :: idx)]? = (ts[i]?).bind (·.vals[rowMajor d idx]?) := by
  have hlen : ∀ b ∈ ts.map (·.vals), b.length = prod d := by
    intro b hb
    simp at hb
    obtain ⟨u, hu, rfl⟩ := hb
    rw [← (hwf u hu).2, hd u hu]
  simp only [rowMajor, List.flatMap_def]
  rw [getElem?_flatten_const hlen i _ (rowMajor_lt_prod' hidx hne)]
  simp [List.getElem?_map]
  cases ts[i]? <;> simp

/-- A full in-range multi-index reads the row-major element. -/
theorem C16_index (t : Tensor S) (idx : List Nat) (hwf : t.WF) (hne : t.dims ≠ [])
    (h : inRange t.dims idx = true) :
    ∃ x, t.index idx = .ok x ∧ t.vals[rowMajor t.dims idx]? = some x := by
  have hlt : rowMajor t.dims idx < t.vals.length := by
    rw [← hwf.2]; exact rowMajor_lt_prod' h hne
  refine ⟨t.vals[rowMajor t.dims idx], ?_, by simp [hlt]⟩
  simp [Tensor.index, flattenIndices_eq_rowMajor h hne, bind, Except.bind, getR, hlt, pure, Except.pure]

/-- A flat index reads that element, and is refused out of range. -/
theorem C16_indexFlat (t : Tensor S) (i : Nat) :
    (∀ h : i < t.vals.length, t.indexFlat i = .ok t.vals[i]) ∧
    (¬ i < t.vals.length → t.indexFlat i = .error .indexOOB) := by
  constructor
  · intro h; simp [Tensor.indexFlat, getR, h, pure, Except.pure]
  · intro h
    have : t.vals[i]? = none := by simp; omega
    simp [Tensor.indexFlat, getR, this, throw, throwThe, MonadExceptOf.throw]

/-- Row-major layout: the `n`-th value is the element at the `n`-th multi-index, and conversely. -/
theorem C16_layout (d : List Nat) (hpos : ∀ x ∈ d, 1 ≤ x) (n : Nat) (hn : n < prod d) :
    inRange d (unflatten d n) = true ∧ rowMajor d (unflatten d n) = n :=
  ⟨unflatten_inRange hpos hn, rowMajor_unflatten hn⟩

theorem C16_layout_inv (d idx : List Nat) (h : inRange d idx = true) :
    unflatten d (rowMajor d idx) = idx := unflatten_rowMajor h

/-- Equality is exactly equality of dimensions and values; tracking state, graph and gradient are
    not part of a `Tensor` at all (they live on handles and nodes), so they cannot matter. -/
theorem C16_eq [BEq S] [LawfulBEq S] (a b : Tensor S) :
    a.beq b = true ↔ (a.dims = b.dims ∧ a.vals = b.vals) := by
  simp [Tensor.beq]

/-! non-vacuity: concrete instances of the hypotheses -/
example : (Tensor.mk? [2, 3] [1, 2, 3, 4, 5, (6 : Nat)]) = .ok ⟨[2, 3], [1, 2, 3, 4, 5, 6]⟩ := rfl
example : inRange [2, 3] [1, 2] = true ∧ rowMajor [2, 3] [1, 2] = 5 := by decide
example : (⟨[2, 3], [1, 2, 3, 4, 5, (6 : Nat)]⟩ : Tensor Nat).WF := by simp [Tensor.WF, prod]
example : unflatten [2, 3] 5 = [1, 2] := by decide
example : flattenIndices [1, 2] [2, 3] = .ok 5 := rfl
example : ∃ p, Tensor.mk? [2, 0] ([] : List Nat) = .error p := ⟨.badDims, rfl⟩

end Corgi

#print axioms Corgi.C16_mk
#print axioms Corgi.C16_mk_refuses
#print axioms Corgi.C16_flat
#print axioms Corgi.C16_zeros
#print axioms Corgi.C16_nested
#print axioms Corgi.C16_nested_get
#print axioms Corgi.C16_index
#print axioms Corgi.C16_indexFlat
#print axioms Corgi.C16_layout
#print axioms Corgi.C16_layout_inv
#print axioms Corgi.C16_eq
