/-
  C08 — Arrays are immutable: no operation changes an existing array's values or shape.
-/
import CorgiModel.Step

set_option linter.unusedSectionVars false

namespace Corgi
variable {S : Type} [Add S] [Mul S] [Neg S] [Sub S] [ScalarOps S] [BEq S]

/-- `σ'` extends `σ`: every existing buffer is still there, unchanged. -/
def BufExt (σ σ' : State S) : Prop := ∀ i, i < σ.bufs.size → σ'.bufs[i]? = σ.bufs[i]?

theorem BufExt.refl (σ : State S) : BufExt σ σ := fun _ _ => rfl
theorem BufExt.trans {a b c : State S} (h1 : BufExt a b) (h2 : BufExt b c) : BufExt a c := by
  intro i hi
  have hb : i < b.bufs.size := by
    have := h1 i hi
    rcases Nat.lt_or_ge i b.bufs.size with h | h
    · exact h
    · rw [Array.getElem?_eq_none h] at this
      rw [Array.getElem?_eq_getElem hi] at this
      cases this
  rw [h2 i hb, h1 i hi]

/-- Allocating a result appends one buffer and never rewrites an existing one. -/
theorem C08_alloc (σ : State S) (t : Tensor S) (kids : List Handle) (tag : Option (OpTag S)) (attach : Bool)
    (label : String) : BufExt σ (σ.alloc t kids tag attach label).1 := by
  intro i hi
  simp only [State.alloc]
  rw [Array.getElem?_push_lt hi]
  exact (Array.getElem?_eq_getElem hi).symm

/-- A reshaped view adds no buffer at all. -/
theorem C08_view (σ : State S) (dims : List Nat) (buf : Nat) (kids : List Handle) (tag : Option (OpTag S))
    (attach : Bool) : (σ.allocView dims buf kids tag attach).1.bufs = σ.bufs := rfl

/-- A backward pass, with its gradient accumulation, touches no buffer, no handle and no node. -/
theorem C08_backward (σ σ' : State S) (h : Handle) (seed : Option (Tensor S)) (hok : σ.backward h seed = .ok σ') :
    σ'.bufs = σ.bufs ∧ σ'.env = σ.env := by
  simp only [State.backward, bind, Except.bind] at hok
  cases hb : Corgi.backward σ.graph (σ.nodes.size + 1) h.node h.dims h.keep seed σ.estate with
  | error e => simp [hb] at hok
  | ok e => simp only [hb, pure, Except.pure] at hok; cases hok; exact ⟨rfl, rfl⟩

/-- Gradient reads, clears and sets touch no buffer. -/
theorem C08_setGrad (σ : State S) (n : Nat) (g : Option (Tensor S)) : (σ.setGrad n g).bufs = σ.bufs := rfl

/-- The value seen through a handle is a function of (dims, buffer id) and the buffer content only:
    if the buffers of `σ` survive in `σ'`, every handle still denotes the same dimensions and values. -/
theorem C08_handle_stable (σ σ' : State S) (h : Handle) (hext : BufExt σ σ') (hb : h.buf < σ.bufs.size) :
    σ'.tensorOf h = σ.tensorOf h := by
  simp only [State.tensorOf]
  have := hext h.buf hb
  simp [Array.getD_eq_getD_getElem?, this]

/-- The optimizer: gathering touches no buffer; draining only allocates. -/
theorem C08_gather (σ : State S) (ps : List Handle) : (gdGather σ ps).1.bufs = σ.bufs := by
  induction ps generalizing σ with
  | nil => rfl
  | cons p ps ih =>
    simp only [gdGather]
    cases σ.grad.getD p.node none with
    | none => simp [ih]
    | some g => simp [ih, State.setGrad]

theorem C08_drain (ps : List Handle) : ∀ (σ : State S) (fs : List Bool) (vals : List S) (σ' : State S) (hs : List Handle),
    gdDrain σ ps fs vals = .ok (σ', hs) → BufExt σ σ' := by
  induction ps with
  | nil => intro σ fs vals σ' hs h; simp [gdDrain, pure, Except.pure] at h; rw [← h.1]; exact BufExt.refl _
  | cons p ps ih =>
    intro σ fs vals σ' hs h
    cases fs with
    | nil => simp [gdDrain, pure, Except.pure] at h; rw [← h.1]; exact BufExt.refl _
    | cons f fs =>
      cases f with
      | true =>
        simp only [gdDrain, if_true, bind, Except.bind] at h
        cases hr : gdDrain σ ps fs vals with
        | error e => simp [hr] at h
        | ok r =>
          have hx := ih σ fs vals r.1 r.2 (by rw [hr])
          simp only [hr, pure, Except.pure, Except.ok.injEq, Prod.mk.injEq] at h
          rw [← h.1]; exact hx
      | false =>
        simp only [gdDrain, Bool.false_eq_true, if_false, bind, Except.bind] at h
        split at h
        · simp [throw, throwThe, MonadExceptOf.throw] at h
        · cases ht : Tensor.mk? p.dims (List.take (σ.tensorOf p).vals.length vals) with
          | error e => simp [ht] at h
          | ok t =>
            simp only [ht] at h
            cases hr : gdDrain (σ.alloc t [] none false).1 ps fs (List.drop (σ.tensorOf p).vals.length vals) with
            | error e => simp [hr] at h
            | ok r =>
              simp only [hr, pure, Except.pure, Except.ok.injEq, Prod.mk.injEq] at h
              rw [← h.1]
              exact (C08_alloc σ t [] none false "").trans (ih _ _ _ r.1 r.2 (by rw [hr]))

/-- `GradientDescent::update` replaces parameters by **new** arrays: every buffer that existed before
    the update is unchanged, so every older handle (clones, views, graph operands) still sees the old
    values. -/
theorem C08_update_fresh (σ σ' : State S) (lr : S) (ps hs : List Handle)
    (h : gdUpdate σ lr ps = .ok (σ', hs)) : BufExt σ σ' := by
  unfold gdUpdate at h
  have hg := C08_gather σ ps
  have := C08_drain ps (gdGather σ ps).1 _ _ σ' hs h
  intro i hi
  rw [this i (by rw [hg]; exact hi), hg]

end Corgi

#print axioms Corgi.C08_alloc
#print axioms Corgi.C08_view
#print axioms Corgi.C08_backward
#print axioms Corgi.C08_setGrad
#print axioms Corgi.C08_handle_stable
#print axioms Corgi.C08_gather
#print axioms Corgi.C08_drain
#print axioms Corgi.C08_update_fresh
