/-
  C08 — Arrays are immutable: no operation changes an existing array's values or shape.
-/
import CorgiProofs.Frame

set_option linter.unusedSectionVars false

namespace Corgi
variable {S : Type} [Add S] [Mul S] [Neg S] [Sub S] [ScalarOps S] [BEq S]

/-- **Every command.**  Whatever the command (construction, any forward operation, flag setters,
    clone / drop / re-bind, a backward pass with its gradient accumulation, gradient fetch / clear /
    set, optimizer and model updates, layer and model forwards, …) and whatever the state: every
    buffer that existed before still exists afterwards with the same content. -/
theorem C08_step (σ : State S) (c : Cmd S) : BufExt σ (step σ c).1 := step_bufExt σ c

/-- **Every history.** -/
theorem C08_history (cs : List (Cmd S)) (σ : State S) : BufExt σ (cs.foldl (fun s c => (step s c).1) σ) :=
  run_bufExt cs σ

/-- A handle is a value `(dims, buffer id, …)`: what it denotes depends on its dimensions and on the
    content of its buffer only.  So every handle that was valid before — a live name, a clone, a
    reshaped view, an operand recorded inside a graph, a previously fetched gradient — denotes the
    same dimensions and values after any command and after any history. -/
theorem C08_handle_stable (σ σ' : State S) (h : Handle) (hext : BufExt σ σ') (hb : h.buf < σ.bufs.size) :
    σ'.tensorOf h = σ.tensorOf h := by
  simp only [State.tensorOf]
  have := hext h.buf hb
  simp [Array.getD_eq_getD_getElem?, this]

theorem C08_immutable (cs : List (Cmd S)) (σ : State S) (h : Handle) (hb : h.buf < σ.bufs.size) :
    (cs.foldl (fun s c => (step s c).1) σ).tensorOf h = σ.tensorOf h :=
  C08_handle_stable σ _ h (C08_history cs σ) hb

/-- `GradientDescent::update` replaces parameters by **new** arrays: the buffers of the old
    parameters are unchanged, so every older handle still sees the old values. -/
theorem C08_update_fresh (σ σ' : State S) (lr : S) (ps hs : List Handle)
    (h : gdUpdate σ lr ps = .ok (σ', hs)) : BufExt σ σ' := bufExt_gdUpdate σ σ' lr ps hs h

/-- A backward pass, with its gradient accumulation, touches no buffer, no handle and no node. -/
theorem C08_backward (σ σ' : State S) (h : Handle) (seed : Option (Tensor S)) (hok : σ.backward h seed = .ok σ') :
    σ'.bufs = σ.bufs ∧ σ'.env = σ.env := by
  simp only [State.backward, bind, Except.bind] at hok
  cases hb : Corgi.backward σ.graph (σ.nodes.size + 1) h.node h.dims h.keep seed σ.estate with
  | error e => simp [hb] at hok
  | ok e => simp only [hb, pure, Except.pure] at hok; cases hok; exact ⟨rfl, rfl⟩

/-- A reshaped view adds no buffer at all (it shares its source's). -/
theorem C08_view (σ : State S) (dims : List Nat) (buf : Nat) (kids : List Handle) (tag : Option (OpTag S))
    (attach : Bool) : (σ.allocView dims buf kids tag attach).1.bufs = σ.bufs := rfl

end Corgi

#print axioms Corgi.C08_step
#print axioms Corgi.C08_history
#print axioms Corgi.C08_handle_stable
#print axioms Corgi.C08_immutable
#print axioms Corgi.C08_update_fresh
#print axioms Corgi.C08_backward
#print axioms Corgi.C08_view
