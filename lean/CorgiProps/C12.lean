/-
  C12 — Handles are transparent: clones, drops and re-binding never change results.
-/
import CorgiModel.Step

set_option linter.unusedSectionVars false

namespace Corgi
variable {S : Type} [Add S] [Mul S] [Neg S] [Sub S] [ScalarOps S] [BEq S]

/-- A clone *is* the handle: same dimensions, same buffer, same node (hence the same counter,
    pending delta and gradient cell), same flags — only the name differs. -/
theorem C12_clone_is_handle (σ σ' : State S) (w v : String) (o : Out S) (h : Handle)
    (hv : σ.get v = .ok h) (hok : exec σ (.clone w v) = .ok (σ', o)) :
    σ' = σ.bind w h := by
  simp only [exec, hv, bind, Except.bind, pure, Except.pure, Except.ok.injEq, Prod.mk.injEq] at hok
  exact hok.1.symm

/-- What an operation computes and records depends only on the operand *handles* — never on the
    names they are bound to, nor on which other names are live: under any other name environment
    (operands replaced by clones, unused handles dropped, variables re-bound) the operation returns
    the same result handle and makes the same change to the heap. -/
theorem C12_op_ignores_names (tag : OpTag S) (f : Tensor S → Tensor S → R (Tensor S))
    (σ : State S) (env' : List (String × Handle)) (a b : Handle) :
    hEwise tag f { σ with env := env' } a b
      = (hEwise tag f σ a b).map (fun r => ({ r.1 with env := env' }, r.2)) := by
  simp only [hEwise, State.tensorOf, bind, Except.bind]
  cases f ⟨a.dims, σ.bufs.getD a.buf []⟩ ⟨b.dims, σ.bufs.getD b.buf []⟩ with
  | error e => rfl
  | ok t => rfl

theorem C12_unary_ignores_names (tag : OpTag S) (f : Tensor S → Tensor S)
    (σ : State S) (env' : List (String × Handle)) (a : Handle) :
    hUnary tag f { σ with env := env' } a = (hUnary tag f σ a).map (fun r => ({ r.1 with env := env' }, r.2)) := rfl

/-- A backward pass does not read the name environment: it is a function of the heap and the handle
    it is started on, so starting it from a clone of the result (an equal handle), with any handles
    cloned, dropped or re-bound, is the same pass. -/
theorem C12_pass_ignores_names (σ : State S) (env' : List (String × Handle)) (h : Handle) (seed : Option (Tensor S)) :
    ({ σ with env := env' } : State S).backward h seed = (σ.backward h seed).map (fun s => { s with env := env' }) := by
  simp only [State.backward, bind, Except.bind]
  have hG : ({ σ with env := env' } : State S).graph = σ.graph := rfl
  have hE : ({ σ with env := env' } : State S).estate = σ.estate := rfl
  rw [hG, hE]
  cases Corgi.backward σ.graph (σ.nodes.size + 1) h.node h.dims h.keep seed σ.estate with
  | error e => rfl
  | ok e => rfl

/-- A gradient deposited through any clone is visible through every other clone: the gradient is
    read through the node id, which clones share. -/
theorem C12_shared_grad (σ : State S) (h₁ h₂ : Handle) (hnode : h₁.node = h₂.node) :
    σ.grad.getD h₁.node none = σ.grad.getD h₂.node none := by rw [hnode]

/-- Dropping a name changes nothing but the environment. -/
theorem C12_drop (σ σ' : State S) (v : String) (o : Out S) (hok : exec σ (.drop v) = .ok (σ', o)) :
    σ'.bufs = σ.bufs ∧ σ'.nodes = σ.nodes ∧ σ'.cnt = σ.cnt ∧ σ'.delta = σ.delta ∧ σ'.grad = σ.grad := by
  simp only [exec, bind, Except.bind] at hok
  cases hg : σ.get v with
  | error e => simp [hg] at hok
  | ok h => simp only [hg, pure, Except.pure, Except.ok.injEq, Prod.mk.injEq] at hok; rw [← hok.1]; exact ⟨rfl, rfl, rfl, rfl, rfl⟩

end Corgi

#print axioms Corgi.C12_clone_is_handle
#print axioms Corgi.C12_op_ignores_names
#print axioms Corgi.C12_unary_ignores_names
#print axioms Corgi.C12_pass_ignores_names
#print axioms Corgi.C12_shared_grad
#print axioms Corgi.C12_drop
