/-
  C15 — Layers, activations, costs and the model compute their documented formulas.
-/
import CorgiModel.Step
import CorgiProofs.Matmul
import CorgiSpec.Oracle
import CorgiProofs.Composite
import CorgiProofs.Conv
import CorgiProps.C04
import CorgiProps.C06

set_option linter.unusedSectionVars false

namespace Corgi
variable {S : Type} [Add S] [Mul S] [Neg S] [Sub S] [ScalarOps S] [BEq S]

/-- A dense layer computes `activation(matmul(x, Wᵀ) + b)`: one matmul with the right operand
    transposed and the bias as additive term, then the activation. -/
theorem C15_dense (σ : State S) (w b x : Handle) (act : Act) :
    layerForward σ (.dense w b act) x = (hMatmul σ x false w true (some b)).bind (fun r => hAct r.1 act r.2) := by
  simp only [layerForward, bind, Except.bind]

/-- A convolutional layer computes `activation(conv(x, filters, stride) + b)`, the bias being added
    by broadcasting (`[count,1,1]`: one bias per filter). -/
theorem C15_conv (σ : State S) (f b x : Handle) (sr sc : Nat) (act : Act) :
    layerForward σ (.conv f b sr sc act) x
      = (hConv σ x f sr sc).bind (fun c => (hAdd c.1 c.2 b).bind (fun r => hAct r.1 act r.2)) := by
  simp only [layerForward, bind, Except.bind]

/-- The mean-squared-error cost is `(target − output)² · (1 / element count)`. -/
theorem C15_mse (output target : Tensor S) :
    mse output target = (sub target output).map (fun d =>
      scale (powf d (one + one)) (ScalarOps.div one (ScalarOps.ofNat (prod output.dims)))) := by
  simp only [mse, bind, Except.bind, Except.map]
  cases sub target output <;> rfl

/-- The cross-entropy cost is `(−target · ln output) · (1 / leading dimension)`. -/
theorem C15_xent (output target : Tensor S) (b : Nat) (rest : List Nat) (hd : output.dims = b :: rest) :
    crossEntropy output target = (mul (neg target) (ln output)).map (fun p =>
      scale p (ScalarOps.div one (ScalarOps.ofNat b))) := by
  simp only [crossEntropy, hd, getR, List.getElem?_cons_zero, bind, Except.bind, pure, Except.pure, Except.map]

/-- On values, over a commutative ring: `(t − o)² · c` elementwise is what the scaled square gives. -/
theorem C15_mse_ring {R : Type} [Lean.Grind.CommRing R] (t o c : R) : (t + o * (-1)) * (t + o * (-1)) * c = (t - o) * (t - o) * c := by
  grind


/-- the handle returned by an allocation denotes the allocated tensor -/
theorem tensorOf_alloc_new (σ : State S) (t : Tensor S) (kids : List Handle) (tag : Option (OpTag S)) (attach : Bool)
    (label : String) : (σ.alloc t kids tag attach label).1.tensorOf (σ.alloc t kids tag attach label).2 = t := by
  simp [State.alloc, State.tensorOf, Array.getD_eq_getD_getElem?]

/-- **The dense layer's value**, for every batch shape and layer size: with input `x : lx ++ [rows, inp]`,
    weights `w : [out, inp]` and bias `b : [out]` (all well-formed), the forward pass returns — before
    the activation — the array of dimensions `lx ++ [rows, out]` whose entry `[L.., r, o]` is
    `b[o] + Σ_i x[L.., r, i] · w[o, i]` (`specMatmul x false w true (some b)`), and then applies the
    activation; for `none`, `relu`, `sigmoid` the activation is the documented element-wise map. -/
theorem C15_dense_value (σ σ' : State S) (w b x r : Handle) (lx : List Nat) (rows inp out : Nat)
    (hx : x.dims = lx ++ [rows, inp]) (hw : w.dims = [out, inp]) (hb : b.dims = [out])
    (hwx : (σ.tensorOf x).WF) (hww : (σ.tensorOf w).WF) (hwb : (σ.tensorOf b).WF)
    (hok : layerForward σ (.dense w b .none) x = .ok (σ', r)) :
    σ'.tensorOf r = specMatmul (σ.tensorOf x) false (σ.tensorOf w) true (some (σ.tensorOf b)) := by
  have hm := matmul_spec_bias (σ.tensorOf x) (σ.tensorOf w) (σ.tensorOf b) false true lx [] rows inp out inp
    (by simpa [State.tensorOf] using hx) (by simpa [State.tensorOf] using hw) hwx hww
    (by unfold Compat; cases lx.reverse <;> rfl) (by simp) (by simpa [State.tensorOf] using hb) hwb
  simp only [layerForward, hMatmul, hAct, bind, Except.bind, Option.map_some, hm, pure, Except.pure,
    Except.ok.injEq, Prod.mk.injEq] at hok
  obtain ⟨h1, h2⟩ := hok
  rw [← h1, ← h2]
  exact tensorOf_alloc_new σ _ _ _ _ _

/-- the element-wise activations are the documented maps (definitional in the model; the tie checks the code) -/
theorem C15_activations (t : Tensor S) :
    relu t = mapT (fun x => if ScalarOps.pos x then x else zero) t ∧
    sigmoid t = mapT (fun x => ScalarOps.div one (one + ScalarOps.exp (-x))) t := ⟨rfl, rfl⟩


/-- **The executed path** of the two costs: the `cost` command (and `Model::backward`) records the
    nodes of `(target − output)² · 1/count` resp. `−target · ln output · 1/batch`; whenever it returns
    a handle, the array it denotes is the tensor-level cost of `C15_mse` / `C15_xent`. -/
theorem C15_costs_executed (σ σ' : State S) (o t r : Handle) :
    (t.buf < σ.bufs.size → hMse σ o t = .ok (σ', r) → mse (σ.tensorOf o) (σ.tensorOf t) = .ok (σ'.tensorOf r)) ∧
    (o.buf < σ.bufs.size → hXent σ o t = .ok (σ', r) → crossEntropy (σ.tensorOf o) (σ.tensorOf t) = .ok (σ'.tensorOf r)) :=
  ⟨fun ht hok => (sound_hMse σ o t ht σ' r hok).1, fun ho hok => (sound_hXent σ o t ho σ' r hok).1⟩


/-- **The convolutional layer's value**, for every batch shape, depth, image / filter size, filter
    count and stride: with input `x : B ++ [D, R, C]`, filters `[K, D, fr, fc]` and bias `[K, 1, 1]`
    (all well-formed), the forward pass returns — before the activation — the sliding-window
    convolution plus the bias of each filter broadcast over its output plane:
    `[b.., f, y, x] = (Σ_k Σ_m Σ_n x[b.., k, y·sr+m, x·sc+n] · filter[f, k, m, n]) + bias[f]`. -/
theorem C15_conv_layer_value [AddLaws S] (σ σ' : State S) (f b x r : Handle) (B : List Nat) (D R C K fr fc sr sc : Nat)
    (hdx : x.dims = B ++ [D, R, C]) (hdf : f.dims = [K, D, fr, fc]) (hdb : b.dims = [K, 1, 1])
    (hwx : (σ.tensorOf x).WF) (hwf : (σ.tensorOf f).WF) (hwb : (σ.tensorOf b).WF)
    (hbf : f.buf < σ.bufs.size) (hbb : b.buf < σ.bufs.size)
    (hfr : fr ≤ R) (hfc : fc ≤ C) (hsr : 1 ≤ sr) (hsc : 1 ≤ sc)
    (hok : layerForward σ (.conv f b sr sc .none) x = .ok (σ', r)) :
    σ'.tensorOf r = specEwise (· + ·) (specConv (σ.tensorOf x) (σ.tensorOf f) sr sc) (σ.tensorOf b) := by
  simp only [layerForward] at hok
  obtain ⟨⟨σ1, c⟩, e1, e2⟩ := bindOk hok
  obtain ⟨⟨σ2, r0⟩, e3, e4⟩ := bindOk e2
  simp only [hAct, pure, Except.pure, Except.ok.injEq, Prod.mk.injEq] at e4
  obtain ⟨rfl, rfl⟩ := e4
  have hc := C06_conv_executed σ σ1 x f c B D R C K fr fc sr sc hdx hdf hwx hwf hbf hfr hfc hsr hsc e1
  obtain ⟨_, x1, _⟩ := sound_hConv σ x f sr sc hbf σ1 c e1
  obtain ⟨v3, _, _⟩ := sound_hEwise (.add : OpTag S) add σ1 c b σ2 r0 e3
  rw [hc, tensorOf_ext x1 b hbb] at v3
  -- the convolution output is a well-formed array whose dimensions the bias broadcasts to
  have hdims : (specConv (σ.tensorOf x) (σ.tensorOf f) sr sc).dims = B ++ [K, (R - fr) / sr + 1, (C - fc) / sc + 1] := by
    have ei : σ.tensorOf x = ⟨B ++ [D, R, C], (σ.tensorOf x).vals⟩ := by simp [State.tensorOf, hdx]
    have ef : σ.tensorOf f = ⟨[K, D, fr, fc], (σ.tensorOf f).vals⟩ := by simp [State.tensorOf, hdf]
    rw [ei, ef]; exact C06_spec_dims B D R C K D fr fc sr sc _ _
  have hK : 1 ≤ K := hwf.1 K (by simp [State.tensorOf, hdf])
  have hposB : ∀ d ∈ B, 1 ≤ d := fun d hd => hwx.1 d (by simp [State.tensorOf, hdx, hd])
  have hwc : (specConv (σ.tensorOf x) (σ.tensorOf f) sr sc).WF := by
    refine ⟨?_, by simp [specConv, Tensor.ofFn]⟩
    rw [hdims]
    intro d hd; simp at hd
    rcases hd with hd | hd | hd | hd
    · exact hposB d hd
    · omega
    · rw [hd]; exact Nat.succ_pos _
    · rw [hd]; exact Nat.succ_pos _
  have hcompat : Compat (specConv (σ.tensorOf x) (σ.tensorOf f) sr sc).dims (σ.tensorOf b).dims = true := by
    rw [hdims]
    have : (σ.tensorOf b).dims = [K, 1, 1] := by simp [State.tensorOf, hdb]
    rw [this]
    simp [Compat, compatRev]
  rw [C04_add _ _ hwc hwb (by rw [hdims]; simp) (by simp [State.tensorOf, hdb]) hcompat] at v3
  simp only [Except.ok.injEq] at v3
  exact v3.symm

end Corgi

#print axioms Corgi.C15_dense
#print axioms Corgi.C15_conv
#print axioms Corgi.C15_mse
#print axioms Corgi.C15_xent
#print axioms Corgi.C15_mse_ring
#print axioms Corgi.C15_dense_value
#print axioms Corgi.C15_activations
#print axioms Corgi.C15_costs_executed
#print axioms Corgi.C15_conv_layer_value
