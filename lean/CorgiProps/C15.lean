/-
  C15 — Layers, activations, costs and the model compute their documented formulas.
-/
import CorgiModel.Step

set_option linter.unusedSectionVars false

namespace Corgi
variable {S : Type} [Add S] [Mul S] [Neg S] [Sub S] [ScalarOps S] [BEq S]

/-- A dense layer computes `activation(matmul(x, Wᵀ) + b)`: one matmul with the right operand
    transposed and the bias as additive term, then the activation. -/
theorem C15_dense (σ : State S) (w b x : Handle) (act : Act) :
    layerForward σ (.dense w b act) x = (hMatmul σ x false w true (some b)).bind (fun r => hAct r.1 act r.2) := by
  simp only [layerForward, bind, Except.bind]

/-- A convolutional layer computes `activation(conv(x, filters, stride) + b)`, the bias being added
    by broadcasting (`[count,1,1]`: one bias per filter). -/
theorem C15_conv (σ : State S) (f b x : Handle) (sr sc : Nat) (act : Act) :
    layerForward σ (.conv f b sr sc act) x
      = (hConv σ x f sr sc).bind (fun c => (hAdd c.1 c.2 b).bind (fun r => hAct r.1 act r.2)) := by
  simp only [layerForward, bind, Except.bind]

/-- The mean-squared-error cost is `(target − output)² · (1 / element count)`. -/
theorem C15_mse (output target : Tensor S) :
    mse output target = (sub target output).map (fun d =>
      scale (powf d (one + one)) (ScalarOps.div one (ScalarOps.ofNat (prod output.dims)))) := by
  simp only [mse, bind, Except.bind, Except.map]
  cases sub target output <;> rfl

/-- The cross-entropy cost is `(−target · ln output) · (1 / leading dimension)`. -/
theorem C15_xent (output target : Tensor S) (b : Nat) (rest : List Nat) (hd : output.dims = b :: rest) :
    crossEntropy output target = (mul (neg target) (ln output)).map (fun p =>
      scale p (ScalarOps.div one (ScalarOps.ofNat b))) := by
  simp only [crossEntropy, hd, getR, List.getElem?_cons_zero, bind, Except.bind, pure, Except.pure, Except.map]

/-- On values, over a commutative ring: `(t − o)² · c` elementwise is what the scaled square gives. -/
theorem C15_mse_ring {R : Type} [Lean.Grind.CommRing R] (t o c : R) : (t + o * (-1)) * (t + o * (-1)) * c = (t - o) * (t - o) * c := by
  grind

end Corgi

#print axioms Corgi.C15_dense
#print axioms Corgi.C15_conv
#print axioms Corgi.C15_mse
#print axioms Corgi.C15_xent
#print axioms Corgi.C15_mse_ring
