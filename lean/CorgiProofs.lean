import CorgiProofs.Lists
import CorgiProofs.Index
