import CorgiProofs.Lists
import CorgiProofs.Index
import CorgiProofs.Broadcast
import CorgiProofs.EngineCount
import CorgiProofs.EngineProcess
import CorgiProofs.EngineFrame
import CorgiProofs.EngineTop
import CorgiProofs.RealDeriv
