import CorgiModel.Basic
import CorgiModel.Tensor
import CorgiModel.Walk
import CorgiModel.Ops
import CorgiModel.Engine
import CorgiModel.Vjp
import CorgiModel.Program
import CorgiModel.Step
