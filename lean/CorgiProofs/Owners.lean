/-
  CorgiProofs.Owners — once every root handle is a leaf (no stored operands), nothing but the root
  handles owns a buffer, whatever the heap holds: graphs that were built and dropped, passes that ran,
  gradients — none of them keeps a reference (C18).
-/
import CorgiModel.Program

set_option linter.unusedSectionVars false
set_option linter.unusedVariables false

namespace Corgi
variable {S : Type}

/-- `i` is marked only if it is a leaf node -/
def LeafMarked (σ : State S) (a : Array Bool) : Prop :=
  ∀ i, a.getD i false = true → ∃ r, σ.nodes[i]? = some r ∧ r.kids = [] ∧ r.op = none

theorem getD_setIfInBounds (a : Array Bool) (j i : Nat) (v : Bool) :
    (a.setIfInBounds j v).getD i false = true → (a.getD i false = true ∨ i = j) := by
  intro h
  simp only [Array.getD_eq_getD_getElem?] at h ⊢
  by_cases hij : j = i
  · right; exact hij.symm
  · left
    rw [Array.getElem?_setIfInBounds_ne hij] at h
    exact h

theorem leafMarked_roots (σ : State S) (n : Nat) : ∀ (hs : List Handle),
    (∀ h ∈ hs, ∃ r, σ.nodes[h.node]? = some r ∧ r.kids = [] ∧ r.op = none) →
    ∀ a, LeafMarked σ a → LeafMarked σ (hs.foldl (fun (a : Array Bool) h => a.setIfInBounds h.node true) a) := by
  intro hs
  induction hs with
  | nil => intro _ a ha; exact ha
  | cons h hs ih =>
    intro hl a ha
    simp only [List.foldl_cons]
    apply ih (fun x hx => hl x (by simp [hx]))
    intro i hi
    rcases getD_setIfInBounds a h.node i true hi with h1 | h1
    · exact ha i h1
    · subst h1; exact hl h (by simp)

theorem sweep_fix (σ : State S) : ∀ (is : List Nat) (a : Array Bool), LeafMarked σ a →
    is.foldl σ.markKids a = a := by
  intro is
  induction is with
  | nil => intro a _; rfl
  | cons i is ih =>
    intro a ha
    simp only [List.foldl_cons]
    have hstep : σ.markKids a i = a := by
      unfold State.markKids
      by_cases hi : a.getD i false = true
      · obtain ⟨r, hr, hk, _⟩ := ha i hi
        simp [hi, hr, hk]
      · simp [hi]
    rw [hstep]
    exact ih a ha

theorem sum_zero (σ : State S) (b : Nat) (live : Array Bool) (hl : LeafMarked σ live) : ∀ (is : List Nat) (acc : Nat),
    is.foldl (σ.ownStep live b) acc = acc := by
  intro is
  induction is with
  | nil => intro acc; rfl
  | cons i is ih =>
    intro acc
    simp only [List.foldl_cons]
    have hstep : σ.ownStep live b acc i = acc := by
      unfold State.ownStep
      by_cases hi : live.getD i false = true
      · obtain ⟨r, hr, hk, ho⟩ := hl i hi
        simp [hi, hr, hk, ho]
      · simp [hi]
    rw [hstep]
    exact ih acc

/-- **Nothing but the root handles owns anything** once every root is a leaf. -/
theorem owners_all_leaves (σ : State S) (b : Nat)
    (hleaf : ∀ h ∈ σ.roots, ∃ r, σ.nodes[h.node]? = some r ∧ r.kids = [] ∧ r.op = none) :
    σ.owners b = (σ.roots.filter (·.buf == b)).length := by
  have h0 : LeafMarked σ (Array.replicate σ.nodes.size false) := by
    intro i hi
    simp only [Array.getD_eq_getD_getElem?] at hi
    by_cases h : i < σ.nodes.size
    · simp [Array.getElem?_replicate, h] at hi
    · rw [Array.getElem?_eq_none (by simp; omega)] at hi; simp at hi
  have h1 := leafMarked_roots σ σ.nodes.size σ.roots hleaf _ h0
  have hlive : LeafMarked σ σ.live := by
    unfold State.live
    simp only []
    rw [sweep_fix σ _ _ h1]
    exact h1
  unfold State.owners
  rw [sum_zero σ b σ.live hlive]
  simp

end Corgi
