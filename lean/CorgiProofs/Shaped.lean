/-
  CorgiProofs.Shaped — tensors of given dimensions and size, and their pointwise sum.
-/
import CorgiSpec.Index

namespace Corgi
variable {S : Type} [Add S]

/-- a tensor of the right dimensions and size -/
def Shaped (d : List Nat) (x : Tensor S) : Prop := x.dims = d ∧ x.vals.length = prod d

/-- pointwise sum of two tensors of equal dimensions -/
def tadd (x y : Tensor S) : Tensor S := ⟨x.dims, List.zipWith (· + ·) x.vals y.vals⟩

theorem Shaped.tadd {d : List Nat} {x y : Tensor S} (hx : Shaped d x) (hy : Shaped d y) : Shaped d (tadd x y) := by
  refine ⟨hx.1, ?_⟩
  simp [Corgi.tadd, hx.2, hy.2]


end Corgi
