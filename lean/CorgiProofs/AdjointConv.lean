/-
  CorgiProofs.AdjointConv — the closure of `unroll_blocks` (im2col) is the transpose of its forward map:
  the forward slice operation is a *gather* (`unrollIdx`), the closure's slice operation `roll_blocks` with
  accumulation is a *scatter-add* (`rollIdx`, `rollPure`); the two index computations, written differently in
  the code, agree for every parameter value (`unrollIdx_eq_rollIdx`), and scatter-add over an index map is the
  transpose of the gather over the same map (`rollPure_adjoint`) — overlapping windows included.
-/
import CorgiProofs.AdjointMatmul
import CorgiProofs.LinearConv

set_option linter.unusedSectionVars false
set_option linter.unusedVariables false

namespace Corgi
variable {S : Type} [Add S] [Mul S] [Neg S] [Sub S] [ScalarOps S] [BEq S]
variable [AddLaws S] [MulLaws S] [CommLaws S]

/-- adding `x` at position `p` of the second argument adds `u[p]·x` to the inner product -/
theorem dot_set_add : ∀ (u o : List S) (p : Nat) (x : S), u.length = o.length → p < o.length →
    dot u (o.set p (o.getD p zero + x)) = dot u o + u.getD p zero * x
  | [], [], p, x, _, hp => by simp at hp
  | [], _ :: _, _, _, h, _ => by simp at h
  | _ :: _, [], _, _, h, _ => by simp at h
  | a :: u, b :: o, 0, x, h, hp => by
    simp only [List.set_cons_zero, List.getD_cons_zero, dot_cons]
    rw [MulLaws.left_distrib, AddLaws.add_assoc, AddLaws.add_assoc, AddLaws.add_comm (a * x)]
  | a :: u, b :: o, p + 1, x, h, hp => by
    simp only [List.set_cons_succ, List.getD_cons_succ, dot_cons]
    rw [dot_set_add u o p x (by simpa using h) (by simpa using hp), AddLaws.add_assoc]

/-- the gather that `rollPure`'s scatter transposes: element `i` reads position `idx (q + i)` -/
def gatherL (idx : Nat → Nat) (u : List S) : Nat → Nat → List S
  | _, 0 => []
  | q, n + 1 => u.getD (idx q) zero :: gatherL idx u (q + 1) n

theorem gatherL_eq (idx : Nat → Nat) (u : List S) : ∀ (n q : Nat),
    gatherL idx u q n = (List.range n).map (fun i => u.getD (idx (q + i)) zero)
  | 0, _ => rfl
  | n + 1, q => by
    rw [gatherL, gatherL_eq idx u n (q + 1), List.range_succ_eq_map, List.map_cons, List.map_map]
    congr 1
    apply List.map_congr_left
    intro i _
    simp only [Function.comp, Nat.add_assoc, Nat.add_comm 1 i]

/-- **scatter-add is the transpose of gather**: for every index map into the buffer,
    `⟨u, scatter(xs) onto out⟩ = ⟨u, out⟩ + ⟨gather(u), xs⟩` -/
theorem rollPure_adjoint (idx : Nat → Nat) (u : List S) : ∀ (xs : List S) (q : Nat) (out : List S),
    u.length = out.length → (∀ i, i < xs.length → idx (q + i) < out.length) →
    dot u (rollPure idx xs q out) = dot u out + dot (gatherL idx u q xs.length) xs
  | [], q, out, _, _ => by
    simp only [rollPure, List.length_nil, gatherL, dot_nil_left, add_zero']
  | x :: xs, q, out, hu, h => by
    have h0 : idx q < out.length := by simpa using h 0 (by simp)
    simp only [rollPure, List.length_cons, gatherL, dot_cons]
    rw [rollPure_adjoint idx u xs (q + 1) _ (by simpa using hu)
      (by intro i hi; have := h (i + 1) (by simpa using hi); simpa [Nat.add_assoc, Nat.add_comm 1 i] using this),
      dot_set_add u out (idx q) x hu h0, AddLaws.add_assoc]

theorem dot_replicate_zero : ∀ (u : List S) (n : Nat), dot u (List.replicate n zero) = zero
  | [], _ => rfl
  | a :: u, 0 => rfl
  | a :: u, n + 1 => by
    rw [List.replicate_succ, dot_cons, dot_replicate_zero u n, CommLaws.mul_zero, AddLaws.zero_add]

/-- the position `unroll_blocks` reads element `o` from is the position `roll_blocks` adds element `o` to:
    the two index computations (written differently in the code) agree for every parameter value -/
theorem unrollIdx_eq_rollIdx (cols rows depth sr sc fr fc cCount o : Nat) :
    unrollIdx cols rows depth sr sc fr fc cCount o = rollIdx depth rows cols sr sc fr fc cCount o := by
  unfold unrollIdx rollIdx
  simp only []
  have e1 : o % (fr * fc * depth) % (fr * fc) = o % (fr * fc) := Nat.mod_mul_right_mod o (fr * fc) depth
  have e2 : o % (fr * fc) % fc = o % fc := Nat.mod_mul_left_mod o fr fc
  have e3 : o % (fr * fc) / fc = o / fc % fr := Nat.mod_mul_left_div_self o fc fr
  have e4 : o % (fr * fc * depth) / (fr * fc) = o / (fr * fc) % depth := Nat.mod_mul_right_div_self o (fr * fc) depth
  have e5 : o / (fr * fc * depth) / cCount = o / (fr * fc * depth * cCount) := Nat.div_div_eq_div_mul o _ _
  rw [e1, e2, e3, e4, e5, Nat.mul_comm fc fr]
  generalize o % fc = nn
  generalize o / fc % fr = m
  generalize o / (fr * fc) % depth = k
  generalize o / (fr * fc * depth) % cCount = c
  generalize o / (fr * fc * depth * cCount) = r
  simp only [Nat.left_distrib, Nat.mul_assoc]
  ac_rfl

/-- **one image: `roll_blocks` (accumulating) is the transpose of `unroll_blocks`**, overlapping windows
    included: whenever the forward slice operation returns `U` for the image `img` and the closure's slice
    operation returns `B` for the delta `xs`, `⟨U, xs⟩ = ⟨img, B⟩`. -/
theorem unroll_roll_slice_adjoint (depth rows cols sr sc fr fc count cCount : Nat) (img xs U B : List S)
    (himg : img.length = depth * rows * cols) (hxs : xs.length = count * (fr * fc) * depth)
    (hin : ∀ o, o < count * (fr * fc) * depth → unrollIdx cols rows depth sr sc fr fc cCount o < depth * rows * cols)
    (hU : unrollOp cols rows depth sr sc fr fc cCount (count * (fr * fc) * depth) [img] = .ok U)
    (hB : rollOp true depth rows cols sr sc fr fc count cCount [xs] = .ok B) :
    dot U xs = dot img B := by
  have eU : U = gatherL (rollIdx depth rows cols sr sc fr fc cCount) img 0 xs.length := by
    rw [gatherL_eq, hxs]
    have := tabulateM_ok (fun o => getR img (unrollIdx cols rows depth sr sc fr fc cCount o))
      (fun o => img.getD (rollIdx depth rows cols sr sc fr fc cCount (0 + o)) zero) (count * (fr * fc) * depth)
      (fun o ho => by
        have hlt := hin o ho
        rw [← himg] at hlt
        simp only [Nat.zero_add, ← unrollIdx_eq_rollIdx]
        exact getR_ok img _ _ (by rw [List.getD_eq_getElem?_getD, List.getElem?_eq_getElem hlt]; rfl))
    simp only [unrollOp] at hU
    rw [this] at hU
    exact (Except.ok.inj hU).symm
  have eB : B = rollPure (rollIdx depth rows cols sr sc fr fc cCount) xs 0 (List.replicate (depth * rows * cols) zero) := by
    simp only [rollOp, hxs, Nat.lt_irrefl, if_false] at hB
    rw [← hxs, List.take_length, rollLoop_ok] at hB
    · exact (Except.ok.inj hB).symm
    · intro i hi
      rw [List.length_replicate, Nat.zero_add, ← unrollIdx_eq_rollIdx]
      exact hin i (by rw [← hxs]; exact hi)
  rw [eB, rollPure_adjoint _ img xs 0 _ (by simp [himg])
    (by intro i hi; rw [List.length_replicate, Nat.zero_add, ← unrollIdx_eq_rollIdx]; exact hin i (by rw [← hxs]; exact hi)),
    dot_replicate_zero, AddLaws.zero_add, ← eU]

end Corgi
