/-
  CorgiProofs.AdjointConv — the closure of `unroll_blocks` (im2col) is the transpose of its forward map:
  the forward slice operation is a *gather* (`unrollIdx`), the closure's slice operation `roll_blocks` with
  accumulation is a *scatter-add* (`rollIdx`, `rollPure`); the two index computations, written differently in
  the code, agree for every parameter value (`unrollIdx_eq_rollIdx`), and scatter-add over an index map is the
  transpose of the gather over the same map (`rollPure_adjoint`) — overlapping windows included.
-/
import CorgiProofs.AdjointMatmul
import CorgiProofs.LinearConv

set_option linter.unusedSectionVars false
set_option linter.unusedVariables false

namespace Corgi
variable {S : Type} [Add S] [Mul S] [Neg S] [Sub S] [ScalarOps S] [BEq S]
variable [AddLaws S] [MulLaws S] [CommLaws S]

/-- adding `x` at position `p` of the second argument adds `u[p]·x` to the inner product -/
theorem dot_set_add : ∀ (u o : List S) (p : Nat) (x : S), u.length = o.length → p < o.length →
    dot u (o.set p (o.getD p zero + x)) = dot u o + u.getD p zero * x
  | [], [], p, x, _, hp => by simp at hp
  | [], _ :: _, _, _, h, _ => by simp at h
  | _ :: _, [], _, _, h, _ => by simp at h
  | a :: u, b :: o, 0, x, h, hp => by
    simp only [List.set_cons_zero, List.getD_cons_zero, dot_cons]
    rw [MulLaws.left_distrib, AddLaws.add_assoc, AddLaws.add_assoc, AddLaws.add_comm (a * x)]
  | a :: u, b :: o, p + 1, x, h, hp => by
    simp only [List.set_cons_succ, List.getD_cons_succ, dot_cons]
    rw [dot_set_add u o p x (by simpa using h) (by simpa using hp), AddLaws.add_assoc]

/-- the gather that `rollPure`'s scatter transposes: element `i` reads position `idx (q + i)` -/
def gatherL (idx : Nat → Nat) (u : List S) : Nat → Nat → List S
  | _, 0 => []
  | q, n + 1 => u.getD (idx q) zero :: gatherL idx u (q + 1) n

theorem gatherL_eq (idx : Nat → Nat) (u : List S) : ∀ (n q : Nat),
    gatherL idx u q n = (List.range n).map (fun i => u.getD (idx (q + i)) zero)
  | 0, _ => rfl
  | n + 1, q => by
    rw [gatherL, gatherL_eq idx u n (q + 1), List.range_succ_eq_map, List.map_cons, List.map_map]
    congr 1
    apply List.map_congr_left
    intro i _
    simp only [Function.comp, Nat.add_assoc, Nat.add_comm 1 i]

/-- **scatter-add is the transpose of gather**: for every index map into the buffer,
    `⟨u, scatter(xs) onto out⟩ = ⟨u, out⟩ + ⟨gather(u), xs⟩` -/
theorem rollPure_adjoint (idx : Nat → Nat) (u : List S) : ∀ (xs : List S) (q : Nat) (out : List S),
    u.length = out.length → (∀ i, i < xs.length → idx (q + i) < out.length) →
    dot u (rollPure idx xs q out) = dot u out + dot (gatherL idx u q xs.length) xs
  | [], q, out, _, _ => by
    simp only [rollPure, List.length_nil, gatherL, dot_nil_left, add_zero']
  | x :: xs, q, out, hu, h => by
    have h0 : idx q < out.length := by simpa using h 0 (by simp)
    simp only [rollPure, List.length_cons, gatherL, dot_cons]
    rw [rollPure_adjoint idx u xs (q + 1) _ (by simpa using hu)
      (by intro i hi; have := h (i + 1) (by simpa using hi); simpa [Nat.add_assoc, Nat.add_comm 1 i] using this),
      dot_set_add u out (idx q) x hu h0, AddLaws.add_assoc]

theorem dot_replicate_zero : ∀ (u : List S) (n : Nat), dot u (List.replicate n zero) = zero
  | [], _ => rfl
  | a :: u, 0 => rfl
  | a :: u, n + 1 => by
    rw [List.replicate_succ, dot_cons, dot_replicate_zero u n, CommLaws.mul_zero, AddLaws.zero_add]

/-- the position `unroll_blocks` reads element `o` from is the position `roll_blocks` adds element `o` to:
    the two index computations (written differently in the code) agree for every parameter value -/
theorem unrollIdx_eq_rollIdx (cols rows depth sr sc fr fc cCount o : Nat) :
    unrollIdx cols rows depth sr sc fr fc cCount o = rollIdx depth rows cols sr sc fr fc cCount o := by
  unfold unrollIdx rollIdx
  simp only []
  have e1 : o % (fr * fc * depth) % (fr * fc) = o % (fr * fc) := Nat.mod_mul_right_mod o (fr * fc) depth
  have e2 : o % (fr * fc) % fc = o % fc := Nat.mod_mul_left_mod o fr fc
  have e3 : o % (fr * fc) / fc = o / fc % fr := Nat.mod_mul_left_div_self o fc fr
  have e4 : o % (fr * fc * depth) / (fr * fc) = o / (fr * fc) % depth := Nat.mod_mul_right_div_self o (fr * fc) depth
  have e5 : o / (fr * fc * depth) / cCount = o / (fr * fc * depth * cCount) := Nat.div_div_eq_div_mul o _ _
  rw [e1, e2, e3, e4, e5, Nat.mul_comm fc fr]
  generalize o % fc = nn
  generalize o / fc % fr = m
  generalize o / (fr * fc) % depth = k
  generalize o / (fr * fc * depth) % cCount = c
  generalize o / (fr * fc * depth * cCount) = r
  simp only [Nat.left_distrib, Nat.mul_assoc]
  ac_rfl

/-- **one image: `roll_blocks` (accumulating) is the transpose of `unroll_blocks`**, overlapping windows
    included: whenever the forward slice operation returns `U` for the image `img` and the closure's slice
    operation returns `B` for the delta `xs`, `⟨U, xs⟩ = ⟨img, B⟩`. -/
theorem unroll_roll_slice_adjoint (depth rows cols sr sc fr fc count cCount : Nat) (img xs U B : List S)
    (himg : img.length = depth * rows * cols) (hxs : xs.length = count * (fr * fc) * depth)
    (hin : ∀ o, o < count * (fr * fc) * depth → unrollIdx cols rows depth sr sc fr fc cCount o < depth * rows * cols)
    (hU : unrollOp cols rows depth sr sc fr fc cCount (count * (fr * fc) * depth) [img] = .ok U)
    (hB : rollOp true depth rows cols sr sc fr fc count cCount [xs] = .ok B) :
    dot U xs = dot img B := by
  have eU : U = gatherL (rollIdx depth rows cols sr sc fr fc cCount) img 0 xs.length := by
    rw [gatherL_eq, hxs]
    have := tabulateM_ok (fun o => getR img (unrollIdx cols rows depth sr sc fr fc cCount o))
      (fun o => img.getD (rollIdx depth rows cols sr sc fr fc cCount (0 + o)) zero) (count * (fr * fc) * depth)
      (fun o ho => by
        have hlt := hin o ho
        rw [← himg] at hlt
        simp only [Nat.zero_add, ← unrollIdx_eq_rollIdx]
        exact getR_ok img _ _ (by rw [List.getD_eq_getElem?_getD, List.getElem?_eq_getElem hlt]; rfl))
    simp only [unrollOp] at hU
    rw [this] at hU
    exact (Except.ok.inj hU).symm
  have eB : B = rollPure (rollIdx depth rows cols sr sc fr fc cCount) xs 0 (List.replicate (depth * rows * cols) zero) := by
    simp only [rollOp, hxs, Nat.lt_irrefl, if_false] at hB
    rw [← hxs, List.take_length, rollLoop_ok] at hB
    · exact (Except.ok.inj hB).symm
    · intro i hi
      rw [List.length_replicate, Nat.zero_add, ← unrollIdx_eq_rollIdx]
      exact hin i (by rw [← hxs]; exact hi)
  rw [eB, rollPure_adjoint _ img xs 0 _ (by simp [himg])
    (by intro i hi; rw [List.length_replicate, Nat.zero_add, ← unrollIdx_eq_rollIdx]; exact hin i (by rw [← hxs]; exact hi)),
    dot_replicate_zero, AddLaws.zero_add, ← eU]

/-! ### `expand_conv`: a per-image matrix transposition, and its closure the inverse one -/

/-- the buffer `expand_conv` produces: per image, `[windows, filters]` transposed to `[filters, windows]` -/
def expandBuf (nImg stride filters : Nat) (tv : List S) : List S :=
  (List.range (nImg * (stride * filters))).map (fun o =>
    tv.getD (o / (stride * filters) * (stride * filters) + (o % (stride * filters)) / stride
      + filters * ((o % (stride * filters)) % stride)) zero)

/-- the buffer `expand_conv`'s closure produces -/
def expandBackBuf (nImg stride filters : Nat) (xv : List S) : List S :=
  (List.range (nImg * (stride * filters))).map (fun o =>
    xv.getD (o / (stride * filters) * (stride * filters) + ((o % (stride * filters)) % filters) * stride
      + (o % (stride * filters)) / filters) zero)

theorem divmod_mul_add (r w c : Nat) (hc : c < w) : (r * w + c) / w = r ∧ (r * w + c) % w = c := by
  have hpos : 0 < w := by omega
  constructor
  · rw [Nat.mul_comm, Nat.mul_add_div hpos, Nat.div_eq_of_lt hc, Nat.add_zero]
  · rw [Nat.mul_comm, Nat.mul_add_mod, Nat.mod_eq_of_lt hc]

theorem mul_add_lt (r c w h : Nat) (hr : r < h) (hc : c < w) : r * w + c < h * w := by
  calc r * w + c < r * w + w := by omega
    _ = (r + 1) * w := by rw [Nat.succ_mul]
    _ ≤ h * w := Nat.mul_le_mul_right w hr

/-- **`expand_conv`: the closure's buffer is the transpose of the forward buffer** -/
theorem expandBuf_adjoint (nImg stride filters : Nat) (tv xv : List S)
    (ht : tv.length = nImg * (stride * filters)) (hx : xv.length = nImg * (stride * filters)) :
    dot (expandBuf nImg stride filters tv) xv = dot tv (expandBackBuf nImg stride filters xv) := by
  have lE : (expandBuf nImg stride filters tv).length = nImg * (stride * filters) := by simp [expandBuf]
  rw [dot_eq_sumRange _ _ (by rw [lE, hx]), dot_eq_sumRange _ _ (by simp [expandBackBuf, ht]), lE, ht,
    sumRange_mul_split, sumRange_mul_split]
  refine sumRange_congr_lt nImg (fun g hg => ?_)
  -- left: positions `k * stride + i`; right: positions `i * filters + k`
  have hL : stride * filters = filters * stride := Nat.mul_comm _ _
  have left : sumRange (stride * filters) (fun j =>
        (expandBuf nImg stride filters tv).getD (g * (stride * filters) + j) zero * xv.getD (g * (stride * filters) + j) zero)
      = sumRange filters (fun k => sumRange stride (fun i =>
          tv.getD (g * (stride * filters) + (i * filters + k)) zero * xv.getD (g * (stride * filters) + (k * stride + i)) zero)) := by
    conv => lhs; rw [hL]
    rw [sumRange_mul_split]
    refine sumRange_congr_lt filters (fun k hk => sumRange_congr_lt stride (fun i hi => ?_))
    have hw : k * stride + i < stride * filters := by rw [hL]; exact mul_add_lt k i stride filters hk hi
    have hd := divmod_mul_add g (stride * filters) (k * stride + i) hw
    have hd2 := divmod_mul_add k stride i hi
    show (expandBuf nImg stride filters tv).getD (g * (filters * stride) + (k * stride + i)) zero * _ = _
    rw [← hL, expandBuf, getD_map_range_adj _ _ _ (mul_add_lt g _ _ nImg hg hw), hd.1, hd.2, hd2.1, hd2.2,
      Nat.add_assoc, Nat.mul_comm filters i, Nat.add_comm k (i * filters)]
  have right : sumRange (stride * filters) (fun j =>
        tv.getD (g * (stride * filters) + j) zero * (expandBackBuf nImg stride filters xv).getD (g * (stride * filters) + j) zero)
      = sumRange stride (fun i => sumRange filters (fun k =>
          tv.getD (g * (stride * filters) + (i * filters + k)) zero * xv.getD (g * (stride * filters) + (k * stride + i)) zero)) := by
    rw [sumRange_mul_split]
    refine sumRange_congr_lt stride (fun i hi => sumRange_congr_lt filters (fun k hk => ?_))
    have hw : i * filters + k < stride * filters := mul_add_lt i k filters stride hi hk
    have hd := divmod_mul_add g (stride * filters) (i * filters + k) hw
    have hd2 := divmod_mul_add i filters k hk
    show _ * (expandBackBuf nImg stride filters xv).getD (g * (stride * filters) + (i * filters + k)) zero = _
    rw [expandBackBuf, getD_map_range_adj _ _ _ (mul_add_lt g _ _ nImg hg hw), hd.1, hd.2, hd2.1, hd2.2, Nat.add_assoc]
  rw [left, right, sumRange_comm]
theorem mk?_vals_of_ok (d : List Nat) (v : List S) (out : Tensor S) (h : Tensor.mk? d v = .ok out) : out.vals = v := by
  unfold Tensor.mk? at h
  split at h
  · simp [throw, throwThe, MonadExceptOf.throw] at h
  · split at h
    · simp [throw, throwThe, MonadExceptOf.throw] at h
    · simp only [pure, Except.pure, Except.ok.injEq] at h; rw [← h]

theorem getR_getD (v : List S) (i : Nat) (h : i < v.length) : getR v i = .ok (v.getD i zero) :=
  getR_ok v i _ (by rw [List.getD_eq_getElem?_getD, List.getElem?_eq_getElem h]; rfl)

/-- whenever `expand_conv` returns, its buffer is `expandBuf` -/
theorem expandConv_vals (t out : Tensor S) (lead : List Nat) (nImg stride filters r c : Nat)
    (hd : t.dims = lead ++ [stride, filters]) (hl : t.vals.length = nImg * (stride * filters))
    (h : expandConv t r c = .ok out) : out.vals = expandBuf nImg stride filters t.vals := by
  unfold expandConv at h
  rw [hd, dimFromEnd_snoc2_1, dimFromEnd_snoc2_2] at h
  simp only [bind, Except.bind] at h
  rw [tabulateM_ok _ (fun o => t.vals.getD (o / (stride * filters) * (stride * filters) + (o % (stride * filters)) / stride
      + filters * ((o % (stride * filters)) % stride)) zero) _ (fun o ho => by
    apply getR_getD
    rw [hl] at ho ⊢
    have hLpos : 0 < stride * filters := by
      rcases Nat.eq_zero_or_pos (stride * filters) with h0 | h0
      · rw [h0] at ho; simp at ho
      · exact h0
    have hs : 0 < stride := Nat.pos_of_mul_pos_right hLpos |> fun _ => by
      rcases Nat.eq_zero_or_pos stride with h0 | h0
      · subst h0; simp at hLpos
      · exact h0
    have hw : o % (stride * filters) < stride * filters := Nat.mod_lt _ hLpos
    have h1 : o % (stride * filters) % stride < stride := Nat.mod_lt _ hs
    have h2 : o % (stride * filters) / stride < filters := by
      rw [Nat.div_lt_iff_lt_mul hs, Nat.mul_comm filters stride]; exact hw
    have hg : o / (stride * filters) < nImg := by
      rw [Nat.div_lt_iff_lt_mul hLpos]; exact ho
    have := mul_add_lt (o / (stride * filters))
      ((o % (stride * filters) % stride) * filters + o % (stride * filters) / stride) (stride * filters) nImg hg
      (mul_add_lt _ _ filters stride h1 h2)
    rw [Nat.add_assoc, Nat.add_comm (o % (stride * filters) / stride), Nat.mul_comm filters]
    exact this)] at h
  simp only [hl] at h
  rw [mk?_vals_of_ok _ _ _ h, expandBuf]

/-- whenever `expand_conv`'s closure returns, its buffer is `expandBackBuf` -/
theorem expandConvBack_vals (x back : Tensor S) (lead : List Nat) (nImg stride filters : Nat)
    (hp : prod (lead ++ [stride, filters]) = nImg * (stride * filters)) (hl : x.vals.length = nImg * (stride * filters))
    (h : expandConvBack x (lead ++ [stride, filters]) = .ok back) : back.vals = expandBackBuf nImg stride filters x.vals := by
  unfold expandConvBack at h
  rw [dimFromEnd_snoc2_1, dimFromEnd_snoc2_2] at h
  simp only [bind, Except.bind] at h
  rw [tabulateM_ok _ (fun o => x.vals.getD (o / (stride * filters) * (stride * filters)
      + ((o % (stride * filters)) % filters) * stride + (o % (stride * filters)) / filters) zero) _ (fun o ho => by
    apply getR_getD
    rw [hp] at ho
    rw [hl]
    have hLpos : 0 < stride * filters := by
      rcases Nat.eq_zero_or_pos (stride * filters) with h0 | h0
      · rw [h0] at ho; simp at ho
      · exact h0
    have hf : 0 < filters := by
      rcases Nat.eq_zero_or_pos filters with h0 | h0
      · subst h0; simp at hLpos
      · exact h0
    have hw : o % (stride * filters) < stride * filters := Nat.mod_lt _ hLpos
    have h1 : o % (stride * filters) % filters < filters := Nat.mod_lt _ hf
    have h2 : o % (stride * filters) / filters < stride := by
      rw [Nat.div_lt_iff_lt_mul hf]; exact hw
    have hg : o / (stride * filters) < nImg := by
      rw [Nat.div_lt_iff_lt_mul hLpos]; exact ho
    have hin := mul_add_lt _ _ stride filters h1 h2
    rw [Nat.mul_comm filters stride] at hin
    have := mul_add_lt (o / (stride * filters)) _ (stride * filters) nImg hg hin
    rw [Nat.add_assoc]
    exact this)] at h
  simp only [hp] at h
  rw [mk?_vals_of_ok _ _ _ h, expandBackBuf]

/-- **`expand_conv`: the closure is the transpose of the forward map**, for every batch size: whenever the
    forward operation returns `out` for `t` and the closure returns `back` for the delta `x`,
    `⟨expand(t), x⟩ = ⟨t, back(x)⟩` -/
theorem expandConv_closure_adjoint (t x out back : Tensor S) (lead : List Nat) (nImg stride filters r c : Nat)
    (hd : t.dims = lead ++ [stride, filters]) (hp : prod t.dims = nImg * (stride * filters)) (hwf : prod t.dims = t.vals.length)
    (hx : x.vals.length = nImg * (stride * filters))
    (hf : expandConv t r c = .ok out) (hb : expandConvBack x t.dims = .ok back) :
    dot out.vals x.vals = dot t.vals back.vals := by
  have hl : t.vals.length = nImg * (stride * filters) := by rw [← hwf, hp]
  rw [hd] at hb hp
  rw [expandConv_vals t out lead nImg stride filters r c hd hl hf,
    expandConvBack_vals x back lead nImg stride filters hp hx hb]
  exact expandBuf_adjoint nImg stride filters t.vals x.vals hl hx

/-- **one image, every admissible convolution shape**: for an image of `D×R×C` values, a filter window
    `fr×fc` that fits and any strides, both slice operations return and the closure's result is the transpose
    of the forward one: `⟨unroll(img), xs⟩ = ⟨img, roll(xs)⟩` for every delta `xs` of the unrolled length. -/
theorem unroll_roll_slice_adjoint_total (D R C sr sc fr fc : Nat) (img xs : List S)
    (hfr : fr ≤ R) (hfc : fc ≤ C) (hfr1 : 1 ≤ fr) (hfc1 : 1 ≤ fc) (hD : 1 ≤ D)
    (himg : img.length = D * R * C)
    (hxs : xs.length = (((R - fr) / sr + 1) * ((C - fc) / sc + 1)) * (fr * fc) * D) :
    ∃ U B : List S,
      unrollOp C R D sr sc fr fc ((C - fc) / sc + 1) ((((R - fr) / sr + 1) * ((C - fc) / sc + 1)) * (fr * fc) * D) [img] = .ok U ∧
      rollOp true D R C sr sc fr fc (((R - fr) / sr + 1) * ((C - fc) / sc + 1)) ((C - fc) / sc + 1) [xs] = .ok B ∧
      dot U xs = dot img B := by
  have hin : ∀ o, o < (((R - fr) / sr + 1) * ((C - fc) / sc + 1)) * (fr * fc) * D →
      unrollIdx C R D sr sc fr fc ((C - fc) / sc + 1) o < D * R * C := by
    intro o ho
    exact unrollIdx_lt C R D sr sc fr fc o hfr hfc hfr1 hfc1 hD (by rw [Nat.mul_right_comm]; exact ho)
  have hU : unrollOp C R D sr sc fr fc ((C - fc) / sc + 1) ((((R - fr) / sr + 1) * ((C - fc) / sc + 1)) * (fr * fc) * D) [img]
      = .ok ((List.range ((((R - fr) / sr + 1) * ((C - fc) / sc + 1)) * (fr * fc) * D)).map
          (fun o => img.getD (unrollIdx C R D sr sc fr fc ((C - fc) / sc + 1) o) zero)) := by
    simp only [unrollOp]
    exact tabulateM_ok _ _ _ (fun o ho => getR_getD img _ (by rw [himg]; exact hin o ho))
  have hB : rollOp true D R C sr sc fr fc (((R - fr) / sr + 1) * ((C - fc) / sc + 1)) ((C - fc) / sc + 1) [xs]
      = .ok (rollPure (rollIdx D R C sr sc fr fc ((C - fc) / sc + 1)) xs 0 (List.replicate (D * R * C) zero)) := by
    simp only [rollOp, hxs, Nat.lt_irrefl, if_false]
    rw [← hxs, List.take_length, rollLoop_ok]
    intro i hi
    rw [List.length_replicate, Nat.zero_add, ← unrollIdx_eq_rollIdx]
    exact hin i (by rw [← hxs]; exact hi)
  exact ⟨_, _, hU, hB, unroll_roll_slice_adjoint D R C sr sc fr fc _ _ img xs _ _ himg hxs hin hU hB⟩

/-! ### the batch loop of `unroll_blocks` / `roll_blocks` -/

/-- the batched gather: image `p / N` of the batch, position `idx (p % N)` inside it -/
def gatherB (idx : Nat → Nat) (G N nB : Nat) (iv : List S) : List S :=
  (List.range (nB * N)).map (fun p => iv.getD (p / N * G + idx (p % N)) zero)

/-- the batched scatter-add: one `rollPure` per block of the delta, results concatenated -/
def scatterB (idx : Nat → Nat) (G N nB : Nat) (xv : List S) : List S :=
  ((List.range nB).map (fun n => rollPure idx ((xv.drop (n * N)).take N) 0 (List.replicate G zero))).flatten

theorem getD_take_lt (l : List S) (k i : Nat) (h : i < k) : (l.take k).getD i zero = l.getD i zero := by
  simp [List.getD_eq_getElem?_getD, List.getElem?_take, h]

theorem getD_drop_add (l : List S) (k i : Nat) : (l.drop k).getD i zero = l.getD (k + i) zero := by
  simp [List.getD_eq_getElem?_getD, List.getElem?_drop]

/-- **the batch loop**: block-wise scatter-add is the transpose of the block-wise gather -/
theorem batch_gather_scatter_adjoint (idx : Nat → Nat) (G N : Nat) (hN : 0 < N) (hin : ∀ q, q < N → idx q < G) :
    ∀ (nB : Nat) (iv xv : List S), iv.length = nB * G → xv.length = nB * N →
      dot (gatherB idx G N nB iv) xv = dot iv (scatterB idx G N nB xv)
  | 0, iv, xv, hi, hx => by
    have e1 : iv = [] := List.length_eq_zero_iff.mp (by simpa using hi)
    subst e1
    simp [gatherB, scatterB, dot_nil_left]
  | nB + 1, iv, xv, hi, hx => by
    have hGle : G ≤ iv.length := by rw [hi, Nat.succ_mul]; omega
    have hNle : N ≤ xv.length := by rw [hx, Nat.succ_mul]; omega
    have hg : gatherB idx G N (nB + 1) iv = gatherL idx (iv.take G) 0 N ++ gatherB idx G N nB (iv.drop G) := by
      unfold gatherB
      rw [Nat.succ_mul, Nat.add_comm (nB * N) N, List.range_add, List.map_append, List.map_map, gatherL_eq]
      congr 1
      · apply List.map_congr_left
        intro p hp
        have hp' : p < N := List.mem_range.mp hp
        rw [Nat.div_eq_of_lt hp', Nat.mod_eq_of_lt hp', Nat.zero_mul, Nat.zero_add, Nat.zero_add,
          getD_take_lt _ _ _ (hin p hp')]
      · apply List.map_congr_left
        intro p _
        simp only [Function.comp]
        rw [Nat.add_div_left _ hN, Nat.add_mod_left, getD_drop_add, Nat.succ_mul, Nat.add_comm (p / N * G) G, Nat.add_assoc]
    have hs : scatterB idx G N (nB + 1) xv
        = rollPure idx (xv.take N) 0 (List.replicate G zero) ++ scatterB idx G N nB (xv.drop N) := by
      unfold scatterB
      rw [List.range_succ_eq_map, List.map_cons, List.flatten_cons, List.map_map]
      congr 1
      · simp
      · congr 1
        apply List.map_congr_left
        intro n _
        simp only [Function.comp, List.drop_drop]
        rw [Nat.succ_mul, Nat.add_comm (n * N) N]
    rw [hg, hs]
    conv => lhs; rw [← List.take_append_drop N xv]
    conv => rhs; rw [← List.take_append_drop G iv]
    have hl1 : (gatherL idx (iv.take G) 0 N).length = (xv.take N).length := by
      rw [gatherL_eq]; simp [hNle]
    have hl2 : (iv.take G).length = (rollPure idx (xv.take N) 0 (List.replicate G zero)).length := by
      rw [rollPure_length]; simp [hGle]
    rw [dot_append _ _ _ _ hl1, dot_append _ _ _ _ hl2,
      batch_gather_scatter_adjoint idx G N hN hin nB (iv.drop G) (xv.drop N)
        (by rw [List.length_drop, hi, Nat.succ_mul]; omega) (by rw [List.length_drop, hx, Nat.succ_mul]; omega)]
    congr 1
    have hlen : (xv.take N).length = N := by simp [hNle]
    have := rollPure_adjoint idx (iv.take G) (xv.take N) 0 (List.replicate G zero) (by simp [hGle])
      (by intro i hi'; rw [hlen] at hi'; rw [List.length_replicate, Nat.zero_add]; exact hin i hi')
    rw [this, dot_replicate_zero, AddLaws.zero_add, hlen]
/-- the closed form of `roll_blocks` with accumulation on a delta of the unrolled shape: block-wise scatter-add -/
theorem rollBlocks_closed (x : Tensor S) (B : List Nat) (D R C sr sc fr fc : Nat)
    (hposB : ∀ d ∈ B, 1 ≤ d) (hD : 1 ≤ D) (hR : 1 ≤ R) (hC : 1 ≤ C)
    (hfr : fr ≤ R) (hfc : fc ≤ C) (hfr1 : 1 ≤ fr) (hfc1 : 1 ≤ fc) (hsr : 1 ≤ sr) (hsc : 1 ≤ sc)
    (hx : Shaped (B ++ [((R - fr) / sr + 1) * ((C - fc) / sc + 1), D * (fr * fc)]) x) :
    rollBlocks x D R C sr sc fr fc true = .ok ⟨B ++ [D, R, C],
      scatterB (rollIdx D R C sr sc fr fc ((C - fc) / sc + 1)) (D * R * C)
        (((R - fr) / sr + 1) * ((C - fc) / sc + 1) * (fr * fc) * D) (prod B) x.vals⟩ := by
  generalize hcount : ((R - fr) / sr + 1) * ((C - fc) / sc + 1) = count at *
  have hposT : ∀ d ∈ [D, R, C], 1 ≤ d := by
    intro d hd; simp at hd; rcases hd with rfl | rfl | rfl <;> assumption
  have hGin : prod [count, D * (fr * fc)] = count * (fr * fc) * D := by
    rw [prod2]; simp only [Nat.mul_comm, Nat.mul_left_comm]
  let F : List S → List S := fun blk =>
    rollPure (rollIdx D R C sr sc fr fc ((C - fc) / sc + 1)) (blk.take (count * (fr * fc) * D)) 0
      (List.replicate (D * R * C) zero)
  have hopF : ∀ blk : List S, blk.length = prod [count, D * (fr * fc)] →
      rollOp true D R C sr sc fr fc count ((C - fc) / sc + 1) [blk] = .ok (F blk) ∧ (F blk).length = prod [D, R, C] := by
    intro blk hb
    rw [hGin] at hb
    refine ⟨?_, by simp [F, rollPure_length, prod3]⟩
    have hnl : ¬ blk.length < count * (fr * fc) * D := by omega
    simp only [rollOp, hnl, if_false]
    apply rollLoop_ok
    intro i hi
    simp only [List.length_take, hb, Nat.min_self] at hi
    simp only [List.length_replicate, Nat.zero_add]
    exact rollIdx_lt D R C sr sc fr fc i hfr hfc hfr1 hfc1 hD (by rw [hcount]; exact hi)
  unfold rollBlocks
  have d2 : dimFromEnd x.dims 2 = .ok count := by rw [hx.1]; exact dimFromEnd_snoc2_2 _ _ _
  have c1 : ¬ C < fc := by omega
  have c2 : ¬ sc = 0 := by omega
  have htk : x.dims.take (x.dims.length - 2) = B := by rw [hx.1]; simp
  simp only [d2, c1, c2, bind, Except.bind, pure, Except.pure, if_false, htk]
  have := slicedOp_blocks x B [count, D * (fr * fc)] [D, R, C]
    (rollOp true D R C sr sc fr fc count ((C - fc) / sc + 1)) F hx hposB hposT hopF
  simp only [List.length_cons, List.length_nil] at this
  rw [this]
  simp only [scatterB, F, hGin]
  congr 3
  apply List.map_congr_left
  intro n _
  rw [List.take_take, Nat.min_self]

/-- **`unroll_blocks` on a whole batch: the closure is the transpose of the forward map.**  For every image
    batch `B ++ [D, R, C]`, every window that fits and all strides, both operations return and
    `⟨unroll_blocks(a), x⟩ = ⟨a, roll_blocks(x)⟩` for every delta `x` of the unrolled shape. -/
theorem unrollBlocks_closure_adjoint (a x : Tensor S) (B : List Nat) (D R C sr sc fr fc : Nat)
    (hda : a.dims = B ++ [D, R, C]) (hwa : a.WF)
    (hfr : fr ≤ R) (hfc : fc ≤ C) (hfr1 : 1 ≤ fr) (hfc1 : 1 ≤ fc) (hsr : 1 ≤ sr) (hsc : 1 ≤ sc)
    (hx : Shaped (B ++ [((R - fr) / sr + 1) * ((C - fc) / sc + 1), D * (fr * fc)]) x) :
    ∃ U back : Tensor S, unrollBlocks a sr sc fr fc = .ok U ∧ rollBlocks x D R C sr sc fr fc true = .ok back ∧
      back.dims = a.dims ∧ dot U.vals x.vals = dot a.vals back.vals := by
  have hposA : ∀ d ∈ B ++ [D, R, C], 1 ≤ d := by rw [← hda]; exact hwa.1
  have hposB : ∀ d ∈ B, 1 ≤ d := fun d hd => hposA d (by simp [hd])
  have hD : 1 ≤ D := hposA D (by simp)
  have hR : 1 ≤ R := hposA R (by simp)
  have hC : 1 ≤ C := hposA C (by simp)
  have hlen : a.vals.length = prod B * (D * R * C) := by rw [← hwa.2, hda, prod_append, prod3]
  have hU := unroll_flat B D R C sr sc fr fc a.vals hposB hD hR hC hlen hfr hfc hfr1 hfc1 hsr hsc
  have ea : (⟨B ++ [D, R, C], a.vals⟩ : Tensor S) = a := by cases a; simp at hda; subst hda; rfl
  rw [ea] at hU
  have hB := rollBlocks_closed x B D R C sr sc fr fc hposB hD hR hC hfr hfc hfr1 hfc1 hsr hsc hx
  refine ⟨_, _, hU, hB, hda.symm, ?_⟩
  generalize hcount : ((R - fr) / sr + 1) * ((C - fc) / sc + 1) = count at *
  have hN : count * D * (fr * fc) = count * (fr * fc) * D := Nat.mul_right_comm _ _ _
  have hcount1 : 1 ≤ count := by rw [← hcount]; exact Nat.mul_pos (Nat.succ_pos _) (Nat.succ_pos _)
  have hNpos : 0 < count * (fr * fc) * D := Nat.mul_pos (Nat.mul_pos hcount1 (Nat.mul_pos hfr1 hfc1)) hD
  have hxl : x.vals.length = prod B * (count * (fr * fc) * D) := by
    rw [hx.2, prod_append, prod2, ← hN, Nat.mul_assoc count]
  have := batch_gather_scatter_adjoint (rollIdx D R C sr sc fr fc ((C - fc) / sc + 1)) (D * R * C) (count * (fr * fc) * D) hNpos
    (fun q hq => rollIdx_lt D R C sr sc fr fc q hfr hfc hfr1 hfc1 hD (by rw [hcount]; exact hq)) (prod B) a.vals x.vals hlen hxl
  simp only [gatherB] at this
  simp only [hN, unrollIdx_eq_rollIdx]
  exact this

/-! ### the product `conv` forms: `unrolled · filtersᵀ` (second operand transposed) -/

/-- the product buffer of an `m×k` row-major buffer with a second operand given entry-wise (`Bf t j`: whatever its
    layout / transposition flag) -/
def mmBufG (m k n : Nat) (av : List S) (Bf : Nat → Nat → S) : List S :=
  (List.range (m * n)).map (fun i => sumRange k (fun t => av.getD (i / n * k + t) zero * Bf t (i % n)))

/-- the left closure's product buffer for the same entry function -/
def mmBufTG (m n k : Nat) (xv : List S) (Bf : Nat → Nat → S) : List S :=
  (List.range (m * k)).map (fun i => sumRange n (fun j => Bf (i % k) j * xv.getD (i / k * n + j) zero))

/-- **buffer level, left operand, second operand in any layout** -/
theorem mmBufG_adjoint_left (m k n : Nat) (av xv : List S) (Bf : Nat → Nat → S) (ha : av.length = m * k) (hx : xv.length = m * n) :
    dot (mmBufG m k n av Bf) xv = dot av (mmBufTG m n k xv Bf) := by
  rw [dot_eq_sumRange _ _ (by simp [mmBufG, hx]), dot_eq_sumRange _ _ (by simp [mmBufTG, ha])]
  have l1 : (mmBufG m k n av Bf).length = m * n := by simp [mmBufG]
  rw [l1, ha, sumRange_mul_split, sumRange_mul_split]
  rw [sumRange_congr_lt m (g := fun r => sumRange n (fun j =>
      sumRange k (fun t => av.getD (r * k + t) zero * Bf t j) * xv.getD (r * n + j) zero))
    (fun r hr => sumRange_congr_lt n (fun j hj => by
      show (mmBufG m k n av Bf).getD (r * n + j) zero * _ = _
      rw [mmBufG, getD_map_range_adj _ _ _ (mul_add_lt r j n m hr hj), (divmod_mul_add r n j hj).1, (divmod_mul_add r n j hj).2]))]
  rw [matmul_kernel_adjoint_left m k n (fun r t => av.getD (r * k + t) zero) Bf (fun r j => xv.getD (r * n + j) zero)]
  refine sumRange_congr_lt m (fun r hr => sumRange_congr_lt k (fun t ht => ?_))
  show _ = av.getD (r * k + t) zero * (mmBufTG m n k xv Bf).getD (r * k + t) zero
  rw [mmBufTG, getD_map_range_adj _ _ _ (mul_add_lt r t k m hr ht), (divmod_mul_add r k t ht).1, (divmod_mul_add r k t ht).2]

/-- `a · bᵀ` for matrices `a : [m,k]`, `b : [n,k]` (the product `conv` forms with the reshaped filters) -/
theorem specMatmul_2d_vals_FT (a b : Tensor S) (m k n : Nat) (ha : a.dims = [m, k]) (hb : b.dims = [n, k]) :
    (specMatmul a false b true none).vals = mmBufG m k n a.vals (fun t j => b.vals.getD (j * k + t) zero) := by
  simp only [specMatmul, Tensor.ofFn, ha, hb, mmBufG]
  simp [bdims, bdimsRev, prod, unflatten, proj, Tensor.get, rowMajor, ha, hb, AddLaws.zero_add]

/-- its left closure's product `x · b` (`x : [m,n]`, `b : [n,k]`, both untransposed) -/
theorem specMatmul_2d_vals_FF_T (x b : Tensor S) (m k n : Nat) (hx : x.dims = [m, n]) (hb : b.dims = [n, k]) :
    (specMatmul x false b false none).vals = mmBufTG m n k x.vals (fun t j => b.vals.getD (j * k + t) zero) := by
  simp only [specMatmul, Tensor.ofFn, hx, hb, mmBufTG]
  simp [bdims, bdimsRev, prod, unflatten, proj, Tensor.get, rowMajor, hx, hb, AddLaws.zero_add]
  intro i _
  exact sumRange_congr_adj (fun t => CommLaws.mul_comm _ _)

/-- **`a · bᵀ`, left operand**: `⟨a·bᵀ, x⟩ = ⟨a, x·b⟩` -/
theorem matmul2d_FT_adjoint_left (a b x : Tensor S) (m k n : Nat) (ha : a.dims = [m, k]) (hb : b.dims = [n, k])
    (hx : x.dims = [m, n]) (hwa : a.WF) (hwx : x.WF) :
    dot (specMatmul a false b true none).vals x.vals = dot a.vals (specMatmul x false b false none).vals := by
  rw [specMatmul_2d_vals_FT a b m k n ha hb, specMatmul_2d_vals_FF_T x b m k n hx hb]
  apply mmBufG_adjoint_left
  · rw [← hwa.2, ha]; simp [prod]
  · rw [← hwx.2, hx]; simp [prod]

/-- the buffer of `xᵀ · a` (`x : m×n`, `a : m×k`), in `[n,k]` layout: the right closure's product for `a · bᵀ` -/
def mmBufXtA (n m k : Nat) (xv av : List S) : List S :=
  (List.range (n * k)).map (fun i => sumRange m (fun r => av.getD (r * k + i % k) zero * xv.getD (r * n + i / k) zero))

/-- **buffer level, right operand of `a · bᵀ`** (`b : n×k` row-major): `⟨a·bᵀ, x⟩ = ⟨b, xᵀ·a⟩` -/
theorem mmBufG_adjoint_right_T (m k n : Nat) (av bv xv : List S) (hb : bv.length = n * k) (hx : xv.length = m * n) :
    dot (mmBufG m k n av (fun t j => bv.getD (j * k + t) zero)) xv = dot bv (mmBufXtA n m k xv av) := by
  rw [dot_eq_sumRange _ _ (by simp [mmBufG, hx]), dot_eq_sumRange _ _ (by simp [mmBufXtA, hb])]
  have l1 : (mmBufG m k n av (fun t j => bv.getD (j * k + t) zero)).length = m * n := by simp [mmBufG]
  rw [l1, hb, sumRange_mul_split, sumRange_mul_split]
  rw [sumRange_congr_lt m (g := fun r => sumRange n (fun j =>
      sumRange k (fun t => av.getD (r * k + t) zero * bv.getD (j * k + t) zero) * xv.getD (r * n + j) zero))
    (fun r hr => sumRange_congr_lt n (fun j hj => by
      show (mmBufG m k n av (fun t j => bv.getD (j * k + t) zero)).getD (r * n + j) zero * _ = _
      rw [mmBufG, getD_map_range_adj _ _ _ (mul_add_lt r j n m hr hj), (divmod_mul_add r n j hj).1, (divmod_mul_add r n j hj).2]))]
  rw [matmul_kernel_adjoint_right m k n (fun r t => av.getD (r * k + t) zero) (fun t j => bv.getD (j * k + t) zero)
    (fun r j => xv.getD (r * n + j) zero),
    sumRange_comm (fun t j => bv.getD (j * k + t) zero * sumRange m (fun r => av.getD (r * k + t) zero * xv.getD (r * n + j) zero)) n k]
  refine sumRange_congr_lt n (fun j hj => sumRange_congr_lt k (fun t ht => ?_))
  show _ = bv.getD (j * k + t) zero * (mmBufXtA n m k xv av).getD (j * k + t) zero
  rw [mmBufXtA, getD_map_range_adj _ _ _ (mul_add_lt j t k n hj ht), (divmod_mul_add j k t ht).1, (divmod_mul_add j k t ht).2]

/-- the right closure's product `xᵀ · a` on the specification product -/
theorem specMatmul_2d_vals_XtA (x a : Tensor S) (m k n : Nat) (hx : x.dims = [m, n]) (ha : a.dims = [m, k]) :
    (specMatmul x true a false none).vals = mmBufXtA n m k x.vals a.vals := by
  simp only [specMatmul, Tensor.ofFn, hx, ha, mmBufXtA]
  simp [bdims, bdimsRev, prod, unflatten, proj, Tensor.get, rowMajor, hx, ha, AddLaws.zero_add]
  intro i _
  exact sumRange_congr_adj (fun t => CommLaws.mul_comm _ _)

/-- **`a · bᵀ`, right operand**: `⟨a·bᵀ, x⟩ = ⟨b, xᵀ·a⟩` -/
theorem matmul2d_FT_adjoint_right (a b x : Tensor S) (m k n : Nat) (ha : a.dims = [m, k]) (hb : b.dims = [n, k])
    (hx : x.dims = [m, n]) (hwb : b.WF) (hwx : x.WF) :
    dot (specMatmul a false b true none).vals x.vals = dot b.vals (specMatmul x true a false none).vals := by
  rw [specMatmul_2d_vals_FT a b m k n ha hb, specMatmul_2d_vals_XtA x a m k n hx ha]
  apply mmBufG_adjoint_right_T
  · rw [← hwb.2, hb]; simp [prod]
  · rw [← hwx.2, hx]; simp [prod]

/-! ### first operand transposed: `aᵀ · b` -/

/-- the product buffer with both operands given entry-wise (any layouts / flags) -/
def mmBufGG (m k n : Nat) (Af Bf : Nat → Nat → S) : List S :=
  (List.range (m * n)).map (fun i => sumRange k (fun t => Af (i / n) t * Bf t (i % n)))

theorem mmBufGG_dot (m k n : Nat) (Af Bf : Nat → Nat → S) (xv : List S) (hx : xv.length = m * n) :
    dot (mmBufGG m k n Af Bf) xv
      = sumRange m (fun r => sumRange n (fun j => sumRange k (fun t => Af r t * Bf t j) * xv.getD (r * n + j) zero)) := by
  rw [dot_eq_sumRange _ _ (by simp [mmBufGG, hx])]
  have l1 : (mmBufGG m k n Af Bf).length = m * n := by simp [mmBufGG]
  rw [l1, sumRange_mul_split]
  exact sumRange_congr_lt m (fun r hr => sumRange_congr_lt n (fun j hj => by
    show (mmBufGG m k n Af Bf).getD (r * n + j) zero * _ = _
    rw [mmBufGG, getD_map_range_adj _ _ _ (mul_add_lt r j n m hr hj), (divmod_mul_add r n j hj).1, (divmod_mul_add r n j hj).2]))

/-- the buffer of `b · xᵀ` (`b : k×n`, `x : m×n`) in `[k,m]` layout: the left closure's product for `aᵀ · b` -/
def mmBufBXt (k n m : Nat) (bv xv : List S) : List S :=
  (List.range (k * m)).map (fun i => sumRange n (fun j => bv.getD (i / m * n + j) zero * xv.getD (i % m * n + j) zero))

/-- **buffer level, left operand of `aᵀ · b`** (`a : k×m` row-major): `⟨aᵀ·b, x⟩ = ⟨a, b·xᵀ⟩` -/
theorem mmBufGG_adjoint_left_T (m k n : Nat) (av bv xv : List S) (ha : av.length = k * m) (hx : xv.length = m * n) :
    dot (mmBufGG m k n (fun r t => av.getD (t * m + r) zero) (fun t j => bv.getD (t * n + j) zero)) xv
      = dot av (mmBufBXt k n m bv xv) := by
  rw [mmBufGG_dot _ _ _ _ _ _ hx,
    matmul_kernel_adjoint_left m k n (fun r t => av.getD (t * m + r) zero) (fun t j => bv.getD (t * n + j) zero)
      (fun r j => xv.getD (r * n + j) zero),
    sumRange_comm (fun r t => av.getD (t * m + r) zero * sumRange n (fun j => bv.getD (t * n + j) zero * xv.getD (r * n + j) zero)) k m,
    dot_eq_sumRange _ _ (by simp [mmBufBXt, ha]), ha, sumRange_mul_split]
  refine sumRange_congr_lt k (fun t ht => sumRange_congr_lt m (fun r hr => ?_))
  show _ = av.getD (t * m + r) zero * (mmBufBXt k n m bv xv).getD (t * m + r) zero
  rw [mmBufBXt, getD_map_range_adj _ _ _ (mul_add_lt t r m k ht hr), (divmod_mul_add t m r hr).1, (divmod_mul_add t m r hr).2]

theorem specMatmul_2d_vals_TF (a b : Tensor S) (m k n : Nat) (ha : a.dims = [k, m]) (hb : b.dims = [k, n]) :
    (specMatmul a true b false none).vals
      = mmBufGG m k n (fun r t => a.vals.getD (t * m + r) zero) (fun t j => b.vals.getD (t * n + j) zero) := by
  simp only [specMatmul, Tensor.ofFn, ha, hb, mmBufGG]
  simp [bdims, bdimsRev, prod, unflatten, proj, Tensor.get, rowMajor, ha, hb, AddLaws.zero_add]

theorem specMatmul_2d_vals_BXt (b x : Tensor S) (m k n : Nat) (hb : b.dims = [k, n]) (hx : x.dims = [m, n]) :
    (specMatmul b false x true none).vals = mmBufBXt k n m b.vals x.vals := by
  simp only [specMatmul, Tensor.ofFn, hx, hb, mmBufBXt]
  simp [bdims, bdimsRev, prod, unflatten, proj, Tensor.get, rowMajor, hx, hb, AddLaws.zero_add]

/-- **`aᵀ · b`, left operand**: `⟨aᵀ·b, x⟩ = ⟨a, b·xᵀ⟩` -/
theorem matmul2d_TF_adjoint_left (a b x : Tensor S) (m k n : Nat) (ha : a.dims = [k, m]) (hb : b.dims = [k, n])
    (hx : x.dims = [m, n]) (hwa : a.WF) (hwx : x.WF) :
    dot (specMatmul a true b false none).vals x.vals = dot a.vals (specMatmul b false x true none).vals := by
  rw [specMatmul_2d_vals_TF a b m k n ha hb, specMatmul_2d_vals_BXt b x m k n hb hx]
  apply mmBufGG_adjoint_left_T
  · rw [← hwa.2, ha]; simp [prod]
  · rw [← hwx.2, hx]; simp [prod]

end Corgi
