/-
  CorgiProofs.EngineTop — the counting theorem for a whole pass started on a clean state.
-/
import CorgiProofs.EngineProcess

set_option linter.unusedSectionVars false

namespace Corgi
open Classical

variable {S : Type} [Add S] [Mul S] [Neg S] [Sub S] [ScalarOps S] [BEq S]

theorem Reach.parent {G : Graph S} {root m : Nat} (h : Reach G root m) (hne : m ≠ root) :
    ∃ p s, Reach G root p ∧ s ∈ G.kids p ∧ s.tracked = true ∧ s.node = m := by
  cases h with
  | root => exact absurd rfl hne
  | step s hp hs ht => exact ⟨_, s, hp, hs, ht, rfl⟩

/-- between passes: all counters zero, no pending delta -/
def EState.Clean (σ : EState S) : Prop := (∀ m, σ.cnt m = 0) ∧ (∀ m, σ.delta m = none)

section
variable (G : Graph S) (wf : G.WF) (lawful : G.Lawful)
include wf lawful

/-- once the loop has finished with nothing pending, every reachable node has been entered -/
theorem all_entered (root B : Nat) (_hrB : root < B) (σ : EState S) (h : CInv G root B σ (fun _ => 0))
    (hal : Alive G root σ root) (hroot : root ∈ logN σ) :
    ∀ d m, Reach G root m → root - m < d → m ∈ logN σ := by
  intro d
  induction d with
  | zero => intro m _ h0; omega
  | succ d ih =>
    intro m hR hd
    apply Classical.byContradiction
    intro hnot
    have hne : m ≠ root := fun e => hnot (e ▸ hroot)
    have h1 := hal m hR hnot hne hne
    have h2 := h.acct m
    simp only [Nat.add_zero] at h2
    have hpos : 0 < indeg G (fun p => Reach G root p ∧ p ∉ logN σ) m B := by
      unfold U at h2; omega
    obtain ⟨p, _, ⟨hRp, hpl⟩, he⟩ := indeg_pos G _ m B hpos
    obtain ⟨s, hs, hsn, _⟩ := edges_pos_iff.mp he
    have hlt := wf p s hs
    rw [hsn] at hlt
    have hle := hRp.le wf
    exact hpl (ih p hRp (by omega))

/-- **The counting theorem.**  A pass that completes on a clean state, over a well-founded graph
    with lawful closures, (1) leaves every counter at zero and every pending delta empty,
    (2) enters exactly the nodes reachable from the root through tracked operands, each once,
    (3) each only after all its consumers in that graph. -/
theorem backward_counts (fuel root : Nat) (hf : root < fuel) (dims : List Nat) (keep : Bool)
    (seed : Option (Tensor S)) (σ σ' : EState S) (hclean : σ.Clean) (hlog : σ.log = [])
    (hok : backward G fuel root dims keep seed σ = .ok σ') :
    σ'.Clean ∧ (logN σ').Nodup ∧ (∀ m, m ∈ logN σ' ↔ Reach G root m) ∧ LogOrder G root (logN σ') := by
  obtain ⟨hc0, hd0⟩ := hclean
  unfold backward at hok
  simp only [hd0 root, bind, Except.bind] at hok
  cases hx : seedOrOnes seed dims with
  | error e => simp [hx] at hok
  | ok x =>
    simp only [hx] at hok
    have hcnt0 : (⟨σ.cnt⟩ : Cnt) = ⟨fun _ => 0⟩ := by
      congr; funext m; exact hc0 m
    rw [hcnt0] at hok
    let B := root + 1
    have hrB : root < B := by omega
    let σp : EState S :=
      { σ with cnt := (propagate G fuel root ⟨fun _ => 0⟩).get, delta := upd σ.delta root (some x) }
    have hlogp : logN σp = [] := by simp [logN, σp, hlog]
    have hcntp : ∀ m, σp.cnt m = indeg G (Reach G root) m B := fun m =>
      propagate_spec G root B hrB wf fuel hf m
    have hInv : CInv G root B σp (fun _ => 0) := by
      refine ⟨?_, ?_, ?_, ?_, ?_, ?_, ?_⟩
      · intro m
        rw [hcntp m, hlogp]
        unfold U
        simp only [Nat.add_zero]
        exact indeg_congr G _ _ m B (fun p _ => by simp)
      · intro m hm; rw [hlogp] at hm; simp at hm
      · intro m hm; rw [hlogp] at hm; simp at hm
      · rw [hlogp]; exact List.nodup_nil
      · rw [hlogp]; trivial
      · intro m hm; rw [hlogp] at hm; simp at hm
      · intro m hm
        have : m ≠ root := fun e => hm (e ▸ Reach.root)
        simp [σp, upd, this, hd0 m]
    have hal : Alive G root σp root := by
      intro m hR _ hne _
      obtain ⟨p, s, hRp, hs, ht, hsn⟩ := hR.parent hne
      rw [hcntp m]
      have hle := hRp.le wf
      have h1 := indeg_ge G (Reach G root) m p hRp B (by omega)
      have h2 := edges_pos hs ht
      rw [hsn] at h2
      omega
    have hroot0 : σp.cnt root = 0 := by
      rw [hcntp root]
      apply indeg_zero
      intro p _ hRp
      apply Classical.byContradiction
      intro hne
      obtain ⟨s, hs, hsn, _⟩ := edges_pos_iff.mp (by omega : 0 < edges (G.kids p) root)
      have := wf p s hs
      have := hRp.le wf
      omega
    have hfin := process_inv G root B wf hrB lawful fuel root keep σp σ' (fun _ => 0) hf Reach.root
      (by rw [hlogp]; simp) hrB hroot0 hInv hal hok
    obtain ⟨hI, hA, hmono⟩ := hfin
    have hrootlog : root ∈ logN σ' := hmono root (by simp)
    have hall : ∀ m, Reach G root m → m ∈ logN σ' := fun m hR =>
      all_entered G wf lawful root B hrB σ' hI hA hrootlog (root - m + 1) m hR (by omega)
    refine ⟨⟨?_, ?_⟩, hI.nodup, fun m => ⟨hI.sub m, hall m⟩, hI.ord⟩
    · intro m
      have := hI.acct m
      simp only [Nat.add_zero] at this
      rw [this]
      unfold U
      apply indeg_zero
      intro p _ ⟨hRp, hpl⟩
      exact absurd (hall p hRp) hpl
    · intro m
      by_cases hR : Reach G root m
      · exact hI.dlog m (hall m hR)
      · exact hI.dout m hR

end
end Corgi
