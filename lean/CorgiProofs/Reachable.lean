/-
  CorgiProofs.Reachable — the engine theorems instantiated at every reachable state: after any
  history of commands the recorded graph is well-founded with lawful closures and the engine state is
  clean, so the hypotheses of `backward_counts` hold and need not be assumed.
-/
import CorgiProofs.HeapStep

set_option linter.unusedSectionVars false

namespace Corgi
variable {S : Type} [Add S] [Mul S] [Neg S] [Sub S] [ScalarOps S] [BEq S]

/-- `σ` is the state after some history of commands from the empty program -/
def Reachable (σ : State S) : Prop := ∃ cs : List (Cmd S), σ = run cs ({} : State S)

theorem Reachable.good {σ : State S} (h : Reachable σ) : Good σ := by
  obtain ⟨cs, rfl⟩ := h; exact reachable_good cs

theorem Reachable.step {σ : State S} (h : Reachable σ) (c : Cmd S) : Reachable (step σ c).1 := by
  obtain ⟨cs, rfl⟩ := h
  exact ⟨cs ++ [c], by simp [run, List.foldl_append]⟩

/-- **A pass in any good state**: the pass on any bound array, with any seed, if it completes, is a run
    of the engine on a well-founded graph with lawful closures from a clean state; so it ends clean,
    enters exactly the nodes reachable through tracked operands, each once, consumers first. -/
theorem good_backward_counts {σ σ' : State S} (g : Good σ) {h : Handle} (hv : h.Valid σ)
    (seed : Option (Tensor S)) (hok : σ.backward h seed = .ok σ') :
    ∃ e : EState S, Corgi.backward σ.graph (σ.nodes.size + 1) h.node h.dims h.keep seed σ.estate = .ok e ∧
      σ' = σ.withEState e ∧ σ.graph.WF ∧ σ.graph.Lawful ∧
      e.Clean ∧ (logN e).Nodup ∧ (∀ m, m ∈ logN e ↔ Reach σ.graph h.node m) ∧ LogOrder σ.graph h.node (logN e) := by
  simp only [State.backward, bind, Except.bind] at hok
  cases hb : Corgi.backward σ.graph (σ.nodes.size + 1) h.node h.dims h.keep seed σ.estate with
  | error e => simp [hb] at hok
  | ok e =>
    simp only [hb, pure, Except.pure, Except.ok.injEq] at hok
    have hwf := graph_wf σ g.heap
    have hl := graph_lawful σ g.heap
    have := backward_counts σ.graph hwf hl (σ.nodes.size + 1) h.node (by have := hv.1; omega)
      h.dims h.keep seed σ.estate e (estate_clean σ g.heap) rfl hb
    exact ⟨e, rfl, hok.symm, hwf, hl, this⟩

/-- the visit log the harness reads back (`lastLog`) is the engine's log, oldest entry first -/
theorem lastLog_nodes (σ : State S) (e : EState S) :
    (σ.withEState e).lastLog.map (·.1) = (logN e).reverse := by
  simp [State.withEState, logN, List.map_reverse]

end Corgi
