/-
  CorgiProofs.LinearSum — the closure of `sum(k)`: every element of the delta is repeated over the block
  it summed (the transpose of the block sum), for every shape; it is total, shape-correct and additive.
-/
import CorgiProofs.LinearTags
import CorgiProofs.SumSpec

set_option linter.unusedSectionVars false
set_option linter.unusedVariables false

namespace Corgi
variable {S : Type} [Add S] [Mul S] [Neg S] [Sub S] [ScalarOps S] [BEq S]

theorem mk?_ok' (d : List Nat) (v : List S) (hpos : ∀ x ∈ d, 1 ≤ x) (hlen : prod d = v.length) :
    Tensor.mk? d v = .ok ⟨d, v⟩ := by
  have h1 : d.all (fun x => decide (1 ≤ x)) = true := by simpa using hpos
  simp [Tensor.mk?, h1, hlen, pure, Except.pure]

theorem flatMap_replicate_length (g : Nat) : ∀ (v : List S), (v.flatMap (List.replicate g)).length = v.length * g
  | [] => by simp
  | x :: xs => by
    simp only [List.flatMap_cons, List.length_append, List.length_replicate, flatMap_replicate_length g xs,
      List.length_cons, Nat.add_mul, Nat.one_mul]
    omega

theorem range_map_getD (v : List S) : (List.range v.length).map (fun n => v.getD n zero) = v := by
  apply List.ext_getElem?
  intro m
  simp only [List.getElem?_map]
  by_cases hm : m < v.length
  · simp [List.getElem?_range hm, List.getD_eq_getElem?_getD, List.getElem?_eq_getElem hm]
  · have h1 : (List.range v.length)[m]? = none := by simp; omega
    have h2 : v[m]? = none := by simp; omega
    simp [h1, h2]

/-- **the closure of `sum(k)`** on a delta of the result's shape `lead ++ [1]`: element `q` of the delta
    fills the whole `q`-th block of the operand's shape `lead ++ blk` -/
theorem sumBack_spec (x : Tensor S) (lead blk : List Nat) (hx : Shaped (lead ++ [1]) x)
    (hposL : ∀ d ∈ lead, 1 ≤ d) (hposB : ∀ d ∈ blk, 1 ≤ d) :
    slicedOp [x] (sumBackOp (prod blk)) x.dims (lead ++ blk) 1 0
      = .ok ⟨lead ++ blk, x.vals.flatMap (List.replicate (prod blk))⟩ := by
  obtain ⟨hxd, hxl⟩ := hx
  have hxl' : x.vals.length = prod lead := by rw [hxl, prod_append]; simp [prod]
  have hvalid : [x].all (fun v =>
      ((v.dims.reverse.drop 1).zip (x.dims.reverse.drop 1)).all (fun p => p.1 == 1 || p.1 == p.2)) = true := by
    simp only [List.all_cons, List.all_nil, Bool.and_true, List.all_eq_true]
    intro p hp
    simp [mem_zip_self hp]
  have hposO : ∀ d ∈ lead ++ blk, 1 ≤ d := by
    intro d hd; rcases List.mem_append.mp hd with h | h
    · exact hposL d h
    · exact hposB d h
  have hg1 : prod (x.dims.reverse.take 1) = 1 := by rw [hxd]; simp [prod]
  by_cases hlead : lead = []
  · subst hlead
    simp only [List.nil_append] at *
    have hv : ∃ v, x.vals = [v] := by
      match hxv : x.vals, hxl' with
      | [v], _ => exact ⟨v, rfl⟩
      | [], h => simp [prod] at h
      | _ :: _ :: _, h => simp [prod] at h
    obtain ⟨v, hv⟩ := hv
    have hsl : slicesAt [x] 1 0 [] = .ok [[v]] := by
      simp [slicesAt, mapR, hg1, projOffset, slice, hv, bind, Except.bind, pure, Except.pure]
    have hop : sumBackOp (prod blk) [[v]] = .ok (List.replicate (prod blk) v) := by
      simp [sumBackOp, getR, bind, Except.bind, pure, Except.pure]
    rw [slicedOp_single [x] _ x.dims blk 1 0 [[v]] (List.replicate (prod blk) v) hvalid (by rw [hxd]; rfl) hsl hop
      (by simp)]
    simp only [flattenTrailing, if_true, pure, Except.pure, Except.bind, hv, List.flatMap_cons, List.flatMap_nil,
      List.append_nil]
    exact mk?_ok' _ _ hposB (by simp)
  · have hlen : x.dims.length - 1 = lead.length := by rw [hxd]; simp
    have htake : x.dims.take (x.dims.length - 1) = lead := by rw [hlen, hxd]; simp
    let blkf : Nat → List S := fun n => List.replicate (prod blk) (x.vals.getD n zero)
    have hblk : ∀ n, n < prod (x.dims.take (x.dims.length - 1)) →
        ∃ sl, slicesAt [x] 1 (x.dims.length - 1) (unflatten (x.dims.take (x.dims.length - 1)) n) = .ok sl ∧
          sumBackOp (prod blk) sl = .ok (blkf n) ∧ (blkf n).length = prod blk := by
      intro n hn
      rw [htake] at hn ⊢
      have hnl : n < x.vals.length := by rw [hxl']; exact hn
      refine ⟨[[x.vals.getD n zero]], ?_, ?_, by simp [blkf]⟩
      · have hmin : min (x.dims.length - 1) (x.dims.length - 1) = x.dims.length - 1 := Nat.min_self _
        have hoff : projOffset lead (unflatten lead n) = n := by
          rw [projOffset_full _ _ (unflatten_inRange hposL hn), rowMajor_unflatten hn]
        have hb : n + 1 ≤ x.vals.length := by omega
        have hdt : (x.vals.drop n).take 1 = [x.vals.getD n zero] := by
          rw [List.getD_eq_getElem?_getD, List.getElem?_eq_getElem hnl]
          simp [List.take_one, List.head?_drop, List.getElem?_eq_getElem hnl]
        simp [slicesAt, mapR, hg1, hmin, htake, hoff, slice, hb, bind, Except.bind, pure, Except.pure, hdt]
      · simp [sumBackOp, getR, bind, Except.bind, pure, Except.pure, blkf]
    have hmain := slicedOp_loop [x] (sumBackOp (prod blk)) x.dims blk 1 0 blkf hvalid
      (by rw [hlen]; exact List.length_pos_iff.mpr hlead) (by rw [htake]; exact hposL) hposB hblk
    rw [htake] at hmain
    rw [hmain]
    simp only [flattenTrailing, if_true, pure, Except.pure, Except.bind]
    have hflat : ((List.range (prod lead)).map blkf).flatten = x.vals.flatMap (List.replicate (prod blk)) := by
      have : x.vals.flatMap (List.replicate (prod blk))
          = ((List.range x.vals.length).map (fun n => x.vals.getD n zero)).flatMap (List.replicate (prod blk)) := by
        rw [range_map_getD]
      rw [this, hxl', List.flatMap_def, List.map_map]
      rfl
    rw [hflat]
    exact mk?_ok' _ _ hposO (by rw [flatMap_replicate_length, hxl', prod_append])

theorem flatMap_replicate_add [AddLaws S] (g : Nat) : ∀ (u v : List S), u.length = v.length →
    (List.zipWith (· + ·) u v).flatMap (List.replicate g)
      = List.zipWith (· + ·) (u.flatMap (List.replicate g)) (v.flatMap (List.replicate g))
  | [], [], _ => rfl
  | [], _ :: _, h => by simp at h
  | _ :: _, [], h => by simp at h
  | a :: u, b :: v, h => by
    simp only [List.zipWith_cons_cons, List.flatMap_cons]
    rw [List.zipWith_append (by simp), flatMap_replicate_add g u v (by simpa using h)]
    congr 1
    simp [List.zipWith_replicate]

theorem flatMap_replicate_smul (α : S) (g : Nat) : ∀ (u : List S),
    (u.map (α * ·)).flatMap (List.replicate g) = (u.flatMap (List.replicate g)).map (α * ·)
  | [] => rfl
  | a :: u => by
    simp only [List.map_cons, List.flatMap_cons, List.map_append, List.map_replicate, flatMap_replicate_smul α g u]

/-- the closure of a `sum(k)` node -/
theorem vjp_lin_sum [AddLaws S] [MulLaws S] [CommLaws S] (k : Nat) (a self : Tensor S) (f0 : Bool) (ha : OperandOK a)
    (hk : 1 ≤ k) (hkr : k ≤ a.dims.length) :
    VjpLinear (vjp (.sum k) [a] self) [f0] (a.dims.take (a.dims.length - k) ++ [1]) [a.dims] := by
  generalize hlead : a.dims.take (a.dims.length - k) = lead
  generalize hblk : a.dims.drop (a.dims.length - k) = blk
  have hsplit : a.dims = lead ++ blk := by rw [← hlead, ← hblk, List.take_append_drop]
  have hposL : ∀ d ∈ lead, 1 ≤ d := fun d hd => ha.1.1 d (by rw [hsplit]; simp [hd])
  have hposB : ∀ d ∈ blk, 1 ≤ d := fun d hd => ha.1.1 d (by rw [hsplit]; simp [hd])
  have hll : lead.length = a.dims.length - k := by rw [← hlead, List.length_take]; omega
  refine vjpLin_unary (fun x => slicedOp [x] (sumBackOp (prod (a.dims.drop (x.dims.length - 1)))) x.dims a.dims 1 0)
    (fun x => rfl) ?_
  refine ⟨a.dims, fun x => ⟨a.dims, x.vals.flatMap (List.replicate (prod blk))⟩, ha.1.1, ha.1.1, Fits_self _, ?_, ?_, ?_⟩
  · intro x hx
    have hxl : x.dims.length - 1 = a.dims.length - k := by rw [hx.1]; simp [hll]
    have hx' : x.vals.length = prod lead := by rw [hx.2, prod_append]; simp [prod]
    refine ⟨?_, rfl, ?_⟩
    · simp only [hxl, hblk]
      have := sumBack_spec x lead blk hx hposL hposB
      rw [← hsplit] at this
      exact this
    · simp only [flatMap_replicate_length, hx', hsplit, prod_append]
  · intro x y hx hy
    simp only [tadd]
    congr 1
    exact flatMap_replicate_add _ _ _ (by rw [hx.2, hy.2])
  · intro α x _
    simp only [tsmul]
    congr 1
    exact flatMap_replicate_smul α _ _

end Corgi
