/-
  CorgiProofs.AdjointMatmul — the transposition identity behind `matmul`'s closures, on the summation
  kernel `sumRange` that `specMatmul` (and hence, by `linEntry_matmul_left/right`, the closed form of both
  stored closures) is built from:

      Σ_r Σ_j (Σ_t A r t · B t j) · X r j  =  Σ_r Σ_t A r t · (Σ_j B t j · X r j)      (δA = X · Bᵀ)
                                            =  Σ_t Σ_j B t j · (Σ_r A r t · X r j)      (δB = Aᵀ · X)

  for every size and every scalar type with the commutative-ring laws (instances for ℝ in C02.lean).
-/
import CorgiProofs.LinearMatmul
import CorgiProofs.Adjoint

set_option linter.unusedSectionVars false
set_option linter.unusedVariables false

namespace Corgi
variable {S : Type} [Add S] [Mul S] [Neg S] [Sub S] [ScalarOps S] [BEq S]
variable [AddLaws S] [MulLaws S] [CommLaws S]

theorem sumRange_zero_adj (f : Nat → S) : sumRange 0 f = zero := rfl

theorem sumRange_succ_adj (n : Nat) (f : Nat → S) : sumRange (n + 1) f = sumRange n f + f n := by
  unfold sumRange
  rw [List.range_succ, List.map_append, sumList_append_adj, List.map_cons, List.map_nil, sumList_cons_adj,
    sumList_nil_adj, add_zero']

theorem sumRange_congr_adj {n : Nat} {f g : Nat → S} (h : ∀ t, f t = g t) : sumRange n f = sumRange n g := by
  have : f = g := funext h
  rw [this]

theorem sumRange_const_zero : ∀ n : Nat, sumRange n (fun _ => (zero : S)) = zero
  | 0 => rfl
  | n + 1 => by rw [sumRange_succ_adj, sumRange_const_zero n, AddLaws.zero_add]

/-- finite sums commute -/
theorem sumRange_comm (f : Nat → Nat → S) (n : Nat) : ∀ m : Nat,
    sumRange m (fun i => sumRange n (fun j => f i j)) = sumRange n (fun j => sumRange m (fun i => f i j))
  | 0 => by
    rw [sumRange_zero_adj]
    exact (sumRange_const_zero n).symm
  | m + 1 => by
    rw [sumRange_succ_adj, sumRange_comm f n m, ← sumRange_add]
    exact sumRange_congr_adj (fun j => (sumRange_succ_adj m (fun i => f i j)).symm)

/-- one row of the product against one row of the delta -/
theorem matmul_kernel_row (k n : Nat) (a : Nat → S) (B : Nat → Nat → S) (x : Nat → S) :
    sumRange n (fun j => sumRange k (fun t => a t * B t j) * x j)
      = sumRange k (fun t => a t * sumRange n (fun j => B t j * x j)) := by
  have h1 : ∀ j, sumRange k (fun t => a t * B t j) * x j = sumRange k (fun t => a t * (B t j * x j)) := by
    intro j
    rw [CommLaws.mul_comm (sumRange k (fun t => a t * B t j)) (x j), ← sumRange_smul]
    refine sumRange_congr_adj (fun t => ?_)
    show x j * (a t * B t j) = a t * (B t j * x j)
    rw [CommLaws.mul_comm (x j) (a t * B t j), CommLaws.mul_assoc]
  rw [sumRange_congr_adj h1, sumRange_comm (fun j t => a t * (B t j * x j)) k n]
  exact sumRange_congr_adj (fun t => sumRange_smul (a t) n (fun j => B t j * x j))

/-- **left operand**: `⟨A·B, X⟩ = ⟨A, X·Bᵀ⟩` -/
theorem matmul_kernel_adjoint_left (m k n : Nat) (A B X : Nat → Nat → S) :
    sumRange m (fun r => sumRange n (fun j => sumRange k (fun t => A r t * B t j) * X r j))
      = sumRange m (fun r => sumRange k (fun t => A r t * sumRange n (fun j => B t j * X r j))) :=
  sumRange_congr_adj (fun r => matmul_kernel_row k n (A r) B (X r))

/-- **right operand**: `⟨A·B, X⟩ = ⟨B, Aᵀ·X⟩` -/
theorem matmul_kernel_adjoint_right (m k n : Nat) (A B X : Nat → Nat → S) :
    sumRange m (fun r => sumRange n (fun j => sumRange k (fun t => A r t * B t j) * X r j))
      = sumRange k (fun t => sumRange n (fun j => B t j * sumRange m (fun r => A r t * X r j))) := by
  rw [matmul_kernel_adjoint_left, sumRange_comm (fun r t => A r t * sumRange n (fun j => B t j * X r j)) k m]
  refine sumRange_congr_adj (fun t => ?_)
  have h2 : ∀ r, A r t * sumRange n (fun j => B t j * X r j) = sumRange n (fun j => B t j * (A r t * X r j)) := by
    intro r
    rw [← sumRange_smul]
    refine sumRange_congr_adj (fun j => ?_)
    show A r t * (B t j * X r j) = B t j * (A r t * X r j)
    rw [← CommLaws.mul_assoc, CommLaws.mul_comm (A r t) (B t j), CommLaws.mul_assoc]
  rw [sumRange_congr_adj h2, sumRange_comm (fun r j => B t j * (A r t * X r j)) n m]
  exact sumRange_congr_adj (fun j => sumRange_smul (B t j) m (fun r => A r t * X r j))

/-! ### building blocks for lifting the kernel identity to buffers: flat sums as nested sums, `dot` as a sum -/

theorem sumRange_add_split (a : Nat) (f : Nat → S) : ∀ b : Nat,
    sumRange (a + b) f = sumRange a f + sumRange b (fun j => f (a + j))
  | 0 => by rw [Nat.add_zero, sumRange_zero_adj, add_zero']
  | b + 1 => by
    rw [← Nat.add_assoc, sumRange_succ_adj, sumRange_add_split a f b, sumRange_succ_adj, AddLaws.add_assoc]

/-- a sum over a row-major buffer of `m` rows of length `n` is the sum over the rows of the row sums -/
theorem sumRange_mul_split (n : Nat) (f : Nat → S) : ∀ m : Nat,
    sumRange (m * n) f = sumRange m (fun r => sumRange n (fun j => f (r * n + j)))
  | 0 => by rw [Nat.zero_mul]; rfl
  | m + 1 => by
    rw [Nat.succ_mul, sumRange_add_split, sumRange_mul_split n f m, sumRange_succ_adj]

theorem sumRange_one_adj (f : Nat → S) : sumRange 1 f = f 0 := by
  rw [sumRange_succ_adj, sumRange_zero_adj, AddLaws.zero_add]

theorem sumRange_succ_front (n : Nat) (f : Nat → S) : sumRange (n + 1) f = f 0 + sumRange n (fun i => f (i + 1)) := by
  rw [Nat.add_comm n 1, sumRange_add_split, sumRange_one_adj]
  congr 1
  exact sumRange_congr_adj (fun j => by rw [Nat.add_comm])

/-- `⟨u, v⟩` as an indexed sum -/
theorem dot_eq_sumRange : ∀ (u v : List S), u.length = v.length →
    dot u v = sumRange u.length (fun i => u.getD i zero * v.getD i zero)
  | [], _, _ => rfl
  | a :: u, [], h => by simp at h
  | a :: u, b :: v, h => by
    rw [dot_cons, List.length_cons, sumRange_succ_front, dot_eq_sumRange u v (by simpa using h)]
    rfl

theorem sumRange_congr_lt : ∀ (n : Nat) {f g : Nat → S}, (∀ t, t < n → f t = g t) → sumRange n f = sumRange n g
  | 0, _, _, _ => rfl
  | n + 1, f, g, h => by
    rw [sumRange_succ_adj, sumRange_succ_adj, sumRange_congr_lt n (fun t ht => h t (by omega)), h n (by omega)]

theorem getD_map_range_adj (N : Nat) (f : Nat → S) (i : Nat) (hi : i < N) : ((List.range N).map f).getD i zero = f i := by
  simp [List.getD_eq_getElem?_getD, hi]

/-- the row-major buffer of the product of an `m×k` by a `k×n` buffer -/
def mmBuf (m k n : Nat) (av bv : List S) : List S :=
  (List.range (m * n)).map (fun i => sumRange k (fun t => av.getD (i / n * k + t) zero * bv.getD (t * n + i % n) zero))

/-- the row-major buffer of `X · Bᵀ` (`X : m×n`, `B : k×n`), the left closure's product -/
def mmBufT (m n k : Nat) (xv bv : List S) : List S :=
  (List.range (m * k)).map (fun i => sumRange n (fun j => bv.getD (i % k * n + j) zero * xv.getD (i / k * n + j) zero))

/-- **buffer level, left operand**: for row-major buffers of an `m×k` operand, a `k×n` operand and an `m×n`
    delta, `⟨A·B, X⟩ = ⟨A, X·Bᵀ⟩`. -/
theorem mmBuf_adjoint_left (m k n : Nat) (av bv xv : List S) (ha : av.length = m * k) (hx : xv.length = m * n) :
    dot (mmBuf m k n av bv) xv = dot av (mmBufT m n k xv bv) := by
  have hn : ∀ r j, j < n → (r * n + j) / n = r ∧ (r * n + j) % n = j := by
    intro r j hj
    have hpos : 0 < n := by omega
    constructor
    · rw [Nat.mul_comm, Nat.mul_add_div hpos, Nat.div_eq_of_lt hj, Nat.add_zero]
    · rw [Nat.mul_comm, Nat.mul_add_mod, Nat.mod_eq_of_lt hj]
  have hk : ∀ r t, t < k → (r * k + t) / k = r ∧ (r * k + t) % k = t := by
    intro r t ht
    have hpos : 0 < k := by omega
    constructor
    · rw [Nat.mul_comm, Nat.mul_add_div hpos, Nat.div_eq_of_lt ht, Nat.add_zero]
    · rw [Nat.mul_comm, Nat.mul_add_mod, Nat.mod_eq_of_lt ht]
  have hlt : ∀ (r c w : Nat), r < m → c < w → r * w + c < m * w := by
    intro r c w hr hc
    calc r * w + c < r * w + w := by omega
      _ = (r + 1) * w := by rw [Nat.succ_mul]
      _ ≤ m * w := Nat.mul_le_mul_right w hr
  rw [dot_eq_sumRange _ _ (by simp [mmBuf, hx]), dot_eq_sumRange _ _ (by simp [mmBufT, ha])]
  have l1 : (mmBuf m k n av bv).length = m * n := by simp [mmBuf]
  rw [l1, ha, sumRange_mul_split, sumRange_mul_split]
  rw [sumRange_congr_lt m (g := fun r => sumRange n (fun j =>
      sumRange k (fun t => av.getD (r * k + t) zero * bv.getD (t * n + j) zero) * xv.getD (r * n + j) zero))
    (fun r hr => sumRange_congr_lt n (fun j hj => by
      show (mmBuf m k n av bv).getD (r * n + j) zero * _ = _
      rw [mmBuf, getD_map_range_adj _ _ _ (hlt r j n hr hj), (hn r j hj).1, (hn r j hj).2]))]
  rw [matmul_kernel_adjoint_left m k n (fun r t => av.getD (r * k + t) zero) (fun t j => bv.getD (t * n + j) zero)
    (fun r j => xv.getD (r * n + j) zero)]
  refine sumRange_congr_lt m (fun r hr => sumRange_congr_lt k (fun t ht => ?_))
  show _ = av.getD (r * k + t) zero * (mmBufT m n k xv bv).getD (r * k + t) zero
  rw [mmBufT, getD_map_range_adj _ _ _ (hlt r t k hr ht), (hk r t ht).1, (hk r t ht).2]

/-! ### two matrices: the identity on the specification product `specMatmul` itself -/

/-- the row-major buffer of `Aᵀ · X` (`A : m×k`, `X : m×n`), the right closure's product -/
def mmBufTL (k m n : Nat) (av xv : List S) : List S :=
  (List.range (k * n)).map (fun i => sumRange m (fun r => av.getD (r * k + i / n) zero * xv.getD (r * n + i % n) zero))

/-- **buffer level, right operand**: `⟨A·B, X⟩ = ⟨B, Aᵀ·X⟩`. -/
theorem mmBuf_adjoint_right (m k n : Nat) (av bv xv : List S) (hb : bv.length = k * n) (hx : xv.length = m * n) :
    dot (mmBuf m k n av bv) xv = dot bv (mmBufTL k m n av xv) := by
  have hn : ∀ r j, j < n → (r * n + j) / n = r ∧ (r * n + j) % n = j := by
    intro r j hj
    have hpos : 0 < n := by omega
    constructor
    · rw [Nat.mul_comm, Nat.mul_add_div hpos, Nat.div_eq_of_lt hj, Nat.add_zero]
    · rw [Nat.mul_comm, Nat.mul_add_mod, Nat.mod_eq_of_lt hj]
  have hlt : ∀ (r c w h : Nat), r < h → c < w → r * w + c < h * w := by
    intro r c w h hr hc
    calc r * w + c < r * w + w := by omega
      _ = (r + 1) * w := by rw [Nat.succ_mul]
      _ ≤ h * w := Nat.mul_le_mul_right w hr
  rw [dot_eq_sumRange _ _ (by simp [mmBuf, hx]), dot_eq_sumRange _ _ (by simp [mmBufTL, hb])]
  have l1 : (mmBuf m k n av bv).length = m * n := by simp [mmBuf]
  rw [l1, hb, sumRange_mul_split, sumRange_mul_split]
  rw [sumRange_congr_lt m (g := fun r => sumRange n (fun j =>
      sumRange k (fun t => av.getD (r * k + t) zero * bv.getD (t * n + j) zero) * xv.getD (r * n + j) zero))
    (fun r hr => sumRange_congr_lt n (fun j hj => by
      show (mmBuf m k n av bv).getD (r * n + j) zero * _ = _
      rw [mmBuf, getD_map_range_adj _ _ _ (hlt r j n m hr hj), (hn r j hj).1, (hn r j hj).2]))]
  rw [matmul_kernel_adjoint_right m k n (fun r t => av.getD (r * k + t) zero) (fun t j => bv.getD (t * n + j) zero)
    (fun r j => xv.getD (r * n + j) zero)]
  refine sumRange_congr_lt k (fun t ht => sumRange_congr_lt n (fun j hj => ?_))
  show _ = bv.getD (t * n + j) zero * (mmBufTL k m n av xv).getD (t * n + j) zero
  rw [mmBufTL, getD_map_range_adj _ _ _ (hlt t j n k ht hj), (hn t j hj).1, (hn t j hj).2]

/-- the product the right closure forms (other operand, transposed; delta) is `Aᵀ·X` -/
theorem specMatmul_2d_vals_TL (a x : Tensor S) (m k n : Nat) (ha : a.dims = [m, k]) (hx : x.dims = [m, n]) :
    (specMatmul a true x false none).vals = mmBufTL k m n a.vals x.vals := by
  simp only [specMatmul, Tensor.ofFn, ha, hx, mmBufTL]
  simp [bdims, bdimsRev, prod, unflatten, proj, Tensor.get, rowMajor, ha, hx, AddLaws.zero_add]

/-- the specification product of two matrices is the row-major product buffer -/
theorem specMatmul_2d_vals (a b : Tensor S) (m k n : Nat) (ha : a.dims = [m, k]) (hb : b.dims = [k, n]) :
    (specMatmul a false b false none).vals = mmBuf m k n a.vals b.vals := by
  simp only [specMatmul, Tensor.ofFn, ha, hb, mmBuf]
  simp [bdims, bdimsRev, prod, unflatten, proj, Tensor.get, rowMajor, ha, hb, AddLaws.zero_add]

/-- the product the left closure forms (delta, untransposed; other operand, transposed) is `X·Bᵀ` -/
theorem specMatmul_2d_vals_T (x b : Tensor S) (m k n : Nat) (hx : x.dims = [m, n]) (hb : b.dims = [k, n]) :
    (specMatmul x false b true none).vals = mmBufT m n k x.vals b.vals := by
  simp only [specMatmul, Tensor.ofFn, hx, hb, mmBufT]
  simp [bdims, bdimsRev, prod, unflatten, proj, Tensor.get, rowMajor, hx, hb, AddLaws.zero_add]
  intro i _
  exact sumRange_congr_adj (fun t => CommLaws.mul_comm _ _)

theorem matmul2d_adjoint_left (a b x : Tensor S) (m k n : Nat) (ha : a.dims = [m, k]) (hb : b.dims = [k, n])
    (hx : x.dims = [m, n]) (hwa : a.WF) (hwx : x.WF) :
    dot (specMatmul a false b false none).vals x.vals = dot a.vals (specMatmul x false b true none).vals := by
  rw [specMatmul_2d_vals a b m k n ha hb, specMatmul_2d_vals_T x b m k n hx hb]
  apply mmBuf_adjoint_left
  · rw [← hwa.2, ha]; simp [prod]
  · rw [← hwx.2, hx]; simp [prod]

theorem matmul2d_adjoint_right (a b x : Tensor S) (m k n : Nat) (ha : a.dims = [m, k]) (hb : b.dims = [k, n])
    (hx : x.dims = [m, n]) (hwb : b.WF) (hwx : x.WF) :
    dot (specMatmul a false b false none).vals x.vals = dot b.vals (specMatmul a true x false none).vals := by
  rw [specMatmul_2d_vals a b m k n ha hb, specMatmul_2d_vals_TL a x m k n ha hx]
  apply mmBuf_adjoint_right
  · rw [← hwb.2, hb]; simp [prod]
  · rw [← hwx.2, hx]; simp [prod]

end Corgi
