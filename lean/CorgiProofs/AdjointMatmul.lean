/-
  CorgiProofs.AdjointMatmul — the transposition identity behind `matmul`'s closures, on the summation
  kernel `sumRange` that `specMatmul` (and hence, by `linEntry_matmul_left/right`, the closed form of both
  stored closures) is built from:

      Σ_r Σ_j (Σ_t A r t · B t j) · X r j  =  Σ_r Σ_t A r t · (Σ_j B t j · X r j)      (δA = X · Bᵀ)
                                            =  Σ_t Σ_j B t j · (Σ_r A r t · X r j)      (δB = Aᵀ · X)

  for every size and every scalar type with the commutative-ring laws (instances for ℝ in C02.lean).
-/
import CorgiProofs.LinearMatmul
import CorgiProofs.Adjoint

set_option linter.unusedSectionVars false
set_option linter.unusedVariables false

namespace Corgi
variable {S : Type} [Add S] [Mul S] [Neg S] [Sub S] [ScalarOps S] [BEq S]
variable [AddLaws S] [MulLaws S] [CommLaws S]

theorem sumRange_zero_adj (f : Nat → S) : sumRange 0 f = zero := rfl

theorem sumRange_succ_adj (n : Nat) (f : Nat → S) : sumRange (n + 1) f = sumRange n f + f n := by
  unfold sumRange
  rw [List.range_succ, List.map_append, sumList_append_adj, List.map_cons, List.map_nil, sumList_cons_adj,
    sumList_nil_adj, add_zero']

theorem sumRange_congr_adj {n : Nat} {f g : Nat → S} (h : ∀ t, f t = g t) : sumRange n f = sumRange n g := by
  have : f = g := funext h
  rw [this]

theorem sumRange_const_zero : ∀ n : Nat, sumRange n (fun _ => (zero : S)) = zero
  | 0 => rfl
  | n + 1 => by rw [sumRange_succ_adj, sumRange_const_zero n, AddLaws.zero_add]

/-- finite sums commute -/
theorem sumRange_comm (f : Nat → Nat → S) (n : Nat) : ∀ m : Nat,
    sumRange m (fun i => sumRange n (fun j => f i j)) = sumRange n (fun j => sumRange m (fun i => f i j))
  | 0 => by
    rw [sumRange_zero_adj]
    exact (sumRange_const_zero n).symm
  | m + 1 => by
    rw [sumRange_succ_adj, sumRange_comm f n m, ← sumRange_add]
    exact sumRange_congr_adj (fun j => (sumRange_succ_adj m (fun i => f i j)).symm)

/-- one row of the product against one row of the delta -/
theorem matmul_kernel_row (k n : Nat) (a : Nat → S) (B : Nat → Nat → S) (x : Nat → S) :
    sumRange n (fun j => sumRange k (fun t => a t * B t j) * x j)
      = sumRange k (fun t => a t * sumRange n (fun j => B t j * x j)) := by
  have h1 : ∀ j, sumRange k (fun t => a t * B t j) * x j = sumRange k (fun t => a t * (B t j * x j)) := by
    intro j
    rw [CommLaws.mul_comm (sumRange k (fun t => a t * B t j)) (x j), ← sumRange_smul]
    refine sumRange_congr_adj (fun t => ?_)
    show x j * (a t * B t j) = a t * (B t j * x j)
    rw [CommLaws.mul_comm (x j) (a t * B t j), CommLaws.mul_assoc]
  rw [sumRange_congr_adj h1, sumRange_comm (fun j t => a t * (B t j * x j)) k n]
  exact sumRange_congr_adj (fun t => sumRange_smul (a t) n (fun j => B t j * x j))

/-- **left operand**: `⟨A·B, X⟩ = ⟨A, X·Bᵀ⟩` -/
theorem matmul_kernel_adjoint_left (m k n : Nat) (A B X : Nat → Nat → S) :
    sumRange m (fun r => sumRange n (fun j => sumRange k (fun t => A r t * B t j) * X r j))
      = sumRange m (fun r => sumRange k (fun t => A r t * sumRange n (fun j => B t j * X r j))) :=
  sumRange_congr_adj (fun r => matmul_kernel_row k n (A r) B (X r))

/-- **right operand**: `⟨A·B, X⟩ = ⟨B, Aᵀ·X⟩` -/
theorem matmul_kernel_adjoint_right (m k n : Nat) (A B X : Nat → Nat → S) :
    sumRange m (fun r => sumRange n (fun j => sumRange k (fun t => A r t * B t j) * X r j))
      = sumRange k (fun t => sumRange n (fun j => B t j * sumRange m (fun r => A r t * X r j))) := by
  rw [matmul_kernel_adjoint_left, sumRange_comm (fun r t => A r t * sumRange n (fun j => B t j * X r j)) k m]
  refine sumRange_congr_adj (fun t => ?_)
  have h2 : ∀ r, A r t * sumRange n (fun j => B t j * X r j) = sumRange n (fun j => B t j * (A r t * X r j)) := by
    intro r
    rw [← sumRange_smul]
    refine sumRange_congr_adj (fun j => ?_)
    show A r t * (B t j * X r j) = B t j * (A r t * X r j)
    rw [← CommLaws.mul_assoc, CommLaws.mul_comm (A r t) (B t j), CommLaws.mul_assoc]
  rw [sumRange_congr_adj h2, sumRange_comm (fun r j => B t j * (A r t * X r j)) n m]
  exact sumRange_congr_adj (fun j => sumRange_smul (B t j) m (fun r => A r t * X r j))

end Corgi
