/-
  CorgiProofs.EngineCount — L3a, first half: `propagate_consumers` counts, for every node, exactly
  the tracked uses it has inside the graph reachable from the root (value-free; core Lean only).

  The invariant is quantified over a "still to count" function `pend` (the uncounted remaining
  operands of the callers on the stack), which makes it inductive without talking about the stack.
-/
import CorgiModel.Engine

namespace Corgi
open Classical

variable {S : Type}

/-- number of tracked stored operands in `ks` that are node `m` -/
def edges : List Slot → Nat → Nat
  | [], _ => 0
  | s :: ks, m => (if s.node = m ∧ s.tracked = true then 1 else 0) + edges ks m

/-- nodes reachable from `root` through tracked stored operands -/
inductive Reach (G : Graph S) (root : Nat) : Nat → Prop
  | root : Reach G root root
  | step {n : Nat} (s : Slot) : Reach G root n → s ∈ G.kids n → s.tracked = true → Reach G root s.node

/-- stored operands always belong to older nodes (ids are allocation order) -/
def Graph.WF (G : Graph S) : Prop := ∀ n s, s ∈ G.kids n → s.node < n

theorem Reach.le {G : Graph S} (wf : G.WF) {root m : Nat} (h : Reach G root m) : m ≤ root := by
  induction h with
  | root => exact Nat.le_refl _
  | step s _ hs _ ih => have := wf _ s hs; omega

theorem edges_pos {ks : List Slot} {s : Slot} (hs : s ∈ ks) (ht : s.tracked = true) : 1 ≤ edges ks s.node := by
  induction ks with
  | nil => simp at hs
  | cons k ks ih =>
    simp only [edges]
    simp at hs
    rcases hs with rfl | hs
    · simp [ht]
    · have := ih hs; omega

theorem edges_pos_iff {ks : List Slot} {m : Nat} : 0 < edges ks m ↔ ∃ s ∈ ks, s.node = m ∧ s.tracked = true := by
  induction ks with
  | nil => simp [edges]
  | cons k ks ih =>
    simp only [edges, List.mem_cons, exists_eq_or_imp]
    by_cases hk : k.node = m ∧ k.tracked = true
    · simp only [hk, and_self, if_true, true_or, iff_true]; omega
    · simp only [hk, if_false, Nat.zero_add, false_or]; exact ih

/-- `Σ_{p < B, P p} edges (kids p) m` -/
noncomputable def indeg (G : Graph S) (P : Nat → Prop) (m : Nat) : Nat → Nat
  | 0 => 0
  | B + 1 => indeg G P m B + (if P B then edges (G.kids B) m else 0)

theorem indeg_congr (G : Graph S) (P Q : Nat → Prop) (m : Nat) :
    ∀ B, (∀ p, p < B → (P p ↔ Q p)) → indeg G P m B = indeg G Q m B := by
  intro B
  induction B with
  | zero => intro _; rfl
  | succ B ih =>
    intro h
    have hB : P B ↔ Q B := h B (by omega)
    simp only [indeg, ih (fun p hp => h p (by omega))]
    by_cases hq : Q B <;> simp [hq, hB]

theorem indeg_insert (G : Graph S) (P : Nat → Prop) (m k : Nat) (hk : ¬ P k) :
    ∀ B, k < B → indeg G (fun p => P p ∨ p = k) m B = indeg G P m B + edges (G.kids k) m := by
  intro B
  induction B with
  | zero => intro h; omega
  | succ B ih =>
    intro h
    by_cases hB : k = B
    · subst hB
      have : indeg G (fun p => P p ∨ p = k) m k = indeg G P m k :=
        indeg_congr G _ _ m k (fun p hp => by
          constructor
          · intro h'; rcases h' with h' | h'
            · exact h'
            · omega
          · intro h'; exact Or.inl h')
      simp [indeg, this, hk]
    · have h' : k < B := by omega
      have hne : ¬ (B = k) := fun e => hB e.symm
      simp only [indeg, ih h', hne, or_false]
      omega

theorem indeg_ge (G : Graph S) (P : Nat → Prop) (m p : Nat) (hp : P p) :
    ∀ B, p < B → edges (G.kids p) m ≤ indeg G P m B := by
  intro B
  induction B with
  | zero => intro h; omega
  | succ B ih =>
    intro h
    simp only [indeg]
    by_cases hB : p = B
    · subst hB; simp [hp]
    · have := ih (by omega); omega

theorem indeg_false (G : Graph S) (m : Nat) : ∀ B, indeg G (fun _ => False) m B = 0 := by
  intro B
  induction B with
  | zero => rfl
  | succ B ih => simp [indeg, ih]

theorem indeg_pos (G : Graph S) (P : Nat → Prop) (m : Nat) :
    ∀ B, 0 < indeg G P m B → ∃ p, p < B ∧ P p ∧ 0 < edges (G.kids p) m := by
  intro B
  induction B with
  | zero => intro h; simp [indeg] at h
  | succ B ih =>
    intro h
    simp only [indeg] at h
    by_cases hP : P B
    · by_cases he : 0 < edges (G.kids B) m
      · exact ⟨B, by omega, hP, he⟩
      · simp [hP] at h
        have : 0 < indeg G P m B := by omega
        obtain ⟨p, hp, h1, h2⟩ := ih this
        exact ⟨p, by omega, h1, h2⟩
    · simp [hP] at h
      obtain ⟨p, hp, h1, h2⟩ := ih h
      exact ⟨p, by omega, h1, h2⟩

theorem indeg_zero (G : Graph S) (P : Nat → Prop) (m : Nat) :
    ∀ B, (∀ p, p < B → P p → edges (G.kids p) m = 0) → indeg G P m B = 0 := by
  intro B h
  apply Classical.byContradiction
  intro hne
  obtain ⟨p, hp, h1, h2⟩ := indeg_pos G P m B (by omega)
  have := h p hp h1
  omega

/-- visited: the root, and every node with a positive count -/
def Vis (c : Cnt) (root p : Nat) : Prop := p = root ∨ 0 < c.get p

structure PInv (G : Graph S) (root B : Nat) (c : Cnt) (pend : Nat → Nat) : Prop where
  acct : ∀ m, c.get m + pend m = indeg G (Vis c root) m B
  reach : ∀ m, 0 < c.get m → Reach G root m ∧ m < root

section
variable (G : Graph S) (root B : Nat) (hB : root < B) (wf : G.WF)
include hB wf

theorem propKids_inv (f : Nat)
    (ih : ∀ n c pend, n < f → Reach G root n → Vis c root n →
        PInv G root B c (fun m => pend m + edges (G.kids n) m) → PInv G root B (propagate G f n c) pend)
    (n : Nat) (hnf : n ≤ f) (hRn : Reach G root n) :
    ∀ (ks : List Slot) (c : Cnt) (pend : Nat → Nat), (∀ s ∈ ks, s ∈ G.kids n) →
      PInv G root B c (fun m => pend m + edges ks m) →
      PInv G root B (propKids (propagate G f) ks c) pend := by
  intro ks
  induction ks with
  | nil =>
    intro c pend _ h
    simpa [propKids, edges] using h
  | cons s ks ihks =>
    intro c pend hsub h
    have hs : s ∈ G.kids n := hsub s (by simp)
    have hsub' : ∀ t ∈ ks, t ∈ G.kids n := fun t ht => hsub t (by simp [ht])
    by_cases ht : s.tracked = true
    · simp only [propKids, ht, if_true]
      have hkn : s.node < n := wf n s hs
      have hnr : n ≤ root := hRn.le wf
      have hRk : Reach G root s.node := Reach.step s hRn hs ht
      -- the incremented counts
      let c1 : Cnt := c.set s.node (c.get s.node + 1)
      have hc1 : ∀ m, c1.get m = c.get m + (if s.node = m then 1 else 0) := by
        intro m
        by_cases hm : m = s.node
        · subst hm; simp [c1, Cnt.set, upd]
        · have : ¬ s.node = m := fun e => hm e.symm
          simp [c1, Cnt.set, upd, hm, this]
      by_cases hold : c.get s.node = 0
      · -- first visit: the node joins the visited set and all its operands become pending
        simp only [hold, if_true]
        have hnotV : ¬ Vis c root s.node := by
          intro hv; rcases hv with hv | hv
          · omega
          · omega
        have hV1 : ∀ p, Vis c1 root p ↔ (Vis c root p ∨ p = s.node) := by
          intro p
          simp only [Vis, hc1]
          by_cases hp : s.node = p
          · subst hp; simp
          · have : ¬ p = s.node := fun e => hp e.symm
            simp [hp, this]
        have hInv1 : PInv G root B c1 (fun m => (pend m + edges ks m) + edges (G.kids s.node) m) := by
          refine ⟨?_, ?_⟩
          · intro m
            rw [indeg_congr G _ _ m B (fun p _ => hV1 p), indeg_insert G _ m s.node hnotV B (by omega)]
            have := h.acct m
            simp only [edges, ht, and_true] at this
            rw [hc1 m]; omega
          · intro m hm
            rw [hc1 m] at hm
            by_cases hms : s.node = m
            · subst hms; exact ⟨hRk, by omega⟩
            · simp [hms] at hm; exact h.reach m hm
        have hcall := ih s.node c1 (fun m => pend m + edges ks m) (by omega) hRk
          (Or.inr (by rw [hc1]; simp)) hInv1
        have hs0 : (⟨upd c.get s.node (0 + 1)⟩ : Cnt) = c1 := by simp [c1, Cnt.set, hold]
        simp only [Cnt.set, hs0]
        exact ihks _ pend hsub' hcall
      · -- already visited: only the count changes
        simp only [hold, if_false]
        have hV1 : ∀ p, Vis c1 root p ↔ Vis c root p := by
          intro p
          simp only [Vis, hc1]
          by_cases hp : s.node = p
          · subst hp; simp; omega
          · simp [hp]
        have hInv1 : PInv G root B c1 (fun m => pend m + edges ks m) := by
          refine ⟨?_, ?_⟩
          · intro m
            rw [indeg_congr G _ _ m B (fun p _ => hV1 p)]
            have := h.acct m
            simp only [edges, ht, and_true] at this
            rw [hc1 m]; omega
          · intro m hm
            rw [hc1 m] at hm
            by_cases hms : s.node = m
            · subst hms; exact ⟨hRk, by omega⟩
            · simp [hms] at hm; exact h.reach m hm
        exact ihks c1 pend hsub' hInv1
    · simp only [propKids, ht]
      apply ihks c pend hsub'
      refine ⟨?_, h.reach⟩
      intro m
      have := h.acct m
      simpa [edges, ht] using this

theorem propagate_inv : ∀ (f n : Nat) (c : Cnt) (pend : Nat → Nat), n < f → Reach G root n → Vis c root n →
    PInv G root B c (fun m => pend m + edges (G.kids n) m) → PInv G root B (propagate G f n c) pend := by
  intro f
  induction f with
  | zero => intro n c pend h; omega
  | succ f ih =>
    intro n c pend hnf hR _ h
    simp only [propagate]
    exact propKids_inv G root B hB wf f ih n (by omega) hR (G.kids n) c pend (fun _ h => h) h

/-- **`propagate_consumers` from a clean start counts, for every node, the tracked edges into it
    from the nodes reachable from the root.** -/
theorem propagate_spec (fuel : Nat) (hf : root < fuel) (m : Nat) :
    (propagate G fuel root ⟨fun _ => 0⟩).get m = indeg G (Reach G root) m B := by
  have h0 : PInv G root B ⟨fun _ => 0⟩ (fun m => 0 + edges (G.kids root) m) := by
    refine ⟨?_, by intro m hm; simp at hm⟩
    intro m
    have hV : ∀ p, Vis ⟨fun _ => 0⟩ root p ↔ (False ∨ p = root) := by
      intro p; simp [Vis]
    rw [indeg_congr G _ _ m B (fun p _ => hV p), indeg_insert G (fun _ => False) m root (by simp) B hB]
    have : indeg G (fun _ => False) m B = 0 := indeg_false G m B
    simp [this]
  have hfin := propagate_inv G root B hB wf fuel root _ (fun _ => 0) hf Reach.root (Or.inl rfl) h0
  -- the visited set is exactly the reachable set
  have hsub : ∀ p, Vis (propagate G fuel root ⟨fun _ => 0⟩) root p → Reach G root p := by
    intro p hp
    rcases hp with rfl | hp
    · exact Reach.root
    · exact (hfin.reach p hp).1
  have hsup : ∀ p, Reach G root p → Vis (propagate G fuel root ⟨fun _ => 0⟩) root p := by
    intro p hp
    induction hp with
    | root => exact Or.inl rfl
    | step s hn hs ht ih =>
      right
      have hle := hn.le wf
      have h1 := indeg_ge G _ s.node _ ih B (by omega)
      have h2 := edges_pos hs ht
      have h3 := hfin.acct s.node
      simp at h3
      omega
  have := hfin.acct m
  simp at this
  rw [this]
  exact indeg_congr G _ _ m B (fun p _ => ⟨hsub p, hsup p⟩)

end
end Corgi
