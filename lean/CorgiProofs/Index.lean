/-
  CorgiProofs.Index — L1: row-major index algebra (core Lean, `omega`, `simp`).
-/
import CorgiSpec.Index

namespace Corgi

theorem prod_pos {ds : List Nat} (h : ∀ d ∈ ds, 1 ≤ d) : 1 ≤ prod ds := by
  induction ds with
  | nil => simp [prod]
  | cons d ds ih =>
    have hd : 1 ≤ d := h d (by simp)
    have := ih (fun x hx => h x (by simp [hx]))
    simp only [prod]
    exact Nat.mul_le_mul hd this

theorem inRange_length {dims idx : List Nat} (h : inRange dims idx = true) : idx.length = dims.length := by
  induction dims generalizing idx with
  | nil => cases idx <;> simp_all [inRange]
  | cons d ds ih =>
    cases idx with
    | nil => simp [inRange] at h
    | cons i is => simp [inRange] at h; simp [ih h.2]

/-- An in-range multi-index lands inside the buffer. -/
theorem rowMajor_lt_prod {dims idx : List Nat} (h : inRange dims idx = true) :
    rowMajor dims idx < prod dims ∨ dims = [] := by
  induction dims generalizing idx with
  | nil => right; rfl
  | cons d ds ih =>
    left
    cases idx with
    | nil => simp [inRange] at h
    | cons i is =>
      simp [inRange] at h
      obtain ⟨hi, hr⟩ := h
      simp only [rowMajor, prod]
      rcases ih hr with h1 | h1
      · have : i * prod ds + prod ds ≤ d * prod ds := by
          have : (i + 1) * prod ds ≤ d * prod ds := Nat.mul_le_mul_right _ hi
          simpa [Nat.add_mul] using this
        omega
      · subst h1
        cases is with
        | nil => simp [rowMajor, prod]; omega
        | cons _ _ => simp [inRange] at hr

theorem rowMajor_lt_prod' {dims idx : List Nat} (h : inRange dims idx = true) (hne : dims ≠ []) :
    rowMajor dims idx < prod dims := by
  rcases rowMajor_lt_prod h with h1 | h1
  · exact h1
  · exact absurd h1 hne

/-- The code's fold (Horner form, skipping unit dimensions) computes the row-major position. -/
theorem horner_eq (ds is : List Nat) (acc : Nat) (h : inRange ds is = true) :
    (is.zip ds).foldl (fun acc p => if p.2 != 1 then acc * p.2 + p.1 else acc) acc
      = acc * prod ds + rowMajor ds is := by
  induction ds generalizing is acc with
  | nil => cases is <;> simp_all [inRange, prod, rowMajor]
  | cons d ds ih =>
    cases is with
    | nil => simp [inRange] at h
    | cons i is =>
      simp [inRange] at h
      obtain ⟨hi, hr⟩ := h
      simp only [List.zip_cons_cons, List.foldl_cons, prod, rowMajor]
      by_cases hd : d = 1
      · subst hd
        have : i = 0 := by omega
        subst this
        rw [show ((1 : Nat) != 1) = false from rfl]
        simp only [Bool.false_eq_true, if_false]
        rw [ih is acc hr]
        simp
      · have : (d != 1) = true := by simp [hd]
        simp only [this, if_true]
        rw [ih is _ hr, Nat.add_mul, Nat.mul_assoc]
        omega

theorem flattenIndices_eq_rowMajor {dims idx : List Nat} (h : inRange dims idx = true) (hne : dims ≠ []) :
    flattenIndices idx dims = .ok (rowMajor dims idx) := by
  have hl := inRange_length h
  unfold flattenIndices
  simp only [hl, Nat.lt_irrefl, if_false, Nat.sub_self, List.drop_zero]
  cases dims with
  | nil => exact absurd rfl hne
  | cons d ds =>
    cases idx with
    | nil => simp at hl
    | cons i is =>
      simp [inRange] at h
      simp only [List.drop_succ_cons, List.drop_zero]
      rw [horner_eq ds is i h.2]
      simp [rowMajor, pure, Except.pure]

/-- `unflatten` produces in-range indices below the product. -/
theorem unflatten_inRange {dims : List Nat} {n : Nat} (hpos : ∀ d ∈ dims, 1 ≤ d) (hn : n < prod dims) :
    inRange dims (unflatten dims n) = true := by
  induction dims generalizing n with
  | nil => simp [unflatten, inRange]
  | cons d ds ih =>
    have hds : 1 ≤ prod ds := prod_pos (fun x hx => hpos x (by simp [hx]))
    simp only [unflatten, inRange, Bool.and_eq_true, decide_eq_true_eq]
    constructor
    · simp only [prod] at hn
      exact (Nat.div_lt_iff_lt_mul (by omega)).mpr hn
    · exact ih (fun x hx => hpos x (by simp [hx])) (Nat.mod_lt _ (by omega))

/-- `rowMajor ∘ unflatten = id` below the product: the odometer enumerates the buffer in order. -/
theorem rowMajor_unflatten {dims : List Nat} {n : Nat} (hn : n < prod dims) :
    rowMajor dims (unflatten dims n) = n := by
  induction dims generalizing n with
  | nil => simp [prod] at hn; simp [rowMajor, hn]
  | cons d ds ih =>
    simp only [unflatten, rowMajor]
    by_cases hz : prod ds = 0
    · simp [prod, hz] at hn
    · rw [ih (Nat.mod_lt _ (by omega))]
      exact Nat.div_add_mod' n (prod ds)

/-- `unflatten ∘ rowMajor = id` on in-range indices. -/
theorem unflatten_rowMajor {dims idx : List Nat} (h : inRange dims idx = true) :
    unflatten dims (rowMajor dims idx) = idx := by
  induction dims generalizing idx with
  | nil => cases idx <;> simp_all [inRange, unflatten]
  | cons d ds ih =>
    cases idx with
    | nil => simp [inRange] at h
    | cons i is =>
      simp [inRange] at h
      obtain ⟨hi, hr⟩ := h
      simp only [rowMajor, unflatten]
      have hlt : rowMajor ds is < prod ds ∨ ds = [] := rowMajor_lt_prod hr
      rcases hlt with hlt | hnil
      · have hp : 0 < prod ds := by omega
        have h1 : (i * prod ds + rowMajor ds is) / prod ds = i := by
          rw [Nat.add_comm, Nat.add_mul_div_right _ _ hp, Nat.div_eq_of_lt hlt]; simp
        have h2 : (i * prod ds + rowMajor ds is) % prod ds = rowMajor ds is := by
          rw [Nat.add_comm, Nat.add_mul_mod_self_right, Nat.mod_eq_of_lt hlt]
        rw [h1, h2, ih hr]
      · subst hnil
        cases is with
        | nil => simp [prod, rowMajor, unflatten]
        | cons _ _ => simp [inRange] at hr

end Corgi
