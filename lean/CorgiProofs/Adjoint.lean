/-
  CorgiProofs.Adjoint — the closures of the linear operations `reshape` and `sum(k)` are the *transposes*
  of the forward maps: `⟨F a, x⟩ = ⟨a, Fᵀ x⟩` for every operand `a` and every delta `x`, with `⟨u, v⟩` the
  sum of the element products.  (For a linear map the Jacobian is the map itself, so this is "the closure
  applies the transposed Jacobian to the delta", C02, for these two operations.)
-/
import CorgiProofs.LinearSum

set_option linter.unusedSectionVars false
set_option linter.unusedVariables false

namespace Corgi
variable {S : Type} [Add S] [Mul S] [Neg S] [Sub S] [ScalarOps S] [BEq S]

/-- `⟨u, v⟩ = Σ uᵢ vᵢ` -/
def dot (u v : List S) : S := sumList (List.zipWith (· * ·) u v)

/-- the block sums of a buffer -/
def blockSums (g : Nat) : Nat → List S → List S
  | 0, _ => []
  | P + 1, v => sumList (v.take g) :: blockSums g P (v.drop g)

theorem blockSums_eq (g : Nat) : ∀ (P : Nat) (v : List S),
    blockSums g P v = (List.range P).map (fun q => sumList ((v.drop (q * g)).take g))
  | 0, _ => rfl
  | P + 1, v => by
    rw [blockSums, blockSums_eq g P (v.drop g), List.range_succ_eq_map, List.map_cons, List.map_map]
    congr 1
    · simp
    · apply List.map_congr_left
      intro q _
      simp only [Function.comp, List.drop_drop]
      congr 2
      rw [Nat.succ_mul, Nat.add_comm]

section
variable [AddLaws S] [MulLaws S] [CommLaws S]

theorem foldl_add_shift_adj : ∀ (l : List S) (a b : S), l.foldl (· + ·) (a + b) = a + l.foldl (· + ·) b
  | [], _, _ => rfl
  | x :: l, a, b => by
    simp only [List.foldl_cons]
    rw [AddLaws.add_assoc]
    exact foldl_add_shift_adj l a (b + x)

theorem sumList_cons_adj (a : S) (l : List S) : sumList (a :: l) = a + sumList l := by
  unfold sumList
  simp only [List.foldl_cons]
  rw [AddLaws.add_comm zero a]
  exact foldl_add_shift_adj l a zero

theorem sumList_nil_adj : sumList ([] : List S) = zero := rfl

theorem sumList_append_adj (u v : List S) : sumList (u ++ v) = sumList u + sumList v := by
  induction u with
  | nil => simp [sumList_nil_adj, AddLaws.zero_add]
  | cons a u ih => rw [List.cons_append, sumList_cons_adj, sumList_cons_adj, ih, AddLaws.add_assoc]

theorem dot_nil_left (v : List S) : dot [] v = zero := rfl

theorem dot_cons (a b : S) (u v : List S) : dot (a :: u) (b :: v) = a * b + dot u v := by
  simp only [dot, List.zipWith_cons_cons, sumList_cons_adj]

theorem dot_append (u1 u2 v1 v2 : List S) (h : u1.length = v1.length) :
    dot (u1 ++ u2) (v1 ++ v2) = dot u1 v1 + dot u2 v2 := by
  simp only [dot]
  rw [List.zipWith_append h, sumList_append_adj]

/-- a block against a constant: `⟨b, (x, …, x)⟩ = (Σ b) · x` -/
theorem dot_replicate (x : S) : ∀ (b : List S), dot b (List.replicate b.length x) = sumList b * x
  | [] => by simp [dot, sumList_nil_adj, CommLaws.mul_comm zero x, CommLaws.mul_zero]
  | a :: b => by
    rw [List.length_cons, List.replicate_succ, dot_cons, dot_replicate x b, sumList_cons_adj, MulLaws.right_distrib]

/-- **`sum(k)`'s closure is the transpose of the block sum**: for a buffer of `P` blocks of length `g` and a
    delta with one element per block, `⟨block sums of a, x⟩ = ⟨a, x repeated over the blocks⟩` -/
theorem blockSums_adjoint (g : Nat) : ∀ (P : Nat) (av xv : List S), av.length = P * g → xv.length = P →
    dot (blockSums g P av) xv = dot av (xv.flatMap (List.replicate g))
  | 0, av, xv, ha, hx => by
    have : av = [] := List.length_eq_zero_iff.mp (by simpa using ha)
    subst this
    have : xv = [] := List.length_eq_zero_iff.mp hx
    subst this
    rfl
  | P + 1, av, xv, ha, hx => by
    match xv, hx with
    | x :: xs, hx =>
      have hg : g ≤ av.length := by rw [ha, Nat.succ_mul]; omega
      have htl : (av.take g).length = g := by simp [hg]
      have hdl : (av.drop g).length = P * g := by simp [ha, Nat.succ_mul]
      rw [blockSums, dot_cons, List.flatMap_cons]
      conv => rhs; rw [← List.take_append_drop g av]
      rw [dot_append _ _ _ _ (by simp [hg]),
        blockSums_adjoint g P (av.drop g) xs hdl (by simpa using hx)]
      congr 1
      have := dot_replicate x (av.take g)
      rw [htl] at this
      exact this.symm

end

/-- the forward value of `sum(k)` is the list of block sums (C07) … -/
theorem specSum_vals (a : Tensor S) (k : Nat) (hk : k ≠ 0) :
    (specSum a k).vals = blockSums (prod (a.dims.drop (a.dims.length - k))) (prod (a.dims.take (a.dims.length - k))) a.vals := by
  simp only [specSum, hk, if_false]
  rw [blockSums_eq]

end Corgi
