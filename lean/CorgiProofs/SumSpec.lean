/-
  CorgiProofs.SumSpec — `sum(k)` equals its specification (C07), via `slicedOp_loop`.
-/
import CorgiProofs.Sliced

namespace Corgi

variable {S : Type}

/-- the code's per-operand offset is the row-major position of the (projected) leading index -/
theorem projOffset_eq_rowMajor : ∀ (ds is : List Nat) (acc : Nat), inRange ds is = true →
    (ds.zip is).foldl (fun acc p => acc * p.1 + (if p.1 == 1 then 0 else p.2)) acc = acc * prod ds + rowMajor ds is
  | [], [], acc, _ => by simp [prod, rowMajor]
  | [], _ :: _, _, h => by simp [inRange] at h
  | _ :: _, [], _, h => by simp [inRange] at h
  | d :: ds, i :: is, acc, h => by
    simp only [inRange, Bool.and_eq_true, decide_eq_true_eq] at h
    obtain ⟨hi, hr⟩ := h
    simp only [List.zip_cons_cons, List.foldl_cons, prod, rowMajor]
    rw [projOffset_eq_rowMajor ds is _ hr]
    by_cases hd : d = 1
    · subst hd
      have : i = 0 := by omega
      subst this
      simp
    · have : (d == 1) = false := by simp [hd]
      simp only [this, Bool.false_eq_true, if_false]
      rw [Nat.add_mul, Nat.mul_assoc]
      omega

theorem mem_zip_self {α} : ∀ {l : List α} {p : α × α}, p ∈ l.zip l → p.1 = p.2
  | [], _, h => by simp at h
  | x :: xs, p, h => by
    simp only [List.zip_cons_cons, List.mem_cons] at h
    rcases h with rfl | h
    · rfl
    · exact mem_zip_self h

theorem projOffset_full (lead idx : List Nat) (h : inRange lead idx = true) :
    projOffset lead idx = rowMajor lead idx := by
  unfold projOffset
  have hl := inRange_length h
  rw [hl, Nat.sub_self, List.drop_zero, projOffset_eq_rowMajor lead idx 0 h]
  simp

theorem prod_replicate_one (k : Nat) : prod (List.replicate k 1) = 1 := by
  induction k with
  | zero => rfl
  | succ k ih => simp [List.replicate_succ, prod, ih]

theorem prod_take_mul_drop (l : List Nat) (n : Nat) : prod (l.take n) * prod (l.drop n) = prod l := by
  rw [← prod_append, List.take_append_drop]

theorem prod_reverse (l : List Nat) : prod l.reverse = prod l := by
  induction l with
  | nil => rfl
  | cons d ds ih => simp [prod_append, prod, ih, Nat.mul_comm]

section
variable [Add S] [Mul S] [Neg S] [Sub S] [ScalarOps S]

/-- **`sum(k)`, `1 ≤ k < rank`**: the last `k` dimensions collapse into one unit dimension holding
    the sums of the trailing blocks, for every well-formed array. -/
theorem sum_spec_loop (a : Tensor S) (k : Nat) (hwf : a.WF) (hk : 1 ≤ k) (hkr : k < a.dims.length) :
    sum a k = .ok (specSum a k) := by
  have hk0 : ¬ k = 0 := by omega
  obtain ⟨hpos, hlen⟩ := hwf
  simp only [sum, hk0, if_false, specSum]
  -- shapes
  have hlc : 0 < a.dims.length - k := by omega
  generalize hlead : a.dims.take (a.dims.length - k) = lead
  have hposL : ∀ d ∈ lead, 1 ≤ d := by
    intro d hd; rw [← hlead] at hd; exact hpos d (List.mem_of_mem_take hd)
  have hposT : ∀ d ∈ List.replicate k 1, 1 ≤ d := by
    intro d hd; simp at hd; omega
  have hg : prod (a.dims.reverse.take k) = prod (a.dims.drop (a.dims.length - k)) := by
    rw [← prod_reverse (a.dims.drop (a.dims.length - k)), List.reverse_drop]
    congr 2; omega
  generalize hgv : prod (a.dims.drop (a.dims.length - k)) = g at *
  have htot : prod lead * g = a.vals.length := by
    rw [← hlen, ← hlead, ← hgv]; exact prod_take_mul_drop _ _
  have hvalid : [a].all (fun v =>
      ((v.dims.reverse.drop k).zip (a.dims.reverse.drop k)).all (fun p => p.1 == 1 || p.1 == p.2)) = true := by
    simp only [List.all_cons, List.all_nil, Bool.and_true, List.all_eq_true]
    intro p hp
    simp [mem_zip_self hp]
  let blk : Nat → List S := fun n => [sumList ((a.vals.drop (n * g)).take g)]
  have hblk : ∀ n, n < prod (a.dims.take (a.dims.length - k)) →
      ∃ sl, slicesAt [a] k (a.dims.length - k) (unflatten (a.dims.take (a.dims.length - k)) n) = .ok sl ∧
        sumOp sl = .ok (blk n) ∧ (blk n).length = prod (List.replicate k 1) := by
    intro n hn
    rw [hlead] at hn ⊢
    refine ⟨[(a.vals.drop (n * g)).take g], ?_, rfl, by simp [blk, prod_replicate_one]⟩
    have hmin : min (a.dims.length - k) (a.dims.length - k) = a.dims.length - k := Nat.min_self _
    have hoff : projOffset lead (unflatten lead n) = n := by
      rw [projOffset_full _ _ (unflatten_inRange hposL hn), rowMajor_unflatten hn]
    have hb : n * g + g ≤ a.vals.length := by
      rw [← htot]
      have : (n + 1) * g ≤ prod lead * g := Nat.mul_le_mul_right _ hn
      rw [Nat.add_mul, Nat.one_mul] at this; exact this
    simp [slicesAt, mapR, hg, hmin, hlead, hoff, slice, hb, bind, Except.bind, pure, Except.pure]
  have hmain := slicedOp_loop [a] _ a.dims (List.replicate k 1) k k blk hvalid hlc (by rw [hlead]; exact hposL) hposT hblk
  rw [hlead] at hmain
  rw [hmain]
  -- the flattened output dimensions and the concatenated blocks
  have hft : flattenTrailing (lead ++ List.replicate k 1) k = .ok (lead ++ [1]) := by
    have hl : (lead ++ List.replicate k 1).length = lead.length + k := by simp
    have hnl : ¬ (lead.length + k < k) := by omega
    simp [flattenTrailing, hk0, hl, prod_replicate_one, hnl, pure, Except.pure]
  rw [hft]
  simp only [Except.bind]
  have hflat : ((List.range (prod lead)).map blk).flatten
      = (List.range (prod lead)).map (fun q => sumList ((a.vals.drop (q * g)).take g)) := by
    clear hmain hblk
    induction (List.range (prod lead)) with
    | nil => rfl
    | cons q qs ih => simp [blk, List.flatten_cons] at ih ⊢; exact ih
  rw [hflat]
  refine (C16_mk' _ _).mpr ⟨?_, by simp [prod_append, prod]⟩
  intro x hx
  simp at hx
  rcases hx with hx | rfl
  · exact hposL x hx
  · omega
where
  C16_mk' (d : List Nat) (v : List S) :
      Tensor.mk? d v = .ok ⟨d, v⟩ ↔ ((∀ x ∈ d, 1 ≤ x) ∧ prod d = v.length) := by
    unfold Tensor.mk?
    by_cases h1 : d.all (fun x => decide (1 ≤ x)) = true
    · have h1' : ∀ x ∈ d, 1 ≤ x := by simpa using h1
      by_cases h2 : prod d = v.length
      · simp [h1, h2, pure, Except.pure]; exact h1'
      · simp [h1, h2]
    · simp [h1]
      intro h; exact absurd (by simpa using h) h1

end
end Corgi

namespace Corgi
variable {S : Type} [Add S] [Mul S] [Neg S] [Sub S] [ScalarOps S]

/-- **`sum(rank)`**: everything collapses into a single unit dimension holding the total. -/
theorem sum_spec_all (a : Tensor S) (hwf : a.WF) (hr : 1 ≤ a.dims.length) :
    sum a a.dims.length = .ok (specSum a a.dims.length) := by
  obtain ⟨hpos, hlen⟩ := hwf
  have hk0 : ¬ a.dims.length = 0 := by omega
  simp only [sum, hk0, if_false, specSum, Nat.sub_self, List.take_zero, List.nil_append, List.drop_zero, prod]
  have hvalid : [a].all (fun v =>
      ((v.dims.reverse.drop a.dims.length).zip (a.dims.reverse.drop a.dims.length)).all (fun p => p.1 == 1 || p.1 == p.2)) = true := by
    have : a.dims.reverse.drop a.dims.length = [] := by simp
    simp [this]
  have hg : prod (a.dims.reverse.take a.dims.length) = a.vals.length := by
    rw [← hlen, List.take_of_length_le (by simp), prod_reverse]
  have hsl : slicesAt [a] a.dims.length 0 [] = .ok [a.vals] := by
    simp [slicesAt, mapR, hg, projOffset, slice, bind, Except.bind, pure, Except.pure]
  rw [slicedOp_single [a] sumOp a.dims (List.replicate a.dims.length 1) a.dims.length a.dims.length [a.vals]
    [sumList a.vals] hvalid (Nat.sub_self _) hsl rfl (by simp [prod_replicate_one])]
  have hft : flattenTrailing (List.replicate a.dims.length 1) a.dims.length = .ok [1] := by
    simp [flattenTrailing, hk0, prod_replicate_one, pure, Except.pure]
  rw [hft]
  simp only [Except.bind, List.range_one, List.map_cons, List.map_nil, Nat.zero_mul, List.drop_zero]
  rw [hlen, List.take_length]
  rfl

/-- **C07, `sum(k)` for every `1 ≤ k ≤ rank`**. -/
theorem sum_spec (a : Tensor S) (k : Nat) (hwf : a.WF) (hk : 1 ≤ k) (hkr : k ≤ a.dims.length) :
    sum a k = .ok (specSum a k) := by
  rcases Nat.lt_or_ge k a.dims.length with h | h
  · exact sum_spec_loop a k hwf hk h
  · have : k = a.dims.length := by omega
    subst this
    exact sum_spec_all a hwf hk

end Corgi
