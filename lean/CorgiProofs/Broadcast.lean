/-
  CorgiProofs.Broadcast — `element_wise_dimensions` against the specification of broadcasting.
-/
import CorgiSpec.Ops
import CorgiProofs.Index

namespace Corgi

theorem bcastRev_spec : ∀ (l o : List Nat), o.length ≤ l.length →
    bcastRev l o = if compatRev l o then .ok (bdimsRev l o) else .error .incompatible
  | [], [], _ => by simp [bcastRev, compatRev, bdimsRev, pure, Except.pure]
  | [], _ :: _, h => by simp at h
  | _ :: _, [], _ => by simp [bcastRev, compatRev, bdimsRev, pure, Except.pure]
  | l :: ls, o :: os, h => by
    have ih := bcastRev_spec ls os (by simpa using h)
    simp only [bcastRev, compatRev, bdimsRev]
    by_cases hc : (l == o || l == 1 || o == 1) = true
    · simp only [hc, if_true, Bool.true_and, ih]
      by_cases hr : compatRev ls os = true <;> simp [hr, bind, Except.bind, pure, Except.pure]
    · simp [hc, throw, throwThe, MonadExceptOf.throw]

theorem compatRev_comm : ∀ (a b : List Nat), compatRev a b = compatRev b a
  | [], [] => rfl
  | [], _ :: _ => rfl
  | _ :: _, [] => rfl
  | x :: xs, y :: ys => by
    simp only [compatRev, compatRev_comm xs ys]
    congr 1
    rw [Bool.eq_iff_iff]
    simp only [Bool.or_eq_true, beq_iff_eq]
    omega

theorem bdimsRev_comm : ∀ (a b : List Nat), bdimsRev a b = bdimsRev b a
  | [], [] => rfl
  | [], _ :: _ => rfl
  | _ :: _, [] => rfl
  | x :: xs, y :: ys => by simp [bdimsRev, bdimsRev_comm xs ys, Nat.max_comm]

/-- `element_wise_dimensions` returns the pairwise maximum of the right-aligned dimensions exactly
    when they are pairwise equal or 1, and refuses any other pair. -/
theorem ewiseDims_spec (x y : List Nat) :
    ewiseDims x y = if Compat x y then .ok (bdims x y) else .error .incompatible := by
  unfold ewiseDims Compat bdims
  by_cases h : x.length > y.length
  · simp only [h, if_true]
    rw [bcastRev_spec _ _ (by simp; omega)]
    by_cases hc : compatRev x.reverse y.reverse = true <;> simp [hc, bind, Except.bind, pure, Except.pure]
  · simp only [h, if_false]
    rw [bcastRev_spec _ _ (by simp; omega), compatRev_comm, bdimsRev_comm]
    by_cases hc : compatRev x.reverse y.reverse = true <;> simp [hc, bind, Except.bind, pure, Except.pure]

end Corgi
