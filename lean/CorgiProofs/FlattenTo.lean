/-
  CorgiProofs.FlattenTo — `flatten_to` sums a delta over the broadcast positions of the operand
  (C03): for every delta shape and every operand shape that fits it.
-/
import CorgiProofs.Ewise
import CorgiSpec.Ops

set_option linter.unusedSectionVars false
set_option linter.unusedVariables false

namespace Corgi
variable {S : Type} [Add S] [ScalarOps S]

/-- the values of `xs` (the source positions `n, n+1, …`) whose target offset is `q`, in source order -/
def contribs (φ : Nat → Nat) : List S → Nat → Nat → List S
  | [], _, _ => []
  | x :: xs, n, q => if φ n == q then x :: contribs φ xs (n + 1) q else contribs φ xs (n + 1) q

theorem contribs_eq_filter (φ : Nat → Nat) (q : Nat) : ∀ (xs : List S) (n : Nat),
    contribs φ xs n q = ((List.range xs.length).filter (fun i => φ (n + i) == q)).map (fun i => xs.getD i zero)
  | [], n => by simp [contribs]
  | x :: xs, n => by
    have ih := contribs_eq_filter φ q xs (n + 1)
    simp only [contribs, List.length_cons, List.range_succ_eq_map, List.filter_cons, Nat.add_zero,
      List.filter_map, List.map_map]
    have hcongr : ((List.range xs.length).filter ((fun i => φ (n + i) == q) ∘ Nat.succ)).map ((fun i => (x :: xs).getD i zero) ∘ Nat.succ)
        = ((List.range xs.length).filter (fun i => φ (n + 1 + i) == q)).map (fun i => xs.getD i zero) := by
      have h1 : ((fun i => φ (n + i) == q) ∘ Nat.succ) = (fun i => φ (n + 1 + i) == q) := by
        funext i; simp only [Function.comp, Nat.succ_eq_add_one]; congr 2; omega
      have h2 : ((fun i => (x :: xs).getD i zero) ∘ Nat.succ) = (fun i => xs.getD i zero) := by
        funext i; simp [Function.comp]
      rw [h1, h2]
    by_cases h : (φ n == q) = true
    · simp only [h, if_true, List.map_cons, List.getD_cons_zero]
      rw [ih, List.map_map, hcongr]
    · simp only [h, Bool.false_eq_true, if_false]
      rw [ih, List.map_map, hcongr]

/-- **The accumulation loop.**  Starting from `acc`, after all values of `xs` have been added at their
    offsets, position `q` holds `acc[q]` plus, in source order, the values whose offset is `q`. -/
theorem flattenLoop_spec (src target : List Nat) (skip : Nat) : ∀ (xs : List S) (n : Nat) (acc : List S),
    (∀ i, i < xs.length → flattenOffset target (unflatten src (n + i)) skip < acc.length) →
    flattenLoop src target skip xs n acc = .ok ((List.range acc.length).map (fun q =>
      (contribs (fun k => flattenOffset target (unflatten src k) skip) xs n q).foldl (· + ·) (acc.getD q zero)))
  | [], n, acc, _ => by
    simp only [flattenLoop, contribs, List.foldl_nil, pure, Except.pure, Except.ok.injEq]
    apply List.ext_getElem?
    intro i
    by_cases hi : i < acc.length
    · simp [hi, List.getD_eq_getElem?_getD, List.getElem?_eq_getElem hi]
    · simp [hi, List.getElem?_eq_none (Nat.le_of_not_lt hi)]
  | x :: xs, n, acc, hb => by
    have h0 := hb 0 (by simp)
    simp only [Nat.add_zero] at h0
    simp only [flattenLoop, addAt, List.getElem?_eq_getElem h0, bind, Except.bind, pure, Except.pure]
    rw [flattenLoop_spec src target skip xs (n + 1) _ (by
      intro i hi
      simp only [List.length_set]
      have := hb (i + 1) (by simp; omega)
      rwa [show n + (i + 1) = n + 1 + i by omega] at this)]
    simp only [List.length_set]
    congr 1
    apply List.map_congr_left
    intro q hq
    have hq' : q < acc.length := by simpa using hq
    simp only [contribs]
    by_cases h : (flattenOffset target (unflatten src n) skip == q) = true
    · have he : flattenOffset target (unflatten src n) skip = q := by simpa using h
      simp only [h, if_true, List.foldl_cons]
      congr 1
      subst he
      simp [List.getD_eq_getElem?_getD, List.getElem?_set, hq']
    · have hne : flattenOffset target (unflatten src n) skip ≠ q := by simpa using h
      simp only [h, Bool.false_eq_true, if_false]
      congr 1
      simp [List.getD_eq_getElem?_getD, List.getElem?_set, hne]

end Corgi

namespace Corgi
variable {S : Type} [Add S] [Mul S] [Neg S] [Sub S] [ScalarOps S] [BEq S]

theorem flattenOffset_eq (src target : List Nat) (k : Nat) (hle : target.length ≤ src.length) :
    flattenOffset target (unflatten src k) (src.length - target.length)
      = rowMajor target (proj target (unflatten src k)) := by
  have hl : (unflatten src k).length = src.length := unflatten_length _ _
  rw [← projOffset_eq_proj target (unflatten src k) (by omega)]
  unfold flattenOffset projOffset
  rw [hl]

/-- **`flatten_to` is the sum over the broadcast positions.**  For a well-formed delta `t` and target
    dimensions that fit it (right-aligned, each `1` or equal, not longer) and differ from it: the
    result has the target dimensions and, at every target position `q`, the sum — in source order —
    of the delta's values at all positions that project onto `q`. -/
theorem flattenTo_spec (t : Tensor S) (target : List Nat) (hwf : t.WF) (hne : (t.dims == target) = false)
    (hfit : Fits target t.dims = true) (hpos : ∀ d ∈ target, 1 ≤ d) :
    flattenTo t target = .ok (sumBroadcast t target) := by
  obtain ⟨hle, _⟩ := (Fits_iff _ _).mp hfit
  have hbound : ∀ k, k < prod t.dims → rowMajor target (proj target (unflatten t.dims k)) < prod target := by
    intro k hk
    rcases rowMajor_lt_prod (proj_inRange target t.dims _ hfit (unflatten_inRange hwf.1 hk) hpos) with h | h
    · exact h
    · subst h; simp [rowMajor, prod]
  unfold flattenTo
  simp only [hne, Bool.false_eq_true, if_false, bind, Except.bind]
  rw [flattenLoop_spec t.dims target _ t.vals 0 _ (by
    intro i hi
    rw [List.length_replicate, Nat.zero_add, flattenOffset_eq _ _ _ hle]
    exact hbound i (by rw [hwf.2]; exact hi))]
  simp only [List.length_replicate]
  have hvals : (List.range (prod target)).map (fun q =>
      (contribs (fun k => flattenOffset target (unflatten t.dims k) (t.dims.length - target.length)) t.vals 0 q).foldl (· + ·)
        ((List.replicate (prod target) (zero : S)).getD q zero)) = (sumBroadcast t target).vals := by
    simp only [sumBroadcast]
    apply List.map_congr_left
    intro q hq
    have hq' : q < prod target := by simpa using hq
    have hz : (List.replicate (prod target) (zero : S)).getD q zero = zero := by
      simp [List.getD_eq_getElem?_getD, List.getElem?_replicate, hq']
    rw [hz, contribs_eq_filter]
    unfold sumList
    congr 2
    rw [← hwf.2]
    congr 1
    funext k
    rw [Nat.zero_add, flattenOffset_eq _ _ _ hle]
  rw [hvals]
  unfold Tensor.mk?
  have hall : target.all (fun d => decide (1 ≤ d)) = true := by
    simp only [List.all_eq_true, decide_eq_true_eq]; exact hpos
  have hlen : prod target = (sumBroadcast t target).vals.length := by simp [sumBroadcast]
  simp only [hall, Bool.not_true, Bool.false_eq_true, if_false, ← hlen, bne_self_eq_false, pure, Except.pure]
  rfl

/-- same dimensions: the delta is returned unchanged -/
theorem flattenTo_eqdims (t : Tensor S) (target : List Nat) (h : (t.dims == target) = true) :
    flattenTo t target = .ok t := by
  unfold flattenTo; simp [h, pure, Except.pure]

end Corgi
