/-
  CorgiProofs.Matmul — `matmul` on operands of rank ≥ 2 computes the batched, optionally transposed
  product over broadcast leading dimensions (C05), for all sizes.
-/
import CorgiProofs.Ewise
import CorgiSpec.Ops

set_option linter.unusedSectionVars false
set_option linter.unusedVariables false

namespace Corgi

theorem idx2_lt (k K r R : Nat) (hk : k < K) (hr : r < R) : k * R + r < K * R := by
  have : (k + 1) * R ≤ K * R := Nat.mul_le_mul_right _ hk
  rw [Nat.add_mul, Nat.one_mul] at this
  omega

theorem div_lt_of_lt_mul' (q R C : Nat) (h : q < R * C) : q / C < R := by
  rcases Nat.eq_zero_or_pos C with hc | hc
  · subst hc; simp at h
  · exact (Nat.div_lt_iff_lt_mul hc).mpr h

variable {S : Type} [Add S] [Mul S] [Neg S] [Sub S] [ScalarOps S]

/-- the inner loop nest on one pair of matrices: every output entry is its initial value plus the
    sum over the inner index of the (transposed-)indexed products -/
theorem matmulSlice_ok (rows cols kk : Nat) (xa xb : List S) (ta tb : Bool) (init : List S) (ci ea eb : Nat → S)
    (hinit : init = (List.range (rows * cols)).map ci)
    (ha : ∀ i, i < rows * kk → xa[i]? = some (ea i)) (hb : ∀ i, i < kk * cols → xb[i]? = some (eb i)) :
    matmulSlice rows cols kk xa ta xb tb init = .ok ((List.range (rows * cols)).map (fun q =>
      ci q + sumList ((List.range kk).map (fun k =>
        ea (if ta then k * rows + q / cols else q / cols * kk + k)
          * eb (if tb then q % cols * kk + k else k * cols + q % cols))))) := by
  unfold matmulSlice
  rw [tabulateM_ok _ (fun q => ci q + sumList ((List.range kk).map (fun k =>
        ea (if ta then k * rows + q / cols else q / cols * kk + k)
          * eb (if tb then q % cols * kk + k else k * cols + q % cols))))]
  · have : init.drop (rows * cols) = [] := by rw [hinit]; simp
    simp [bind, Except.bind, pure, Except.pure, this]
  · intro q hq
    have hc : 0 < cols := by
      rcases Nat.eq_zero_or_pos cols with h | h
      · subst h; simp at hq
      · exact h
    have hr : q / cols < rows := div_lt_of_lt_mul' q rows cols hq
    have hj : q % cols < cols := Nat.mod_lt _ hc
    have hi0 : init[q]? = some (ci q) := by rw [hinit]; simp [hq]
    simp only [getR, hi0, bind, Except.bind, pure, Except.pure]
    unfold matmulEntry
    rw [tabulateM_ok _ (fun k => ea (if ta then k * rows + q / cols else q / cols * kk + k)
          * eb (if tb then q % cols * kk + k else k * cols + q % cols))]
    · rfl
    · intro k hk
      have h1 : (if ta then k * rows + q / cols else q / cols * kk + k) < rows * kk := by
        split
        · rw [Nat.mul_comm rows kk]; exact idx2_lt _ _ _ _ hk hr
        · exact idx2_lt _ _ _ _ hr hk
      have h2 : (if tb then q % cols * kk + k else k * cols + q % cols) < kk * cols := by
        split
        · rw [Nat.mul_comm kk cols]; exact idx2_lt _ _ _ _ hj hk
        · exact idx2_lt _ _ _ _ hk hj
      simp [getR, ha _ h1, hb _ h2, bind, Except.bind, pure, Except.pure]

end Corgi

namespace Corgi

theorem dimFromEnd_snoc2_1 (l : List Nat) (p q : Nat) : dimFromEnd (l ++ [p, q]) 1 = .ok q := by
  simp [dimFromEnd, getR, pure, Except.pure]
theorem dimFromEnd_snoc2_2 (l : List Nat) (p q : Nat) : dimFromEnd (l ++ [p, q]) 2 = .ok p := by
  simp [dimFromEnd, getR, pure, Except.pure]

/-- the shape bookkeeping of `matmul` on operands of rank ≥ 2 -/
theorem matmulShape_rank2 (la lb : List Nat) (a1 a2 b1 b2 : Nat) (ta tb : Bool)
    (hc : Compat la lb = true) (hinner : (if ta then a1 else a2) = (if tb then b2 else b1)) :
    matmulShape (la ++ [a1, a2]) ta (lb ++ [b1, b2]) tb
      = .ok (bdims la lb ++ (if la.length ≥ lb.length then [a1, a2] else [b1, b2]),
             bdims la lb ++ [if ta then a2 else a1, if tb then b1 else b2],
             (if ta then a2 else a1), (if tb then b1 else b2), (if ta then a1 else a2)) := by
  unfold matmulShape
  have h1 : (la ++ [a1, a2]).take ((la ++ [a1, a2]).length - 2) = la := by simp
  have h2 : (lb ++ [b1, b2]).take ((lb ++ [b1, b2]).length - 2) = lb := by simp
  rw [h1, h2, ewiseDims_spec, hc]
  have hl : (bdims la lb).length = max la.length lb.length := bdims_length la lb
  cases ta <;> cases tb <;>
    simp only [List.length_append, List.length_cons, List.length_nil, if_true, Bool.false_eq_true, if_false,
      bind, Except.bind, pure, Except.pure, dimFromEnd_snoc2_1, dimFromEnd_snoc2_2, Bool.not_true, Bool.not_false,
      Bool.and_true, Bool.and_false, Bool.or_true, Bool.or_false, Bool.true_or, Bool.false_or, decide_eq_true_eq] <;>
    simp only [if_true, if_false, Bool.false_eq_true] at hinner <;>
    (have n1 : ¬ (la.length + 2 < 2) := by omega
     have n2 : ¬ (lb.length + 2 < 2) := by omega
     have n3 : ¬ (max la.length lb.length + 2 < 2) := by omega
     by_cases hg : la.length ≥ lb.length <;> simp [hg, hinner, hl, n1, n2, n3])

end Corgi

namespace Corgi

theorem prod2 (x y : Nat) : prod [x, y] = x * y := by simp [prod]

/-- the multi-index of position `(q*m + r)*n + j` in `L ++ [m, n]` -/
theorem unflatten_append2 (L : List Nat) (m n q r j : Nat) (hpos : ∀ d ∈ L, 1 ≤ d) (hr : r < m) (hj : j < n)
    (hq : q < prod L) : unflatten (L ++ [m, n]) ((q * m + r) * n + j) = unflatten L q ++ [r, j] := by
  have h : L ++ [m, n] = (L ++ [m]) ++ [n] := by simp
  rw [h, unflatten_append_last (L ++ [m]) n (q * m + r) j
    (by intro d hd; simp at hd; rcases hd with hd | hd; exact hpos d hd; omega) hj
    (by rw [prod_snoc]; exact idx2_lt _ _ _ _ hq hr),
    unflatten_append_last L m q r hpos hr hq]
  simp

theorem rowMajor_snoc2 (la I : List Nat) (a1 a2 x y : Nat) (h : I.length = la.length) :
    rowMajor (la ++ [a1, a2]) (I ++ [x, y]) = rowMajor la I * (a1 * a2) + (x * a2 + y) := by
  rw [rowMajor_append _ _ _ _ h, prod2]
  simp [rowMajor, prod]

/-- position `nL * (m*n) + q` decomposed: `q = r*n + j` -/
theorem flat_decomp (nL m n q : Nat) (hn : 0 < n) :
    nL * (m * n) + q = (nL * m + q / n) * n + q % n := by
  have := Nat.div_add_mod q n
  rw [Nat.add_mul, Nat.mul_assoc, Nat.add_assoc, Nat.mul_comm (q / n) n, this]

variable {S : Type} [Add S] [Mul S] [Neg S] [Sub S] [ScalarOps S]

/-- the block of a rank-≥2 operand that `sliced_op` hands to the operation at leading index `idx` -/
theorem operand_slice2 (aL : List Nat) (a1 a2 lc : Nat) (idx : List Nat) (av : List S)
    (hle : aL.length ≤ lc) (hb : projOffset aL idx * (a1 * a2) + a1 * a2 ≤ av.length) :
    slice av (projOffset ((aL ++ [a1, a2]).take (min ((aL ++ [a1, a2]).length - 2) lc)) idx
        * prod ((aL ++ [a1, a2]).reverse.take 2)) (prod ((aL ++ [a1, a2]).reverse.take 2))
      = .ok ((av.drop (projOffset aL idx * (a1 * a2))).take (a1 * a2)) := by
  have hg : prod ((aL ++ [a1, a2]).reverse.take 2) = a1 * a2 := by simp [prod, Nat.mul_comm]
  have hmin : min ((aL ++ [a1, a2]).length - 2) lc = aL.length := by simp; omega
  have htake : (aL ++ [a1, a2]).take aL.length = aL := by simp
  rw [hg, hmin, htake]
  exact slice_ok _ _ _ hb

theorem block_getElem? (av : List S) (off len i : Nat) (hi : i < len) (hb : off + len ≤ av.length) :
    ((av.drop off).take len)[i]? = some (av.getD (off + i) zero) := by
  rw [List.getElem?_take_of_lt hi, List.getElem?_drop, List.getD_eq_getElem?_getD]
  have : off + i < av.length := by omega
  rw [List.getElem?_eq_getElem this]; rfl

/-- bound of a leading block offset for an operand whose leading dimensions fit -/
theorem block_bound (aL DL : List Nat) (G q : Nat) (hfit : Fits aL DL = true) (hposD : ∀ d ∈ DL, 1 ≤ d)
    (hposA : ∀ d ∈ aL, 1 ≤ d) (hq : q < prod DL) :
    projOffset aL (unflatten DL q) * G + G ≤ prod aL * G := by
  obtain ⟨hle, _⟩ := (Fits_iff _ _).mp hfit
  have hIlen : (unflatten DL q).length = DL.length := unflatten_length _ _
  rw [projOffset_eq_proj _ _ (by omega)]
  rcases rowMajor_lt_prod (proj_inRange aL DL _ hfit (unflatten_inRange hposD hq) hposA) with h | h
  · have := Nat.mul_le_mul_right G h
    rw [Nat.succ_mul] at this; exact this
  · subst h; simp [rowMajor, prod]

end Corgi

namespace Corgi
variable {S : Type} [Add S] [Mul S] [Neg S] [Sub S] [ScalarOps S]

/-- the entry the code computes at leading multi-index `I`, block position `q = r * n + j` -/
def mmEntry (la lb : List Nat) (a1 a2 b1 b2 m n kk : Nat) (ta tb : Bool) (av bv : List S) (ci : Nat → S)
    (I : List Nat) (q : Nat) : S :=
  ci q + sumList ((List.range kk).map (fun t =>
    av.getD (projOffset la I * (a1 * a2) + (if ta then t * m + q / n else q / n * kk + t)) zero
      * bv.getD (projOffset lb I * (b1 * b2) + (if tb then q % n * kk + t else t * n + q % n)) zero))

/-- one iteration of `sliced_op` for `matmul`: the three slices exist and the slice operation returns
    the block of entries -/
theorem matmul_block (la lb : List Nat) (a1 a2 b1 b2 m n kk lc : Nat) (ta tb setOutput : Bool) (av bv : List S)
    (cT : Tensor S) (xc : List S) (ci : Nat → S) (I : List Nat)
    (hla : la.length ≤ lc) (hlb : lb.length ≤ lc)
    (hA : m * kk = a1 * a2) (hB : kk * n = b1 * b2)
    (hoa : projOffset la I * (a1 * a2) + a1 * a2 ≤ av.length)
    (hob : projOffset lb I * (b1 * b2) + b1 * b2 ≤ bv.length)
    (hxc : slice cT.vals (projOffset (cT.dims.take (min (cT.dims.length - 2) lc)) I * prod (cT.dims.reverse.take 2))
      (prod (cT.dims.reverse.take 2)) = .ok xc)
    (hinit : matmulInit setOutput xc (m * n) = .ok ((List.range (m * n)).map ci)) :
    ∃ sl, slicesAt [(⟨la ++ [a1, a2], av⟩ : Tensor S), ⟨lb ++ [b1, b2], bv⟩, cT] 2 lc I = .ok sl ∧
      matmulOp m n kk ta tb setOutput (m * n) sl
        = .ok ((List.range (m * n)).map (mmEntry la lb a1 a2 b1 b2 m n kk ta tb av bv ci I)) := by
  refine ⟨[(av.drop (projOffset la I * (a1 * a2))).take (a1 * a2), (bv.drop (projOffset lb I * (b1 * b2))).take (b1 * b2), xc], ?_, ?_⟩
  · simp only [slicesAt, mapR, bind, Except.bind, pure, Except.pure]
    rw [operand_slice2 la a1 a2 lc I av hla hoa]
    dsimp only []
    rw [operand_slice2 lb b1 b2 lc I bv hlb hob]
    dsimp only []
    rw [hxc]
  · simp only [matmulOp, hinit, bind, Except.bind]
    rw [matmulSlice_ok m n kk _ _ ta tb _ ci
      (fun i => av.getD (projOffset la I * (a1 * a2) + i) zero) (fun i => bv.getD (projOffset lb I * (b1 * b2) + i) zero) rfl
      (fun i hi => block_getElem? av _ _ i (by omega) hoa) (fun i hi => block_getElem? bv _ _ i (by omega) hob)]
    rfl

end Corgi

namespace Corgi
variable {S : Type} [Add S] [Mul S] [Neg S] [Sub S] [ScalarOps S]

theorem mkq_ok (dims : List Nat) (vals : List S) (hpos : ∀ d ∈ dims, 1 ≤ d) (hlen : prod dims = vals.length) :
    Tensor.mk? dims vals = .ok ⟨dims, vals⟩ := by
  unfold Tensor.mk?
  have hall : dims.all (fun d => decide (1 ≤ d)) = true := by
    simp only [List.all_eq_true, decide_eq_true_eq]; exact hpos
  simp [hall, hlen, pure, Except.pure]

theorem valid_lead_of_fits (la lead : List Nat) (a1 a2 x1 x2 : Nat) (hf : Fits la lead = true) :
    (((la ++ [a1, a2]).reverse.drop 2).zip ((lead ++ [x1, x2]).reverse.drop 2)).all (fun p => p.1 == 1 || p.1 == p.2) = true := by
  simp only [List.reverse_append, List.reverse_cons, List.reverse_nil, List.nil_append, List.cons_append,
    List.drop_succ_cons, List.drop_zero]
  exact fitsRev_zip_all _ _ hf

/-- **`matmul`'s `sliced_op` call**, for any leading dimensions (none, or broadcast batches): the
    result lists, for every leading multi-index in row-major order, the block of product entries. -/
theorem matmul_core (la lb lead : List Nat) (a1 a2 b1 b2 x1 x2 m n kk : Nat) (ta tb setOutput : Bool)
    (av bv : List S) (cT : Tensor S) (ci : List Nat → Nat → S)
    (hposL : ∀ d ∈ lead, 1 ≤ d) (hm : 1 ≤ m) (hn : 1 ≤ n)
    (hfa : Fits la lead = true) (hfb : Fits lb lead = true)
    (hposA : ∀ d ∈ la, 1 ≤ d) (hposB : ∀ d ∈ lb, 1 ≤ d)
    (hav : av.length = prod la * (a1 * a2)) (hbv : bv.length = prod lb * (b1 * b2))
    (hA : m * kk = a1 * a2) (hB : kk * n = b1 * b2)
    (hvc : ((cT.dims.reverse.drop 2).zip ((lead ++ [x1, x2]).reverse.drop 2)).all (fun p => p.1 == 1 || p.1 == p.2) = true)
    (hc : ∀ nL, nL < prod lead → ∃ xc,
      slice cT.vals (projOffset (cT.dims.take (min (cT.dims.length - 2) lead.length)) (unflatten lead nL)
        * prod (cT.dims.reverse.take 2)) (prod (cT.dims.reverse.take 2)) = .ok xc ∧
      matmulInit setOutput xc (m * n) = .ok ((List.range (m * n)).map (ci (unflatten lead nL)))) :
    slicedOp [(⟨la ++ [a1, a2], av⟩ : Tensor S), ⟨lb ++ [b1, b2], bv⟩, cT] (matmulOp m n kk ta tb setOutput (m * n))
        (lead ++ [x1, x2]) (lead ++ [m, n]) 2 0
      = .ok ⟨lead ++ [m, n], (List.range (prod lead * (m * n))).map (fun p =>
          mmEntry la lb a1 a2 b1 b2 m n kk ta tb av bv (ci (unflatten lead (p / (m * n)))) (unflatten lead (p / (m * n))) (p % (m * n)))⟩ := by
  have hlen2 : (lead ++ [x1, x2]).length - 2 = lead.length := by simp
  have htakeD : (lead ++ [x1, x2]).take ((lead ++ [x1, x2]).length - 2) = lead := by simp
  have hmn : 0 < m * n := Nat.mul_pos hm hn
  obtain ⟨hlea, _⟩ := (Fits_iff _ _).mp hfa
  obtain ⟨hleb, _⟩ := (Fits_iff _ _).mp hfb
  have hvalid : [(⟨la ++ [a1, a2], av⟩ : Tensor S), ⟨lb ++ [b1, b2], bv⟩, cT].all (fun v =>
      ((v.dims.reverse.drop 2).zip ((lead ++ [x1, x2]).reverse.drop 2)).all (fun p => p.1 == 1 || p.1 == p.2)) = true := by
    simp only [List.all_cons, List.all_nil, Bool.and_true, Bool.and_eq_true]
    exact ⟨valid_lead_of_fits la lead a1 a2 x1 x2 hfa, valid_lead_of_fits lb lead b1 b2 x1 x2 hfb, hvc⟩
  let blk : Nat → List S := fun nL => (List.range (m * n)).map
    (mmEntry la lb a1 a2 b1 b2 m n kk ta tb av bv (ci (unflatten lead nL)) (unflatten lead nL))
  have hblock : ∀ nL, nL < prod lead →
      ∃ sl, slicesAt [(⟨la ++ [a1, a2], av⟩ : Tensor S), ⟨lb ++ [b1, b2], bv⟩, cT] 2 lead.length (unflatten lead nL) = .ok sl ∧
        matmulOp m n kk ta tb setOutput (m * n) sl = .ok (blk nL) := by
    intro nL hnL
    obtain ⟨xc, hxc, hin⟩ := hc nL hnL
    exact matmul_block la lb a1 a2 b1 b2 m n kk lead.length ta tb setOutput av bv cT xc _ _ hlea hleb hA hB
      (by rw [hav]; exact block_bound la lead _ nL hfa hposL hposA hnL)
      (by rw [hbv]; exact block_bound lb lead _ nL hfb hposL hposB hnL) hxc hin
  have hvals : ((List.range (prod lead)).map blk).flatten = (List.range (prod lead * (m * n))).map (fun p =>
      mmEntry la lb a1 a2 b1 b2 m n kk ta tb av bv (ci (unflatten lead (p / (m * n)))) (unflatten lead (p / (m * n))) (p % (m * n))) := by
    rw [← flatten_range_blocks _ (m * n) (prod lead)]
    congr 1
    apply List.map_congr_left
    intro nL _
    apply List.map_congr_left
    intro q hq
    have hq' : q < m * n := by simpa using hq
    have h1 : (nL * (m * n) + q) / (m * n) = nL := by
      rw [Nat.mul_comm nL, Nat.mul_add_div hmn, Nat.div_eq_of_lt hq', Nat.add_zero]
    have h2 : (nL * (m * n) + q) % (m * n) = q := by
      rw [Nat.mul_comm nL, Nat.mul_add_mod, Nat.mod_eq_of_lt hq']
    simp only [h1, h2]
  have hposO : ∀ d ∈ lead ++ [m, n], 1 ≤ d := by
    intro d hd; simp at hd; rcases hd with hd | hd | hd
    · exact hposL d hd
    · omega
    · omega
  by_cases hL : lead = []
  · subst hL
    obtain ⟨sl, hsl, hop⟩ := hblock 0 (by simp [prod])
    have := slicedOp_single [(⟨la ++ [a1, a2], av⟩ : Tensor S), ⟨lb ++ [b1, b2], bv⟩, cT]
      (matmulOp m n kk ta tb setOutput (m * n)) ([] ++ [x1, x2]) ([] ++ [m, n]) 2 0 sl (blk 0) hvalid (by simp)
      (by simpa [unflatten] using hsl) hop (by simp [blk, prod])
    rw [this]
    simp only [flattenTrailing, if_true, Except.bind, pure, Except.pure]
    rw [mkq_ok _ _ hposO (by simp [blk, prod])]
    have hv := hvals
    simp only [prod, List.range_one, List.map_cons, List.map_nil, List.flatten_cons, List.flatten_nil,
      List.append_nil] at hv
    simp only [prod]
    rw [← hv]
  · have hmain := slicedOp_loop [(⟨la ++ [a1, a2], av⟩ : Tensor S), ⟨lb ++ [b1, b2], bv⟩, cT]
      (matmulOp m n kk ta tb setOutput (m * n)) (lead ++ [x1, x2]) [m, n] 2 0 blk hvalid
      (by rw [hlen2]; exact List.length_pos_iff.mpr hL) (by rw [htakeD]; exact hposL)
      (by intro d hd; simp at hd; omega)
      (by
        intro nL hnL
        rw [htakeD] at hnL
        rw [htakeD, hlen2]
        obtain ⟨sl, hsl, hop⟩ := hblock nL hnL
        exact ⟨sl, hsl, hop, by simp [blk, prod]⟩)
    rw [htakeD] at hmain
    rw [hmain]
    simp only [flattenTrailing, if_true, Except.bind, pure, Except.pure]
    rw [hvals, mkq_ok _ _ hposO (by simp [prod_append, prod])]

end Corgi

namespace Corgi
variable {S : Type} [Add S] [Mul S] [Neg S] [Sub S] [ScalarOps S]

/-- the element of a rank-≥2 operand that the specification reads: leading part projected, then the
    two matrix indices -/
theorem get_snoc2 (la : List Nat) (a1 a2 : Nat) (av : List S) (L : List Nat) (x y : Nat) (h : la.length ≤ L.length) :
    (⟨la ++ [a1, a2], av⟩ : Tensor S).get (proj la L ++ [x, y])
      = av.getD (projOffset la L * (a1 * a2) + (x * a2 + y)) zero := by
  simp only [Tensor.get]
  rw [rowMajor_snoc2 _ _ _ _ _ _ (proj_length la L h), projOffset_eq_proj la L h]

/-- the entry computed by the code is the entry of the specification -/
theorem mmEntry_spec (la lb lead : List Nat) (a1 a2 b1 b2 : Nat) (ta tb : Bool) (av bv : List S) (ci : Nat → S)
    (hposL : ∀ d ∈ lead, 1 ≤ d) (hla : la.length ≤ lead.length) (hlb : lb.length ≤ lead.length)
    (hinner : (if ta then a1 else a2) = (if tb then b2 else b1))
    (m n kk : Nat) (hm : m = if ta then a2 else a1) (hn : n = if tb then b1 else b2) (hkk : kk = if ta then a1 else a2)
    (hn1 : 1 ≤ n) (p : Nat) (hp : p < prod lead * (m * n)) :
    mmEntry la lb a1 a2 b1 b2 m n kk ta tb av bv ci (unflatten lead (p / (m * n))) (p % (m * n))
      = (let idx := unflatten (lead ++ [m, n]) p
         let L := idx.take lead.length
         let r := idx.getD lead.length 0
         let j := idx.getD (lead.length + 1) 0
         ci (p % (m * n)) + sumRange kk (fun t =>
           (⟨la ++ [a1, a2], av⟩ : Tensor S).get (proj la L ++ (if ta then [t, r] else [r, t]))
             * (⟨lb ++ [b1, b2], bv⟩ : Tensor S).get (proj lb L ++ (if tb then [j, t] else [t, j])))) := by
  have hm1 : 0 < m * n := by
    rcases Nat.eq_zero_or_pos (m * n) with h | h
    · rw [h] at hp; simp at hp
    · exact h
  have hnL : p / (m * n) < prod lead := by
    rw [Nat.mul_comm] at hp; exact (Nat.div_lt_iff_lt_mul hm1).mpr (by rw [Nat.mul_comm]; exact hp)
  have hq : p % (m * n) < m * n := Nat.mod_lt _ hm1
  have hr : p % (m * n) / n < m := div_lt_of_lt_mul' _ _ _ hq
  have hj : p % (m * n) % n < n := Nat.mod_lt _ (by omega)
  have hpd : p = (p / (m * n) * m + p % (m * n) / n) * n + p % (m * n) % n := by
    rw [← flat_decomp _ _ _ _ (by omega), Nat.mul_comm (p / (m * n)), Nat.div_add_mod]
  have hidx : unflatten (lead ++ [m, n]) p = unflatten lead (p / (m * n)) ++ [p % (m * n) / n, p % (m * n) % n] := by
    conv => lhs; rw [hpd]
    exact unflatten_append2 lead m n _ _ _ hposL hr hj hnL
  have hIlen : (unflatten lead (p / (m * n))).length = lead.length := unflatten_length _ _
  simp only [hidx]
  have ht : (unflatten lead (p / (m * n)) ++ [p % (m * n) / n, p % (m * n) % n]).take lead.length
      = unflatten lead (p / (m * n)) := by
    rw [← hIlen]; simp
  have hg1 : (unflatten lead (p / (m * n)) ++ [p % (m * n) / n, p % (m * n) % n]).getD lead.length 0 = p % (m * n) / n := by
    rw [← hIlen]; simp [List.getD_eq_getElem?_getD]
  have hg2 : (unflatten lead (p / (m * n)) ++ [p % (m * n) / n, p % (m * n) % n]).getD (lead.length + 1) 0 = p % (m * n) % n := by
    rw [← hIlen]; simp [List.getD_eq_getElem?_getD]
  rw [ht, hg1, hg2]
  unfold mmEntry sumRange
  congr 2
  apply List.map_congr_left
  intro t _
  cases ta <;> cases tb <;>
    simp only [if_true, if_false, Bool.false_eq_true] at hinner hm hn hkk ⊢ <;>
    rw [get_snoc2 _ _ _ _ _ _ _ (by omega), get_snoc2 _ _ _ _ _ _ _ (by omega)] <;>
    subst hm hn hkk <;> simp [hinner]

end Corgi

namespace Corgi
variable {S : Type} [Add S] [Mul S] [Neg S] [Sub S] [ScalarOps S]

theorem tensor_eta (t : Tensor S) (d : List Nat) (h : t.dims = d) : t = ⟨d, t.vals⟩ := by
  cases t; simp only at h; subst h; rfl

theorem Fits_bdims_left' (a b : List Nat) (hpos : ∀ d ∈ a, 1 ≤ d) (h : Compat a b = true) : Fits a (bdims a b) = true :=
  Fits_bdims_left a b hpos h

/-- the additive term's element the specification reads at an output index -/
def cterm (c : Option (Tensor S)) (idx : List Nat) : S :=
  match c with
  | some c => c.get (proj c.dims idx)
  | none => zero

/-- **C05, general form.**  For well-formed operands of rank ≥ 2 with broadcast-compatible leading
    dimensions and agreeing inner dimensions, and an additive term that passes the shape check and
    whose block at every leading index initialises the output block with the values `ci`, `matmul`
    returns the specification's tensor provided `ci` is the specification's additive element. -/
theorem matmul_spec_gen (a b : Tensor S) (ta tb : Bool) (c : Option (Tensor S)) (la lb : List Nat) (a1 a2 b1 b2 : Nat)
    (hda : a.dims = la ++ [a1, a2]) (hdb : b.dims = lb ++ [b1, b2]) (hwa : a.WF) (hwb : b.WF)
    (hc : Compat la lb = true) (hinner : (if ta then a1 else a2) = (if tb then b2 else b1))
    (ci : List Nat → Nat → S)
    (hcheck : addTermCheck c (if ta then a2 else a1) (if tb then b1 else b2) = .ok ())
    (hvc : ∀ x1 x2, (((cOperand c).dims.reverse.drop 2).zip ((bdims la lb ++ [x1, x2]).reverse.drop 2)).all
      (fun p => p.1 == 1 || p.1 == p.2) = true)
    (hcs : ∀ nL, nL < prod (bdims la lb) → ∃ xc,
      slice (cOperand c).vals (projOffset ((cOperand c).dims.take (min ((cOperand c).dims.length - 2) (bdims la lb).length))
          (unflatten (bdims la lb) nL) * prod ((cOperand c).dims.reverse.take 2)) (prod ((cOperand c).dims.reverse.take 2)) = .ok xc ∧
      matmulInit c.isSome xc ((if ta then a2 else a1) * (if tb then b1 else b2))
        = .ok ((List.range ((if ta then a2 else a1) * (if tb then b1 else b2))).map (ci (unflatten (bdims la lb) nL))))
    (hci : ∀ p, p < prod (bdims la lb) * ((if ta then a2 else a1) * (if tb then b1 else b2)) →
      ci (unflatten (bdims la lb) (p / ((if ta then a2 else a1) * (if tb then b1 else b2))))
          (p % ((if ta then a2 else a1) * (if tb then b1 else b2)))
        = cterm c (unflatten (bdims la lb ++ [if ta then a2 else a1, if tb then b1 else b2]) p)) :
    matmul a ta b tb c = .ok (specMatmul a ta b tb c) := by
  have ha' := tensor_eta a _ hda
  have hb' := tensor_eta b _ hdb
  have hposA : ∀ d ∈ la ++ [a1, a2], 1 ≤ d := by rw [← hda]; exact hwa.1
  have hposB : ∀ d ∈ lb ++ [b1, b2], 1 ≤ d := by rw [← hdb]; exact hwb.1
  have hposLa : ∀ d ∈ la, 1 ≤ d := fun d hd => hposA d (by simp [hd])
  have hposLb : ∀ d ∈ lb, 1 ≤ d := fun d hd => hposB d (by simp [hd])
  have h_a1 : 1 ≤ a1 := hposA a1 (by simp)
  have h_a2 : 1 ≤ a2 := hposA a2 (by simp)
  have h_b1 : 1 ≤ b1 := hposB b1 (by simp)
  have h_b2 : 1 ≤ b2 := hposB b2 (by simp)
  have hav : a.vals.length = prod la * (a1 * a2) := by rw [← hwa.2, hda, prod_append, prod2]
  have hbv : b.vals.length = prod lb * (b1 * b2) := by rw [← hwb.2, hdb, prod_append, prod2]
  have hposL := bdims_pos la lb hposLa hposLb
  have hfa := Fits_bdims_left la lb hposLa hc
  have hfb := Fits_bdims_right la lb hposLb hc
  obtain ⟨hlea, _⟩ := (Fits_iff _ _).mp hfa
  obtain ⟨hleb, _⟩ := (Fits_iff _ _).mp hfb
  obtain ⟨x1, x2, hx⟩ : ∃ x1 x2, (if la.length ≥ lb.length then [a1, a2] else [b1, b2]) = [x1, x2] := by
    split
    · exact ⟨_, _, rfl⟩
    · exact ⟨_, _, rfl⟩
  have hA : (if ta then a2 else a1) * (if ta then a1 else a2) = a1 * a2 := by
    cases ta <;> simp [Nat.mul_comm]
  have hB : (if ta then a1 else a2) * (if tb then b1 else b2) = b1 * b2 := by
    rw [hinner]; cases tb <;> simp [Nat.mul_comm]
  revert hcheck hcs hci hA hB
  generalize hm : (if ta then a2 else a1) = m
  generalize hn : (if tb then b1 else b2) = n
  generalize hkk : (if ta then a1 else a2) = kk
  intro hcheck hcs hci hA hB
  have hm1 : 1 ≤ m := by rw [← hm]; split <;> assumption
  have hn1 : 1 ≤ n := by rw [← hn]; split <;> assumption
  -- run the code
  unfold matmul
  rw [hda, hdb, matmulShape_rank2 la lb a1 a2 b1 b2 ta tb hc hinner, hx, hm, hn, hkk]
  have hog : prod ((bdims la lb ++ [m, n]).drop ((bdims la lb ++ [x1, x2]).length - 2)) = m * n := by
    simp [prod]
  simp only [hcheck, bind, Except.bind, pure, Except.pure, hog]
  rw [ha', hb']
  rw [matmul_core la lb (bdims la lb) a1 a2 b1 b2 x1 x2 m n kk ta tb c.isSome a.vals b.vals (cOperand c) ci
    hposL hm1 hn1 hfa hfb hposLa hposLb hav hbv hA hB (hvc x1 x2) hcs]
  -- the specification
  congr 1
  rw [← ha', ← hb']
  simp only [specMatmul, Tensor.ofFn, hda, hdb]
  have e1 : (la ++ [a1, a2]).take ((la ++ [a1, a2]).length - 2) = la := by simp
  have e2 : (lb ++ [b1, b2]).take ((lb ++ [b1, b2]).length - 2) = lb := by simp
  have e3 : (la ++ [a1, a2]).drop ((la ++ [a1, a2]).length - 2) = [a1, a2] := by simp
  have e4 : (lb ++ [b1, b2]).drop ((lb ++ [b1, b2]).length - 2) = [b1, b2] := by simp
  simp only [e1, e2, e3, e4, List.getD_cons_zero, List.getD_cons_succ, hm, hn, hkk]
  congr 1
  rw [prod_append, prod2]
  apply List.map_congr_left
  intro p hp
  have hp' : p < prod (bdims la lb) * (m * n) := by simpa using hp
  rw [mmEntry_spec la lb (bdims la lb) a1 a2 b1 b2 ta tb a.vals b.vals _ hposL hlea hleb hinner m n kk
    hm.symm hn.symm hkk.symm hn1 p hp', hci p hp']
  rw [← ha', ← hb']
  cases c <;> rfl

/-- **C05 (no additive term).**  For well-formed operands of rank ≥ 2 — any leading (batch)
    dimensions that are broadcast-compatible, any matrix sizes, either transpose flag — whose inner
    dimensions agree, `matmul` returns the specification's tensor: dimensions = broadcast leading
    dimensions ++ [rows, cols], and every entry = Σ_t a[L.., r, t] · b[L.., t, j] (with the flagged
    operand read transposed, and a unit leading dimension read at index 0). -/
theorem matmul_spec_none (a b : Tensor S) (ta tb : Bool) (la lb : List Nat) (a1 a2 b1 b2 : Nat)
    (hda : a.dims = la ++ [a1, a2]) (hdb : b.dims = lb ++ [b1, b2]) (hwa : a.WF) (hwb : b.WF)
    (hc : Compat la lb = true) (hinner : (if ta then a1 else a2) = (if tb then b2 else b1)) :
    matmul a ta b tb none = .ok (specMatmul a ta b tb none) := by
  refine matmul_spec_gen a b ta tb none la lb a1 a2 b1 b2 hda hdb hwa hwb hc hinner (fun _ _ => zero) rfl
    (by intro x1 x2; simp [cOperand]) ?_ (by intro p _; rfl)
  intro nL _
  refine ⟨[zero], ?_, ?_⟩
  · simp [cOperand, slice, projOffset, prod, pure, Except.pure]
  · simp only [matmulInit, Option.isSome_none, Bool.false_eq_true, if_false, pure, Except.pure, Except.ok.injEq]
    rw [List.map_const']; simp

end Corgi

namespace Corgi
variable {S : Type} [Add S] [Mul S] [Neg S] [Sub S] [ScalarOps S]

/-- the output multi-index of flat position `p` -/
theorem unflatten_out (lead : List Nat) (m n p : Nat) (hposL : ∀ d ∈ lead, 1 ≤ d) (hp : p < prod lead * (m * n)) :
    unflatten (lead ++ [m, n]) p = unflatten lead (p / (m * n)) ++ [p % (m * n) / n, p % (m * n) % n] := by
  have hm1 : 0 < m * n := by
    rcases Nat.eq_zero_or_pos (m * n) with h | h
    · rw [h] at hp; simp at hp
    · exact h
  have hn0 : 0 < n := Nat.pos_of_mul_pos_left hm1 |> fun _ => by
    rcases Nat.eq_zero_or_pos n with h | h
    · subst h; simp at hm1
    · exact h
  have hnL : p / (m * n) < prod lead := by
    rw [Nat.mul_comm] at hp; exact (Nat.div_lt_iff_lt_mul hm1).mpr (by rw [Nat.mul_comm]; exact hp)
  have hq : p % (m * n) < m * n := Nat.mod_lt _ hm1
  have hr : p % (m * n) / n < m := div_lt_of_lt_mul' _ _ _ hq
  have hj : p % (m * n) % n < n := Nat.mod_lt _ hn0
  have hpd : p = (p / (m * n) * m + p % (m * n) / n) * n + p % (m * n) % n := by
    rw [← flat_decomp _ _ _ _ hn0, Nat.mul_comm (p / (m * n)), Nat.div_add_mod]
  conv => lhs; rw [hpd]
  exact unflatten_append2 lead m n _ _ _ hposL hr hj hnL

theorem cycleTake_ok (z : List S) (N : Nat) (hz : 0 < z.length) :
    cycleTake z N = .ok ((List.range N).map (fun q => z.getD (q % z.length) zero)) := by
  unfold cycleTake
  have : z.isEmpty = false := by cases z; simp at hz; rfl
  simp only [this, Bool.false_eq_true, if_false]
  apply tabulateM_ok
  intro i _
  have h : i % z.length < z.length := Nat.mod_lt _ hz
  simp [getR, List.getD_eq_getElem?_getD, List.getElem?_eq_getElem h, pure, Except.pure]

theorem proj_one_dim (c2 : Nat) (I : List Nat) (j : Nat) : proj [c2] (I ++ [j]) = [if c2 == 1 then 0 else j] := by
  have := proj_append_last [] I c2 j (by simp)
  simpa [proj] using this

/-- **C05 with a bias row** (what a dense layer computes): the additive term is a rank-1 array with
    one value per output column; it is added to every row of every batch. -/
theorem matmul_spec_bias (a b c : Tensor S) (ta tb : Bool) (la lb : List Nat) (a1 a2 b1 b2 : Nat)
    (hda : a.dims = la ++ [a1, a2]) (hdb : b.dims = lb ++ [b1, b2]) (hwa : a.WF) (hwb : b.WF)
    (hc : Compat la lb = true) (hinner : (if ta then a1 else a2) = (if tb then b2 else b1))
    (hdc : c.dims = [if tb then b1 else b2]) (hwc : c.WF) :
    matmul a ta b tb (some c) = .ok (specMatmul a ta b tb (some c)) := by
  have hposL := bdims_pos la lb (fun d hd => hwa.1 d (by rw [hda]; simp [hd])) (fun d hd => hwb.1 d (by rw [hdb]; simp [hd]))
  have hn1 : 1 ≤ (if tb then b1 else b2) := by
    have h1 := hwb.1 b1 (by rw [hdb]; simp); have h2 := hwb.1 b2 (by rw [hdb]; simp); split <;> assumption
  generalize hn : (if tb then b1 else b2) = n at *
  have hcv : c.vals.length = n := by rw [← hwc.2, hdc]; simp [prod]
  refine matmul_spec_gen a b ta tb (some c) la lb a1 a2 b1 b2 hda hdb hwa hwb hc hinner
    (fun _ q => c.vals.getD (q % n) zero) ?_ ?_ ?_ ?_
  · rw [hn]
    simp only [addTermCheck, hdc, hcv]
    by_cases h1 : n = 1
    · simp [h1, pure, Except.pure]
    · simp [h1, dimFromEnd, getR, bind, Except.bind, pure, Except.pure]
  · intro x1 x2; simp [cOperand, hdc]
  · intro nL _
    rw [hn]
    refine ⟨c.vals, ?_, ?_⟩
    · simp only [cOperand, hdc]
      have : slice c.vals 0 n = .ok c.vals := by
        rw [slice_ok _ _ _ (by omega)]; simp [← hcv]
      simpa [projOffset, prod] using this
    · simp only [matmulInit, Option.isSome_some, if_true]
      rw [cycleTake_ok _ _ (by omega), hcv]
  · intro p hp
    rw [hn] at hp ⊢
    simp only [cterm, hdc, Tensor.get]
    rw [unflatten_out _ _ _ _ hposL hp]
    have : unflatten (bdims la lb) (p / ((if ta then a2 else a1) * n)) ++ [p % ((if ta then a2 else a1) * n) / n, p % ((if ta then a2 else a1) * n) % n]
        = (unflatten (bdims la lb) (p / ((if ta then a2 else a1) * n)) ++ [p % ((if ta then a2 else a1) * n) / n]) ++ [p % ((if ta then a2 else a1) * n) % n] := by simp
    rw [this, proj_one_dim]
    by_cases h1 : n = 1
    · subst h1; simp [rowMajor, Nat.mod_one]
    · have : (n == 1) = false := by simp [h1]
      simp [this, rowMajor, prod]

end Corgi

namespace Corgi
variable {S : Type} [Add S] [Mul S] [Neg S] [Sub S] [ScalarOps S]

theorem proj_append2 (cl I : List Nat) (c1 c2 r j : Nat) (h : cl.length ≤ I.length) :
    proj (cl ++ [c1, c2]) (I ++ [r, j]) = proj cl I ++ [if c1 == 1 then 0 else r, if c2 == 1 then 0 else j] := by
  have e1 : cl ++ [c1, c2] = (cl ++ [c1]) ++ [c2] := by simp
  have e2 : I ++ [r, j] = (I ++ [r]) ++ [j] := by simp
  rw [e1, e2, proj_append_last _ _ _ _ (by simp; omega), proj_append_last _ _ _ _ h]
  simp

/-- **C05 with a matrix additive term**: the term has leading dimensions that fit the batch
    dimensions, one or `rows` rows and `cols` columns; it is broadcast over batches (and rows). -/
theorem matmul_spec_addterm (a b c : Tensor S) (ta tb : Bool) (la lb cl : List Nat) (a1 a2 b1 b2 c1 : Nat)
    (hda : a.dims = la ++ [a1, a2]) (hdb : b.dims = lb ++ [b1, b2]) (hwa : a.WF) (hwb : b.WF)
    (hc : Compat la lb = true) (hinner : (if ta then a1 else a2) = (if tb then b2 else b1))
    (hdc : c.dims = cl ++ [c1, if tb then b1 else b2]) (hwc : c.WF)
    (hc1 : c1 = 1 ∨ c1 = (if ta then a2 else a1)) (hfc : Fits cl (bdims la lb) = true) :
    matmul a ta b tb (some c) = .ok (specMatmul a ta b tb (some c)) := by
  have hposL := bdims_pos la lb (fun d hd => hwa.1 d (by rw [hda]; simp [hd])) (fun d hd => hwb.1 d (by rw [hdb]; simp [hd]))
  have hn1 : 1 ≤ (if tb then b1 else b2) := by
    have h1 := hwb.1 b1 (by rw [hdb]; simp); have h2 := hwb.1 b2 (by rw [hdb]; simp); split <;> assumption
  have hm1 : 1 ≤ (if ta then a2 else a1) := by
    have h1 := hwa.1 a1 (by rw [hda]; simp); have h2 := hwa.1 a2 (by rw [hda]; simp); split <;> assumption
  generalize hn : (if tb then b1 else b2) = n at *
  generalize hm : (if ta then a2 else a1) = m at *
  have hposC : ∀ d ∈ cl, 1 ≤ d := fun d hd => hwc.1 d (by rw [hdc]; simp [hd])
  have hc1p : 1 ≤ c1 := hwc.1 c1 (by rw [hdc]; simp)
  have hcv : c.vals.length = prod cl * (c1 * n) := by rw [← hwc.2, hdc, prod_append, prod2]
  obtain ⟨hlec, _⟩ := (Fits_iff _ _).mp hfc
  have hg : 0 < c1 * n := Nat.mul_pos hc1p hn1
  refine matmul_spec_gen a b ta tb (some c) la lb a1 a2 b1 b2 hda hdb hwa hwb hc hinner
    (fun I q => c.vals.getD (projOffset cl I * (c1 * n) + q % (c1 * n)) zero) ?_ ?_ ?_ ?_
  · rw [hn, hm]
    simp only [addTermCheck, hdc]
    by_cases h1 : c.vals.length = 1
    · simp [h1, pure, Except.pure]
    · have : (c1 == 1 || c1 == m) = true := by rcases hc1 with h | h <;> simp [h]
      simp [h1, dimFromEnd_snoc2_1, dimFromEnd_snoc2_2, this, bind, Except.bind, pure, Except.pure]
  · intro x1 x2
    simp only [cOperand, hdc]
    exact valid_lead_of_fits cl _ c1 n x1 x2 hfc
  · intro nL hnL
    rw [hn, hm]
    have hb := block_bound cl (bdims la lb) (c1 * n) nL hfc hposL hposC hnL
    rw [← hcv] at hb
    refine ⟨(c.vals.drop (projOffset cl (unflatten (bdims la lb) nL) * (c1 * n))).take (c1 * n), ?_, ?_⟩
    · simp only [cOperand, hdc]
      exact operand_slice2 cl c1 n _ _ c.vals hlec hb
    · simp only [matmulInit, Option.isSome_some, if_true]
      have hl : ((c.vals.drop (projOffset cl (unflatten (bdims la lb) nL) * (c1 * n))).take (c1 * n)).length = c1 * n := by
        rw [List.length_take, List.length_drop]; omega
      rw [cycleTake_ok _ _ (by omega), hl]
      congr 1
      apply List.map_congr_left
      intro q _
      have := block_getElem? c.vals _ _ (q % (c1 * n)) (Nat.mod_lt _ hg) hb
      rw [List.getD_eq_getElem?_getD, this]; rfl
  · intro p hp
    rw [hn, hm] at hp ⊢
    simp only [cterm, hdc]
    rw [unflatten_out _ _ _ _ hposL hp]
    have hIlen : (unflatten (bdims la lb) (p / (m * n))).length = (bdims la lb).length := unflatten_length _ _
    rw [proj_append2 _ _ _ _ _ _ (by omega)]
    have hq : p % (m * n) < m * n := Nat.mod_lt _ (Nat.mul_pos hm1 hn1)
    have hr : p % (m * n) / n < m := div_lt_of_lt_mul' _ _ _ hq
    have hj : p % (m * n) % n < n := Nat.mod_lt _ hn1
    have hdm := Nat.div_add_mod (p % (m * n)) n
    have hget := get_snoc2 cl c1 n c.vals (unflatten (bdims la lb) (p / (m * n)))
      (if c1 == 1 then 0 else p % (m * n) / n) (if n == 1 then 0 else p % (m * n) % n) (by omega)
    rw [← hdc] at hget
    have hceta : (⟨c.dims, c.vals⟩ : Tensor S) = c := rfl
    rw [hceta] at hget
    rw [hget]
    congr 2
    -- the block position modulo the additive block size is the projected (row, column)
    have hj' : (if n == 1 then 0 else p % (m * n) % n) = p % (m * n) % n := by
      by_cases h1 : n = 1
      · subst h1; simp [Nat.mod_one]
      · simp [h1]
    rw [hj']
    rcases hc1 with h | h
    · subst h
      simp only [Nat.one_mul, beq_self_eq_true, if_true, Nat.zero_mul, Nat.zero_add]
    · subst h
      have hr' : (if c1 == 1 then 0 else p % (c1 * n) / n) = p % (c1 * n) / n := by
        by_cases h1 : c1 = 1
        · subst h1; simp
        · simp [h1]
      rw [hr', Nat.mod_mod, Nat.mul_comm (p % (c1 * n) / n) n]
      omega

end Corgi

namespace Corgi
variable {S : Type} [Add S] [Mul S] [Neg S] [Sub S] [ScalarOps S]

/-- rank-≥2 operands whose inner dimensions disagree are refused -/
theorem matmul_refuses_inner (a b : Tensor S) (ta tb : Bool) (c : Option (Tensor S)) (la lb : List Nat) (a1 a2 b1 b2 : Nat)
    (hda : a.dims = la ++ [a1, a2]) (hdb : b.dims = lb ++ [b1, b2])
    (hinner : (if ta then a1 else a2) ≠ (if tb then b2 else b1)) :
    ∃ p, matmul a ta b tb c = .error p := by
  unfold matmul
  rw [hda, hdb]
  unfold matmulShape
  have h1 : (la ++ [a1, a2]).take ((la ++ [a1, a2]).length - 2) = la := by simp
  have h2 : (lb ++ [b1, b2]).take ((lb ++ [b1, b2]).length - 2) = lb := by simp
  rw [h1, h2]
  cases hE : ewiseDims la lb with
  | error e => exact ⟨e, rfl⟩
  | ok lead =>
    refine ⟨.innerMismatch, ?_⟩
    have n1 : ¬ (la.length + 2 < 2) := by omega
    have n2 : ¬ (lb.length + 2 < 2) := by omega
    cases ta <;> cases tb <;>
      simp only [if_true, if_false, Bool.false_eq_true, ne_eq] at hinner <;>
      simp [bind, Except.bind, pure, Except.pure, dimFromEnd_snoc2_1, dimFromEnd_snoc2_2, n1, n2, hinner,
        throw, throwThe, MonadExceptOf.throw]

/-- rank-≥2 operands whose leading dimensions are not broadcast-compatible are refused -/
theorem matmul_refuses_leading (a b : Tensor S) (ta tb : Bool) (c : Option (Tensor S)) (la lb : List Nat) (a1 a2 b1 b2 : Nat)
    (hda : a.dims = la ++ [a1, a2]) (hdb : b.dims = lb ++ [b1, b2]) (hc : Compat la lb = false) :
    matmul a ta b tb c = .error .incompatible := by
  unfold matmul
  rw [hda, hdb]
  unfold matmulShape
  have h1 : (la ++ [a1, a2]).take ((la ++ [a1, a2]).length - 2) = la := by simp
  have h2 : (lb ++ [b1, b2]).take ((lb ++ [b1, b2]).length - 2) = lb := by simp
  rw [h1, h2, ewiseDims_spec, hc]
  rfl

end Corgi

namespace Corgi
variable {S : Type} [Add S] [Mul S] [Neg S] [Sub S] [ScalarOps S]

/-- the product without additive term, in flat (buffer-position) form -/
theorem matmul_flat_none (a b : Tensor S) (ta tb : Bool) (la lb : List Nat) (a1 a2 b1 b2 : Nat)
    (hda : a.dims = la ++ [a1, a2]) (hdb : b.dims = lb ++ [b1, b2]) (hwa : a.WF) (hwb : b.WF)
    (hc : Compat la lb = true) (hinner : (if ta then a1 else a2) = (if tb then b2 else b1)) :
    matmul a ta b tb none = .ok ⟨bdims la lb ++ [if ta then a2 else a1, if tb then b1 else b2],
      (List.range (prod (bdims la lb) * ((if ta then a2 else a1) * (if tb then b1 else b2)))).map (fun p =>
        mmEntry la lb a1 a2 b1 b2 (if ta then a2 else a1) (if tb then b1 else b2) (if ta then a1 else a2) ta tb
          a.vals b.vals (fun _ => zero)
          (unflatten (bdims la lb) (p / ((if ta then a2 else a1) * (if tb then b1 else b2))))
          (p % ((if ta then a2 else a1) * (if tb then b1 else b2))))⟩ := by
  rw [matmul_spec_none a b ta tb la lb a1 a2 b1 b2 hda hdb hwa hwb hc hinner]
  have ha' := tensor_eta a _ hda
  have hb' := tensor_eta b _ hdb
  have hposA : ∀ d ∈ la ++ [a1, a2], 1 ≤ d := by rw [← hda]; exact hwa.1
  have hposB : ∀ d ∈ lb ++ [b1, b2], 1 ≤ d := by rw [← hdb]; exact hwb.1
  have hposLa : ∀ d ∈ la, 1 ≤ d := fun d hd => hposA d (by simp [hd])
  have hposLb : ∀ d ∈ lb, 1 ≤ d := fun d hd => hposB d (by simp [hd])
  have hposL := bdims_pos la lb hposLa hposLb
  obtain ⟨hlea, _⟩ := (Fits_iff _ _).mp (Fits_bdims_left la lb hposLa hc)
  obtain ⟨hleb, _⟩ := (Fits_iff _ _).mp (Fits_bdims_right la lb hposLb hc)
  have hn1 : 1 ≤ (if tb then b1 else b2) := by
    have h1 := hposB b1 (by simp); have h2 := hposB b2 (by simp); split <;> assumption
  congr 1
  simp only [specMatmul, Tensor.ofFn, hda, hdb]
  have e1 : (la ++ [a1, a2]).take ((la ++ [a1, a2]).length - 2) = la := by simp
  have e2 : (lb ++ [b1, b2]).take ((lb ++ [b1, b2]).length - 2) = lb := by simp
  have e3 : (la ++ [a1, a2]).drop ((la ++ [a1, a2]).length - 2) = [a1, a2] := by simp
  have e4 : (lb ++ [b1, b2]).drop ((lb ++ [b1, b2]).length - 2) = [b1, b2] := by simp
  simp only [e1, e2, e3, e4, List.getD_cons_zero, List.getD_cons_succ]
  congr 1
  rw [prod_append, prod2]
  apply List.map_congr_left
  intro p hp
  have hp' : p < prod (bdims la lb) * ((if ta then a2 else a1) * (if tb then b1 else b2)) := by simpa using hp
  rw [mmEntry_spec la lb (bdims la lb) a1 a2 b1 b2 ta tb a.vals b.vals _ hposL hlea hleb hinner _ _ _ rfl rfl rfl hn1 p hp']
  rw [← hda, ← hdb]

end Corgi

namespace Corgi
variable {S : Type} [Add S] [Mul S] [Neg S] [Sub S] [ScalarOps S]

/-- `sliced_op` with two trailing operation dimensions never looks at the last two input dimensions -/
theorem slicedOp_last2 (arrays : List (Tensor S)) (op : List (List S) → R (List S)) (L : List Nat) (x1 x2 y1 y2 : Nat)
    (out : List Nat) (flat : Nat) :
    slicedOp arrays op (L ++ [x1, x2]) out 2 flat = slicedOp arrays op (L ++ [y1, y2]) out 2 flat := by
  have hl1 : (L ++ [x1, x2]).length = L.length + 2 := by simp
  have hl2 : (L ++ [y1, y2]).length = L.length + 2 := by simp
  have ht1 : (L ++ [x1, x2]).take (L.length + 2 - 2) = L := by simp
  have ht2 : (L ++ [y1, y2]).take (L.length + 2 - 2) = L := by simp
  have e1 : (L ++ [x1, x2]).reverse.drop 2 = L.reverse := by simp
  have e1' : (L ++ [y1, y2]).reverse.drop 2 = L.reverse := by simp
  have e4 : slicedBody arrays op (L ++ [x1, x2]) out 2 = slicedBody arrays op (L ++ [y1, y2]) out 2 := by
    funext n
    unfold slicedBody
    simp only [hl1, hl2, ht1, ht2]
  unfold slicedOp
  simp only [hl1, hl2, ht1, ht2, e1, e1', e4]

/-- a rank-1 left operand is sliced exactly like the one-row matrix with the same values -/
theorem slicedOp_row (av : List S) (k : Nat) (rest : List (Tensor S)) (op : List (List S) → R (List S))
    (inDims out : List Nat) (flat : Nat) :
    slicedOp ((⟨[k], av⟩ : Tensor S) :: rest) op inDims out 2 flat
      = slicedOp ((⟨[1, k], av⟩ : Tensor S) :: rest) op inDims out 2 flat := by
  have hs : ∀ lc idx, slicesAt ((⟨[k], av⟩ : Tensor S) :: rest) 2 lc idx = slicesAt ((⟨[1, k], av⟩ : Tensor S) :: rest) 2 lc idx := by
    intro lc idx
    simp [slicesAt, mapR, prod, projOffset]
  have e4 : slicedBody ((⟨[k], av⟩ : Tensor S) :: rest) op inDims out 2 = slicedBody ((⟨[1, k], av⟩ : Tensor S) :: rest) op inDims out 2 := by
    funext n
    unfold slicedBody
    simp only [hs]
  have hv : ∀ X : List Nat, ((([k] : List Nat).reverse.drop 2).zip X).all (fun p => p.1 == 1 || p.1 == p.2)
      = ((([1, k] : List Nat).reverse.drop 2).zip X).all (fun p => p.1 == 1 || p.1 == p.2) := by
    intro X; simp
  unfold slicedOp
  simp only [List.all_cons, hs, e4, hv]

theorem compat_nil_left (B : List Nat) : Compat [] B = true := by
  unfold Compat; simp [compatRev]

theorem bdimsRev_nil_left (l : List Nat) : bdimsRev [] l = l := by
  cases l <;> rfl

theorem bdims_nil_left (B : List Nat) : bdims [] B = B := by
  unfold bdims
  simp [bdimsRev_nil_left]

theorem matmulShape_rank1_left (k : Nat) (lb : List Nat) (b1 b2 : Nat) (tb : Bool)
    (hinner : k = if tb then b2 else b1) :
    matmulShape [k] false (lb ++ [b1, b2]) tb
      = .ok (lb ++ [b1, b2], lb ++ [1, if tb then b1 else b2], 1, (if tb then b1 else b2), k) := by
  unfold matmulShape
  have t1 : ([k] : List Nat).take (([k] : List Nat).length - 2) = [] := by simp
  have t2 : (lb ++ [b1, b2]).take ((lb ++ [b1, b2]).length - 2) = lb := by simp
  rw [t1, t2, ewiseDims_spec, compat_nil_left, bdims_nil_left]
  have n2 : ¬ (lb.length + 2 < 2) := by omega
  have n3 : ¬ (1 ≥ lb.length + 2) := by omega
  cases tb <;>
    simp only [if_true, if_false, Bool.false_eq_true] at hinner <;>
    simp [bind, Except.bind, pure, Except.pure, dimFromEnd, getR, n2, n3, hinner]

/-- **A rank-1 left operand behaves as a one-row matrix** (next to an operand of rank ≥ 2, untransposed,
    no additive term, inner dimensions agreeing): the two calls run the same computation, so the result
    is the product of the `1 × k` matrix (C05_product). -/
theorem matmul_rank1_left (av : List S) (k : Nat) (b : Tensor S) (tb : Bool) (lb : List Nat) (b1 b2 : Nat)
    (hdb : b.dims = lb ++ [b1, b2]) (hinner : k = if tb then b2 else b1) :
    matmul (⟨[k], av⟩ : Tensor S) false b tb none = matmul (⟨[1, k], av⟩ : Tensor S) false b tb none := by
  unfold matmul
  have h2 := matmulShape_rank2 [] lb 1 k b1 b2 false tb (compat_nil_left lb)
    (by simpa using hinner)
  simp only [List.nil_append, Bool.false_eq_true, if_false, bdims_nil_left] at h2
  rw [hdb]
  simp only [matmulShape_rank1_left k lb b1 b2 tb hinner, h2, bind, Except.bind, addTermCheck, pure, Except.pure]
  obtain ⟨x1, x2, hx⟩ : ∃ x1 x2, (if ([] : List Nat).length ≥ lb.length then [1, k] else [b1, b2]) = [x1, x2] := by
    split
    · exact ⟨_, _, rfl⟩
    · exact ⟨_, _, rfl⟩
  rw [hx]
  have hlen : (lb ++ [x1, x2]).length = (lb ++ [b1, b2]).length := by simp
  rw [hlen, slicedOp_last2 _ _ lb x1 x2 b1 b2, slicedOp_row]

end Corgi

namespace Corgi
variable {S : Type} [Add S] [Mul S] [Neg S] [Sub S] [ScalarOps S]

theorem getElem?_getD (l : List S) (i : Nat) (h : i < l.length) : l[i]? = some (l.getD i zero) := by
  simp [List.getD_eq_getElem?_getD, List.getElem?_eq_getElem h]

/-- **Two untransposed rank-1 operands give their dot product** (a one-element array). -/
theorem matmul_dot (av bv : List S) (k : Nat) (hk : 1 ≤ k) (ha : av.length = k) (hb : bv.length = k) :
    matmul (⟨[k], av⟩ : Tensor S) false ⟨[k], bv⟩ false none
      = .ok ⟨[1], [zero + sumList ((List.range k).map (fun t => av.getD t zero * bv.getD t zero))]⟩ := by
  unfold matmul
  have hshape : matmulShape [k] false [k] false = .ok ([k], [1], 1, 1, k) := by
    simp [matmulShape, ewiseDims_spec, Compat, compatRev, bdims, bdimsRev, bind, Except.bind, pure, Except.pure,
      dimFromEnd, getR]
  simp only [hshape, bind, Except.bind, addTermCheck, pure, Except.pure, Option.isSome_none, cOperand]
  have hsl : slicesAt [(⟨[k], av⟩ : Tensor S), ⟨[k], bv⟩, ⟨[1], [zero]⟩] 2 0 [] = .ok [av, bv, [zero]] := by
    simp only [slicesAt, mapR, bind, Except.bind, pure, Except.pure]
    have e1 : slice av (projOffset (([k] : List Nat).take (min (([k] : List Nat).length - 2) 0)) [] * prod (([k] : List Nat).reverse.take 2))
        (prod (([k] : List Nat).reverse.take 2)) = .ok av := by
      have : prod (([k] : List Nat).reverse.take 2) = k := by simp [prod]
      rw [this, slice_ok _ _ _ (by simp [projOffset]; omega)]
      simp [projOffset, ← ha]
    have e2 : slice bv (projOffset (([k] : List Nat).take (min (([k] : List Nat).length - 2) 0)) [] * prod (([k] : List Nat).reverse.take 2))
        (prod (([k] : List Nat).reverse.take 2)) = .ok bv := by
      have : prod (([k] : List Nat).reverse.take 2) = k := by simp [prod]
      rw [this, slice_ok _ _ _ (by simp [projOffset]; omega)]
      simp [projOffset, ← hb]
    have e3 : slice ([zero] : List S) (projOffset (([1] : List Nat).take (min (([1] : List Nat).length - 2) 0)) [] * prod (([1] : List Nat).reverse.take 2))
        (prod (([1] : List Nat).reverse.take 2)) = .ok [zero] := by
      simp [slice, projOffset, prod, pure, Except.pure]
    rw [e1]; simp only []; rw [e2]; simp only []; rw [e3]
  have hop : matmulOp 1 1 k false false false (prod (([1] : List Nat).drop (([k] : List Nat).length - 2))) [av, bv, [zero]]
      = .ok [zero + sumList ((List.range k).map (fun t => av.getD t zero * bv.getD t zero))] := by
    have hp : prod (([1] : List Nat).drop (([k] : List Nat).length - 2)) = 1 := by simp [prod]
    simp only [matmulOp, matmulInit, hp, Bool.false_eq_true, if_false, pure, Except.pure, bind, Except.bind,
      List.replicate_one]
    rw [matmulSlice_ok 1 1 k av bv false false [zero] (fun _ => zero) (fun i => av.getD i zero) (fun i => bv.getD i zero)
      (by simp) (fun i hi => getElem?_getD av i (by omega)) (fun i hi => getElem?_getD bv i (by omega))]
    simp
  rw [slicedOp_single _ _ [k] [1] 2 0 [av, bv, [zero]] _ (by simp) (by simp) hsl hop (by simp [prod])]
  simp [flattenTrailing, Except.bind, pure, Except.pure, Tensor.mk?, prod]

end Corgi
