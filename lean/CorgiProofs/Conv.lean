/-
  CorgiProofs.Conv — `conv` equals the sliding-window definition (C06): unroll (im2col) ∘ matmul with
  the filter matrix ∘ per-image transposition, for every batch shape, depth, image / filter size and
  stride.
-/
import CorgiProofs.Matmul
import CorgiProofs.SumSpec
import CorgiProofs.PathSum
import Mathlib.Tactic.Ring

set_option linter.unusedSectionVars false
set_option linter.unusedVariables false

namespace Corgi

/-! ### arithmetic of the window walk -/

theorem idx3_lt (col C row R k D : Nat) (h1 : col < C) (h2 : row < R) (h3 : k < D) :
    col + C * (row + R * k) < D * R * C := by
  have hx : k * R + row < D * R := idx2_lt k D row R h3 h2
  have := idx2_lt (k * R + row) (D * R) col C hx h1
  rw [Nat.mul_comm C, Nat.add_comm col, Nat.add_comm row, Nat.mul_comm R k]
  exact this

/-- the last window still fits: `n + s·c < C` for `n < f`, `c ≤ (C − f)/s` -/
theorem window_fits (n f s c C : Nat) (hn : n < f) (hf : f ≤ C) (hc : c < (C - f) / s + 1) : n + s * c < C := by
  have h1 : s * c ≤ s * ((C - f) / s) := Nat.mul_le_mul_left s (by omega)
  have h2 : s * ((C - f) / s) ≤ C - f := Nat.mul_div_le _ _
  omega

/-- every source position of the unrolled image lies inside the image -/
theorem unrollIdx_lt (C R D sr sc fr fc : Nat) (o : Nat) (hfr : fr ≤ R) (hfc : fc ≤ C) (hfr1 : 1 ≤ fr) (hfc1 : 1 ≤ fc)
    (hD : 1 ≤ D)
    (ho : o < (((R - fr) / sr + 1) * ((C - fc) / sc + 1)) * D * (fr * fc)) :
    unrollIdx C R D sr sc fr fc ((C - fc) / sc + 1) o < D * R * C := by
  unfold unrollIdx
  have hoC : 0 < (C - fc) / sc + 1 := Nat.succ_pos _
  have hpos : 0 < fc * fr * D * ((C - fc) / sc + 1) :=
    Nat.mul_pos (Nat.mul_pos (Nat.mul_pos (by omega) (by omega)) (by omega)) hoC
  have hr : o / (fc * fr * D * ((C - fc) / sc + 1)) < (R - fr) / sr + 1 := by
    apply (Nat.div_lt_iff_lt_mul hpos).mpr
    have e : ((R - fr) / sr + 1) * (fc * fr * D * ((C - fc) / sc + 1))
        = (((R - fr) / sr + 1) * ((C - fc) / sc + 1)) * D * (fr * fc) := by
      simp only [Nat.mul_comm, Nat.mul_left_comm, Nat.mul_assoc]
    rw [e]; exact ho
  apply idx3_lt
  · exact window_fits _ fc sc _ C (Nat.mod_lt _ (by omega)) hfc (Nat.mod_lt _ hoC)
  · exact window_fits _ fr sr _ R (Nat.mod_lt _ (by omega)) hfr hr
  · exact Nat.mod_lt _ (by omega)

end Corgi

namespace Corgi
variable {S : Type} [Add S] [Mul S] [Neg S] [Sub S] [ScalarOps S]

theorem prod3 (x y z : Nat) : prod [x, y, z] = x * y * z := by simp [prod, Nat.mul_assoc]

/-- **im2col.**  The unrolled image lists, for every image of the batch and every window position
    (row-major), the window's `depth × fr × fc` patch; in buffer positions: -/
theorem unroll_flat (B : List Nat) (D R C sr sc fr fc : Nat) (iv : List S)
    (hposB : ∀ d ∈ B, 1 ≤ d) (hD : 1 ≤ D) (hR : 1 ≤ R) (hC : 1 ≤ C)
    (hlen : iv.length = prod B * (D * R * C))
    (hfr : fr ≤ R) (hfc : fc ≤ C) (hfr1 : 1 ≤ fr) (hfc1 : 1 ≤ fc) (hsr : 1 ≤ sr) (hsc : 1 ≤ sc) :
    unrollBlocks (⟨B ++ [D, R, C], iv⟩ : Tensor S) sr sc fr fc
      = .ok ⟨B ++ [((R - fr) / sr + 1) * ((C - fc) / sc + 1), D * (fr * fc)],
          (List.range (prod B * ((((R - fr) / sr + 1) * ((C - fc) / sc + 1)) * D * (fr * fc)))).map (fun p =>
            iv.getD (p / ((((R - fr) / sr + 1) * ((C - fc) / sc + 1)) * D * (fr * fc)) * (D * R * C)
              + unrollIdx C R D sr sc fr fc ((C - fc) / sc + 1)
                  (p % ((((R - fr) / sr + 1) * ((C - fc) / sc + 1)) * D * (fr * fc)))) zero)⟩ := by
  generalize hoR : (R - fr) / sr + 1 = oR
  generalize hoC : (C - fc) / sc + 1 = oC
  have hoR1 : 1 ≤ oR := by rw [← hoR]; exact Nat.succ_pos _
  have hoC1 : 1 ≤ oC := by rw [← hoC]; exact Nat.succ_pos _
  generalize hblk : oR * oC * D * (fr * fc) = blk
  have hblk1 : 0 < blk := by
    rw [← hblk]; exact Nat.mul_pos (Nat.mul_pos (Nat.mul_pos hoR1 hoC1) hD) (Nat.mul_pos hfr1 hfc1)
  have hlen3 : (B ++ [D, R, C]).length - 3 = B.length := by simp
  have htake : (B ++ [D, R, C]).take ((B ++ [D, R, C]).length - 3) = B := by simp
  have hg : prod ((B ++ [D, R, C]).reverse.take 3) = D * R * C := by
    simp [prod, Nat.mul_comm, Nat.mul_left_comm]
  -- run the code up to the `sliced_op` call
  unfold unrollBlocks
  have d3 : dimFromEnd (B ++ [D, R, C]) 3 = .ok D := by simp [dimFromEnd, getR, pure, Except.pure]
  have d2 : dimFromEnd (B ++ [D, R, C]) 2 = .ok R := by simp [dimFromEnd, getR, pure, Except.pure]
  have d1 : dimFromEnd (B ++ [D, R, C]) 1 = .ok C := by simp [dimFromEnd, getR, pure, Except.pure]
  have c1 : (decide (R < fr) || decide (C < fc)) = false := by simp; omega
  have c2 : (decide (sr = 0) || decide (sc = 0)) = false := by simp; omega
  simp only [d3, d2, d1, c1, c2, bind, Except.bind, pure, Except.pure, Bool.false_eq_true, if_false, htake, hoR, hoC]
  -- one block
  have hvalid : [(⟨B ++ [D, R, C], iv⟩ : Tensor S)].all (fun v =>
      ((v.dims.reverse.drop 3).zip ((B ++ [D, R, C]).reverse.drop 3)).all (fun p => p.1 == 1 || p.1 == p.2)) = true := by
    simp only [List.all_cons, List.all_nil, Bool.and_true, List.all_eq_true]
    intro p hp
    simp [mem_zip_self hp]
  let blkf : Nat → List S := fun n => (List.range blk).map (fun o =>
    iv.getD (n * (D * R * C) + unrollIdx C R D sr sc fr fc oC o) zero)
  have hblock : ∀ n, n < prod B →
      ∃ sl, slicesAt [(⟨B ++ [D, R, C], iv⟩ : Tensor S)] 3 B.length (unflatten B n) = .ok sl ∧
        unrollOp C R D sr sc fr fc oC (oR * oC * D * (fr * fc)) sl = .ok (blkf n) := by
    intro n hn
    have hoff : projOffset B (unflatten B n) = n := by
      rw [projOffset_full _ _ (unflatten_inRange hposB hn), rowMajor_unflatten hn]
    have hb : n * (D * R * C) + D * R * C ≤ iv.length := by
      rw [hlen]
      have : (n + 1) * (D * R * C) ≤ prod B * (D * R * C) := Nat.mul_le_mul_right _ hn
      rw [Nat.add_mul, Nat.one_mul] at this; exact this
    refine ⟨[(iv.drop (n * (D * R * C))).take (D * R * C)], ?_, ?_⟩
    · simp only [slicesAt, mapR, bind, Except.bind, pure, Except.pure, hlen3, Nat.min_self, hg]
      have : (B ++ [D, R, C]).take B.length = B := by simp
      rw [this, hoff, slice_ok _ _ _ hb]
    · simp only [unrollOp, hblk]
      apply tabulateM_ok
      intro o ho
      have hidx : unrollIdx C R D sr sc fr fc oC o < D * R * C := by
        rw [← hoC]
        exact unrollIdx_lt C R D sr sc fr fc o hfr hfc hfr1 hfc1 hD (by rw [hoR, hoC, hblk]; exact ho)
      rw [getR_ok _ _ _ (block_getElem? iv _ _ _ hidx hb)]
  have hvals : ((List.range (prod B)).map blkf).flatten = (List.range (prod B * blk)).map (fun p =>
      iv.getD (p / blk * (D * R * C) + unrollIdx C R D sr sc fr fc oC (p % blk)) zero) := by
    rw [← flatten_range_blocks _ blk (prod B)]
    congr 1
    apply List.map_congr_left
    intro n _
    apply List.map_congr_left
    intro o ho
    have ho' : o < blk := by simpa using ho
    have h1 : (n * blk + o) / blk = n := by
      rw [Nat.mul_comm n, Nat.mul_add_div hblk1, Nat.div_eq_of_lt ho', Nat.add_zero]
    have h2 : (n * blk + o) % blk = o := by
      rw [Nat.mul_comm n, Nat.mul_add_mod, Nat.mod_eq_of_lt ho']
    simp only [h1, h2]
  have hposO : ∀ d ∈ B ++ [oR * oC, D * (fr * fc)], 1 ≤ d := by
    intro d hd; simp at hd; rcases hd with hd | hd | hd
    · exact hposB d hd
    · rw [hd]; exact Nat.mul_pos hoR1 hoC1
    · rw [hd]; exact Nat.mul_pos hD (Nat.mul_pos hfr1 hfc1)
  have hprodO : prod [oR * oC, D * (fr * fc)] = blk := by
    rw [prod2, ← hblk]; simp only [Nat.mul_assoc]
  by_cases hL : B = []
  · subst hL
    obtain ⟨sl, hsl, hop⟩ := hblock 0 (by simp [prod])
    have := slicedOp_single [(⟨[] ++ [D, R, C], iv⟩ : Tensor S)]
      (unrollOp C R D sr sc fr fc oC (oR * oC * D * (fr * fc))) ([] ++ [D, R, C]) ([] ++ [oR * oC, D * (fr * fc)]) 3 0
      sl (blkf 0) hvalid (by simp) (by simpa [unflatten] using hsl) hop
      (by simp only [List.nil_append, hprodO]; simp [blkf])
    rw [this]
    simp only [flattenTrailing, if_true, Except.bind, pure, Except.pure]
    rw [mkq_ok _ _ hposO (by simp only [List.nil_append, hprodO]; simp [blkf])]
    have hv := hvals
    simp only [prod, List.range_one, List.map_cons, List.map_nil, List.flatten_cons, List.flatten_nil,
      List.append_nil] at hv
    simp only [prod, hblk]
    rw [← hv]
  · have hmain := slicedOp_loop [(⟨B ++ [D, R, C], iv⟩ : Tensor S)]
      (unrollOp C R D sr sc fr fc oC (oR * oC * D * (fr * fc))) (B ++ [D, R, C]) [oR * oC, D * (fr * fc)] 3 0 blkf hvalid
      (by rw [hlen3]; exact List.length_pos_iff.mpr hL) (by rw [htake]; exact hposB)
      (by intro d hd; exact hposO d (by simp at hd ⊢; right; exact hd))
      (by
        intro n hn
        rw [htake] at hn
        rw [htake, hlen3]
        obtain ⟨sl, hsl, hop⟩ := hblock n hn
        exact ⟨sl, hsl, hop, by rw [hprodO]; simp [blkf]⟩)
    rw [htake] at hmain
    rw [hmain]
    simp only [flattenTrailing, if_true, Except.bind, pure, Except.pure]
    rw [hvals, mkq_ok _ _ hposO (by rw [prod_append, hprodO]; simp)]

end Corgi

namespace Corgi
variable {S : Type} [Add S] [Mul S] [Neg S] [Sub S] [ScalarOps S]

/-- **the per-image transposition** `[windows, filters] → [filters, rows, cols]`, in buffer positions -/
theorem expand_flat (B : List Nat) (oR oC K : Nat) (mv : List S)
    (hposB : ∀ d ∈ B, 1 ≤ d) (hoR : 1 ≤ oR) (hoC : 1 ≤ oC) (hK : 1 ≤ K)
    (hlen : mv.length = prod B * (oR * oC * K)) :
    expandConv (⟨B ++ [oR * oC, K], mv⟩ : Tensor S) oR oC
      = .ok ⟨B ++ [K, oR, oC], (List.range (prod B * (oR * oC * K))).map (fun o =>
          mv.getD (o / (oR * oC * K) * (oR * oC * K) + o % (oR * oC * K) / (oR * oC)
            + K * (o % (oR * oC * K) % (oR * oC))) zero)⟩ := by
  have hW : 0 < oR * oC := Nat.mul_pos hoR hoC
  have hWK : 0 < oR * oC * K := Nat.mul_pos hW hK
  unfold expandConv
  have d1 : dimFromEnd (B ++ [oR * oC, K]) 1 = .ok K := by simp [dimFromEnd, getR, pure, Except.pure]
  have d2 : dimFromEnd (B ++ [oR * oC, K]) 2 = .ok (oR * oC) := by simp [dimFromEnd, getR, pure, Except.pure]
  simp only [d1, d2, bind, Except.bind, pure, Except.pure]
  rw [tabulateM_ok _ (fun o => mv.getD (o / (oR * oC * K) * (oR * oC * K) + o % (oR * oC * K) / (oR * oC)
      + K * (o % (oR * oC * K) % (oR * oC))) zero)]
  · simp only []
    have htk : (B ++ [oR * oC, K]).take ((B ++ [oR * oC, K]).length - 2) = B := by simp
    rw [htk, hlen]
    apply mkq_ok
    · intro d hd; simp at hd; rcases hd with hd | hd | hd | hd
      · exact hposB d hd
      · omega
      · omega
      · omega
    · simp only [prod_append, prod3, List.length_map, List.length_range]
      congr 1
      simp only [Nat.mul_comm, Nat.mul_left_comm]
  · intro o ho
    rw [hlen] at ho
    have hq : o / (oR * oC * K) < prod B := by
      rw [Nat.mul_comm] at ho; exact (Nat.div_lt_iff_lt_mul hWK).mpr (by rw [Nat.mul_comm]; exact ho)
    have hw : o % (oR * oC * K) < oR * oC * K := Nat.mod_lt _ hWK
    have hf : o % (oR * oC * K) / (oR * oC) < K := by
      apply (Nat.div_lt_iff_lt_mul hW).mpr; rw [Nat.mul_comm K]; exact hw
    have hwi : o % (oR * oC * K) % (oR * oC) < oR * oC := Nat.mod_lt _ hW
    have hin : o % (oR * oC * K) / (oR * oC) + K * (o % (oR * oC * K) % (oR * oC)) < oR * oC * K := by
      have := idx2_lt _ _ _ _ hwi hf
      rw [Nat.mul_comm K, Nat.add_comm]; exact this
    have hb : o / (oR * oC * K) * (oR * oC * K) + oR * oC * K ≤ mv.length := by
      rw [hlen]
      have : (o / (oR * oC * K) + 1) * (oR * oC * K) ≤ prod B * (oR * oC * K) := Nat.mul_le_mul_right _ hq
      rw [Nat.add_mul, Nat.one_mul] at this; exact this
    have hidx : o / (oR * oC * K) * (oR * oC * K) + (o % (oR * oC * K) / (oR * oC)) + K * (o % (oR * oC * K) % (oR * oC))
        < mv.length := by omega
    simp only [getR, List.getD_eq_getElem?_getD, List.getElem?_eq_getElem hidx, pure, Except.pure, Option.getD_some]

end Corgi

namespace Corgi
variable {S : Type} [Add S] [Mul S] [Neg S] [Sub S] [ScalarOps S] [AddLaws S]

theorem foldl_add_start (l : List S) : ∀ x : S, l.foldl (· + ·) x = x + l.foldl (· + ·) zero := by
  induction l with
  | nil => intro x; simp only [List.foldl_nil]; rw [AddLaws.add_comm, AddLaws.zero_add]
  | cons y ys ih =>
    intro x
    simp only [List.foldl_cons]
    rw [ih (x + y), ih (zero + y), AddLaws.zero_add, AddLaws.add_assoc]

theorem sumList_append (l1 l2 : List S) : sumList (l1 ++ l2) = sumList l1 + sumList l2 := by
  unfold sumList
  rw [List.foldl_append, foldl_add_start]

theorem sumList_single (x : S) : sumList [x] = x := by
  simp [sumList, AddLaws.zero_add]

theorem sumRange_succ (n : Nat) (F : Nat → S) : sumRange (n + 1) F = sumRange n F + F n := by
  unfold sumRange
  rw [List.range_succ, List.map_append, sumList_append]
  simp [sumList_single]

/-- a flat sum over `a·b` terms is the nested sum (commutative-monoid laws) -/
theorem sumRange_mul (a b : Nat) (g : Nat → S) :
    sumRange (a * b) g = sumRange a (fun i => sumRange b (fun j => g (i * b + j))) := by
  induction a with
  | zero => simp [sumRange]
  | succ a ih =>
    rw [sumRange_succ, ← ih]
    unfold sumRange
    rw [Nat.succ_mul, List.range_add, List.map_append, sumList_append, List.map_map]
    rfl

end Corgi

namespace Corgi

theorem dm (a n b : Nat) (hb : b < n) : (a * n + b) / n = a ∧ (a * n + b) % n = b := by
  have hn : 0 < n := by omega
  constructor
  · rw [Nat.mul_comm, Nat.mul_add_div hn, Nat.div_eq_of_lt hb, Nat.add_zero]
  · rw [Nat.mul_comm, Nat.mul_add_mod, Nat.mod_eq_of_lt hb]

/-- the patch position `(w, k, mm, nn)` is read from `image[k, mm + sr·(w / oC), nn + sc·(w % oC)]` -/
theorem unrollIdx_decomp (C R D sr sc fr fc oC w k mm nn : Nat) (hk : k < D) (hmm : mm < fr) (hnn : nn < fc) :
    unrollIdx C R D sr sc fr fc oC (w * (D * (fr * fc)) + (k * (fr * fc) + mm * fc + nn))
      = (nn + sc * (w % oC)) + C * ((mm + sr * (w / oC)) + R * k) := by
  have e : w * (D * (fr * fc)) + (k * (fr * fc) + mm * fc + nn) = ((w * D + k) * fr + mm) * fc + nn := by
    simp only [Nat.add_mul, Nat.mul_assoc, Nat.add_assoc]
  rw [e]
  unfold unrollIdx
  obtain ⟨d1, m1⟩ := dm ((w * D + k) * fr + mm) fc nn hnn
  obtain ⟨d2, m2⟩ := dm (w * D + k) fr mm hmm
  obtain ⟨d3, m3⟩ := dm w D k hk
  have q2 : (((w * D + k) * fr + mm) * fc + nn) / (fc * fr) = w * D + k := by
    rw [← Nat.div_div_eq_div_mul, d1, d2]
  have q3 : (((w * D + k) * fr + mm) * fc + nn) / (fc * fr * D) = w := by
    rw [← Nat.div_div_eq_div_mul, q2, d3]
  have q4 : (((w * D + k) * fr + mm) * fc + nn) / (fc * fr * D * oC) = w / oC := by
    rw [← Nat.div_div_eq_div_mul, q3]
  simp only [m1, d1, m2, q2, m3, q3, q4]

variable {S : Type} [Add S] [Mul S] [Neg S] [Sub S] [ScalarOps S]

/-- the multi-index of position `((q*a + i)*b + j)*c + l` in `L ++ [a, b, c]` -/
theorem unflatten_append3 (L : List Nat) (a b c q i j l : Nat) (hpos : ∀ d ∈ L, 1 ≤ d) (hi : i < a) (hj : j < b)
    (hl : l < c) (hq : q < prod L) :
    unflatten (L ++ [a, b, c]) (((q * a + i) * b + j) * c + l) = unflatten L q ++ [i, j, l] := by
  have h : L ++ [a, b, c] = (L ++ [a]) ++ [b, c] := by simp
  rw [h, unflatten_append2 (L ++ [a]) b c (q * a + i) j l
    (by intro d hd; simp at hd; rcases hd with hd | hd; exact hpos d hd; omega) hj hl
    (by rw [prod_snoc]; exact idx2_lt _ _ _ _ hq hi),
    unflatten_append_last L a q i hpos hi hq]
  simp

theorem rowMajor_snoc3 (L I : List Nat) (a b c i j l : Nat) (h : I.length = L.length) :
    rowMajor (L ++ [a, b, c]) (I ++ [i, j, l]) = rowMajor L I * (a * b * c) + (i * (b * c) + j * c + l) := by
  rw [rowMajor_append _ _ _ _ h, prod3]
  simp [rowMajor, prod, Nat.add_assoc]

theorem bdims_nil_right (B : List Nat) : bdims B [] = B := by
  unfold bdims
  cases h : B.reverse with
  | nil => simp [bdimsRev]; exact (List.reverse_eq_nil_iff.mp h)
  | cons x xs => simp [bdimsRev, ← h]

theorem compat_nil_right (B : List Nat) : Compat B [] = true := by
  unfold Compat; cases B.reverse <;> rfl

end Corgi

namespace Corgi
variable {S : Type} [Add S] [Mul S] [Neg S] [Sub S] [ScalarOps S] [AddLaws S]

theorem sumRange_congr (n : Nat) (F G : Nat → S) (h : ∀ i, i < n → F i = G i) : sumRange n F = sumRange n G := by
  unfold sumRange
  congr 1
  apply List.map_congr_left
  intro i hi
  exact h i (by simpa using hi)

theorem getD_map_range (n : Nat) (f : Nat → S) (i : Nat) (h : i < n) :
    ((List.range n).map f).getD i zero = f i := by
  simp [List.getD_eq_getElem?_getD, h]

/-- **C06.**  For a well-formed image `B ++ [D, R, C]` (any batch dimensions `B`, none included) and
    well-formed filters `[K, D, fr, fc]` with `fr ≤ R`, `fc ≤ C` and strides `≥ 1`, over scalars whose
    addition is a commutative monoid, `conv` returns the sliding-window tensor: dimensions
    `B ++ [K, (R−fr)/sr+1, (C−fc)/sc+1]`, entry `[b.., f, y, x] = Σ_k Σ_m Σ_n image[b.., k, y·sr+m, x·sc+n] · filter[f, k, m, n]`. -/
theorem conv_spec (B : List Nat) (D R C K fr fc sr sc : Nat) (iv fv : List S)
    (hwi : (⟨B ++ [D, R, C], iv⟩ : Tensor S).WF) (hwf : (⟨[K, D, fr, fc], fv⟩ : Tensor S).WF)
    (hfr : fr ≤ R) (hfc : fc ≤ C) (hsr : 1 ≤ sr) (hsc : 1 ≤ sc) :
    conv (⟨B ++ [D, R, C], iv⟩ : Tensor S) ⟨[K, D, fr, fc], fv⟩ sr sc
      = .ok (specConv (⟨B ++ [D, R, C], iv⟩ : Tensor S) ⟨[K, D, fr, fc], fv⟩ sr sc) := by
  have hposB : ∀ d ∈ B, 1 ≤ d := fun d hd => hwi.1 d (by simp [hd])
  have hD : 1 ≤ D := hwi.1 D (by simp)
  have hR : 1 ≤ R := hwi.1 R (by simp)
  have hC : 1 ≤ C := hwi.1 C (by simp)
  have hK : 1 ≤ K := hwf.1 K (by simp)
  have hfr1 : 1 ≤ fr := hwf.1 fr (by simp)
  have hfc1 : 1 ≤ fc := hwf.1 fc (by simp)
  have hleni : iv.length = prod B * (D * R * C) := by
    have := hwi.2; simp only [prod_append, prod3] at this; exact this.symm
  have hlenf : fv.length = K * D * fr * fc := by
    have := hwf.2; simp [prod, Nat.mul_assoc] at this; simp [Nat.mul_assoc]; exact this.symm
  generalize hoR : (R - fr) / sr + 1 = oR
  generalize hoC : (C - fc) / sc + 1 = oC
  have hoR1 : 1 ≤ oR := by rw [← hoR]; exact Nat.succ_pos _
  have hoC1 : 1 ≤ oC := by rw [← hoC]; exact Nat.succ_pos _
  have hP1 : 1 ≤ D * (fr * fc) := Nat.mul_pos hD (Nat.mul_pos hfr1 hfc1)
  have hW1 : 1 ≤ oR * oC := Nat.mul_pos hoR1 hoC1
  -- run the code
  have hprm : convParams (B ++ [D, R, C]) [K, D, fr, fc] sr sc = .ok (D, fr, fc, (R - fr) / sr + 1, (C - fc) / sc + 1) := by
    unfold convParams
    have d3 : dimFromEnd (B ++ [D, R, C]) 3 = .ok D := by simp [dimFromEnd, getR, pure, Except.pure]
    have d2 : dimFromEnd (B ++ [D, R, C]) 2 = .ok R := by simp [dimFromEnd, getR, pure, Except.pure]
    have d1 : dimFromEnd (B ++ [D, R, C]) 1 = .ok C := by simp [dimFromEnd, getR, pure, Except.pure]
    have f2 : dimFromEnd [K, D, fr, fc] 2 = .ok fr := by simp [dimFromEnd, getR, pure, Except.pure]
    have f1 : dimFromEnd [K, D, fr, fc] 1 = .ok fc := by simp [dimFromEnd, getR, pure, Except.pure]
    have e0 : ¬ ((B ++ [D, R, C]).length = 0) := by simp
    have e3 : (decide ((B ++ [D, R, C]).length ≥ 3) && decide (([K, D, fr, fc] : List Nat).length ≥ 3)) = true := by simp
    have c1 : (decide (R < fr) || decide (C < fc)) = false := by simp; omega
    have c2 : (decide (sr = 0) || decide (sc = 0)) = false := by simp; omega
    simp only [e0, if_false, e3, Bool.not_true, Bool.false_eq_true, d3, d2, d1, f2, f1, c1, c2, bind, Except.bind,
      pure, Except.pure]
  unfold conv
  simp only [hprm, bind, Except.bind]
  rw [unroll_flat B D R C sr sc fr fc iv hposB hD hR hC hleni hfr hfc hfr1 hfc1 hsr hsc, hoR, hoC]
  simp only []
  have dl : dimFromEnd (B ++ [oR * oC, D * (fr * fc)]) 1 = .ok (D * (fr * fc)) := by
    simp [dimFromEnd, getR, pure, Except.pure]
  simp only [dl]
  have hsz : D * (fr * fc) / D = fr * fc := Nat.mul_div_cancel_left _ (by omega)
  have hrs : reshape (⟨[K, D, fr, fc], fv⟩ : Tensor S)
      (([K, D, fr, fc] : List Nat).take (([K, D, fr, fc] : List Nat).length - 3) ++ [D * (fr * fc) / D * D])
      = .ok ⟨[K, fr * fc * D], fv⟩ := by
    rw [hsz]
    have ht : ([K, D, fr, fc] : List Nat).take (([K, D, fr, fc] : List Nat).length - 3) ++ [fr * fc * D] = [K, fr * fc * D] := by
      simp
    rw [ht]
    exact mkq_ok _ _ (by intro d hd; simp at hd; rcases hd with rfl | rfl; exact hK; exact Nat.mul_pos (Nat.mul_pos hfr1 hfc1) hD)
      (by rw [prod2]; show K * (fr * fc * D) = fv.length; rw [hlenf]; simp only [Nat.mul_assoc, Nat.mul_comm, Nat.mul_left_comm])
  rw [hrs]
  simp only []
  -- the matrix product
  generalize huv : (List.range (prod B * (oR * oC * D * (fr * fc)))).map (fun p =>
      iv.getD (p / (oR * oC * D * (fr * fc)) * (D * R * C)
        + unrollIdx C R D sr sc fr fc oC (p % (oR * oC * D * (fr * fc)))) zero) = uv
  have hwu : (⟨B ++ [oR * oC, D * (fr * fc)], uv⟩ : Tensor S).WF := by
    refine ⟨?_, ?_⟩
    · intro d hd; simp at hd; rcases hd with hd | hd | hd
      · exact hposB d hd
      · omega
      · omega
    · rw [← huv]; simp [prod_append, prod2, Nat.mul_assoc]
  have hwm : (⟨[K, fr * fc * D], fv⟩ : Tensor S).WF := by
    refine ⟨?_, ?_⟩
    · intro d hd; simp at hd; rcases hd with rfl | rfl
      · exact hK
      · exact Nat.mul_pos (Nat.mul_pos hfr1 hfc1) hD
    · rw [prod2, hlenf]; simp only [Nat.mul_assoc, Nat.mul_comm, Nat.mul_left_comm]
  have hmm := matmul_flat_none (⟨B ++ [oR * oC, D * (fr * fc)], uv⟩ : Tensor S) ⟨[K, fr * fc * D], fv⟩ false true
    B [] (oR * oC) (D * (fr * fc)) K (fr * fc * D) rfl rfl hwu hwm (compat_nil_right B)
    (by simp only [Bool.false_eq_true, if_false, if_true, Nat.mul_comm, Nat.mul_left_comm])
  simp only [Bool.false_eq_true, if_false, if_true, bdims_nil_right] at hmm
  rw [hmm]
  simp only []
  generalize hmv : (List.range (prod B * (oR * oC * K))).map (fun p =>
      mmEntry B [] (oR * oC) (D * (fr * fc)) K (fr * fc * D) (oR * oC) K (D * (fr * fc)) false true uv fv
        (fun _ => zero) (unflatten B (p / (oR * oC * K))) (p % (oR * oC * K))) = mv
  rw [expand_flat B oR oC K mv hposB hoR1 hoC1 hK (by rw [← hmv]; simp)]
  -- the specification
  congr 1
  simp only [specConv, Tensor.ofFn]
  have t3 : (B ++ [D, R, C]).take ((B ++ [D, R, C]).length - 3) = B := by simp
  have g3 : (B ++ [D, R, C]).getD ((B ++ [D, R, C]).length - 3) 0 = D := by simp [List.getD_eq_getElem?_getD]
  have g2 : (B ++ [D, R, C]).getD ((B ++ [D, R, C]).length - 2) 0 = R := by
    have : (B ++ [D, R, C]).length - 2 = B.length + 1 := by simp
    rw [this]; simp [List.getD_eq_getElem?_getD]
  have g1 : (B ++ [D, R, C]).getD ((B ++ [D, R, C]).length - 1) 0 = C := by
    have : (B ++ [D, R, C]).length - 1 = B.length + 2 := by simp
    rw [this]; simp [List.getD_eq_getElem?_getD]
  simp only [t3, g3, g2, g1, List.getD_cons_zero, List.getD_cons_succ, hoR, hoC]
  congr 1
  have hN : prod (B ++ [K, oR, oC]) = prod B * (oR * oC * K) := by
    rw [prod_append, prod3]; congr 1; simp only [Nat.mul_comm, Nat.mul_left_comm]
  rw [hN]
  apply List.map_congr_left
  intro o ho
  have ho' : o < prod B * (oR * oC * K) := by simpa using ho
  have hWK : 0 < oR * oC * K := Nat.mul_pos hW1 hK
  -- coordinates of `o`
  generalize hb : o / (oR * oC * K) = b
  generalize hq0 : o % (oR * oC * K) = q0
  have hbB : b < prod B := by
    rw [← hb]; rw [Nat.mul_comm] at ho'; exact (Nat.div_lt_iff_lt_mul hWK).mpr (by rw [Nat.mul_comm]; exact ho')
  have hq0lt : q0 < oR * oC * K := by rw [← hq0]; exact Nat.mod_lt _ hWK
  generalize hf : q0 / (oR * oC) = f
  generalize hw : q0 % (oR * oC) = w
  have hfK : f < K := by
    rw [← hf]; apply (Nat.div_lt_iff_lt_mul hW1).mpr; rw [Nat.mul_comm K]; exact hq0lt
  have hwW : w < oR * oC := by rw [← hw]; exact Nat.mod_lt _ hW1
  have hy : w / oC < oR := by
    apply (Nat.div_lt_iff_lt_mul hoC1).mpr; exact hwW
  have hx : w % oC < oC := Nat.mod_lt _ hoC1
  have ho_eq : o = ((b * K + f) * oR + w / oC) * oC + w % oC := by
    have e1 := Nat.div_add_mod o (oR * oC * K)
    have e2 := Nat.div_add_mod q0 (oR * oC)
    have e3 := Nat.div_add_mod w oC
    rw [hb, hq0] at e1; rw [hf, hw] at e2
    calc o = oR * oC * K * b + q0 := e1.symm
      _ = oR * oC * K * b + (oR * oC * f + w) := by rw [e2]
      _ = oR * oC * K * b + (oR * oC * f + (oC * (w / oC) + w % oC)) := by rw [e3]
      _ = ((b * K + f) * oR + w / oC) * oC + w % oC := by ring
  have hidx : unflatten (B ++ [K, oR, oC]) o = unflatten B b ++ [f, w / oC, w % oC] := by
    conv => lhs; rw [ho_eq]
    exact unflatten_append3 B K oR oC b f (w / oC) (w % oC) hposB hfK hy hx hbB
  have hIlen : (unflatten B b).length = B.length := unflatten_length _ _
  have ht : (unflatten B b ++ [f, w / oC, w % oC]).take B.length = unflatten B b := by rw [← hIlen]; simp
  have hg0 : (unflatten B b ++ [f, w / oC, w % oC]).getD B.length 0 = f := by
    rw [← hIlen]; simp [List.getD_eq_getElem?_getD]
  have hg1 : (unflatten B b ++ [f, w / oC, w % oC]).getD (B.length + 1) 0 = w / oC := by
    rw [← hIlen]; simp [List.getD_eq_getElem?_getD]
  have hg2 : (unflatten B b ++ [f, w / oC, w % oC]).getD (B.length + 2) 0 = w % oC := by
    rw [← hIlen]; simp [List.getD_eq_getElem?_getD]
  rw [hidx, ht, hg0, hg1, hg2]
  -- the code's entry: the product entry `(b, w, f)`
  have hpidx : b * (oR * oC * K) + f + K * w < prod B * (oR * oC * K) := by
    have h1 : w * K + f < oR * oC * K := idx2_lt w (oR * oC) f K hwW hfK
    have h2 : (b + 1) * (oR * oC * K) ≤ prod B * (oR * oC * K) := Nat.mul_le_mul_right _ hbB
    have h3 : K * w = w * K := Nat.mul_comm _ _
    rw [Nat.add_mul, Nat.one_mul] at h2
    omega
  rw [← hmv, getD_map_range _ _ _ hpidx]
  have hp1 : (b * (oR * oC * K) + f + K * w) / (oR * oC * K) = b := by
    have := (dm b (oR * oC * K) (w * K + f) (idx2_lt w (oR * oC) f K hwW hfK)).1
    have e : b * (oR * oC * K) + f + K * w = b * (oR * oC * K) + (w * K + f) := by ring
    rw [e]; exact this
  have hp2 : (b * (oR * oC * K) + f + K * w) % (oR * oC * K) = w * K + f := by
    have := (dm b (oR * oC * K) (w * K + f) (idx2_lt w (oR * oC) f K hwW hfK)).2
    have e : b * (oR * oC * K) + f + K * w = b * (oR * oC * K) + (w * K + f) := by ring
    rw [e]; exact this
  obtain ⟨hq1, hq2⟩ := dm w K f hfK
  have hoffB : projOffset B (unflatten B b) = b := by
    rw [projOffset_full _ _ (unflatten_inRange hposB hbB), rowMajor_unflatten hbB]
  have hoffN : projOffset [] (unflatten B b) = 0 := by simp [projOffset]
  simp only [hp1, hp2, mmEntry, hq1, hq2, hoffB, hoffN, Bool.false_eq_true, if_false, if_true, AddLaws.zero_add,
    Nat.zero_mul, Nat.zero_add]
  -- regroup the flat sum into the nested one
  have hflat : ∀ g : Nat → S, sumList ((List.range (D * (fr * fc))).map g)
      = sumRange D (fun k => sumRange fr (fun mm => sumRange fc (fun nn => g (k * (fr * fc) + mm * fc + nn)))) := by
    intro g
    have h1 := sumRange_mul D (fr * fc) g
    unfold sumRange at h1 ⊢
    rw [h1]
    congr 1
    apply List.map_congr_left
    intro k _
    have h2 := sumRange_mul fr fc (fun u => g (k * (fr * fc) + u))
    unfold sumRange at h2
    rw [h2]
    congr 1
    apply List.map_congr_left
    intro mm _
    congr 1
    apply List.map_congr_left
    intro nn _
    congr 1
    ring
  rw [hflat]
  apply sumRange_congr; intro k hk
  apply sumRange_congr; intro mm hmm
  apply sumRange_congr; intro nn hnn
  -- one term
  have ht1 : k * (fr * fc) + mm * fc + nn < D * (fr * fc) := by
    have h1 : mm * fc + nn < fr * fc := idx2_lt mm fr nn fc hmm hnn
    have h2 := idx2_lt k D (mm * fc + nn) (fr * fc) hk h1
    omega
  have hjidx : b * (oR * oC * (D * (fr * fc))) + (w * (D * (fr * fc)) + (k * (fr * fc) + mm * fc + nn))
      < prod B * (oR * oC * D * (fr * fc)) := by
    have h1 := idx2_lt w (oR * oC) _ (D * (fr * fc)) hwW ht1
    have h2 : (b + 1) * (oR * oC * (D * (fr * fc))) ≤ prod B * (oR * oC * (D * (fr * fc))) := Nat.mul_le_mul_right _ hbB
    rw [Nat.add_mul, Nat.one_mul] at h2
    have e : oR * oC * D * (fr * fc) = oR * oC * (D * (fr * fc)) := by ring
    rw [e]; omega
  rw [← huv, getD_map_range _ _ _ hjidx]
  have e : oR * oC * D * (fr * fc) = oR * oC * (D * (fr * fc)) := by ring
  have hj := dm b (oR * oC * (D * (fr * fc))) (w * (D * (fr * fc)) + (k * (fr * fc) + mm * fc + nn))
    (idx2_lt w (oR * oC) _ (D * (fr * fc)) hwW ht1)
  rw [e, hj.1, hj.2, unrollIdx_decomp C R D sr sc fr fc oC w k mm nn hk hmm hnn]
  congr 1
  · simp only [Tensor.get]
    rw [rowMajor_snoc3 _ _ _ _ _ _ _ _ hIlen, rowMajor_unflatten hbB]
    congr 1
    ring
  · simp only [Tensor.get, rowMajor, prod]
    congr 1
    ring

end Corgi
