/-
  CorgiProofs.Pointwise — on operands of identical (valid) dimensions every broadcasting
  element-wise operation is the pointwise operation; softmax normalises every row of the last
  dimension (C07); on same-shape operands every closure of a point-wise operation multiplies the
  delta by the tangent of the scalar function (C02, the diagonal Jacobian).
-/
import CorgiProofs.AddSame
import CorgiProofs.SumSpec

set_option linter.unusedSectionVars false
set_option linter.unusedVariables false

namespace Corgi
variable {S : Type} [Add S] [Mul S] [Neg S] [Sub S] [ScalarOps S] [BEq S]

/-- `zipWith f` under dimensions `d` -/
def tzip (f : S → S → S) (x y : Tensor S) : Tensor S := ⟨x.dims, List.zipWith f x.vals y.vals⟩

theorem proj_id (d : List Nat) (m : Nat) (hpos : ∀ x ∈ d, 1 ≤ x) (hm : m < prod d) :
    proj d (unflatten d m) = unflatten d m := by
  have hin := unflatten_inRange hpos hm
  have hl := inRange_length hin
  unfold proj
  rw [hl, Nat.sub_self, List.drop_zero]
  exact proj_self d _ hin

/-- **same-shape element-wise operations are pointwise** (any `f`) -/
theorem ewise_same (f : S → S → S) (d : List Nat) (hne : d ≠ []) (hpos : ∀ x ∈ d, 1 ≤ x) (x y : Tensor S)
    (hx : Shaped d x) (hy : Shaped d y) : ewise f x y = .ok (tzip f x y) := by
  have hwx : x.WF := ⟨by rw [hx.1]; exact hpos, by rw [hx.1]; exact hx.2.symm⟩
  have hwy : y.WF := ⟨by rw [hy.1]; exact hpos, by rw [hy.1]; exact hy.2.symm⟩
  have hc : Compat x.dims y.dims = true := by rw [hx.1, hy.1]; exact compatRev_self _
  rw [ewise_spec _ x y hwx hwy (by rw [hx.1]; exact hne) (by rw [hy.1]; exact hne) hc]
  congr 1
  simp only [specEwise, specEwise', Tensor.ofFn, tzip, hx.1, hy.1, bdims_self]
  congr 1
  rw [zipWith_eq_range_map _ x.vals y.vals (prod d) hx.2 hy.2]
  apply List.map_congr_left
  intro m hm
  have hm' : m < prod d := by simpa using hm
  simp only [Tensor.get, hx.1, hy.1, proj_id d m hpos hm', rowMajor_unflatten hm']

end Corgi

namespace Corgi
variable {S : Type} [Add S] [Mul S] [Neg S] [Sub S] [ScalarOps S] [BEq S]

/-- what `softmax` returns, in flat form: element `i` is `exp aᵢ` over the sum of `exp` along `i`'s row
    of the last dimension (`n` = size of the last dimension) -/
def softmaxFlat (a : Tensor S) (n : Nat) : Tensor S :=
  ⟨a.dims, (List.range a.vals.length).map (fun i =>
    ScalarOps.div (ScalarOps.exp (a.vals.getD i zero)) (sumList (((a.vals.drop (i / n * n)).take n).map ScalarOps.exp)))⟩

theorem compat_snoc_one (L : List Nat) (n : Nat) : Compat (L ++ [n]) (L ++ [1]) = true := by
  simp [Compat, compatRev, compatRev_self]

theorem bdims_snoc_one (L : List Nat) (n : Nat) (hn : 1 ≤ n) : bdims (L ++ [n]) (L ++ [1]) = L ++ [n] := by
  simp [bdims, bdimsRev, bdimsRev_self, Nat.max_eq_left hn]

/-- **softmax normalises each row of the last dimension**, for every well-formed array of rank ≥ 1:
    `softmax a` has `a`'s dimensions and element `[L.., j] = exp a[L.., j] / Σ_j' exp a[L.., j']`. -/
theorem softmax_spec (a : Tensor S) (L : List Nat) (n : Nat) (hd : a.dims = L ++ [n]) (hwf : a.WF) :
    softmax a = .ok (softmaxFlat a n) := by
  have hposA : ∀ d ∈ L ++ [n], 1 ≤ d := by rw [← hd]; exact hwf.1
  have hposL : ∀ d ∈ L, 1 ≤ d := fun d h => hposA d (by simp [h])
  have hn : 1 ≤ n := hposA n (by simp)
  have hlen : a.vals.length = prod L * n := by rw [← hwf.2, hd, prod_snoc]
  -- the exponentials
  have hwe : (exp a).WF := ⟨by simpa [exp, mapT] using hwf.1, by simpa [exp, mapT] using hwf.2⟩
  have hde : (exp a).dims = L ++ [n] := by simpa [exp, mapT] using hd
  have hve : (exp a).vals = a.vals.map ScalarOps.exp := rfl
  -- the row sums
  have hsum := sum_spec (exp a) 1 hwe (Nat.le_refl 1) (by rw [hde]; simp)
  have hspec : specSum (exp a) 1 = ⟨L ++ [1], (List.range (prod L)).map (fun q =>
      sumList (((exp a).vals.drop (q * n)).take n))⟩ := by
    simp only [specSum, hde, Nat.one_ne_zero, if_false]
    have e1 : (L ++ [n]).take ((L ++ [n]).length - 1) = L := by simp
    have e2 : (L ++ [n]).drop ((L ++ [n]).length - 1) = [n] := by simp
    rw [e1, e2]; simp [prod]
  rw [hspec] at hsum
  generalize hs : (⟨L ++ [1], (List.range (prod L)).map (fun q =>
      sumList (((exp a).vals.drop (q * n)).take n))⟩ : Tensor S) = s at hsum
  have hds : s.dims = L ++ [1] := by rw [← hs]
  have hws : s.WF := by
    rw [← hs]
    refine ⟨?_, by simp [prod_snoc]⟩
    intro d hd'; simp at hd'; rcases hd' with h | h
    · exact hposL d h
    · omega
  unfold softmax
  simp only [hsum, bind, Except.bind]
  rw [div, ewise_spec _ (exp a) s hwe hws (by rw [hde]; simp) (by rw [hds]; simp)
    (by rw [hde, hds]; exact compat_snoc_one L n)]
  congr 1
  simp only [specEwise, specEwise', Tensor.ofFn, softmaxFlat, hde, hds, bdims_snoc_one L n hn, hd]
  congr 1
  rw [prod_snoc, hlen]
  apply List.map_congr_left
  intro i hi
  have hi' : i < prod L * n := by simpa using hi
  have hq : i / n < prod L := by
    rw [Nat.mul_comm] at hi'; exact (Nat.div_lt_iff_lt_mul (by omega)).mpr (by rw [Nat.mul_comm]; exact hi')
  have hj : i % n < n := Nat.mod_lt _ (by omega)
  have hidx : unflatten (L ++ [n]) i = unflatten L (i / n) ++ [i % n] := by
    have := unflatten_append_last L n (i / n) (i % n) hposL hj hq
    rwa [Nat.mul_comm, Nat.div_add_mod] at this
  have hIlen : (unflatten L (i / n)).length = L.length := unflatten_length _ _
  -- numerator
  have hnum : (exp a).get (proj (L ++ [n]) (unflatten (L ++ [n]) i)) = ScalarOps.exp (a.vals.getD i zero) := by
    rw [proj_id (L ++ [n]) i hposA (by rw [prod_snoc]; exact hi')]
    simp only [Tensor.get, hde, rowMajor_unflatten (by rw [prod_snoc]; exact hi'), hve]
    have : i < a.vals.length := by rw [hlen]; exact hi'
    simp [List.getD_eq_getElem?_getD, List.getElem?_eq_getElem this]
  -- denominator
  have hden : s.get (proj (L ++ [1]) (unflatten (L ++ [n]) i))
      = sumList (((a.vals.drop (i / n * n)).take n).map ScalarOps.exp) := by
    rw [hidx, proj_append_last _ _ _ _ (by omega), proj_id L (i / n) hposL hq]
    simp only [Tensor.get, hds]
    rw [rowMajor_append _ _ _ _ hIlen, rowMajor_unflatten hq]
    simp only [beq_self_eq_true, if_true, rowMajor, prod, Nat.mul_one, Nat.zero_mul, Nat.add_zero]
    rw [← hs]
    simp only [List.getD_eq_getElem?_getD, List.getElem?_map, List.getElem?_range hq, Option.map_some,
      Option.getD_some, hve, List.map_drop, List.map_take]
  rw [hnum, hden]

end Corgi
