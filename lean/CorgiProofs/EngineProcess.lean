/-
  CorgiProofs.EngineProcess — L3a, second half: the delivery / recursion skeleton of `backward`.

  From counts that equal the tracked in-degrees inside the reachable graph, a pass that completes
  (returns `ok`) never underflows a counter, enters every reachable node exactly once, only after
  every consumer of that node in the graph has delivered, and leaves all counters at zero and all
  pending deltas empty.  Value-free: only counts, flags and the Some/None pattern are used.
-/
import CorgiProofs.EngineCount

set_option linter.unusedSectionVars false

namespace Corgi
open Classical

variable {S : Type} [Add S] [Mul S] [Neg S] [Sub S] [ScalarOps S] [BEq S]

/-- nodes entered so far (most recent first) -/
def logN (σ : EState S) : List Nat := σ.log.map (·.1)

/-- A closure is lawful when it answers with one entry per stored operand, `Some` exactly for the
    operands whose saved tracking flag is set. -/
def Graph.Lawful (G : Graph S) : Prop :=
  ∀ n cl x ds, G.vjp n = some cl → cl ((G.kids n).map (·.tracked)) x = .ok ds →
    ds.map Option.isSome = (G.kids n).map (·.tracked)

/-- every node of the log was entered after all its consumers in the reachable graph -/
def LogOrder (G : Graph S) (root : Nat) : List Nat → Prop
  | [] => True
  | n :: l => (∀ p, Reach G root p → 0 < edges (G.kids p) n → p ∈ l) ∧ LogOrder G root l

/-- tracked edges into `m` from reachable nodes that have not been entered yet -/
noncomputable def U (G : Graph S) (root B : Nat) (log : List Nat) (m : Nat) : Nat :=
  indeg G (fun p => Reach G root p ∧ p ∉ log) m B

theorem U_cons (G : Graph S) (root B : Nat) (log : List Nat) (m n : Nat) (hn : n < B)
    (hR : Reach G root n) (hnot : n ∉ log) :
    U G root B log m = U G root B (n :: log) m + edges (G.kids n) m := by
  unfold U
  have h1 := indeg_insert G (fun p => Reach G root p ∧ p ∉ n :: log) m n (by simp) B hn
  rw [← h1]
  apply indeg_congr
  intro p _
  constructor
  · intro ⟨hp, hl⟩
    by_cases hpn : p = n
    · exact Or.inr hpn
    · exact Or.inl ⟨hp, by simp [hpn, hl]⟩
  · intro h
    rcases h with ⟨hp, hl⟩ | rfl
    · exact ⟨hp, fun hin => hl (by simp [hin])⟩
    · exact ⟨hR, hnot⟩

structure CInv (G : Graph S) (root B : Nat) (σ : EState S) (pend : Nat → Nat) : Prop where
  acct : ∀ m, σ.cnt m = U G root B (logN σ) m + pend m
  sub : ∀ m ∈ logN σ, Reach G root m
  zero : ∀ m ∈ logN σ, σ.cnt m = 0
  nodup : (logN σ).Nodup
  ord : LogOrder G root (logN σ)
  dlog : ∀ m ∈ logN σ, σ.delta m = none
  dout : ∀ m, ¬ Reach G root m → σ.delta m = none

/-- unentered reachable nodes other than the root (and other than `ex`) still expect a delivery -/
def Alive (G : Graph S) (root : Nat) (σ : EState S) (ex : Nat) : Prop :=
  ∀ m, Reach G root m → m ∉ logN σ → m ≠ root → m ≠ ex → 1 ≤ σ.cnt m

theorem deliver_nil (rec : Nat → Bool → EState S → R (EState S)) (ks : List Slot) (σ : EState S) :
    deliver rec ks [] σ = .ok σ := by
  cases ks <;> rfl

theorem deliver_none (rec : Nat → Bool → EState S → R (EState S)) (s : Slot) (ss : List Slot)
    (ds : List (Option (Tensor S))) (σ : EState S) :
    deliver rec (s :: ss) (none :: ds) σ = deliver rec ss ds σ := by
  simp [deliver]

/-- what a successful delivery step did -/
theorem deliver_some_inv {rec : Nat → Bool → EState S → R (EState S)} {s : Slot} {ss : List Slot}
    {d : Tensor S} {ds : List (Option (Tensor S))} {σ σ' : EState S}
    (h : deliver rec (s :: ss) (some d :: ds) σ = .ok σ') :
    ∃ nd σ3, σ.cnt s.node ≠ 0 ∧
      (if σ.cnt s.node = 1 then
          rec s.node s.keep { σ with delta := upd σ.delta s.node (some nd), cnt := upd σ.cnt s.node (σ.cnt s.node - 1) }
        else pure { σ with delta := upd σ.delta s.node (some nd), cnt := upd σ.cnt s.node (σ.cnt s.node - 1) }) = .ok σ3 ∧
      deliver rec ss ds σ3 = .ok σ' := by
  simp only [deliver, bind, Except.bind] at h
  cases h1 : flattenTo d s.dims with
  | error e => simp [h1] at h
  | ok d' =>
    simp only [h1] at h
    cases h2 : mergeDelta (σ.delta s.node) d' with
    | error e => simp [h2] at h
    | ok nd =>
      simp only [h2] at h
      by_cases hc : σ.cnt s.node = 0
      · simp [hc, throw, throwThe, MonadExceptOf.throw] at h
      · simp only [hc, if_false] at h
        refine ⟨nd, ?_⟩
        by_cases h1c : σ.cnt s.node = 1
        · rw [if_pos h1c] at h ⊢
          cases h3 : rec s.node s.keep { σ with delta := upd σ.delta s.node (some nd), cnt := upd σ.cnt s.node (σ.cnt s.node - 1) } with
          | error e => simp [h3] at h
          | ok σ3 =>
            simp only [h3] at h
            exact ⟨σ3, hc, rfl, h⟩
        · rw [if_neg h1c] at h ⊢
          exact ⟨_, hc, rfl, h⟩

theorem storeGrad_frame {n : Nat} {x : Tensor S} {σ σ' : EState S} (h : storeGrad n x σ = .ok σ') :
    σ'.cnt = σ.cnt ∧ σ'.delta = σ.delta ∧ σ'.log = σ.log := by
  simp only [storeGrad, bind, Except.bind] at h
  cases hm : mergeDelta (σ.grad n) x with
  | error e => simp [hm] at h
  | ok g => simp only [hm, pure, Except.pure] at h; cases h; exact ⟨rfl, rfl, rfl⟩

section
variable (G : Graph S) (root B : Nat) (wf : G.WF) (hrB : root < B)
include wf hrB

/-- The delivery loop preserves the invariant (given that entering a node does). -/
theorem deliver_inv (f : Nat)
    (ih : ∀ n keep σ σ' pend, n < f → Reach G root n → n ∉ logN σ → n < B → σ.cnt n = 0 →
        CInv G root B σ pend → Alive G root σ n → process G f n keep σ = .ok σ' →
        CInv G root B σ' pend ∧ Alive G root σ' root ∧ (∀ x ∈ n :: logN σ, x ∈ logN σ'))
    (n : Nat) (hnf : n ≤ f) (hnB : n < B) :
    ∀ (ks : List Slot) (ds : List (Option (Tensor S))) (σ σ' : EState S) (pend : Nat → Nat),
      (∀ s ∈ ks, s ∈ G.kids n) → ds.map Option.isSome = ks.map (·.tracked) → n ∈ logN σ →
      CInv G root B σ (fun m => pend m + edges ks m) → Alive G root σ root →
      deliver (process G f) ks ds σ = .ok σ' →
      CInv G root B σ' pend ∧ Alive G root σ' root ∧ (∀ x ∈ logN σ, x ∈ logN σ') := by
  intro ks
  induction ks with
  | nil =>
    intro ds σ σ' pend _ hds _ h hal hok
    have : ds = [] := by simpa using hds
    subst this
    rw [deliver_nil] at hok
    cases hok
    exact ⟨by simpa [edges] using h, hal, fun x hx => hx⟩
  | cons s ks ihks =>
    intro ds σ σ' pend hsub hds hn h hal hok
    have hs : s ∈ G.kids n := hsub s (by simp)
    have hsub' : ∀ t ∈ ks, t ∈ G.kids n := fun t ht => hsub t (by simp [ht])
    cases ds with
    | nil => simp at hds
    | cons d ds =>
      simp only [List.map_cons, List.cons.injEq] at hds
      obtain ⟨hd, hds'⟩ := hds
      cases d with
      | none =>
        -- an untracked operand: nothing is delivered
        have ht : s.tracked = false := by simpa using hd.symm
        rw [deliver_none] at hok
        apply ihks ds σ σ' pend hsub' hds' hn ?_ hal hok
        refine ⟨?_, h.sub, h.zero, h.nodup, h.ord, h.dlog, h.dout⟩
        intro m; have := h.acct m; simpa [edges, ht] using this
      | some d =>
        have ht : s.tracked = true := by simpa using hd.symm
        obtain ⟨nd, σ3, hc0, hrec, hrest⟩ := deliver_some_inv hok
        have hkn : s.node < n := wf n s hs
        have hRn : Reach G root n := h.sub n hn
        have hRk : Reach G root s.node := Reach.step s hRn hs ht
        have hknot : s.node ∉ logN σ := fun hin => hc0 (h.zero _ hin)
        -- the state after the merge and the decrement
        let σ2 : EState S := { σ with delta := upd σ.delta s.node (some nd), cnt := upd σ.cnt s.node (σ.cnt s.node - 1) }
        have hlog2 : logN σ2 = logN σ := rfl
        have hInv2 : CInv G root B σ2 (fun m => pend m + edges ks m) := by
          refine ⟨?_, h.sub, ?_, h.nodup, h.ord, ?_, ?_⟩
          · intro m
            have := h.acct m
            simp only [edges, ht, and_true] at this
            by_cases hm : m = s.node
            · subst hm; simp [σ2, upd, hlog2] at this ⊢; omega
            · have hm' : ¬ s.node = m := fun e => hm e.symm
              simp [σ2, upd, hm, hm', hlog2] at this ⊢; omega
          · intro m hm
            have hmk : m ≠ s.node := fun e => hknot (e ▸ hm)
            simp [σ2, upd, hmk, h.zero m hm]
          · intro m hm
            have hmk : m ≠ s.node := fun e => hknot (e ▸ hm)
            simp [σ2, upd, hmk, h.dlog m hm]
          · intro m hm
            have hmk : m ≠ s.node := fun e => hm (e ▸ hRk)
            simp [σ2, upd, hmk, h.dout m hm]
        by_cases h1 : σ.cnt s.node = 1
        · -- the count reaches zero: the operand is entered now
          simp only [h1, if_true] at hrec
          have hal2 : Alive G root σ2 s.node := by
            intro m hR hl hr hne
            have := hal m hR hl hr (fun e => hr e)
            simp [σ2, upd, hne]; exact this
          have hcall := ih s.node s.keep σ2 σ3 (fun m => pend m + edges ks m) (by omega) hRk hknot (by omega)
            (by simp [σ2, upd, h1]) hInv2 hal2 (by simpa [σ2, h1] using hrec)
          have := ihks ds σ3 σ' pend hsub' hds' (hcall.2.2 n (List.mem_cons_of_mem _ hn)) hcall.1 hcall.2.1 hrest
          exact ⟨this.1, this.2.1, fun x hx => this.2.2 x (hcall.2.2 x (List.mem_cons_of_mem _ hx))⟩
        · simp only [h1, if_false, pure, Except.pure] at hrec
          cases hrec
          have hal2 : Alive G root σ2 root := by
            intro m hR hl hr hne
            have := hal m hR hl hr hne
            by_cases hm : m = s.node
            · subst hm; simp [σ2, upd]; omega
            · simp [σ2, upd, hm]; exact this
          exact ihks ds σ2 σ' pend hsub' hds' hn hInv2 hal2 hrest

variable (lawful : G.Lawful)
include lawful

/-- Entering a node whose count is zero: it is logged once, its closure's answers are delivered, and
    the invariant is re-established for the caller. -/
theorem process_inv : ∀ (f n : Nat) (keep : Bool) (σ σ' : EState S) (pend : Nat → Nat), n < f →
    Reach G root n → n ∉ logN σ → n < B → σ.cnt n = 0 → CInv G root B σ pend → Alive G root σ n →
    process G f n keep σ = .ok σ' →
    CInv G root B σ' pend ∧ Alive G root σ' root ∧ (∀ x ∈ n :: logN σ, x ∈ logN σ') := by
  intro f
  induction f with
  | zero => intro n _ _ _ _ h; omega
  | succ f ih =>
    intro n keep σ σ' pend hnf hR hnot hB hz h hal hok
    simp only [process] at hok
    cases hdel : σ.delta n with
    | none => simp [hdel, throw, throwThe, MonadExceptOf.throw] at hok
    | some x =>
      simp only [hdel, bind, Except.bind] at hok
      -- the state right after the node is entered
      let σ0 : EState S := { σ with delta := upd σ.delta n none, log := (n, x) :: σ.log }
      have hlog0 : logN σ0 = n :: logN σ := rfl
      have hU0 : U G root B (logN σ) n = 0 := by have := h.acct n; omega
      have hInv0 : CInv G root B σ0 (fun m => pend m + edges (G.kids n) m) := by
        refine ⟨?_, ?_, ?_, ?_, ?_, ?_, ?_⟩
        · intro m
          have := h.acct m
          have hu := U_cons G root B (logN σ) m n hB hR hnot
          rw [hlog0]; simp only [σ0]; omega
        · intro m hm
          rw [hlog0] at hm; simp at hm
          rcases hm with rfl | hm
          · exact hR
          · exact h.sub m hm
        · intro m hm
          rw [hlog0] at hm; simp at hm
          rcases hm with rfl | hm
          · exact hz
          · exact h.zero m hm
        · rw [hlog0]; exact List.nodup_cons.mpr ⟨hnot, h.nodup⟩
        · rw [hlog0]
          refine ⟨?_, h.ord⟩
          intro p hp he
          -- an unentered reachable consumer would make `U … n` positive
          apply Classical.byContradiction
          intro hpl
          have hle := hp.le wf
          have hRroot : n ≤ root := hR.le wf
          have : edges (G.kids p) n ≤ U G root B (logN σ) n := by
            unfold U
            by_cases hpB : p < B
            · exact indeg_ge G _ n p ⟨hp, hpl⟩ B hpB
            · -- consumers of `n` are reachable, hence at most the root, hence below `B`
              exfalso; omega
          omega
        · intro m hm
          rw [hlog0] at hm; simp at hm
          rcases hm with rfl | hm
          · simp [σ0, upd]
          · have hmn : m ≠ n := fun e => hnot (e ▸ hm)
            simp [σ0, upd, hmn, h.dlog m hm]
        · intro m hm
          have hmn : m ≠ n := fun e => hm (e ▸ hR)
          simp [σ0, upd, hmn, h.dout m hm]
      have hal0 : Alive G root σ0 root := by
        intro m hRm hl hr hne
        rw [hlog0] at hl; simp at hl
        exact hal m hRm hl.2 hr hl.1
      -- the closure (if any) and the delivery loop
      have hmid : ∀ σ1, enter G (process G f) n x σ0 = .ok σ1 →
          CInv G root B σ1 pend ∧ Alive G root σ1 root ∧ (∀ x ∈ logN σ0, x ∈ logN σ1) := by
        intro σ1 h1
        unfold enter at h1
        cases hv : G.vjp n with
        | some cl =>
          simp only [hv, bind, Except.bind] at h1
          cases hcl : cl ((G.kids n).map (·.tracked)) x with
          | error e => simp [hcl] at h1
          | ok ds =>
            simp only [hcl] at h1
            exact deliver_inv G root B wf hrB f ih n (by omega) hB (G.kids n) ds σ0 σ1 pend (fun _ h => h)
              (lawful n cl x ds hv hcl) (by rw [hlog0]; simp) hInv0 hal0 h1
        | none =>
          simp only [hv] at h1
          by_cases he : (G.kids n).isEmpty = true
          · simp only [he, if_true, pure, Except.pure] at h1
            cases h1
            have hk : G.kids n = [] := by simpa using he
            refine ⟨?_, hal0, fun x hx => hx⟩
            have := hInv0
            simp only [hk, edges, Nat.add_zero] at this
            exact this
          · simp [he, throw, throwThe, MonadExceptOf.throw] at h1
      -- the final gradient accumulation does not touch counts, deltas or the log
      cases hm : enter G (process G f) n x σ0 with
      | error e => simp [σ0, hm] at hok
      | ok σ1 =>
        have hres := hmid σ1 hm
        simp only [σ0, hm] at hok
        have hσ' : σ'.cnt = σ1.cnt ∧ σ'.delta = σ1.delta ∧ σ'.log = σ1.log := by
          split at hok
          · exact storeGrad_frame hok
          · simp only [pure, Except.pure] at hok; cases hok; exact ⟨rfl, rfl, rfl⟩
        obtain ⟨e1, e2, e3⟩ := hσ'
        have hl : logN σ' = logN σ1 := by simp [logN, e3]
        refine ⟨⟨?_, ?_, ?_, ?_, ?_, ?_, ?_⟩, ?_, ?_⟩
        · intro m; rw [e1, hl]; exact hres.1.acct m
        · intro m hm'; rw [hl] at hm'; exact hres.1.sub m hm'
        · intro m hm'; rw [hl] at hm'; rw [e1]; exact hres.1.zero m hm'
        · rw [hl]; exact hres.1.nodup
        · rw [hl]; exact hres.1.ord
        · intro m hm'; rw [hl] at hm'; rw [e2]; exact hres.1.dlog m hm'
        · intro m hm'; rw [e2]; exact hres.1.dout m hm'
        · intro m hRm hl' hr hne; rw [hl] at hl'; rw [e1]; exact hres.2.1 m hRm hl' hr hne
        · intro y hy; rw [hl]; exact hres.2.2 y (by rw [hlog0]; exact hy)

end
end Corgi
