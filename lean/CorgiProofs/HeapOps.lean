/-
  CorgiProofs.HeapOps — every handle-level operation preserves the heap invariant, returns a valid
  handle, and only grows the heap.
-/
import CorgiProofs.HeapInv

set_option linter.unusedSectionVars false
set_option linter.unusedVariables false

namespace Corgi
variable {S : Type} [Add S] [Mul S] [Neg S] [Sub S] [ScalarOps S] [BEq S]

def OpInv (σ : State S) (r : R (State S × Handle)) : Prop :=
  ∀ σ' h, r = .ok (σ', h) → HeapInv σ' ∧ h.Valid σ' ∧ Mono σ σ'

theorem opInv_pure (σ σ1 : State S) (h : Handle) (hi : HeapInv σ1) (hv : h.Valid σ1) (m : Mono σ σ1) :
    OpInv σ (pure (σ1, h)) := by
  intro σ' h' e
  simp only [pure, Except.pure, Except.ok.injEq, Prod.mk.injEq] at e
  rw [← e.1, ← e.2]; exact ⟨hi, hv, m⟩

theorem opInv_alloc (σ : State S) (hi : HeapInv σ) (t : Tensor S) (kids : List Handle) (tag : Option (OpTag S))
    (attach : Bool) (label : String) (hk : ∀ k ∈ kids, k.Valid σ)
    (htag : attach = true → ∃ tg, tag = some tg ∧ tagOK tg kids) :
    OpInv σ (pure (σ.alloc t kids tag attach label)) := by
  intro σ' h' e
  simp only [pure, Except.pure, Except.ok.injEq] at e
  have := heapInv_alloc σ hi t kids tag attach label hk htag
  rw [e] at this; exact this

theorem opInv_bind (σ : State S) (r : R (State S × Handle)) (f : State S × Handle → R (State S × Handle))
    (h1 : OpInv σ r)
    (h2 : ∀ σ1 h, r = .ok (σ1, h) → HeapInv σ1 → h.Valid σ1 → Mono σ σ1 → OpInv σ1 (f (σ1, h))) :
    OpInv σ (r >>= f) := by
  intro σ' h' e
  simp only [bind, Except.bind] at e
  cases hr : r with
  | error x => simp [hr] at e
  | ok v =>
    obtain ⟨σ1, h⟩ := v
    simp only [hr] at e
    obtain ⟨a, b, c⟩ := h1 σ1 h hr
    obtain ⟨a', b', c'⟩ := h2 σ1 h hr a b c σ' h' e
    exact ⟨a', b', c.trans c'⟩

theorem opInv_bindR {α} (σ : State S) (r : R α) (f : α → R (State S × Handle))
    (h2 : ∀ a, r = .ok a → OpInv σ (f a)) : OpInv σ (r >>= f) := by
  intro σ' h' e
  simp only [bind, Except.bind] at e
  cases hr : r with
  | error x => simp [hr] at e
  | ok v => simp only [hr] at e; exact h2 v hr σ' h' e

theorem opInv_throw (σ : State S) (p : Panic) : OpInv σ (throw p : R (State S × Handle)) := by
  intro σ' h e; simp [throw, throwThe, MonadExceptOf.throw] at e

theorem valid2 {σ : State S} {a b : Handle} (ha : a.Valid σ) (hb : b.Valid σ) : ∀ k ∈ [a, b], k.Valid σ := by
  intro k hk; simp at hk; rcases hk with rfl | rfl <;> assumption

theorem valid1 {σ : State S} {a : Handle} (ha : a.Valid σ) : ∀ k ∈ [a], k.Valid σ := by
  intro k hk; simp at hk; rw [hk]; exact ha

theorem opInv_hEwise (tag : OpTag S) (f : Tensor S → Tensor S → R (Tensor S)) (σ : State S) (a b : Handle)
    (hi : HeapInv σ) (ha : a.Valid σ) (hb : b.Valid σ) (ht : tagOK tag [a, b]) :
    OpInv σ (hEwise tag f σ a b) := by
  unfold hEwise
  exact opInv_bindR σ _ _ (fun t _ => opInv_alloc σ hi t _ _ _ _ (valid2 ha hb) (fun _ => ⟨tag, rfl, ht⟩))

theorem opInv_hUnary (tag : OpTag S) (f : Tensor S → Tensor S) (σ : State S) (a : Handle)
    (hi : HeapInv σ) (ha : a.Valid σ) (ht : a.tracked = true → tagOK tag [a]) :
    OpInv σ (hUnary tag f σ a) :=
  opInv_alloc σ hi _ _ _ _ _ (valid1 ha) (fun h => ⟨tag, rfl, ht h⟩)

theorem tagOK_un {a : Handle} (h : a.tracked = true) : (1 : Nat) = 1 ∧ ∀ k ∈ [a], k.tracked = true := by
  refine ⟨rfl, ?_⟩; intro k hk; simp at hk; rw [hk]; exact h

theorem opInv_hNeg (σ : State S) (a : Handle) (hi : HeapInv σ) (ha : a.Valid σ) : OpInv σ (hNeg σ a) :=
  opInv_hUnary _ _ σ a hi ha (fun h => by simpa [tagOK] using h)
theorem opInv_hScale (σ : State S) (a : Handle) (s : S) (hi : HeapInv σ) (ha : a.Valid σ) : OpInv σ (hScale σ a s) :=
  opInv_hUnary _ _ σ a hi ha (fun h => by simpa [tagOK] using h)
theorem opInv_hPowf (σ : State S) (a : Handle) (s : S) (hi : HeapInv σ) (ha : a.Valid σ) : OpInv σ (hPowf σ a s) :=
  opInv_hUnary _ _ σ a hi ha (fun h => by simpa [tagOK] using h)
theorem opInv_hLn (σ : State S) (a : Handle) (hi : HeapInv σ) (ha : a.Valid σ) : OpInv σ (hLn σ a) :=
  opInv_hUnary _ _ σ a hi ha (fun h => by simpa [tagOK] using h)
theorem opInv_hExp (σ : State S) (a : Handle) (hi : HeapInv σ) (ha : a.Valid σ) : OpInv σ (hExp σ a) :=
  opInv_hUnary _ _ σ a hi ha (fun h => by simpa [tagOK] using h)
theorem opInv_hRecip (σ : State S) (a : Handle) (hi : HeapInv σ) (ha : a.Valid σ) : OpInv σ (hRecip σ a) :=
  opInv_hUnary _ _ σ a hi ha (fun h => by simpa [tagOK] using h)
theorem opInv_hRelu (σ : State S) (a : Handle) (hi : HeapInv σ) (ha : a.Valid σ) : OpInv σ (hRelu σ a) :=
  opInv_hUnary _ _ σ a hi ha (fun h => by simpa [tagOK] using h)
theorem opInv_hSigmoid (σ : State S) (a : Handle) (hi : HeapInv σ) (ha : a.Valid σ) : OpInv σ (hSigmoid σ a) :=
  opInv_hUnary _ _ σ a hi ha (fun h => by simpa [tagOK] using h)

theorem opInv_hAdd (σ : State S) (a b : Handle) (hi : HeapInv σ) (ha : a.Valid σ) (hb : b.Valid σ) : OpInv σ (hAdd σ a b) :=
  opInv_hEwise _ _ σ a b hi ha hb (by simp [tagOK])
theorem opInv_hMul (σ : State S) (a b : Handle) (hi : HeapInv σ) (ha : a.Valid σ) (hb : b.Valid σ) : OpInv σ (hMul σ a b) :=
  opInv_hEwise _ _ σ a b hi ha hb (by simp [tagOK])
theorem opInv_hDiv (σ : State S) (a b : Handle) (hi : HeapInv σ) (ha : a.Valid σ) (hb : b.Valid σ) : OpInv σ (hDiv σ a b) :=
  opInv_hEwise _ _ σ a b hi ha hb (by simp [tagOK])

theorem opInv_hSub (σ : State S) (a b : Handle) (hi : HeapInv σ) (ha : a.Valid σ) (hb : b.Valid σ) : OpInv σ (hSub σ a b) := by
  unfold hSub
  exact opInv_bind σ _ _ (opInv_hNeg σ b hi hb) (fun σ1 nb _ hi1 hv m => opInv_hAdd σ1 a nb hi1 (m.valid ha) hv)

theorem opInv_hAxpy (σ : State S) (s : S) (x y : Handle) (hi : HeapInv σ) (hx : x.Valid σ) (hy : y.Valid σ) :
    OpInv σ (hAxpy σ s x y) := by
  unfold hAxpy
  exact opInv_bind σ _ _ (opInv_hScale σ x s hi hx) (fun σ1 sx _ hi1 hv m => opInv_hAdd σ1 sx y hi1 hv (m.valid hy))

theorem opInv_hSum (σ : State S) (a : Handle) (k : Nat) (hi : HeapInv σ) (ha : a.Valid σ) : OpInv σ (hSum σ a k) := by
  unfold hSum
  split
  · exact opInv_pure σ σ a hi ha (Mono.refl σ)
  · exact opInv_bindR σ _ _ (fun t _ => opInv_alloc σ hi t _ _ _ _ (valid1 ha)
      (fun h => ⟨_, rfl, by simpa [tagOK] using h⟩))

theorem opInv_hReshape (σ : State S) (a : Handle) (dims : List Nat) (hi : HeapInv σ) (ha : a.Valid σ) :
    OpInv σ (hReshape σ a dims) := by
  unfold hReshape
  refine opInv_bindR σ _ _ (fun t _ => ?_)
  intro σ' h' e
  simp only [pure, Except.pure, Except.ok.injEq] at e
  have := heapInv_allocView σ hi t.dims a.buf [a] (some .reshape) a.tracked ha.2 (valid1 ha)
    (fun _ => ⟨_, rfl, by simp [tagOK]⟩)
  rw [e] at this; exact this

theorem opInv_hSoftmax (σ : State S) (a : Handle) (hi : HeapInv σ) (ha : a.Valid σ) : OpInv σ (hSoftmax σ a) := by
  unfold hSoftmax
  refine opInv_bind σ _ _ (opInv_hExp σ a hi ha) (fun σ1 e _ hi1 hv1 m1 => ?_)
  exact opInv_bind σ1 _ _ (opInv_hSum σ1 e 1 hi1 hv1) (fun σ2 s _ hi2 hv2 m2 => opInv_hDiv σ2 e s hi2 (m2.valid hv1) hv2)

theorem opInv_hMatmul (σ : State S) (a : Handle) (ta : Bool) (b : Handle) (tb : Bool) (c : Option Handle)
    (hi : HeapInv σ) (ha : a.Valid σ) (hb : b.Valid σ) (hc : ∀ x, c = some x → x.Valid σ) :
    OpInv σ (hMatmul σ a ta b tb c) := by
  unfold hMatmul
  apply opInv_bindR
  intro t _
  cases c with
  | some c =>
    refine opInv_alloc σ hi t _ _ _ _ ?_ (fun _ => ⟨_, rfl, by simp [tagOK]⟩)
    intro k hk; simp at hk; rcases hk with rfl | rfl | rfl
    · exact ha
    · exact hb
    · exact hc _ rfl
  | none =>
    simp only [hLeaf]
    obtain ⟨hi1, hv1, m1⟩ := heapInv_alloc σ hi ⟨[1], [zero]⟩ [] none false "" (by simp) (by simp)
    intro σ' h' e
    obtain ⟨x, y, z⟩ := opInv_alloc _ hi1 t [a, b, (σ.alloc ⟨[1], [zero]⟩ [] none false "").2] (some (.matmul ta tb))
      (a.tracked || b.tracked || false) "" (by
        intro k hk; simp at hk; rcases hk with rfl | rfl | rfl
        · exact m1.valid ha
        · exact m1.valid hb
        · exact hv1) (fun _ => ⟨_, rfl, by simp [tagOK]⟩) σ' h' e
    exact ⟨x, y, m1.trans z⟩

theorem opInv_hUnroll (σ : State S) (image : Handle) (sr sc fr fc : Nat) (hi : HeapInv σ) (ha : image.Valid σ) :
    OpInv σ (hUnroll σ image sr sc fr fc) := by
  unfold hUnroll
  refine opInv_bindR σ _ _ (fun t _ => ?_)
  refine opInv_bindR σ _ _ (fun _ _ => ?_)
  refine opInv_bindR σ _ _ (fun _ _ => ?_)
  refine opInv_bindR σ _ _ (fun _ _ => ?_)
  exact opInv_alloc σ hi t _ _ _ _ (valid1 ha) (fun _ => ⟨_, rfl, by simp [tagOK]⟩)

theorem opInv_hExpand (σ : State S) (a : Handle) (r c : Nat) (hi : HeapInv σ) (ha : a.Valid σ) : OpInv σ (hExpand σ a r c) := by
  unfold hExpand
  exact opInv_bindR σ _ _ (fun t _ => opInv_alloc σ hi t _ _ _ _ (valid1 ha)
    (fun h => ⟨_, rfl, by simpa [tagOK] using h⟩))

theorem opInv_hConv (σ : State S) (image filters : Handle) (sr sc : Nat) (hi : HeapInv σ)
    (ha : image.Valid σ) (hf : filters.Valid σ) : OpInv σ (hConv σ image filters sr sc) := by
  unfold hConv
  refine opInv_bindR σ _ _ (fun prm _ => ?_)
  refine opInv_bind σ _ _ (opInv_hUnroll σ image sr sc _ _ hi ha) (fun σ1 unrolled _ hi1 hv1 m1 => ?_)
  refine opInv_bindR σ1 _ _ (fun _ _ => ?_)
  refine opInv_bind σ1 _ _ (opInv_hReshape σ1 filters _ hi1 (m1.valid hf)) (fun σ2 fm _ hi2 hv2 m2 => ?_)
  refine opInv_bind σ2 _ _ (opInv_hMatmul σ2 unrolled false fm true none hi2 (m2.valid hv1) hv2 (by simp))
    (fun σ3 convolved _ hi3 hv3 m3 => ?_)
  exact opInv_hExpand σ3 convolved _ _ hi3 hv3

theorem opInv_hMse (σ : State S) (o t : Handle) (hi : HeapInv σ) (ho : o.Valid σ) (ht : t.Valid σ) : OpInv σ (hMse σ o t) := by
  unfold hMse
  refine opInv_bind σ _ _ (opInv_hSub σ t o hi ht ho) (fun σ1 d _ hi1 hv1 m1 => ?_)
  exact opInv_bind σ1 _ _ (opInv_hPowf σ1 d _ hi1 hv1) (fun σ2 p _ hi2 hv2 m2 => opInv_hScale σ2 p _ hi2 hv2)

theorem opInv_hXent (σ : State S) (o t : Handle) (hi : HeapInv σ) (ho : o.Valid σ) (ht : t.Valid σ) : OpInv σ (hXent σ o t) := by
  unfold hXent
  refine opInv_bindR σ _ _ (fun _ _ => ?_)
  refine opInv_bind σ _ _ (opInv_hNeg σ t hi ht) (fun σ1 nt _ hi1 hv1 m1 => ?_)
  refine opInv_bind σ1 _ _ (opInv_hLn σ1 o hi1 (m1.valid ho)) (fun σ2 lo _ hi2 hv2 m2 => ?_)
  exact opInv_bind σ2 _ _ (opInv_hMul σ2 nt lo hi2 (m2.valid hv1) hv2) (fun σ3 p _ hi3 hv3 m3 => opInv_hScale σ3 p _ hi3 hv3)

theorem opInv_hAct (σ : State S) (act : Act) (a : Handle) (hi : HeapInv σ) (ha : a.Valid σ) : OpInv σ (hAct σ act a) := by
  cases act
  · exact opInv_pure σ σ a hi ha (Mono.refl σ)
  · exact opInv_hRelu σ a hi ha
  · exact opInv_hSigmoid σ a hi ha
  · exact opInv_hSoftmax σ a hi ha

theorem opInv_layerForward (σ : State S) (l : Layer) (input : Handle) (hi : HeapInv σ) (hin : input.Valid σ)
    (hl : ∀ h ∈ layerParams l, h.Valid σ) : OpInv σ (layerForward σ l input) := by
  cases l with
  | dense w b act =>
    simp only [layerForward]
    have hw := hl w (by simp [layerParams]); have hb := hl b (by simp [layerParams])
    exact opInv_bind σ _ _ (opInv_hMatmul σ input false w true (some b) hi hin hw (by intro x hx; cases hx; exact hb))
      (fun σ1 r _ hi1 hv1 _ => opInv_hAct σ1 act r hi1 hv1)
  | conv f b sr sc act =>
    simp only [layerForward]
    have hf := hl f (by simp [layerParams]); have hb := hl b (by simp [layerParams])
    refine opInv_bind σ _ _ (opInv_hConv σ input f sr sc hi hin hf) (fun σ1 c _ hi1 hv1 m1 => ?_)
    exact opInv_bind σ1 _ _ (opInv_hAdd σ1 c b hi1 hv1 (m1.valid hb)) (fun σ2 r _ hi2 hv2 _ => opInv_hAct σ2 act r hi2 hv2)

end Corgi

namespace Corgi
variable {S : Type} [Add S] [Mul S] [Neg S] [Sub S] [ScalarOps S] [BEq S]

theorem customArity_ok {kind n : Nat} (h : customArity kind n = .ok ()) (kids : List Handle) (hn : kids.length = n) :
    tagOK (.custom kind : OpTag S) kids := by
  match kind, h with
  | 0, _ => trivial
  | 1, h =>
    simp only [tagOK, customArity] at h ⊢
    by_cases hc : n = 2
    · omega
    · simp [hc, throw, throwThe, MonadExceptOf.throw] at h
  | 2, h =>
    simp only [tagOK, customArity] at h ⊢
    by_cases hc : n = 1
    · omega
    · simp [hc, throw, throwThe, MonadExceptOf.throw] at h
  | 3, h =>
    simp only [tagOK, customArity] at h ⊢
    by_cases hc : n = 3
    · omega
    · simp [hc, throw, throwThe, MonadExceptOf.throw] at h
  | _ + 4, h => simp [customArity, throw, throwThe, MonadExceptOf.throw] at h

theorem opInv_hCustom (σ : State S) (kind : Nat) (label : String) (args : List Handle) (hi : HeapInv σ)
    (ha : ∀ k ∈ args, k.Valid σ) : OpInv σ (hCustom σ kind label args) := by
  unfold hCustom
  refine opInv_bindR σ _ _ (fun u hu => ?_)
  refine opInv_bindR σ _ _ (fun _ _ => ?_)
  refine opInv_bindR σ _ _ (fun _ _ => ?_)
  refine opInv_bindR σ _ _ (fun t _ => ?_)
  exact opInv_alloc σ hi t _ _ _ _ ha (fun _ => ⟨_, rfl, customArity_ok (by cases u; exact hu) args rfl⟩)

end Corgi
