/-
  CorgiProofs.HeapInv — the invariant of reachable heaps: stored operands are older than their
  consumer (so the recorded graph is well-founded), every recorded closure is lawful for its stored
  operands, and between commands every counter is zero and no delta is pending.  It is preserved by
  every command, so the engine theorems (C01, C09, C10, C11) apply in every reachable state.
-/
import CorgiProofs.Frame
import CorgiProofs.EngineTop

set_option linter.unusedSectionVars false

namespace Corgi
variable {S : Type} [Add S] [Mul S] [Neg S] [Sub S] [ScalarOps S] [BEq S]

def Handle.Valid (σ : State S) (h : Handle) : Prop := h.node < σ.nodes.size ∧ h.buf < σ.bufs.size

/-- the stored operands fit the closure: arity, and — for the closures that answer `Some`
    unconditionally — all operands tracked (such a node only exists if its operand was tracked) -/
def tagOK : OpTag S → List Handle → Prop
  | .add, k | .mul, k | .div, k | .custom 1, k => k.length = 2
  | .neg, k | .scale _, k | .powf _, k | .ln, k | .exp, k | .recip, k | .sum _, k | .relu, k | .sigmoid, k | .expand, k =>
    k.length = 1 ∧ ∀ h ∈ k, h.tracked = true
  | .reshape, k | .unroll _ _ _ _ _ _ _, k | .custom 2, k => k.length = 1
  | .matmul _ _, k | .custom 3, k => k.length = 3
  | .custom 0, _ => True
  | .custom _, _ => False

structure HeapInv (σ : State S) : Prop where
  sizes : σ.cnt.size = σ.nodes.size ∧ σ.delta.size = σ.nodes.size ∧ σ.grad.size = σ.nodes.size
  older : ∀ (n : Nat) (r : NodeRec S), σ.nodes[n]? = some r → ∀ k ∈ r.kids, k.node < n ∧ k.buf < σ.bufs.size
  tags : ∀ (n : Nat) (r : NodeRec S) (tag : OpTag S), σ.nodes[n]? = some r → r.op = some tag → tagOK tag r.kids
  noop : ∀ (n : Nat) (r : NodeRec S), σ.nodes[n]? = some r → r.op = none → r.kids = []
  clean : (∀ i, σ.cnt.getD i 0 = 0) ∧ (∀ i, σ.delta.getD i none = none)

/-- later states only grow: valid handles stay valid -/
structure Mono (σ σ' : State S) : Prop where
  nodes : σ.nodes.size ≤ σ'.nodes.size
  bufs : σ.bufs.size ≤ σ'.bufs.size
  env : σ'.env = σ.env
  layers : σ'.layers = σ.layers
  models : σ'.models = σ.models

theorem Mono.refl (σ : State S) : Mono σ σ := ⟨Nat.le_refl _, Nat.le_refl _, rfl, rfl, rfl⟩
theorem Mono.trans {a b c : State S} (h1 : Mono a b) (h2 : Mono b c) : Mono a c :=
  ⟨Nat.le_trans h1.1 h2.1, Nat.le_trans h1.2 h2.2, h2.env.trans h1.env, h2.layers.trans h1.layers,
   h2.models.trans h1.models⟩
theorem Mono.valid {σ σ' : State S} (m : Mono σ σ') {h : Handle} (hv : h.Valid σ) : h.Valid σ' :=
  ⟨Nat.lt_of_lt_of_le hv.1 m.1, Nat.lt_of_lt_of_le hv.2 m.2⟩

theorem getD_push_lt {α} (a : Array α) (x d : α) (i : Nat) (h : i < a.size) : (a.push x).getD i d = a.getD i d := by
  simp [Array.getD_eq_getD_getElem?, Array.getElem?_push_lt h, Array.getElem?_eq_getElem h]

theorem getD_push_ge {α} (a : Array α) (x d : α) (i : Nat) (hx : x = d) (h : a.size ≤ i) : (a.push x).getD i d = d := by
  simp only [Array.getD_eq_getD_getElem?]
  rcases Nat.lt_or_ge a.size i with h1 | h1
  · rw [Array.getElem?_eq_none (by simp; omega)]; rfl
  · have : i = a.size := by omega
    subst this; simp [hx]

/-- **Allocation preserves the invariant** when the stored operands are valid handles that fit the tag. -/
theorem heapInv_alloc (σ : State S) (hi : HeapInv σ) (t : Tensor S) (kids : List Handle) (tag : Option (OpTag S))
    (attach : Bool) (label : String) (hk : ∀ k ∈ kids, k.Valid σ)
    (htag : attach = true → ∃ tg, tag = some tg ∧ tagOK tg kids) :
    HeapInv (σ.alloc t kids tag attach label).1 ∧ (σ.alloc t kids tag attach label).2.Valid (σ.alloc t kids tag attach label).1
      ∧ Mono σ (σ.alloc t kids tag attach label).1 := by
  refine ⟨⟨?_, ?_, ?_, ?_, ?_⟩, ?_, ?_⟩
  · simp [State.alloc, hi.sizes.1, hi.sizes.2.1, hi.sizes.2.2]
  · intro n r hn k hkm
    simp only [State.alloc] at hn ⊢
    rcases Nat.lt_or_ge n σ.nodes.size with hlt | hge
    · rw [Array.getElem?_push_lt hlt] at hn
      have := hi.older n r (by rw [Array.getElem?_eq_getElem hlt]; exact hn) k hkm
      exact ⟨this.1, by simp only [Array.size_push]; omega⟩
    · rcases Nat.lt_or_ge σ.nodes.size n with h2 | h2
      · rw [Array.getElem?_eq_none (by simp; omega)] at hn; cases hn
      · have : n = σ.nodes.size := by omega
        subst this
        simp only [Array.getElem?_push_size, Option.some.injEq] at hn
        subst hn
        cases attach
        · simp at hkm
        · simp only [if_true] at hkm
          have := hk k hkm
          exact ⟨this.1, by simp only [Array.size_push]; have := this.2; omega⟩
  · intro n r tg hn hop
    simp only [State.alloc] at hn
    rcases Nat.lt_or_ge n σ.nodes.size with hlt | hge
    · rw [Array.getElem?_push_lt hlt] at hn
      exact hi.tags n r tg (by rw [Array.getElem?_eq_getElem hlt]; exact hn) hop
    · rcases Nat.lt_or_ge σ.nodes.size n with h2 | h2
      · rw [Array.getElem?_eq_none (by simp; omega)] at hn; cases hn
      · have : n = σ.nodes.size := by omega
        subst this
        simp only [Array.getElem?_push_size, Option.some.injEq] at hn
        subst hn
        cases attach
        · simp at hop
        · obtain ⟨tg', h1, h2⟩ := htag rfl
          simp only [if_true] at hop ⊢
          rw [h1] at hop; cases hop; exact h2
  · intro n r hn hop
    simp only [State.alloc] at hn
    rcases Nat.lt_or_ge n σ.nodes.size with hlt | hge
    · rw [Array.getElem?_push_lt hlt] at hn
      exact hi.noop n r (by rw [Array.getElem?_eq_getElem hlt]; exact hn) hop
    · rcases Nat.lt_or_ge σ.nodes.size n with h2 | h2
      · rw [Array.getElem?_eq_none (by simp; omega)] at hn; cases hn
      · have : n = σ.nodes.size := by omega
        subst this
        simp only [Array.getElem?_push_size, Option.some.injEq] at hn
        subst hn
        cases attach
        · rfl
        · obtain ⟨tg', h1, _⟩ := htag rfl
          simp only [if_true] at hop
          rw [h1] at hop; cases hop
  · constructor
    · intro i
      simp only [State.alloc]
      rcases Nat.lt_or_ge i σ.cnt.size with h | h
      · rw [getD_push_lt _ _ _ _ h]; exact hi.clean.1 i
      · exact getD_push_ge _ _ _ _ rfl h
    · intro i
      simp only [State.alloc]
      rcases Nat.lt_or_ge i σ.delta.size with h | h
      · rw [getD_push_lt _ _ _ _ h]; exact hi.clean.2 i
      · exact getD_push_ge _ _ _ _ rfl h
  · simp [Handle.Valid, State.alloc]
  · exact ⟨by simp [State.alloc], by simp [State.alloc], rfl, rfl, rfl⟩

end Corgi

namespace Corgi
variable {S : Type} [Add S] [Mul S] [Neg S] [Sub S] [ScalarOps S] [BEq S]

/-- a reshaped view: same buffer, new node -/
theorem heapInv_allocView (σ : State S) (hi : HeapInv σ) (dims : List Nat) (buf : Nat) (kids : List Handle)
    (tag : Option (OpTag S)) (attach : Bool) (hb : buf < σ.bufs.size) (hk : ∀ k ∈ kids, k.Valid σ)
    (htag : attach = true → ∃ tg, tag = some tg ∧ tagOK tg kids) :
    HeapInv (σ.allocView dims buf kids tag attach).1 ∧ (σ.allocView dims buf kids tag attach).2.Valid (σ.allocView dims buf kids tag attach).1
      ∧ Mono σ (σ.allocView dims buf kids tag attach).1 := by
  refine ⟨⟨?_, ?_, ?_, ?_, ?_⟩, ?_, ?_⟩
  · simp [State.allocView, hi.sizes.1, hi.sizes.2.1, hi.sizes.2.2]
  · intro n r hn k hkm
    simp only [State.allocView] at hn ⊢
    rcases Nat.lt_or_ge n σ.nodes.size with hlt | hge
    · rw [Array.getElem?_push_lt hlt] at hn
      exact hi.older n r (by rw [Array.getElem?_eq_getElem hlt]; exact hn) k hkm
    · rcases Nat.lt_or_ge σ.nodes.size n with h2 | h2
      · rw [Array.getElem?_eq_none (by simp; omega)] at hn; cases hn
      · have : n = σ.nodes.size := by omega
        subst this
        simp only [Array.getElem?_push_size, Option.some.injEq] at hn
        subst hn
        cases attach
        · simp at hkm
        · simp only [if_true] at hkm; exact hk k hkm
  · intro n r tg hn hop
    simp only [State.allocView] at hn
    rcases Nat.lt_or_ge n σ.nodes.size with hlt | hge
    · rw [Array.getElem?_push_lt hlt] at hn
      exact hi.tags n r tg (by rw [Array.getElem?_eq_getElem hlt]; exact hn) hop
    · rcases Nat.lt_or_ge σ.nodes.size n with h2 | h2
      · rw [Array.getElem?_eq_none (by simp; omega)] at hn; cases hn
      · have : n = σ.nodes.size := by omega
        subst this
        simp only [Array.getElem?_push_size, Option.some.injEq] at hn
        subst hn
        cases attach
        · simp at hop
        · obtain ⟨tg', h1, h2⟩ := htag rfl
          simp only [if_true] at hop ⊢
          rw [h1] at hop; cases hop; exact h2
  · intro n r hn hop
    simp only [State.allocView] at hn
    rcases Nat.lt_or_ge n σ.nodes.size with hlt | hge
    · rw [Array.getElem?_push_lt hlt] at hn
      exact hi.noop n r (by rw [Array.getElem?_eq_getElem hlt]; exact hn) hop
    · rcases Nat.lt_or_ge σ.nodes.size n with h2 | h2
      · rw [Array.getElem?_eq_none (by simp; omega)] at hn; cases hn
      · have : n = σ.nodes.size := by omega
        subst this
        simp only [Array.getElem?_push_size, Option.some.injEq] at hn
        subst hn
        cases attach
        · rfl
        · obtain ⟨tg', h1, _⟩ := htag rfl
          simp only [if_true] at hop
          rw [h1] at hop; cases hop
  · constructor
    · intro i
      simp only [State.allocView]
      rcases Nat.lt_or_ge i σ.cnt.size with h | h
      · rw [getD_push_lt _ _ _ _ h]; exact hi.clean.1 i
      · exact getD_push_ge _ _ _ _ rfl h
    · intro i
      simp only [State.allocView]
      rcases Nat.lt_or_ge i σ.delta.size with h | h
      · rw [getD_push_lt _ _ _ _ h]; exact hi.clean.2 i
      · exact getD_push_ge _ _ _ _ rfl h
  · simp [Handle.Valid, State.allocView, hb]
  · exact ⟨by simp [State.allocView], by simp [State.allocView], rfl, rfl, rfl⟩

/-- **The recorded graph of a reachable heap is well-founded.** -/
theorem graph_wf (σ : State S) (hi : HeapInv σ) : σ.graph.WF := by
  intro n s hs
  simp only [State.graph] at hs
  cases hn : σ.nodes[n]? with
  | none => simp [hn] at hs
  | some r =>
    simp only [hn, List.mem_map] at hs
    obtain ⟨k, hk, rfl⟩ := hs
    exact (hi.older n r hn k hk).1

theorem estate_clean (σ : State S) (hi : HeapInv σ) : σ.estate.Clean := ⟨hi.clean.1, hi.clean.2⟩

end Corgi

namespace Corgi
variable {S : Type} [Add S] [Mul S] [Neg S] [Sub S] [ScalarOps S] [BEq S]

theorem bind_ok {α β} {r : R α} {f : α → R β} {v : β} (h : (r >>= f) = .ok v) : ∃ a, r = .ok a ∧ f a = .ok v := by
  cases r with
  | error e => simp [bind, Except.bind] at h
  | ok a => exact ⟨a, rfl, by simpa [bind, Except.bind] using h⟩

theorem whenT_isSome {α} {b : Bool} {r : R α} {o : Option α} (h : whenT b r = .ok o) : o.isSome = b := by
  unfold whenT at h
  cases b with
  | false => simp only [Bool.false_eq_true, if_false, pure, Except.pure, Except.ok.injEq] at h; subst h; rfl
  | true =>
    simp only [if_true] at h
    cases r with
    | error e => simp [Except.map] at h
    | ok a => simp [Except.map] at h; subst h; rfl

theorem flag_ok {t : List Bool} {i : Nat} {b : Bool} (h : flag t i = .ok b) : t[i]? = some b := by
  unfold flag getR at h
  cases hi : t[i]? with
  | none => simp [hi, throw, throwThe, MonadExceptOf.throw] at h
  | some x => simp [hi, pure, Except.pure] at h; rw [h]

/-- the flag pattern a closure must answer with, given its tag -/
def flagsOK : OpTag S → List Bool → Prop
  | .add, t | .mul, t | .div, t | .custom 1, t => t.length = 2
  | .neg, t | .scale _, t | .powf _, t | .ln, t | .exp, t | .recip, t | .sum _, t | .relu, t | .sigmoid, t | .expand, t => t = [true]
  | .reshape, t | .unroll _ _ _ _ _ _ _, t | .custom 2, t => t.length = 1
  | .matmul _ _, t | .custom 3, t => t.length = 3
  | .custom 0, _ => True
  | .custom _, _ => False

theorem flagsOK_of_tagOK (tag : OpTag S) (kids : List Handle) (h : tagOK tag kids) :
    flagsOK tag (kids.map (·.tracked)) := by
  cases tag <;> simp only [tagOK, flagsOK] at h ⊢ <;> try (simpa using h)
  all_goals first
    | (obtain ⟨h1, h2⟩ := h
       match kids, h1 with
       | [k], _ => simp [h2 k (by simp)])
    | (rename_i kind; match kind, h with
       | 0, _ => trivial
       | 1, h => simpa using h
       | 2, h => simpa using h
       | 3, h => simpa using h)

theorem map_isSome_flags {α} (x : α) : ∀ t : List Bool,
    (t.map (fun b => if b then some x else none)).map Option.isSome = t
  | [] => rfl
  | b :: t => by
    simp only [List.map_cons, map_isSome_flags x t, List.cons.injEq, and_true]
    cases b <;> rfl

/-- **Every built-in closure is lawful**: it answers with one entry per stored operand, `Some` exactly
    where the saved tracking flag is set. -/
theorem vjp_lawful (tag : OpTag S) (c : List (Tensor S)) (self : Tensor S) (t : List Bool) (x : Tensor S)
    (ds : List (Option (Tensor S))) (hf : flagsOK tag t) (h : vjp tag c self t x = .ok ds) :
    ds.map Option.isSome = t := by
  cases tag with
  | add =>
    simp only [flagsOK] at hf
    match t, hf with
    | [a, b], _ =>
      simp only [vjp] at h
      obtain ⟨f0, h0, q1⟩ := bind_ok h
      obtain ⟨f1, h1, q2⟩ := bind_ok q1
      have e0 := flag_ok h0; have e1 := flag_ok h1
      simp at e0 e1; subst e0 e1
      simp only [pure, Except.pure, Except.ok.injEq] at q2; subst q2
      cases a <;> cases b <;> rfl
  | mul =>
    simp only [flagsOK] at hf
    match t, hf with
    | [a, b], _ =>
      simp only [vjp] at h
      obtain ⟨_, _, q1⟩ := bind_ok h
      obtain ⟨_, _, q2⟩ := bind_ok q1
      obtain ⟨f0, h0, q3⟩ := bind_ok q2
      obtain ⟨ra, ha, q4⟩ := bind_ok q3
      obtain ⟨f1, h1, q5⟩ := bind_ok q4
      obtain ⟨rb, hb, q6⟩ := bind_ok q5
      have e0 := flag_ok h0; have e1 := flag_ok h1
      simp at e0 e1; subst e0 e1
      simp only [pure, Except.pure, Except.ok.injEq] at q6; subst q6
      simp [whenT_isSome ha, whenT_isSome hb]
  | div =>
    simp only [flagsOK] at hf
    match t, hf with
    | [a, b], _ =>
      simp only [vjp] at h
      obtain ⟨_, _, q1⟩ := bind_ok h
      obtain ⟨_, _, q2⟩ := bind_ok q1
      obtain ⟨f0, h0, q3⟩ := bind_ok q2
      obtain ⟨ra, ha, q4⟩ := bind_ok q3
      obtain ⟨f1, h1, q5⟩ := bind_ok q4
      obtain ⟨rb, hb, q6⟩ := bind_ok q5
      have e0 := flag_ok h0; have e1 := flag_ok h1
      simp at e0 e1; subst e0 e1
      simp only [pure, Except.pure, Except.ok.injEq] at q6; subst q6
      simp [whenT_isSome ha, whenT_isSome hb]
  | neg => simp only [flagsOK] at hf; subst hf; simp only [vjp, pure, Except.pure, Except.ok.injEq] at h; subst h; rfl
  | scale s => simp only [flagsOK] at hf; subst hf; simp only [vjp, pure, Except.pure, Except.ok.injEq] at h; subst h; rfl
  | powf e =>
    simp only [flagsOK] at hf; subst hf
    simp only [vjp] at h
    obtain ⟨_, _, q1⟩ := bind_ok h
    obtain ⟨_, _, q2⟩ := bind_ok q1
    simp only [pure, Except.pure, Except.ok.injEq] at q2; subst q2; rfl
  | ln =>
    simp only [flagsOK] at hf; subst hf
    simp only [vjp] at h
    obtain ⟨_, _, q1⟩ := bind_ok h
    obtain ⟨_, _, q2⟩ := bind_ok q1
    simp only [pure, Except.pure, Except.ok.injEq] at q2; subst q2; rfl
  | exp =>
    simp only [flagsOK] at hf; subst hf
    simp only [vjp] at h
    obtain ⟨_, _, q1⟩ := bind_ok h
    obtain ⟨_, _, q2⟩ := bind_ok q1
    simp only [pure, Except.pure, Except.ok.injEq] at q2; subst q2; rfl
  | recip =>
    simp only [flagsOK] at hf; subst hf
    simp only [vjp] at h
    obtain ⟨_, _, q1⟩ := bind_ok h
    obtain ⟨_, _, q2⟩ := bind_ok q1
    simp only [pure, Except.pure, Except.ok.injEq] at q2; subst q2; rfl
  | sum k =>
    simp only [flagsOK] at hf; subst hf
    simp only [vjp] at h
    obtain ⟨_, _, q1⟩ := bind_ok h
    obtain ⟨_, _, q2⟩ := bind_ok q1
    simp only [pure, Except.pure, Except.ok.injEq] at q2; subst q2; rfl
  | reshape =>
    simp only [flagsOK] at hf
    match t, hf with
    | [a], _ =>
      simp only [vjp] at h
      obtain ⟨_, _, q1⟩ := bind_ok h
      obtain ⟨f0, h0, q2⟩ := bind_ok q1
      obtain ⟨r, hr, q3⟩ := bind_ok q2
      have e0 := flag_ok h0; simp at e0; subst e0
      simp only [pure, Except.pure, Except.ok.injEq] at q3; subst q3
      simp [whenT_isSome hr]
  | matmul ta tb =>
    simp only [flagsOK] at hf
    match t, hf with
    | [a, b, cc], _ =>
      simp only [vjp] at h
      obtain ⟨_, _, q1⟩ := bind_ok h
      obtain ⟨_, _, q2⟩ := bind_ok q1
      obtain ⟨f0, h0, q3⟩ := bind_ok q2
      obtain ⟨ra, ha, q4⟩ := bind_ok q3
      obtain ⟨f1, h1, q5⟩ := bind_ok q4
      obtain ⟨rb, hb, q6⟩ := bind_ok q5
      obtain ⟨f2, h2, q7⟩ := bind_ok q6
      have e0 := flag_ok h0; have e1 := flag_ok h1; have e2 := flag_ok h2
      simp at e0 e1 e2; subst e0 e1 e2
      simp only [pure, Except.pure, Except.ok.injEq] at q7; subst q7
      cases cc <;> simp [whenT_isSome ha, whenT_isSome hb]
  | unroll d r cc sr sc fr fc =>
    simp only [flagsOK] at hf
    match t, hf with
    | [a], _ =>
      simp only [vjp] at h
      obtain ⟨f0, h0, q1⟩ := bind_ok h
      obtain ⟨r, hr, q2⟩ := bind_ok q1
      have e0 := flag_ok h0; simp at e0; subst e0
      simp only [pure, Except.pure, Except.ok.injEq] at q2; subst q2
      simp [whenT_isSome hr]
  | expand =>
    simp only [flagsOK] at hf; subst hf
    simp only [vjp] at h
    obtain ⟨_, _, q1⟩ := bind_ok h
    obtain ⟨_, _, q2⟩ := bind_ok q1
    simp only [pure, Except.pure, Except.ok.injEq] at q2; subst q2; rfl
  | relu =>
    simp only [flagsOK] at hf; subst hf
    simp only [vjp] at h
    obtain ⟨_, _, q1⟩ := bind_ok h
    obtain ⟨_, _, q2⟩ := bind_ok q1
    simp only [pure, Except.pure, Except.ok.injEq] at q2; subst q2; rfl
  | sigmoid =>
    simp only [flagsOK] at hf; subst hf
    simp only [vjp] at h
    obtain ⟨_, _, q1⟩ := bind_ok h
    obtain ⟨_, _, q2⟩ := bind_ok q1
    simp only [pure, Except.pure, Except.ok.injEq] at q2; subst q2; rfl
  | custom kind =>
    match kind, hf with
    | 0, _ =>
      simp only [vjp, pure, Except.pure, Except.ok.injEq] at h; subst h
      exact map_isSome_flags x t
    | 1, hf =>
      simp only [flagsOK] at hf
      match t, hf with
      | [a, b], _ =>
        simp only [vjp] at h
        obtain ⟨_, _, q1⟩ := bind_ok h
        obtain ⟨_, _, q2⟩ := bind_ok q1
        obtain ⟨f0, h0, q3⟩ := bind_ok q2
        obtain ⟨ra, ha, q4⟩ := bind_ok q3
        obtain ⟨f1, h1, q5⟩ := bind_ok q4
        obtain ⟨rb, hb, q6⟩ := bind_ok q5
        have e0 := flag_ok h0; have e1 := flag_ok h1
        simp at e0 e1; subst e0 e1
        simp only [pure, Except.pure, Except.ok.injEq] at q6; subst q6
        simp [whenT_isSome ha, whenT_isSome hb]
    | 2, hf =>
      simp only [flagsOK] at hf
      match t, hf with
      | [a], _ =>
        simp only [vjp] at h
        obtain ⟨f0, h0, q1⟩ := bind_ok h
        obtain ⟨r, hr, q2⟩ := bind_ok q1
        have e0 := flag_ok h0; simp at e0; subst e0
        simp only [pure, Except.pure, Except.ok.injEq] at q2; subst q2
        simp [whenT_isSome hr]
    | 3, hf =>
      simp only [flagsOK] at hf
      match t, hf with
      | [a, b, cc], _ =>
        simp only [vjp] at h
        obtain ⟨_, _, q1⟩ := bind_ok h
        obtain ⟨_, _, q2⟩ := bind_ok q1
        obtain ⟨f0, h0, q3⟩ := bind_ok q2
        obtain ⟨ra, ha, q4⟩ := bind_ok q3
        obtain ⟨f1, h1, q5⟩ := bind_ok q4
        obtain ⟨rb, hb, q6⟩ := bind_ok q5
        obtain ⟨f2, h2, q7⟩ := bind_ok q6
        have e0 := flag_ok h0; have e1 := flag_ok h1; have e2 := flag_ok h2
        simp at e0 e1 e2; subst e0 e1 e2
        simp only [pure, Except.pure, Except.ok.injEq] at q7; subst q7
        cases cc <;> simp [whenT_isSome ha, whenT_isSome hb]
    | n + 4, hf => simp [flagsOK] at hf

end Corgi

namespace Corgi
variable {S : Type} [Add S] [Mul S] [Neg S] [Sub S] [ScalarOps S] [BEq S]

/-- **The recorded closures of a reachable heap are lawful.** -/
theorem graph_lawful (σ : State S) (hi : HeapInv σ) : σ.graph.Lawful := by
  intro n cl x ds hv hcl
  simp only [State.graph] at hv hcl ⊢
  cases hn : σ.nodes[n]? with
  | none => simp [hn] at hv
  | some r =>
    simp only [hn] at hv hcl ⊢
    cases hop : r.op with
    | none => simp [hop] at hv
    | some tag =>
      simp only [hop, Option.map_some, Option.some.injEq] at hv
      subst hv
      have hmap : (r.kids.map Handle.slot).map (·.tracked) = r.kids.map (·.tracked) := by
        simp [List.map_map, Function.comp, Handle.slot]
      rw [hmap] at hcl ⊢
      exact vjp_lawful tag _ _ _ x ds (flagsOK_of_tagOK tag r.kids (hi.tags n r tag hn hop)) hcl

theorem ofFn_getD {α} (n : Nat) (f : Nat → α) (d : α) (i : Nat) (h : i < n) :
    (Array.ofFn (n := n) (fun k => f k)).getD i d = f i := by
  simp [Array.getD_eq_getD_getElem?, h]

theorem ofFn_getD_ge {α} (n : Nat) (f : Nat → α) (d : α) (i : Nat) (h : n ≤ i) :
    (Array.ofFn (n := n) (fun k => f k)).getD i d = d := by
  simp only [Array.getD_eq_getD_getElem?]
  rw [Array.getElem?_eq_none (by simp; omega)]
  rfl

/-- **A backward pass preserves the invariant** — in particular it ends clean. -/
theorem heapInv_backward (σ σ' : State S) (hi : HeapInv σ) (h : Handle) (hv : h.node < σ.nodes.size)
    (seed : Option (Tensor S)) (hok : σ.backward h seed = .ok σ') : HeapInv σ' ∧ Mono σ σ' := by
  simp only [State.backward, bind, Except.bind] at hok
  cases hb : Corgi.backward σ.graph (σ.nodes.size + 1) h.node h.dims h.keep seed σ.estate with
  | error e => simp [hb] at hok
  | ok e =>
    simp only [hb, pure, Except.pure, Except.ok.injEq] at hok
    subst hok
    have hc := (backward_counts σ.graph (graph_wf σ hi) (graph_lawful σ hi) (σ.nodes.size + 1) h.node (by omega)
      h.dims h.keep seed σ.estate e (estate_clean σ hi) rfl hb).1
    refine ⟨⟨?_, hi.older, hi.tags, hi.noop, ?_⟩, ⟨Nat.le_refl _, Nat.le_refl _, rfl, rfl, rfl⟩⟩
    · simp [State.withEState]
    · constructor
      · intro i
        simp only [State.withEState]
        rcases Nat.lt_or_ge i σ.nodes.size with hlt | hge
        · rw [ofFn_getD _ _ _ _ hlt]; exact hc.1 i
        · exact ofFn_getD_ge _ _ _ _ hge
      · intro i
        simp only [State.withEState]
        rcases Nat.lt_or_ge i σ.nodes.size with hlt | hge
        · rw [ofFn_getD _ _ _ _ hlt]; exact hc.2 i
        · exact ofFn_getD_ge _ _ _ _ hge

theorem heapInv_setGrad (σ : State S) (hi : HeapInv σ) (n : Nat) (g : Option (Tensor S)) : HeapInv (σ.setGrad n g) :=
  ⟨by simp [State.setGrad, hi.sizes.1, hi.sizes.2.1, hi.sizes.2.2], hi.older, hi.tags, hi.noop, hi.clean⟩

end Corgi
