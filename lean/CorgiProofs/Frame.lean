/-
  CorgiProofs.Frame — no command of the language rewrites an existing buffer (C08, for every
  command and hence every history).
-/
import CorgiModel.Step

set_option linter.unusedSectionVars false

namespace Corgi
variable {S : Type} [Add S] [Mul S] [Neg S] [Sub S] [ScalarOps S] [BEq S]

/-- `σ'` extends `σ`: every existing buffer is still there, unchanged. -/
def BufExt (σ σ' : State S) : Prop := ∀ i, i < σ.bufs.size → σ'.bufs[i]? = σ.bufs[i]?

theorem BufExt.refl (σ : State S) : BufExt σ σ := fun _ _ => rfl

theorem BufExt.size {a b : State S} (h : BufExt a b) : a.bufs.size ≤ b.bufs.size := by
  rcases Nat.lt_or_ge b.bufs.size a.bufs.size with hlt | hge
  · have := h b.bufs.size hlt
    rw [Array.getElem?_eq_none (Nat.le_refl _), Array.getElem?_eq_getElem hlt] at this
    cases this
  · exact hge

theorem BufExt.trans {a b c : State S} (h1 : BufExt a b) (h2 : BufExt b c) : BufExt a c := by
  intro i hi
  rw [h2 i (Nat.lt_of_lt_of_le hi h1.size), h1 i hi]

theorem BufExt.of_eq {a b : State S} (h : b.bufs = a.bufs) : BufExt a b := fun _ _ => by rw [h]

theorem bufExt_alloc (σ : State S) (t : Tensor S) (kids : List Handle) (tag : Option (OpTag S)) (attach : Bool)
    (label : String) : BufExt σ (σ.alloc t kids tag attach label).1 := by
  intro i hi
  simp only [State.alloc]
  rw [Array.getElem?_push_lt hi, Array.getElem?_eq_getElem hi]

theorem bufExt_bind (σ : State S) (w : String) (h : Handle) : BufExt σ (σ.bind w h) := BufExt.of_eq rfl

/-- a handle-level operation result `r : R (State × Handle)` extends the buffers -/
def OpExt (σ : State S) (r : R (State S × Handle)) : Prop := ∀ σ' h, r = .ok (σ', h) → BufExt σ σ'

theorem opExt_pure (σ σ1 : State S) (h : Handle) (hx : BufExt σ σ1) : OpExt σ (pure (σ1, h)) := by
  intro σ' h' e; simp only [pure, Except.pure, Except.ok.injEq, Prod.mk.injEq] at e; rw [← e.1]; exact hx

theorem opExt_bind (σ : State S) (r : R (State S × Handle)) (f : State S × Handle → R (State S × Handle))
    (h1 : OpExt σ r) (h2 : ∀ σ1 h, r = .ok (σ1, h) → OpExt σ1 (f (σ1, h))) : OpExt σ (r >>= f) := by
  intro σ' h' e
  simp only [bind, Except.bind] at e
  cases hr : r with
  | error x => simp [hr] at e
  | ok v =>
    obtain ⟨σ1, h⟩ := v
    simp only [hr] at e
    exact (h1 σ1 h hr).trans (h2 σ1 h hr σ' h' e)

theorem opExt_bindR {α} (σ : State S) (r : R α) (f : α → R (State S × Handle))
    (h2 : ∀ a, r = .ok a → OpExt σ (f a)) : OpExt σ (r >>= f) := by
  intro σ' h' e
  simp only [bind, Except.bind] at e
  cases hr : r with
  | error x => simp [hr] at e
  | ok v => simp only [hr] at e; exact h2 v hr σ' h' e

theorem opExt_hEwise (tag : OpTag S) (f : Tensor S → Tensor S → R (Tensor S)) (σ : State S) (a b : Handle) :
    OpExt σ (hEwise tag f σ a b) := by
  unfold hEwise
  exact opExt_bindR σ _ _ (fun t _ => opExt_pure σ _ _ (bufExt_alloc σ t _ _ _ _))

theorem opExt_hUnary (tag : OpTag S) (f : Tensor S → Tensor S) (σ : State S) (a : Handle) :
    OpExt σ (hUnary tag f σ a) := opExt_pure σ _ _ (bufExt_alloc σ _ _ _ _ _)

theorem opExt_hSum (σ : State S) (a : Handle) (k : Nat) : OpExt σ (hSum σ a k) := by
  unfold hSum
  split
  · exact opExt_pure σ σ a (BufExt.refl σ)
  · exact opExt_bindR σ _ _ (fun t _ => opExt_pure σ _ _ (bufExt_alloc σ t _ _ _ _))

theorem opExt_hReshape (σ : State S) (a : Handle) (dims : List Nat) : OpExt σ (hReshape σ a dims) := by
  unfold hReshape
  exact opExt_bindR σ _ _ (fun t _ => opExt_pure σ _ _ (BufExt.of_eq rfl))

theorem opExt_hMatmul (σ : State S) (a : Handle) (ta : Bool) (b : Handle) (tb : Bool) (c : Option Handle) :
    OpExt σ (hMatmul σ a ta b tb c) := by
  unfold hMatmul
  apply opExt_bindR
  intro t _
  cases c with
  | some c => exact opExt_pure σ _ _ (bufExt_alloc σ t _ _ _ _)
  | none =>
    simp only [hLeaf]
    exact opExt_pure σ _ _ ((bufExt_alloc σ _ _ _ _ _).trans (bufExt_alloc _ t _ _ _ _))

theorem opExt_hSub (σ : State S) (a b : Handle) : OpExt σ (hSub σ a b) := by
  unfold hSub
  exact opExt_bind σ _ _ (opExt_hUnary _ _ σ b) (fun σ1 nb _ => opExt_hEwise _ _ σ1 a nb)

theorem opExt_hAxpy (σ : State S) (s : S) (x y : Handle) : OpExt σ (hAxpy σ s x y) := by
  unfold hAxpy
  exact opExt_bind σ _ _ (opExt_hUnary _ _ σ x) (fun σ1 sx _ => opExt_hEwise _ _ σ1 sx y)

theorem opExt_hSoftmax (σ : State S) (a : Handle) : OpExt σ (hSoftmax σ a) := by
  unfold hSoftmax
  refine opExt_bind σ _ _ (opExt_hUnary _ _ σ a) (fun σ1 e _ => ?_)
  exact opExt_bind σ1 _ _ (opExt_hSum σ1 e 1) (fun σ2 s _ => opExt_hEwise _ _ σ2 e s)

theorem opExt_hUnroll (σ : State S) (image : Handle) (sr sc fr fc : Nat) : OpExt σ (hUnroll σ image sr sc fr fc) := by
  unfold hUnroll
  refine opExt_bindR σ _ _ (fun t _ => ?_)
  refine opExt_bindR σ _ _ (fun _ _ => ?_)
  refine opExt_bindR σ _ _ (fun _ _ => ?_)
  refine opExt_bindR σ _ _ (fun _ _ => ?_)
  exact opExt_pure σ _ _ (bufExt_alloc σ t _ _ _ _)

theorem opExt_hExpand (σ : State S) (a : Handle) (r c : Nat) : OpExt σ (hExpand σ a r c) := by
  unfold hExpand
  exact opExt_bindR σ _ _ (fun t _ => opExt_pure σ _ _ (bufExt_alloc σ t _ _ _ _))

theorem opExt_throw (σ : State S) (p : Panic) : OpExt σ (throw p : R (State S × Handle)) := by
  intro σ' h e; simp [throw, throwThe, MonadExceptOf.throw] at e

theorem opExt_ite (σ : State S) (c : Prop) [Decidable c] (a b : R (State S × Handle)) (ha : OpExt σ a) (hb : OpExt σ b) :
    OpExt σ (if c then a else b) := by split <;> assumption

end Corgi

namespace Corgi
variable {S : Type} [Add S] [Mul S] [Neg S] [Sub S] [ScalarOps S] [BEq S]

theorem opExt_hConv (σ : State S) (image filters : Handle) (sr sc : Nat) : OpExt σ (hConv σ image filters sr sc) := by
  unfold hConv
  refine opExt_bindR σ _ _ (fun prm _ => ?_)
  refine opExt_bind σ _ _ (opExt_hUnroll σ image sr sc _ _) (fun σ1 unrolled _ => ?_)
  refine opExt_bindR σ1 _ _ (fun _ _ => ?_)
  refine opExt_bind σ1 _ _ (opExt_hReshape σ1 filters _) (fun σ2 fm _ => ?_)
  refine opExt_bind σ2 _ _ (opExt_hMatmul σ2 unrolled false fm true none) (fun σ3 convolved _ => ?_)
  exact opExt_hExpand σ3 convolved _ _

theorem opExt_hMse (σ : State S) (o t : Handle) : OpExt σ (hMse σ o t) := by
  unfold hMse
  refine opExt_bind σ _ _ (opExt_hSub σ t o) (fun σ1 d _ => ?_)
  exact opExt_bind σ1 _ _ (opExt_hUnary _ _ σ1 d) (fun σ2 p _ => opExt_hUnary _ _ σ2 p)

theorem opExt_hXent (σ : State S) (o t : Handle) : OpExt σ (hXent σ o t) := by
  unfold hXent
  refine opExt_bindR σ _ _ (fun _ _ => ?_)
  refine opExt_bind σ _ _ (opExt_hUnary _ _ σ t) (fun σ1 nt _ => ?_)
  refine opExt_bind σ1 _ _ (opExt_hUnary _ _ σ1 o) (fun σ2 lo _ => ?_)
  exact opExt_bind σ2 _ _ (opExt_hEwise _ _ σ2 nt lo) (fun σ3 p _ => opExt_hUnary _ _ σ3 p)

theorem opExt_hCustom (σ : State S) (kind : Nat) (label : String) (args : List Handle) :
    OpExt σ (hCustom σ kind label args) := by
  unfold hCustom
  refine opExt_bindR σ _ _ (fun _ _ => ?_)
  refine opExt_bindR σ _ _ (fun _ _ => ?_)
  refine opExt_bindR σ _ _ (fun _ _ => ?_)
  refine opExt_bindR σ _ _ (fun t _ => ?_)
  exact opExt_pure σ _ _ (bufExt_alloc σ t _ _ _ _)

theorem opExt_hAct (σ : State S) (act : Act) (a : Handle) : OpExt σ (hAct σ act a) := by
  cases act
  · exact opExt_pure σ σ a (BufExt.refl σ)
  · exact opExt_hUnary _ _ σ a
  · exact opExt_hUnary _ _ σ a
  · exact opExt_hSoftmax σ a

theorem opExt_layerForward (σ : State S) (l : Layer) (input : Handle) : OpExt σ (layerForward σ l input) := by
  cases l with
  | dense w b act =>
    simp only [layerForward]
    exact opExt_bind σ _ _ (opExt_hMatmul σ input false w true (some b)) (fun σ1 r _ => opExt_hAct σ1 act r)
  | conv f b sr sc act =>
    simp only [layerForward]
    refine opExt_bind σ _ _ (opExt_hConv σ input f sr sc) (fun σ1 c _ => ?_)
    exact opExt_bind σ1 _ _ (opExt_hEwise _ _ σ1 c b) (fun σ2 r _ => opExt_hAct σ2 act r)

theorem bufExt_backward (σ σ' : State S) (h : Handle) (seed : Option (Tensor S)) (hok : σ.backward h seed = .ok σ') :
    BufExt σ σ' := by
  simp only [State.backward, bind, Except.bind] at hok
  cases hb : Corgi.backward σ.graph (σ.nodes.size + 1) h.node h.dims h.keep seed σ.estate with
  | error e => simp [hb] at hok
  | ok e => simp only [hb, pure, Except.pure, Except.ok.injEq] at hok; rw [← hok]; exact BufExt.of_eq rfl

theorem bufs_gather (σ : State S) (ps : List Handle) : (gdGather σ ps).1.bufs = σ.bufs := by
  induction ps generalizing σ with
  | nil => rfl
  | cons p ps ih =>
    simp only [gdGather]
    cases σ.grad.getD p.node none with
    | none => simp [ih]
    | some g => simp [ih, State.setGrad]

theorem bufExt_drain (ps : List Handle) : ∀ (σ : State S) (fs : List Bool) (vals : List S) (σ' : State S) (hs : List Handle),
    gdDrain σ ps fs vals = .ok (σ', hs) → BufExt σ σ' := by
  induction ps with
  | nil => intro σ fs vals σ' hs h; simp [gdDrain, pure, Except.pure] at h; rw [← h.1]; exact BufExt.refl _
  | cons p ps ih =>
    intro σ fs vals σ' hs h
    cases fs with
    | nil => simp [gdDrain, pure, Except.pure] at h; rw [← h.1]; exact BufExt.refl _
    | cons f fs =>
      cases f with
      | true =>
        simp only [gdDrain, if_true, bind, Except.bind] at h
        cases hr : gdDrain σ ps fs vals with
        | error e => simp [hr] at h
        | ok r =>
          have hx := ih σ fs vals r.1 r.2 (by rw [hr])
          simp only [hr, pure, Except.pure, Except.ok.injEq, Prod.mk.injEq] at h
          rw [← h.1]; exact hx
      | false =>
        simp only [gdDrain, Bool.false_eq_true, if_false, bind, Except.bind] at h
        split at h
        · simp [throw, throwThe, MonadExceptOf.throw] at h
        · cases ht : Tensor.mk? p.dims (List.take (σ.tensorOf p).vals.length vals) with
          | error e => simp [ht] at h
          | ok t =>
            simp only [ht] at h
            cases hr : gdDrain (σ.alloc t [] none false).1 ps fs (List.drop (σ.tensorOf p).vals.length vals) with
            | error e => simp [hr] at h
            | ok r =>
              simp only [hr, pure, Except.pure, Except.ok.injEq, Prod.mk.injEq] at h
              rw [← h.1]
              exact (bufExt_alloc σ t [] none false "").trans (ih _ _ _ r.1 r.2 (by rw [hr]))

theorem bufExt_gdUpdate (σ σ' : State S) (lr : S) (ps hs : List Handle) (h : gdUpdate σ lr ps = .ok (σ', hs)) :
    BufExt σ σ' := by
  unfold gdUpdate at h
  have hg := bufs_gather σ ps
  have := bufExt_drain ps (gdGather σ ps).1 _ _ σ' hs h
  intro i hi
  rw [this i (by rw [hg]; exact hi), hg]

end Corgi

namespace Corgi
variable {S : Type} [Add S] [Mul S] [Neg S] [Sub S] [ScalarOps S] [BEq S]

/-- a command result extends the buffers -/
def ResExt (σ : State S) (r : R (State S × Out S)) : Prop := ∀ σ' o, r = .ok (σ', o) → BufExt σ σ'

theorem resExt_pure (σ σ1 : State S) (o : Out S) (hx : BufExt σ σ1) : ResExt σ (pure (σ1, o)) := by
  intro σ' o' e; simp only [pure, Except.pure, Except.ok.injEq, Prod.mk.injEq] at e; rw [← e.1]; exact hx

theorem resExt_throw (σ : State S) (p : Panic) : ResExt σ (throw p) := by
  intro σ' o e; simp [throw, throwThe, MonadExceptOf.throw] at e

theorem resExt_bindR {α} (σ : State S) (r : R α) (f : α → R (State S × Out S))
    (h2 : ∀ a, r = .ok a → ResExt σ (f a)) : ResExt σ (r >>= f) := by
  intro σ' o e
  simp only [bind, Except.bind] at e
  cases hr : r with
  | error x => simp [hr] at e
  | ok v => simp only [hr] at e; exact h2 v hr σ' o e

theorem resExt_bindShow (σ : State S) (w : String) (r : R (State S × Handle)) (h : OpExt σ r) :
    ResExt σ (bindShow w r) := by
  intro σ' o e
  simp only [bindShow, bind, Except.bind] at e
  cases hr : r with
  | error x => simp [hr] at e
  | ok v =>
    obtain ⟨σ1, hd⟩ := v
    simp only [hr, pure, Except.pure, Except.ok.injEq, Prod.mk.injEq] at e
    rw [← e.1]
    exact (h σ1 hd hr).trans (bufExt_bind σ1 w hd)

theorem resExt_setFlags (σ : State S) (v : String) (tr keep : Option Bool) (f : State S × Handle → R (State S × Out S))
    (hf : ∀ σ1 h, BufExt σ σ1 → ResExt σ (f (σ1, h))) : ResExt σ (setFlags σ v tr keep >>= f) := by
  apply resExt_bindR
  intro a ha
  simp only [setFlags, bind, Except.bind] at ha
  cases hg : σ.get v with
  | error e => simp [hg] at ha
  | ok h =>
    simp only [hg, pure, Except.pure, Except.ok.injEq] at ha
    rw [← ha]
    exact hf _ _ (bufExt_bind σ v _)

end Corgi

namespace Corgi
variable {S : Type} [Add S] [Mul S] [Neg S] [Sub S] [ScalarOps S] [BEq S]

theorem bufExt_fold_bind (σ : State S) (l : List (String × Handle)) :
    (l.foldl (fun (s : State S) p => s.bind p.1 p.2) σ).bufs = σ.bufs := by
  induction l generalizing σ with
  | nil => rfl
  | cons p l ih => simp only [List.foldl_cons]; rw [ih]; rfl

theorem bufs_putParams (ls : List String) : ∀ (σ : State S) (hs : List Handle), (putParams σ ls hs).bufs = σ.bufs := by
  induction ls with
  | nil => intro σ hs; simp [putParams]
  | cons l ls ih =>
    intro σ hs
    match hs with
    | [] => simp [putParams]
    | [_] => simp [putParams]
    | a :: b :: rest =>
      simp only [putParams]
      split
      · rw [ih]
      · rw [ih]

/-- the forward pass of a model: a fold of layer forwards -/
theorem resExt_foldlM_layers (layers : List String) : ∀ (σ0 σ : State S) (h : Handle) (σ' : State S) (h' : Handle),
    BufExt σ0 σ →
    layers.foldlM (fun (p : State S × Handle) l =>
        match lookup p.1.layers l with
        | some lay => layerForward p.1 lay p.2
        | none => throw Panic.modelGap) (σ, h) = .ok (σ', h') → BufExt σ0 σ' := by
  induction layers with
  | nil =>
    intro σ0 σ h σ' h' hx e
    simp only [List.foldlM, pure, Except.pure, Except.ok.injEq, Prod.mk.injEq] at e
    rw [← e.1]; exact hx
  | cons l ls ih =>
    intro σ0 σ h σ' h' hx e
    simp only [List.foldlM, bind, Except.bind] at e
    cases hl : lookup σ.layers l with
    | none => simp [hl, throw, throwThe, MonadExceptOf.throw] at e
    | some lay =>
      simp only [hl] at e
      cases hf : layerForward σ lay h with
      | error x => simp [hf] at e
      | ok v =>
        obtain ⟨σ1, h1⟩ := v
        simp only [hf] at e
        exact ih σ0 σ1 h1 σ' h' (hx.trans (opExt_layerForward σ lay h σ1 h1 hf)) e

theorem resExt_match_opt {α} (σ : State S) (o : Option α) (f : α → R (State S × Out S)) (g : R (State S × Out S))
    (hf : ∀ a, ResExt σ (f a)) (hg : ResExt σ g) :
    ResExt σ (match o with | some a => f a | none => g) := by
  cases o with
  | some a => exact hf a
  | none => exact hg

local macro "rb" : tactic => `(tactic| refine resExt_bindR _ _ _ (fun _ _ => ?_))
local macro "rp" : tactic => `(tactic| exact resExt_pure _ _ _ (BufExt.of_eq rfl))
local macro "rleaf" : tactic => `(tactic| exact resExt_bindShow _ _ _ (opExt_pure _ _ _ (bufExt_alloc _ _ _ _ _ _)))

/-- **No command rewrites an existing buffer.** -/
theorem exec_bufExt (σ : State S) (c : Cmd S) : ResExt σ (exec σ c) := by
  cases c with
  | new v dims vals => simp only [exec]; rb; rleaf
  | flat v vals => simp only [exec]; rb; rleaf
  | zeros v dims => simp only [exec]; rb; rleaf
  | nest v parts => simp only [exec]; rb; rb; rleaf
  | tracked v => simp only [exec]; exact resExt_setFlags σ v _ _ _ (fun σ1 h hx => resExt_pure σ _ _ hx)
  | untracked v => simp only [exec]; exact resExt_setFlags σ v _ _ _ (fun σ1 h hx => resExt_pure σ _ _ hx)
  | start v => simp only [exec]; exact resExt_setFlags σ v _ _ _ (fun σ1 h hx => resExt_pure σ _ _ hx)
  | stop v => simp only [exec]; exact resExt_setFlags σ v _ _ _ (fun σ1 h hx => resExt_pure σ _ _ hx)
  | clone w v => simp only [exec]; rb; rp
  | drop v => simp only [exec]; rb; rp
  | move w v => simp only [exec]; rb; rp
  | add w a b => simp only [exec]; rb; rb; exact resExt_bindShow _ _ _ (opExt_hEwise _ _ σ _ _)
  | sub w a b => simp only [exec]; rb; rb; exact resExt_bindShow _ _ _ (opExt_hSub σ _ _)
  | mul w a b => simp only [exec]; rb; rb; exact resExt_bindShow _ _ _ (opExt_hEwise _ _ σ _ _)
  | div w a b => simp only [exec]; rb; rb; exact resExt_bindShow _ _ _ (opExt_hEwise _ _ σ _ _)
  | neg w a => simp only [exec]; rb; exact resExt_bindShow _ _ _ (opExt_hUnary _ _ σ _)
  | ln w a => simp only [exec]; rb; exact resExt_bindShow _ _ _ (opExt_hUnary _ _ σ _)
  | exp w a => simp only [exec]; rb; exact resExt_bindShow _ _ _ (opExt_hUnary _ _ σ _)
  | recip w a => simp only [exec]; rb; exact resExt_bindShow _ _ _ (opExt_hUnary _ _ σ _)
  | relu w a => simp only [exec]; rb; exact resExt_bindShow _ _ _ (opExt_hUnary _ _ σ _)
  | sigmoid w a => simp only [exec]; rb; exact resExt_bindShow _ _ _ (opExt_hUnary _ _ σ _)
  | softmax w a => simp only [exec]; rb; exact resExt_bindShow _ _ _ (opExt_hSoftmax σ _)
  | scale w a s => simp only [exec]; rb; exact resExt_bindShow _ _ _ (opExt_hUnary _ _ σ _)
  | powf w a e => simp only [exec]; rb; exact resExt_bindShow _ _ _ (opExt_hUnary _ _ σ _)
  | sum w a k => simp only [exec]; rb; exact resExt_bindShow _ _ _ (opExt_hSum σ _ _)
  | sumall a => simp only [exec]; rb; rp
  | reshape w a dims => simp only [exec]; rb; exact resExt_bindShow _ _ _ (opExt_hReshape σ _ _)
  | axpy w s a b => simp only [exec]; rb; rb; exact resExt_bindShow _ _ _ (opExt_hAxpy σ _ _ _)
  | matmul w a ta b tb c =>
    simp only [exec]
    split
    · rb; rb; rb; rb; exact resExt_bindShow _ _ _ (opExt_hMatmul σ _ _ _ _ _)
    · rb; rb; rb; exact resExt_bindShow _ _ _ (opExt_hMatmul σ _ _ _ _ _)
  | conv w a f sr sc => simp only [exec]; rb; rb; exact resExt_bindShow _ _ _ (opExt_hConv σ _ _ _ _)
  | cop kind w args => simp only [exec]; rb; exact resExt_bindShow _ _ _ (opExt_hCustom σ _ _ _)
  | backward v seed =>
    simp only [exec]; rb
    split
    · rb; rb
      refine resExt_bindR _ _ _ (fun σ1 h1 => ?_)
      exact resExt_pure _ _ _ (bufExt_backward σ σ1 _ _ h1)
    · rb
      refine resExt_bindR _ _ _ (fun σ1 h1 => ?_)
      exact resExt_pure _ _ _ (bufExt_backward σ σ1 _ _ h1)
  | backwardc v seed =>
    simp only [exec]; rb; rb
    refine resExt_bindR _ _ _ (fun σ1 h1 => ?_)
    exact resExt_pure _ _ _ (bufExt_backward σ σ1 _ _ h1)
  | grad v => simp only [exec]; rb; split <;> rp
  | takegrad w v => simp only [exec]; rb; split; rleaf; exact resExt_throw _ _
  | cleargrad v => simp only [exec]; rb; rp
  | setgrad v w => simp only [exec]; rb; rb; rp
  | «show» v => simp only [exec]; rb; rp
  | idx v i => simp only [exec]; rb; rb; rp
  | idxflat v i => simp only [exec]; rb; rb; rp
  | convat a f sr sc i => simp only [exec]; rb; rb; split; rp; exact resExt_throw _ _
  | matmulat a ta b tb c i =>
    simp only [exec]; rb; rb
    cases c with
    | none => simp only [pure, Except.pure, bind, Except.bind]; split; rp; exact resExt_throw _ _
    | some c => simp only []; rb; simp only [pure, Except.pure, bind, Except.bind]; split; rp; exact resExt_throw _ _
  | eq a b => simp only [exec]; rb; rb; rp
  | same a b => simp only [exec]; rb; rb; rp
  | samegrad a b => simp only [exec]; rb; rb; rp
  | lin c al a be b => simp only [exec]; rb; rb; rb; rp
  | sumgrad c parts => simp only [exec]; rb; rb; rp
  | probe v => simp only [exec]; rb; rp
  | flags v => simp only [exec]; rb; rp
  | probekid v i => simp only [exec]; rb; split; split; rp; rp; rp
  | own v => simp only [exec]; rb; split; rp; exact resExt_throw _ _
  | log => simp only [exec]; rp
  | gdupdate lr vs =>
    simp only [exec]; rb
    refine resExt_bindR _ _ _ (fun r hr => ?_)
    obtain ⟨σ1, hs'⟩ := r
    refine resExt_pure _ _ _ ?_
    exact (bufExt_gdUpdate σ σ1 _ _ hs' hr).trans (BufExt.of_eq (bufExt_fold_bind σ1 _))
  | gd g lr => simp only [exec]; rp
  | gdstep g vs =>
    simp only [exec]
    split
    · rb
      refine resExt_bindR _ _ _ (fun r hr => ?_)
      obtain ⟨σ1, hs'⟩ := r
      refine resExt_pure _ _ _ ?_
      exact (bufExt_gdUpdate σ σ1 _ _ hs' hr).trans (BufExt.of_eq (bufExt_fold_bind σ1 _))
    · exact resExt_throw _ _
  | cost w c o t =>
    simp only [exec]; rb; rb
    cases c
    · exact resExt_bindShow _ _ _ (opExt_hMse σ _ _)
    · exact resExt_bindShow _ _ _ (opExt_hXent σ _ _)
  | dense l inp out act w b =>
    simp only [exec]; rb; rb
    refine resExt_pure _ _ _ (fun i hi => ?_)
    simp only [hLeaf, State.alloc]
    rw [Array.getElem?_push_lt (by simp only [Array.size_push]; omega), Array.getElem?_eq_getElem hi,
      Array.getElem_push_lt hi]
  | convl l f d r c sr sc act w b =>
    simp only [exec]; rb; rb
    refine resExt_pure _ _ _ (fun i hi => ?_)
    simp only [hLeaf, State.alloc]
    rw [Array.getElem?_push_lt (by simp only [Array.size_push]; omega), Array.getElem?_eq_getElem hi,
      Array.getElem_push_lt hi]
  | lflag l which tr =>
    simp only [exec]
    split
    · split
      · rp
      · exact resExt_throw _ _
    · exact resExt_throw _ _
  | lfwd w l a =>
    simp only [exec]
    split
    · rb; exact resExt_bindShow _ _ _ (opExt_layerForward σ _ _)
    · exact resExt_throw _ _
  | model m cost lr layers => simp only [exec]; rp
  | fwd w m a =>
    simp only [exec]
    split
    · rb
      refine resExt_bindR _ _ _ (fun r hr => ?_)
      obtain ⟨σ1, out⟩ := r
      exact resExt_pure _ _ _ (resExt_foldlM_layers _ σ σ _ σ1 out (BufExt.refl σ) hr)
    · exact resExt_throw _ _
  | bwd m t =>
    simp only [exec]
    split
    · split
      · rb
        split
        · refine resExt_bindR _ _ _ (fun r hr => ?_)
          obtain ⟨σ1, err⟩ := r
          refine resExt_bindR _ _ _ (fun σ2 h2 => ?_)
          exact resExt_pure _ _ _ ((opExt_hMse σ _ _ σ1 err hr).trans (bufExt_backward σ1 σ2 _ _ h2))
        · refine resExt_bindR _ _ _ (fun r hr => ?_)
          obtain ⟨σ1, err⟩ := r
          refine resExt_bindR _ _ _ (fun σ2 h2 => ?_)
          exact resExt_pure _ _ _ ((opExt_hXent σ _ _ σ1 err hr).trans (bufExt_backward σ1 σ2 _ _ h2))
      · exact resExt_throw _ _
    · exact resExt_throw _ _
  | update m =>
    simp only [exec]
    split
    · refine resExt_bindR _ _ _ (fun r hr => ?_)
      obtain ⟨σ1, ps'⟩ := r
      refine resExt_pure _ _ _ ?_
      exact (bufExt_gdUpdate σ σ1 _ _ ps' hr).trans (BufExt.of_eq (bufs_putParams _ σ1 ps'))
    · exact resExt_throw _ _
  | params m =>
    simp only [exec]
    split
    · rp
    · split
      · rp
      · exact resExt_throw _ _
  | ifgt v c n => simp only [exec]; rb; rb; rp
  | snapshot => simp only [exec]; rp

/-- `step` (a panic leaves the state as it was) never rewrites an existing buffer either. -/
theorem step_bufExt (σ : State S) (c : Cmd S) : BufExt σ (step σ c).1 := by
  unfold step
  cases h : exec σ c with
  | error p => exact BufExt.refl σ
  | ok r => obtain ⟨σ', o⟩ := r; exact exec_bufExt σ c σ' o h

/-- **Any history.**  After any sequence of commands every buffer that existed at the start is
    unchanged. -/
theorem run_bufExt (cs : List (Cmd S)) : ∀ σ : State S, BufExt σ (cs.foldl (fun s c => (step s c).1) σ) := by
  induction cs with
  | nil => intro σ; exact BufExt.refl σ
  | cons c cs ih => intro σ; exact (step_bufExt σ c).trans (ih _)

end Corgi
