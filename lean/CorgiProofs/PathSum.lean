/-
  CorgiProofs.PathSum — L3b: the value half of the engine theorem.

  Fix a target node `ℓ` and a coordinate `j`.  `P m x` is the `j`-th coordinate of what a delta `x`
  sitting at node `m` will eventually contribute to `ℓ`'s gradient: `x` itself if `m = ℓ` stores its
  gradient, plus — for every tracked stored operand `i` of `m` — `P (operand i) (Λ m i x)`, where
  `Λ m i` is the (flattened) contribution of `m`'s closure to operand `i`.  Unfolding the recursion,
  `P root seed` is the sum over all tracked paths from the root to `ℓ` of the composed contributions:
  every path exactly once.

  The quantity  T(σ) = grad_σ(ℓ)[j] + Σ_m P m (pending delta of m)  is invariant under every step of a
  pass (each step only moves mass along one edge, and `P` is additive), so at the end — when nothing
  is pending (counting theorem) —  grad'(ℓ)[j] = grad(ℓ)[j] + P root seed.
-/
import CorgiProofs.EngineTop
import CorgiProofs.AddSame

set_option linter.unusedSectionVars false

namespace Corgi

variable {S : Type} [Add S] [Mul S] [Neg S] [Sub S] [ScalarOps S] [BEq S]

/-- the additive-monoid laws the argument needs (hold in every commutative ring; `Rat`, `Int`, `ℝ`) -/
class AddLaws (S : Type) [Add S] [ScalarOps S] : Prop where
  add_comm : ∀ a b : S, a + b = b + a
  add_assoc : ∀ a b c : S, a + b + c = a + (b + c)
  zero_add : ∀ a : S, zero + a = a

section algebra
variable [AddLaws S]

theorem add_zero' (a : S) : a + zero = a := by rw [AddLaws.add_comm]; exact AddLaws.zero_add a

theorem add_left_comm' (a b c : S) : a + (b + c) = b + (a + c) := by
  rw [← AddLaws.add_assoc, AddLaws.add_comm a b, AddLaws.add_assoc]

/-- `Σ_{m < B} g m` -/
def sumN (g : Nat → S) : Nat → S
  | 0 => zero
  | B + 1 => sumN g B + g B

theorem sumN_congr (g g' : Nat → S) : ∀ B, (∀ m, m < B → g m = g' m) → sumN g B = sumN g' B := by
  intro B
  induction B with
  | zero => intro _; rfl
  | succ B ih => intro h; simp only [sumN]; rw [ih (fun m hm => h m (by omega)), h B (by omega)]

theorem sumN_zero (g : Nat → S) : ∀ B, (∀ m, m < B → g m = zero) → sumN g B = zero := by
  intro B
  induction B with
  | zero => intro _; rfl
  | succ B ih => intro h; simp only [sumN]; rw [ih (fun m hm => h m (by omega)), h B (by omega), AddLaws.zero_add]

/-- changing one summand by `+ v` changes the sum by `+ v` -/
theorem sumN_update (g g' : Nat → S) (k : Nat) (v : S) (hk : g' k = g k + v) (hne : ∀ m, m ≠ k → g' m = g m) :
    ∀ B, k < B → sumN g' B = sumN g B + v := by
  intro B
  induction B with
  | zero => intro h; omega
  | succ B ih =>
    intro h
    simp only [sumN]
    by_cases hB : k = B
    · subst hB
      rw [sumN_congr g' g k (fun m hm => hne m (by omega)), hk, AddLaws.add_assoc]
    · rw [ih (by omega), hne B (fun e => hB e.symm), AddLaws.add_assoc, AddLaws.add_assoc, AddLaws.add_comm v]

end algebra

/-- coordinate `j` of a value list -/
def coord (j : Nat) (v : List S) : S := v.getD j zero

theorem coord_zipWith_add [AddLaws S] (j : Nat) (a b : List S) (h : a.length = b.length) :
    coord j (List.zipWith (· + ·) a b) = coord j a + coord j b := by
  unfold coord
  by_cases hj : j < a.length
  · have hjb : j < b.length := by omega
    simp [List.getD_eq_getElem?_getD, List.getElem?_zipWith, List.getElem?_eq_getElem hj, List.getElem?_eq_getElem hjb]
  · have h1 : a[j]? = none := by simp; omega
    have h2 : b[j]? = none := by simp; omega
    have h3 : (List.zipWith (· + ·) a b)[j]? = none := by simp [List.getElem?_zipWith, h1]
    simp [List.getD_eq_getElem?_getD, h1, h2, h3, AddLaws.zero_add]

/-- What the pass assumes about the graph and its closures (value level).
    `dimsOf` : the dimensions of every node; `Λ n i x` : the flattened contribution of node `n`'s
    closure to its `i`-th stored operand; `κ` : the keep flag under which a node is entered. -/
structure Sem (G : Graph S) where
  dimsOf : Nat → List Nat
  Λ : Nat → Nat → Tensor S → Tensor S
  κ : Nat → Bool
  slotDims : ∀ n s, s ∈ G.kids n → s.dims = dimsOf s.node
  /-- node dimensions are valid array dimensions -/
  dimsValid : ∀ n, dimsOf n ≠ [] ∧ ∀ d ∈ dimsOf n, 1 ≤ d
  /-- a closure that answers, answers with one entry per operand; for a tracked operand the entry,
      reduced to the operand's dimensions, is `Λ n i x` and has the operand's shape -/
  local_ : ∀ n cl x ds, G.vjp n = some cl → Shaped (dimsOf n) x →
    cl ((G.kids n).map (·.tracked)) x = .ok ds →
    ds.length = (G.kids n).length ∧
    ∀ i s, (G.kids n)[i]? = some s →
      (s.tracked = false → ds[i]? = some none) ∧
      (s.tracked = true → ∃ d, ds[i]? = some (some d) ∧
        (∀ t, flattenTo d s.dims = .ok t → t = Λ n i x))
  /-- contributions have the operand's shape -/
  shapedΛ : ∀ n i s x, (G.kids n)[i]? = some s → s.tracked = true → Shaped (dimsOf n) x → Shaped s.dims (Λ n i x)
  /-- contributions are additive in the delta -/
  additive : ∀ n i s x y, (G.kids n)[i]? = some s → Shaped (dimsOf n) x → Shaped (dimsOf n) y →
    Λ n i (tadd x y) = tadd (Λ n i x) (Λ n i y)

/-- same-shape addition is pointwise (C04 for equal dimensions, `add_same`) -/
theorem Sem.addSame {G : Graph S} (sem : Sem G) (k : Nat) (x y : Tensor S)
    (hx : Shaped (sem.dimsOf k) x) (hy : Shaped (sem.dimsOf k) y) : add x y = .ok (tadd x y) :=
  add_same _ (sem.dimsValid k).1 (sem.dimsValid k).2 x y hx hy

/-- the keep flag under which a leaf is entered is irrelevant: a node without stored operands always
    stores -/
theorem process_leaf_keep (G : Graph S) (f n : Nat) (k1 k2 : Bool) (σ : EState S) (h : G.kids n = []) :
    process G f n k1 σ = process G f n k2 σ := by
  cases f with
  | zero => rfl
  | succ f => simp [process, h]

section pathsum
variable [AddLaws S] {G : Graph S} (sem : Sem G) (ℓ j : Nat)

/-- does entering node `n` store the delta into its gradient cell? -/
def stores (n : Nat) : Bool := (G.kids n).isEmpty || sem.κ n

/-- `Σ` over the tracked stored operands `s_i` (indices from `i`) of `rec s_i.node (Λ n i x)` -/
def sumSlots (rec : Nat → Tensor S → S) (n : Nat) (x : Tensor S) : List Slot → Nat → S
  | [], _ => zero
  | s :: ss, i => (if s.tracked then rec s.node (sem.Λ n i x) else zero) + sumSlots rec n x ss (i + 1)

/-- the path sum (coordinate `j` of the contribution to `ℓ`), with fuel -/
def Pf : Nat → Nat → Tensor S → S
  | 0, _, _ => zero
  | f + 1, m, x =>
    (if m = ℓ ∧ stores sem m = true then coord j x.vals else zero) + sumSlots sem (Pf f) m x (G.kids m) 0

/-- the path sum of a delta `x` sitting at node `m` -/
def P (m : Nat) (x : Tensor S) : S := Pf sem ℓ j (m + 1) m x

theorem sumSlots_congr (rec rec' : Nat → Tensor S → S) (n : Nat) (x : Tensor S) :
    ∀ (ss : List Slot) (i : Nat), (∀ s ∈ ss, ∀ y, rec s.node y = rec' s.node y) →
      sumSlots sem rec n x ss i = sumSlots sem rec' n x ss i
  | [], _, _ => rfl
  | s :: ss, i, h => by
    simp only [sumSlots]
    rw [h s (by simp), sumSlots_congr rec rec' n x ss (i + 1) (fun t ht => h t (by simp [ht]))]

/-- enough fuel is enough: the path sum does not depend on the fuel -/
theorem Pf_stable (wf : G.WF) : ∀ (m f : Nat) (x : Tensor S), m < f → Pf sem ℓ j f m x = Pf sem ℓ j (m + 1) m x := by
  intro m
  induction m using Nat.strongRecOn with
  | _ m ih =>
    intro f x hf
    cases f with
    | zero => omega
    | succ f =>
      simp only [Pf]
      congr 1
      apply sumSlots_congr
      intro s hs y
      have hk : s.node < m := wf m s hs
      rw [ih s.node hk f y (by omega), ih s.node hk m y hk]

theorem Pf_unfold (wf : G.WF) (m : Nat) (x : Tensor S) :
    P sem ℓ j m x = (if m = ℓ ∧ stores sem m = true then coord j x.vals else zero)
      + sumSlots sem (P sem ℓ j) m x (G.kids m) 0 := by
  unfold P
  simp only [Pf]
  congr 1
  apply sumSlots_congr
  intro s hs y
  exact Pf_stable sem ℓ j wf s.node m y (wf m s hs)

theorem add4 (a b c d : S) : (a + b) + (c + d) = (a + c) + (b + d) := by
  rw [AddLaws.add_assoc, AddLaws.add_assoc, add_left_comm' b c d]

/-- the path sum is additive in the delta -/
theorem Pf_add : ∀ (f m : Nat) (x y : Tensor S), Shaped (sem.dimsOf m) x → Shaped (sem.dimsOf m) y →
    Pf sem ℓ j f m (tadd x y) = Pf sem ℓ j f m x + Pf sem ℓ j f m y := by
  intro f
  induction f with
  | zero => intro m x y _ _; simp [Pf, AddLaws.zero_add]
  | succ f ih =>
    intro m x y hx hy
    simp only [Pf]
    rw [add4]
    congr 1
    · by_cases h : m = ℓ ∧ stores sem m = true
      · rw [if_pos h, if_pos h, if_pos h]
        exact coord_zipWith_add j x.vals y.vals (by rw [hx.2, hy.2])
      · rw [if_neg h, if_neg h, if_neg h, AddLaws.zero_add]
    · -- slot by slot
      have key : ∀ (ss : List Slot) (i : Nat), (∀ k s, ss[k]? = some s → (G.kids m)[i + k]? = some s) →
          sumSlots sem (Pf sem ℓ j f) m (tadd x y) ss i
            = sumSlots sem (Pf sem ℓ j f) m x ss i + sumSlots sem (Pf sem ℓ j f) m y ss i := by
        intro ss
        induction ss with
        | nil => intro i _; simp [sumSlots, AddLaws.zero_add]
        | cons s ss ihs =>
          intro i hidx
          simp only [sumSlots]
          rw [add4, ihs (i + 1) (fun k t hk => by
            have := hidx (k + 1) t (by simpa using hk)
            rw [Nat.add_assoc, Nat.add_comm 1 k]; exact this)]
          congr 1
          have hsi : (G.kids m)[i]? = some s := by simpa using hidx 0 s (by simp)
          by_cases ht : s.tracked = true
          · rw [if_pos ht, if_pos ht, if_pos ht]
            have hsm : s ∈ G.kids m := List.mem_of_getElem? hsi
            rw [sem.additive m i s x y hsi hx hy]
            have h1 := sem.shapedΛ m i s x hsi ht hx
            have h2 := sem.shapedΛ m i s y hsi ht hy
            rw [sem.slotDims m s hsm] at h1 h2
            exact ih s.node _ _ h1 h2
          · rw [if_neg ht, if_neg ht, if_neg ht, AddLaws.zero_add]
      exact key (G.kids m) 0 (fun k s hk => by simpa using hk)

theorem P_add (m : Nat) (x y : Tensor S) (hx : Shaped (sem.dimsOf m) x) (hy : Shaped (sem.dimsOf m) y) :
    P sem ℓ j m (tadd x y) = P sem ℓ j m x + P sem ℓ j m y := Pf_add sem ℓ j (m + 1) m x y hx hy

/-! ### the conserved quantity -/

/-- coordinate `j` of the gradient stored at `ℓ` (zero when absent) -/
def gradVal (σ : EState S) : S :=
  match σ.grad ℓ with
  | some g => coord j g.vals
  | none => zero

/-- what a pending delta `old` of node `k` will still contribute -/
def pendOf (k : Nat) (old : Option (Tensor S)) : S :=
  match old with
  | some d => P sem ℓ j k d
  | none => zero

/-- what the pending delta of `m` will still contribute -/
def pendVal (σ : EState S) (m : Nat) : S := pendOf sem ℓ j m (σ.delta m)

def T (B : Nat) (σ : EState S) : S := gradVal ℓ j σ + sumN (pendVal sem ℓ j σ) B

structure VInv (σ : EState S) : Prop where
  dshape : ∀ m d, σ.delta m = some d → Shaped (sem.dimsOf m) d
  gshape : ∀ g, σ.grad ℓ = some g → Shaped (sem.dimsOf ℓ) g

/-- a successful delivery step, with the reduced delta and the merge made explicit -/
theorem deliver_some_inv' {rec : Nat → Bool → EState S → R (EState S)} {s : Slot} {ss : List Slot}
    {d : Tensor S} {ds : List (Option (Tensor S))} {σ σ' : EState S}
    (h : deliver rec (s :: ss) (some d :: ds) σ = .ok σ') :
    ∃ d' nd σ3, flattenTo d s.dims = .ok d' ∧ mergeDelta (σ.delta s.node) d' = .ok nd ∧
      (if σ.cnt s.node = 1 then
          rec s.node s.keep { σ with delta := upd σ.delta s.node (some nd), cnt := upd σ.cnt s.node (σ.cnt s.node - 1) }
        else pure { σ with delta := upd σ.delta s.node (some nd), cnt := upd σ.cnt s.node (σ.cnt s.node - 1) }) = .ok σ3 ∧
      deliver rec ss ds σ3 = .ok σ' := by
  simp only [deliver, bind, Except.bind] at h
  cases h1 : flattenTo d s.dims with
  | error e => simp [h1] at h
  | ok d' =>
    simp only [h1] at h
    cases h2 : mergeDelta (σ.delta s.node) d' with
    | error e => simp [h2] at h
    | ok nd =>
      simp only [h2] at h
      by_cases hc : σ.cnt s.node = 0
      · simp [hc, throw, throwThe, MonadExceptOf.throw] at h
      · simp only [hc, if_false] at h
        refine ⟨d', nd, ?_⟩
        by_cases h1c : σ.cnt s.node = 1
        · rw [if_pos h1c] at h ⊢
          cases h3 : rec s.node s.keep { σ with delta := upd σ.delta s.node (some nd), cnt := upd σ.cnt s.node (σ.cnt s.node - 1) } with
          | error e => simp [h3] at h
          | ok σ3 =>
            simp only [h3] at h
            exact ⟨σ3, rfl, h2, rfl, h⟩
        · rw [if_neg h1c] at h ⊢
          exact ⟨_, rfl, h2, rfl, h⟩

/-- merging a contribution of the operand's shape into its pending delta adds its path sum -/
theorem merge_pend (k : Nat) (old : Option (Tensor S)) (d' nd : Tensor S)
    (hold : ∀ o, old = some o → Shaped (sem.dimsOf k) o) (hd : Shaped (sem.dimsOf k) d')
    (hm : mergeDelta old d' = .ok nd) :
    Shaped (sem.dimsOf k) nd ∧
    P sem ℓ j k nd = pendOf sem ℓ j k old + P sem ℓ j k d' := by
  cases old with
  | none =>
    simp only [mergeDelta, pure, Except.pure, Except.ok.injEq] at hm
    subst hm
    exact ⟨hd, by simp [pendOf, AddLaws.zero_add]⟩
  | some o =>
    have ho := hold o rfl
    simp only [mergeDelta] at hm
    rw [sem.addSame _ o d' ho hd] at hm
    simp only [Except.ok.injEq] at hm
    subst hm
    exact ⟨ho.tadd hd, P_add sem ℓ j k o d' ho hd⟩

section invariant
variable (B : Nat) (wf : G.WF)
  /- the only assumption about keep flags: tracked slots pointing to the observed node `ℓ` itself store
     (or not) as `κ ℓ` says; it is vacuous when `ℓ` is a leaf, which always stores -/
  (hkeep : ∀ n s, s ∈ G.kids n → s.tracked = true → s.node = ℓ → ((G.kids ℓ).isEmpty || s.keep) = stores sem ℓ)
include wf hkeep

/-- the delivery loop moves `Σ P (operand) (Λ …)` from "nowhere" into pending deltas (and recursion
    preserves the total) -/
theorem deliver_T (f : Nat)
    (ih : ∀ n keep σ σ', n < f → n < B → VInv sem ℓ σ →
        (n = ℓ → ((G.kids n).isEmpty || keep) = stores sem n) → process G f n keep σ = .ok σ' →
        VInv sem ℓ σ' ∧ T sem ℓ j B σ' = T sem ℓ j B σ)
    (n : Nat) (hnf : n ≤ f) (hnB : n < B) (x : Tensor S) (hx : Shaped (sem.dimsOf n) x) :
    ∀ (ks : List Slot) (i0 : Nat) (ds : List (Option (Tensor S))) (σ σ' : EState S),
      (∀ k s, ks[k]? = some s → (G.kids n)[i0 + k]? = some s) →
      (∀ k s, ks[k]? = some s →
        (s.tracked = false → ds[k]? = some none) ∧
        (s.tracked = true → ∃ d, ds[k]? = some (some d) ∧ (∀ t, flattenTo d s.dims = .ok t → t = sem.Λ n (i0 + k) x))) →
      ds.length = ks.length → VInv sem ℓ σ → deliver (process G f) ks ds σ = .ok σ' →
      VInv sem ℓ σ' ∧ T sem ℓ j B σ' = T sem ℓ j B σ + sumSlots sem (P sem ℓ j) n x ks i0 := by
  intro ks
  induction ks with
  | nil =>
    intro i0 ds σ σ' _ _ hlen hv hok
    have : ds = [] := by simpa using hlen
    subst this
    rw [deliver_nil] at hok
    cases hok
    exact ⟨hv, by simp [sumSlots, add_zero']⟩
  | cons s ks ihks =>
    intro i0 ds σ σ' hidx hloc hlen hv hok
    have hsi : (G.kids n)[i0]? = some s := by simpa using hidx 0 s (by simp)
    have hsm : s ∈ G.kids n := List.mem_of_getElem? hsi
    have hidx' : ∀ k t, ks[k]? = some t → (G.kids n)[i0 + 1 + k]? = some t := fun k t hk => by
      have := hidx (k + 1) t (by simpa using hk)
      rw [Nat.add_assoc, Nat.add_comm 1 k]; exact this
    cases ds with
    | nil => simp at hlen
    | cons d ds =>
      have hlen' : ds.length = ks.length := by simpa using hlen
      have hloc' : ∀ k t, ks[k]? = some t →
          (t.tracked = false → ds[k]? = some none) ∧
          (t.tracked = true → ∃ d, ds[k]? = some (some d) ∧ (∀ u, flattenTo d t.dims = .ok u → u = sem.Λ n (i0 + 1 + k) x)) := by
        intro k t hk
        have := hloc (k + 1) t (by simpa using hk)
        simpa [Nat.add_assoc, Nat.add_comm 1 k] using this
      have h0 := hloc 0 s (by simp)
      simp only [List.getElem?_cons_zero, Nat.add_zero] at h0
      by_cases ht : s.tracked = true
      · obtain ⟨d0, hd0, hfl⟩ := h0.2 ht
        simp only [Option.some.injEq] at hd0
        subst hd0
        obtain ⟨d', nd, σ3, hflat, hmerge, hrec, hrest⟩ := deliver_some_inv' hok
        have hd' : d' = sem.Λ n i0 x := hfl d' hflat
        have hkn : s.node < n := wf n s hsm
        have hshape : Shaped (sem.dimsOf s.node) d' := by
          rw [hd', ← sem.slotDims n s hsm]; exact sem.shapedΛ n i0 s x hsi ht hx
        obtain ⟨hnd, hP⟩ := merge_pend sem ℓ j s.node (σ.delta s.node) d' nd (fun o ho => hv.dshape _ o ho) hshape hmerge
        -- the state after the merge and the decrement
        let σ2 : EState S := { σ with delta := upd σ.delta s.node (some nd), cnt := upd σ.cnt s.node (σ.cnt s.node - 1) }
        have hv2 : VInv sem ℓ σ2 := by
          refine ⟨?_, hv.gshape⟩
          intro m dm hm
          by_cases hmk : m = s.node
          · subst hmk; simp [σ2, upd] at hm; subst hm; exact hnd
          · simp [σ2, upd, hmk] at hm; exact hv.dshape m dm hm
        have hT2 : T sem ℓ j B σ2 = T sem ℓ j B σ + P sem ℓ j s.node d' := by
          unfold T
          have hg : gradVal ℓ j σ2 = gradVal ℓ j σ := rfl
          rw [hg, AddLaws.add_assoc]
          congr 1
          apply sumN_update (pendVal sem ℓ j σ) (pendVal sem ℓ j σ2) s.node (P sem ℓ j s.node d') ?_ ?_ B (by omega)
          · simp only [pendVal, σ2, upd, if_true]
            show P sem ℓ j s.node nd = _
            rw [hP]
          · intro m hm
            simp [pendVal, σ2, upd, hm]
        have h3 : VInv sem ℓ σ3 ∧ T sem ℓ j B σ3 = T sem ℓ j B σ2 := by
          by_cases h1 : σ.cnt s.node = 1
          · rw [if_pos h1] at hrec
            exact ih s.node s.keep σ2 σ3 (by omega) (by omega) hv2
              (fun e => by have := hkeep n s hsm ht e; rw [e]; exact this) hrec
          · rw [if_neg h1] at hrec
            simp only [pure, Except.pure, Except.ok.injEq] at hrec
            subst hrec
            exact ⟨hv2, rfl⟩
        obtain ⟨hv', hT'⟩ := ihks (i0 + 1) ds σ3 σ' hidx' hloc' hlen' h3.1 hrest
        refine ⟨hv', ?_⟩
        rw [hT', h3.2, hT2]
        simp only [sumSlots, ht, if_true, hd']
        rw [AddLaws.add_assoc]
      · have htf : s.tracked = false := by simpa using ht
        have hd0 := h0.1 htf
        simp only [Option.some.injEq] at hd0
        subst hd0
        rw [deliver_none] at hok
        obtain ⟨hv', hT'⟩ := ihks (i0 + 1) ds σ σ' hidx' hloc' hlen' hv hok
        refine ⟨hv', ?_⟩
        rw [hT']
        simp [sumSlots, htf, AddLaws.zero_add]

/-- entering a node redistributes its pending delta: the total is conserved -/
theorem process_T : ∀ (f n : Nat) (keep : Bool) (σ σ' : EState S), n < f → n < B → VInv sem ℓ σ →
    (n = ℓ → ((G.kids n).isEmpty || keep) = stores sem n) →
    process G f n keep σ = .ok σ' → VInv sem ℓ σ' ∧ T sem ℓ j B σ' = T sem ℓ j B σ := by
  intro f
  induction f with
  | zero => intro n _ _ _ h; omega
  | succ f ih =>
    intro n keep σ σ' hnf hnB hv hke hok
    simp only [process] at hok
    cases hdel : σ.delta n with
    | none => simp [hdel, throw, throwThe, MonadExceptOf.throw] at hok
    | some x =>
      simp only [hdel, bind, Except.bind] at hok
      have hx : Shaped (sem.dimsOf n) x := hv.dshape n x hdel
      let σ0 : EState S := { σ with delta := upd σ.delta n none, log := (n, x) :: σ.log }
      have hv0 : VInv sem ℓ σ0 := by
        refine ⟨?_, hv.gshape⟩
        intro m dm hm
        by_cases hmn : m = n
        · subst hmn; simp [σ0, upd] at hm
        · simp [σ0, upd, hmn] at hm; exact hv.dshape m dm hm
      -- taking the delta out of the cell
      have hT0 : T sem ℓ j B σ = T sem ℓ j B σ0 + P sem ℓ j n x := by
        unfold T
        have hg : gradVal ℓ j σ0 = gradVal ℓ j σ := rfl
        rw [hg, AddLaws.add_assoc]
        congr 1
        apply sumN_update (pendVal sem ℓ j σ0) (pendVal sem ℓ j σ) n (P sem ℓ j n x) ?_ ?_ B hnB
        · simp [pendVal, pendOf, σ0, upd, hdel, AddLaws.zero_add]
        · intro m hm
          simp [pendVal, σ0, upd, hm]
      cases hm : enter G (process G f) n x σ0 with
      | error e => simp [σ0, hm] at hok
      | ok σ1 =>
        simp only [σ0, hm] at hok
        -- the closure and the delivery loop
        have h1 : VInv sem ℓ σ1 ∧ T sem ℓ j B σ1 = T sem ℓ j B σ0 + sumSlots sem (P sem ℓ j) n x (G.kids n) 0 := by
          unfold enter at hm
          cases hvj : G.vjp n with
          | some cl =>
            simp only [hvj, bind, Except.bind] at hm
            cases hcl : cl ((G.kids n).map (·.tracked)) x with
            | error e => simp [hcl] at hm
            | ok ds =>
              simp only [hcl] at hm
              obtain ⟨hlen, hloc⟩ := sem.local_ n cl x ds hvj hx hcl
              exact deliver_T sem ℓ j B wf hkeep f (fun n keep σ σ' h1 h2 h3 h4 h5 => ih n keep σ σ' h1 h2 h3 h4 h5) n (by omega) hnB x hx
                (G.kids n) 0 ds σ0 σ1 (fun k s hk => by simpa using hk)
                (fun k s hk => by simpa using hloc k s hk) hlen hv0 hm
          | none =>
            simp only [hvj] at hm
            by_cases he : (G.kids n).isEmpty = true
            · simp only [he, if_true, pure, Except.pure, Except.ok.injEq] at hm
              subst hm
              have hk : G.kids n = [] := by simpa using he
              exact ⟨hv0, by simp [hk, sumSlots, add_zero']⟩
            · simp [he, throw, throwThe, MonadExceptOf.throw] at hm
        obtain ⟨hv1, hT1⟩ := h1
        have hunf := Pf_unfold sem ℓ j wf n x
        -- the final accumulation into the gradient cell
        by_cases hst : ((G.kids n).isEmpty || keep) = true
        · simp only [hst, if_true] at hok
          simp only [storeGrad, bind, Except.bind] at hok
          cases hg : mergeDelta (σ1.grad n) x with
          | error e => simp [hg] at hok
          | ok g =>
            simp only [hg, pure, Except.pure, Except.ok.injEq] at hok
            subst hok
            by_cases hnl : n = ℓ
            · subst hnl
              -- the entering delta lands in the observed cell
              have hgs : Shaped (sem.dimsOf n) g ∧ coord j g.vals = gradVal n j σ1 + coord j x.vals := by
                cases hgr : σ1.grad n with
                | none =>
                  simp only [hgr, mergeDelta, pure, Except.pure, Except.ok.injEq] at hg
                  subst hg
                  exact ⟨hx, by simp [gradVal, hgr, AddLaws.zero_add]⟩
                | some g0 =>
                  have hg0 := hv1.gshape g0 hgr
                  simp only [hgr, mergeDelta] at hg
                  rw [sem.addSame _ g0 x hg0 hx] at hg
                  simp only [Except.ok.injEq] at hg
                  subst hg
                  exact ⟨hg0.tadd hx, by
                    simp only [gradVal, hgr, tadd]
                    exact coord_zipWith_add j g0.vals x.vals (by rw [hg0.2, hx.2])⟩
              refine ⟨⟨hv1.dshape, ?_⟩, ?_⟩
              · intro g' hg'; simp [upd] at hg'; subst hg'; exact hgs.1
              · have hgv : gradVal n j { σ1 with grad := upd σ1.grad n (some g) } = gradVal n j σ1 + coord j x.vals := by
                  simp [gradVal, upd, hgs.2]
                have hpv : pendVal sem n j { σ1 with grad := upd σ1.grad n (some g) } = pendVal sem n j σ1 := rfl
                have hfin : T sem n j B { σ1 with grad := upd σ1.grad n (some g) } = T sem n j B σ1 + coord j x.vals := by
                  unfold T
                  rw [hgv, hpv, AddLaws.add_assoc, AddLaws.add_comm (coord j x.vals), ← AddLaws.add_assoc]
                have hcond : (n = n ∧ stores sem n = true) := ⟨rfl, by rw [← hke rfl]; exact hst⟩
                rw [hfin, hT1, hT0, hunf, if_pos hcond, AddLaws.add_assoc,
                  AddLaws.add_comm (sumSlots sem (P sem n j) n x (G.kids n) 0)]
            · -- another node's cell: the observed gradient is untouched
              refine ⟨⟨hv1.dshape, ?_⟩, ?_⟩
              · intro g' hg'
                have : ℓ ≠ n := fun e => hnl e.symm
                simp [upd, this] at hg'
                exact hv1.gshape g' hg'
              · have hl : ℓ ≠ n := fun e => hnl e.symm
                have hgv : gradVal ℓ j { σ1 with grad := upd σ1.grad n (some g) } = gradVal ℓ j σ1 := by
                  simp [gradVal, upd, hl]
                unfold T at hT1 ⊢
                have hpv : pendVal sem ℓ j { σ1 with grad := upd σ1.grad n (some g) } = pendVal sem ℓ j σ1 := rfl
                rw [hgv, hpv, hT1]
                show _ = T sem ℓ j B σ
                rw [hT0, hunf]
                have : ¬ (n = ℓ ∧ stores sem n = true) := fun h => hnl h.1
                simp only [this, if_false, AddLaws.zero_add]
                rfl
        · simp only [hst, Bool.false_eq_true, if_false, pure, Except.pure, Except.ok.injEq] at hok
          subst hok
          refine ⟨hv1, ?_⟩
          rw [hT1, hT0, hunf]
          have : ¬ (n = ℓ ∧ stores sem n = true) := fun h => hst (by rw [hke h.1]; exact h.2)
          simp only [this, if_false, AddLaws.zero_add]

/-- **The path-sum theorem.**  On every well-founded graph with lawful closures whose contributions
    are additive and shape-correct, a pass that completes from a clean state changes coordinate `j` of
    the gradient stored at `ℓ` by exactly the path sum of the seed:
    `grad'(ℓ)[j] = grad(ℓ)[j] + P root seed` — every tracked path from the root to `ℓ` exactly once,
    whatever the fan-out, the sharing and the order in which contributions arrived. -/
theorem backward_pathsum (lawful : G.Lawful) (fuel root : Nat) (hf : root < fuel) (dims : List Nat)
    (seed : Option (Tensor S)) (σ σ' : EState S) (hclean : σ.Clean) (hlog : σ.log = [])
    (hg : ∀ g, σ.grad ℓ = some g → Shaped (sem.dimsOf ℓ) g)
    (x : Tensor S) (hseed : seedOrOnes seed dims = .ok x) (hxs : Shaped (sem.dimsOf root) x)
    (hok : backward G fuel root dims (sem.κ root) seed σ = .ok σ') :
    gradVal ℓ j σ' = gradVal ℓ j σ + P sem ℓ j root x ∧ (∀ g, σ'.grad ℓ = some g → Shaped (sem.dimsOf ℓ) g) := by
  have hcount := backward_counts G wf lawful fuel root hf dims (sem.κ root) seed σ σ' hclean hlog hok
  obtain ⟨hc0, hd0⟩ := hclean
  unfold backward at hok
  simp only [hd0 root, bind, Except.bind, hseed] at hok
  let σp : EState S := { σ with cnt := (propagate G fuel root ⟨σ.cnt⟩).get, delta := upd σ.delta root (some x) }
  have hvp : VInv sem ℓ σp := by
    refine ⟨?_, hg⟩
    intro m dm hm
    by_cases hmr : m = root
    · subst hmr; simp [σp, upd] at hm; subst hm; exact hxs
    · simp [σp, upd, hmr, hd0 m] at hm
  have hTp : T sem ℓ j (root + 1) σp = gradVal ℓ j σ + P sem ℓ j root x := by
    unfold T
    have hgp : gradVal ℓ j σp = gradVal ℓ j σ := rfl
    rw [hgp]
    congr 1
    rw [sumN_update (fun _ => zero) (pendVal sem ℓ j σp) root (P sem ℓ j root x) ?_ ?_ (root + 1) (by omega),
      sumN_zero _ _ (fun _ _ => rfl), AddLaws.zero_add]
    · simp [pendVal, pendOf, σp, upd, AddLaws.zero_add]
    · intro m hm
      simp [pendVal, pendOf, σp, upd, hm, hd0 m]
  obtain ⟨hv', hT'⟩ := process_T sem ℓ j (root + 1) wf hkeep fuel root (sem.κ root) σp σ' hf (by omega) hvp (fun _ => rfl) hok
  refine ⟨?_, hv'.gshape⟩
  have hzero : sumN (pendVal sem ℓ j σ') (root + 1) = zero :=
    sumN_zero _ _ (fun m _ => by simp [pendVal, pendOf, hcount.1.2 m])
  have : T sem ℓ j (root + 1) σ' = gradVal ℓ j σ' := by
    unfold T; rw [hzero, add_zero']
  rw [← this, hT', hTp]

end invariant

/-! ### homogeneity (for C17) -/

/-- scalar multiple of a tensor -/
def tsmul (c : S) (x : Tensor S) : Tensor S := ⟨x.dims, x.vals.map (c * ·)⟩

theorem Shaped.tsmul {d : List Nat} {x : Tensor S} (c : S) (hx : Shaped d x) : Shaped d (Corgi.tsmul c x) :=
  ⟨hx.1, by simp [Corgi.tsmul, hx.2]⟩

theorem coord_smul (c : S) (hc0 : c * zero = zero) (j : Nat) (v : List S) :
    coord j (v.map (c * ·)) = c * coord j v := by
  unfold coord
  by_cases hj : j < v.length
  · simp [List.getD_eq_getElem?_getD, List.getElem?_map, List.getElem?_eq_getElem hj]
  · have h1 : v[j]? = none := by simp; omega
    simp [List.getD_eq_getElem?_getD, List.getElem?_map, h1, hc0]

/-- if every contribution commutes with scaling by `c`, so does the path sum -/
theorem Pf_smul (c : S) (hc0 : c * zero = zero) (hdist : ∀ a b : S, c * (a + b) = c * a + c * b)
    (hΛ : ∀ n i s x, (G.kids n)[i]? = some s → Shaped (sem.dimsOf n) x →
      sem.Λ n i (tsmul c x) = tsmul c (sem.Λ n i x)) :
    ∀ (f m : Nat) (x : Tensor S), Shaped (sem.dimsOf m) x →
      Pf sem ℓ j f m (tsmul c x) = c * Pf sem ℓ j f m x := by
  intro f
  induction f with
  | zero => intro m x _; simp [Pf, hc0]
  | succ f ih =>
    intro m x hx
    simp only [Pf]
    rw [hdist]
    congr 1
    · by_cases h : m = ℓ ∧ stores sem m = true
      · rw [if_pos h, if_pos h]; exact coord_smul c hc0 j x.vals
      · rw [if_neg h, if_neg h, hc0]
    · have key : ∀ (ss : List Slot) (i : Nat), (∀ k s, ss[k]? = some s → (G.kids m)[i + k]? = some s) →
          sumSlots sem (Pf sem ℓ j f) m (tsmul c x) ss i = c * sumSlots sem (Pf sem ℓ j f) m x ss i := by
        intro ss
        induction ss with
        | nil => intro i _; simp [sumSlots, hc0]
        | cons s ss ihs =>
          intro i hidx
          simp only [sumSlots]
          rw [hdist, ihs (i + 1) (fun k t hk => by
            have := hidx (k + 1) t (by simpa using hk)
            rw [Nat.add_assoc, Nat.add_comm 1 k]; exact this)]
          congr 1
          have hsi : (G.kids m)[i]? = some s := by simpa using hidx 0 s (by simp)
          by_cases ht : s.tracked = true
          · rw [if_pos ht, if_pos ht, hΛ m i s x hsi hx]
            have hsm : s ∈ G.kids m := List.mem_of_getElem? hsi
            have h1 := sem.shapedΛ m i s x hsi ht hx
            rw [sem.slotDims m s hsm] at h1
            exact ih s.node _ h1
          · rw [if_neg ht, if_neg ht, hc0]
      exact key (G.kids m) 0 (fun k s hk => by simpa using hk)

end pathsum
end Corgi
