/-
  CorgiProofs.LinearTags — the closures of `Vjp.lean` are total, shape-correct and additive (`VjpLin`)
  whenever the stored operands have the shapes the forward operation produced them with (`TagShape`).
-/
import CorgiProofs.Linear
import CorgiProofs.Ewise
import CorgiProofs.HeapInv

set_option linter.unusedSectionVars false
set_option linter.unusedVariables false

namespace Corgi
variable {S : Type} [Add S] [Mul S] [Neg S] [Sub S] [ScalarOps S] [BEq S]

/-! ### assembling `VjpLin` from entries -/

/-- what one (possibly skipped) entry delivers -/
def EntryOut (f : Bool) (kd : List Nat) (o1 o2 o3 : Option (Tensor S)) : Prop :=
  f = true → ∃ d1 d2 d3 t1 t2, o1 = some d1 ∧ o2 = some d2 ∧ o3 = some d3 ∧
    flattenTo d1 kd = .ok t1 ∧ flattenTo d2 kd = .ok t2 ∧ flattenTo d3 kd = .ok (tadd t1 t2) ∧
    Shaped kd t1 ∧ Shaped kd t2

theorem whenT_lin [AddLaws S] (f : Bool) (g : Tensor S → R (Tensor S)) (nd kd : List Nat)
    (h : f = true → LinEntry g nd kd) (x y : Tensor S) (hx : Shaped nd x) (hy : Shaped nd y) :
    ∃ o1 o2 o3, whenT f (g x) = .ok o1 ∧ whenT f (g y) = .ok o2 ∧ whenT f (g (tadd x y)) = .ok o3 ∧
      EntryOut f kd o1 o2 o3 := by
  cases f with
  | false => exact ⟨none, none, none, rfl, rfl, rfl, fun h => by cases h⟩
  | true =>
    obtain ⟨d1, d2, d3, t1, t2, g1, g2, g3, f1, f2, f3, s1, s2⟩ := (h rfl).use x y hx hy
    refine ⟨some d1, some d2, some d3, ?_, ?_, ?_, fun _ => ⟨d1, d2, d3, t1, t2, rfl, rfl, rfl, f1, f2, f3, s1, s2⟩⟩
    · simp [whenT, g1, Except.map]
    · simp [whenT, g2, Except.map]
    · simp [whenT, g3, Except.map]

/-- a pass-through entry (`if flag then Some(delta) else None`) -/
theorem pass_lin [AddLaws S] (f : Bool) (nd kd : List Nat) (hnd : ∀ d ∈ nd, 1 ≤ d) (hkd : ∀ d ∈ kd, 1 ≤ d)
    (hfit : Fits kd nd = true) (x y : Tensor S) (hx : Shaped nd x) (hy : Shaped nd y) :
    EntryOut f kd (if f then some x else none) (if f then some y else none) (if f then some (tadd x y) else none) := by
  intro hf
  subst hf
  obtain ⟨t1, t2, f1, f2, f3, s1, s2⟩ := flatten_additive nd kd hnd hkd hfit x y hx hy
  exact ⟨x, y, tadd x y, t1, t2, rfl, rfl, rfl, f1, f2, f3, s1, s2⟩

theorem vjpLin_of1 {cl : Closure S} {f0 : Bool} {nd k0 : List Nat}
    (h : ∀ x y, Shaped nd x → Shaped nd y → ∃ o1 o2 o3, cl [f0] x = .ok [o1] ∧ cl [f0] y = .ok [o2] ∧
      cl [f0] (tadd x y) = .ok [o3] ∧ EntryOut f0 k0 o1 o2 o3) : VjpLin cl [f0] nd [k0] := by
  intro x y hx hy
  obtain ⟨o1, o2, o3, c1, c2, c3, e⟩ := h x y hx hy
  refine ⟨[o1], [o2], [o3], c1, c2, c3, ?_⟩
  intro i hi
  match i, hi with
  | 0, hi =>
    simp only [List.getElem?_cons_zero, Option.some.injEq] at hi
    obtain ⟨d1, d2, d3, t1, t2, rfl, rfl, rfl, r⟩ := e hi
    exact ⟨k0, d1, d2, d3, t1, t2, rfl, rfl, rfl, rfl, r⟩
  | i + 1, hi => simp at hi

theorem vjpLin_of2 {cl : Closure S} {f0 f1 : Bool} {nd k0 k1 : List Nat}
    (h : ∀ x y, Shaped nd x → Shaped nd y → ∃ o1 o2 o3 p1 p2 p3, cl [f0, f1] x = .ok [o1, p1] ∧
      cl [f0, f1] y = .ok [o2, p2] ∧ cl [f0, f1] (tadd x y) = .ok [o3, p3] ∧
      EntryOut f0 k0 o1 o2 o3 ∧ EntryOut f1 k1 p1 p2 p3) : VjpLin cl [f0, f1] nd [k0, k1] := by
  intro x y hx hy
  obtain ⟨o1, o2, o3, p1, p2, p3, c1, c2, c3, e, e'⟩ := h x y hx hy
  refine ⟨[o1, p1], [o2, p2], [o3, p3], c1, c2, c3, ?_⟩
  intro i hi
  match i, hi with
  | 0, hi =>
    simp only [List.getElem?_cons_zero, Option.some.injEq] at hi
    obtain ⟨d1, d2, d3, t1, t2, rfl, rfl, rfl, r⟩ := e hi
    exact ⟨k0, d1, d2, d3, t1, t2, rfl, rfl, rfl, rfl, r⟩
  | 1, hi =>
    simp only [List.getElem?_cons_succ, List.getElem?_cons_zero, Option.some.injEq] at hi
    obtain ⟨d1, d2, d3, t1, t2, rfl, rfl, rfl, r⟩ := e' hi
    exact ⟨k1, d1, d2, d3, t1, t2, rfl, rfl, rfl, rfl, r⟩
  | i + 2, hi => simp at hi

theorem vjpLin_of3 {cl : Closure S} {f0 f1 f2 : Bool} {nd k0 k1 k2 : List Nat}
    (h : ∀ x y, Shaped nd x → Shaped nd y → ∃ o1 o2 o3 p1 p2 p3 q1 q2 q3, cl [f0, f1, f2] x = .ok [o1, p1, q1] ∧
      cl [f0, f1, f2] y = .ok [o2, p2, q2] ∧ cl [f0, f1, f2] (tadd x y) = .ok [o3, p3, q3] ∧
      EntryOut f0 k0 o1 o2 o3 ∧ EntryOut f1 k1 p1 p2 p3 ∧ EntryOut f2 k2 q1 q2 q3) :
    VjpLin cl [f0, f1, f2] nd [k0, k1, k2] := by
  intro x y hx hy
  obtain ⟨o1, o2, o3, p1, p2, p3, q1, q2, q3, c1, c2, c3, e, e', e''⟩ := h x y hx hy
  refine ⟨[o1, p1, q1], [o2, p2, q2], [o3, p3, q3], c1, c2, c3, ?_⟩
  intro i hi
  match i, hi with
  | 0, hi =>
    simp only [List.getElem?_cons_zero, Option.some.injEq] at hi
    obtain ⟨d1, d2, d3, t1, t2, rfl, rfl, rfl, r⟩ := e hi
    exact ⟨k0, d1, d2, d3, t1, t2, rfl, rfl, rfl, rfl, r⟩
  | 1, hi =>
    simp only [List.getElem?_cons_succ, List.getElem?_cons_zero, Option.some.injEq] at hi
    obtain ⟨d1, d2, d3, t1, t2, rfl, rfl, rfl, r⟩ := e' hi
    exact ⟨k1, d1, d2, d3, t1, t2, rfl, rfl, rfl, rfl, r⟩
  | 2, hi =>
    simp only [List.getElem?_cons_succ, List.getElem?_cons_zero, Option.some.injEq] at hi
    obtain ⟨d1, d2, d3, t1, t2, rfl, rfl, rfl, r⟩ := e'' hi
    exact ⟨k2, d1, d2, d3, t1, t2, rfl, rfl, rfl, rfl, r⟩
  | i + 3, hi => simp at hi

/-! ### … and the same for scaling -/

def EntryOutH (α : S) (f : Bool) (kd : List Nat) (o1 o3 : Option (Tensor S)) : Prop :=
  f = true → ∃ d1 d3 t1, o1 = some d1 ∧ o3 = some d3 ∧
    flattenTo d1 kd = .ok t1 ∧ flattenTo d3 kd = .ok (tsmul α t1)

theorem whenT_hom [AddLaws S] [MulLaws S] [CommLaws S] (α : S) (f : Bool) (g : Tensor S → R (Tensor S)) (nd kd : List Nat)
    (h : f = true → LinEntry g nd kd) (x : Tensor S) (hx : Shaped nd x) :
    ∃ o1 o3, whenT f (g x) = .ok o1 ∧ whenT f (g (tsmul α x)) = .ok o3 ∧ EntryOutH α f kd o1 o3 := by
  cases f with
  | false => exact ⟨none, none, rfl, rfl, fun h => by cases h⟩
  | true =>
    obtain ⟨d1, d3, t1, g1, g3, f1, f3⟩ := (h rfl).useHom α x hx
    refine ⟨some d1, some d3, ?_, ?_, fun _ => ⟨d1, d3, t1, rfl, rfl, f1, f3⟩⟩
    · simp [whenT, g1, Except.map]
    · simp [whenT, g3, Except.map]

theorem pass_hom [AddLaws S] [MulLaws S] [CommLaws S] (α : S) (f : Bool) (nd kd : List Nat) (hnd : ∀ d ∈ nd, 1 ≤ d)
    (hkd : ∀ d ∈ kd, 1 ≤ d) (hfit : Fits kd nd = true) (x : Tensor S) (hx : Shaped nd x) :
    EntryOutH α f kd (if f then some x else none) (if f then some (tsmul α x) else none) := by
  intro hf
  subst hf
  obtain ⟨t1, f1, f3⟩ := flatten_hom α nd kd hnd hkd hfit x hx
  exact ⟨x, tsmul α x, t1, rfl, rfl, f1, f3⟩

theorem vjpHom_of1 {α : S} {cl : Closure S} {f0 : Bool} {nd k0 : List Nat}
    (h : ∀ x, Shaped nd x → ∃ o1 o3, cl [f0] x = .ok [o1] ∧ cl [f0] (tsmul α x) = .ok [o3] ∧ EntryOutH α f0 k0 o1 o3) :
    VjpHom α cl [f0] nd [k0] := by
  intro x hx
  obtain ⟨o1, o3, c1, c3, e⟩ := h x hx
  refine ⟨[o1], [o3], c1, c3, ?_⟩
  intro i hi
  match i, hi with
  | 0, hi =>
    simp only [List.getElem?_cons_zero, Option.some.injEq] at hi
    obtain ⟨d1, d3, t1, rfl, rfl, r⟩ := e hi
    exact ⟨k0, d1, d3, t1, rfl, rfl, rfl, r⟩
  | i + 1, hi => simp at hi

theorem vjpHom_of2 {α : S} {cl : Closure S} {f0 f1 : Bool} {nd k0 k1 : List Nat}
    (h : ∀ x, Shaped nd x → ∃ o1 o3 p1 p3, cl [f0, f1] x = .ok [o1, p1] ∧ cl [f0, f1] (tsmul α x) = .ok [o3, p3] ∧
      EntryOutH α f0 k0 o1 o3 ∧ EntryOutH α f1 k1 p1 p3) : VjpHom α cl [f0, f1] nd [k0, k1] := by
  intro x hx
  obtain ⟨o1, o3, p1, p3, c1, c3, e, e'⟩ := h x hx
  refine ⟨[o1, p1], [o3, p3], c1, c3, ?_⟩
  intro i hi
  match i, hi with
  | 0, hi =>
    simp only [List.getElem?_cons_zero, Option.some.injEq] at hi
    obtain ⟨d1, d3, t1, rfl, rfl, r⟩ := e hi
    exact ⟨k0, d1, d3, t1, rfl, rfl, rfl, r⟩
  | 1, hi =>
    simp only [List.getElem?_cons_succ, List.getElem?_cons_zero, Option.some.injEq] at hi
    obtain ⟨d1, d3, t1, rfl, rfl, r⟩ := e' hi
    exact ⟨k1, d1, d3, t1, rfl, rfl, rfl, r⟩
  | i + 2, hi => simp at hi

theorem vjpHom_of3 {α : S} {cl : Closure S} {f0 f1 f2 : Bool} {nd k0 k1 k2 : List Nat}
    (h : ∀ x, Shaped nd x → ∃ o1 o3 p1 p3 q1 q3, cl [f0, f1, f2] x = .ok [o1, p1, q1] ∧
      cl [f0, f1, f2] (tsmul α x) = .ok [o3, p3, q3] ∧
      EntryOutH α f0 k0 o1 o3 ∧ EntryOutH α f1 k1 p1 p3 ∧ EntryOutH α f2 k2 q1 q3) :
    VjpHom α cl [f0, f1, f2] nd [k0, k1, k2] := by
  intro x hx
  obtain ⟨o1, o3, p1, p3, q1, q3, c1, c3, e, e', e''⟩ := h x hx
  refine ⟨[o1, p1, q1], [o3, p3, q3], c1, c3, ?_⟩
  intro i hi
  match i, hi with
  | 0, hi =>
    simp only [List.getElem?_cons_zero, Option.some.injEq] at hi
    obtain ⟨d1, d3, t1, rfl, rfl, r⟩ := e hi
    exact ⟨k0, d1, d3, t1, rfl, rfl, rfl, r⟩
  | 1, hi =>
    simp only [List.getElem?_cons_succ, List.getElem?_cons_zero, Option.some.injEq] at hi
    obtain ⟨d1, d3, t1, rfl, rfl, r⟩ := e' hi
    exact ⟨k1, d1, d3, t1, rfl, rfl, rfl, r⟩
  | 2, hi =>
    simp only [List.getElem?_cons_succ, List.getElem?_cons_zero, Option.some.injEq] at hi
    obtain ⟨d1, d3, t1, rfl, rfl, r⟩ := e'' hi
    exact ⟨k2, d1, d3, t1, rfl, rfl, rfl, r⟩
  | i + 3, hi => simp at hi

/-- additive and homogeneous: linear -/
def VjpLinear (cl : Closure S) (t : List Bool) (nd : List Nat) (kd : List (List Nat)) : Prop :=
  VjpLin cl t nd kd ∧ ∀ α : S, VjpHom α cl t nd kd

/-! ### broadcast dimension facts -/

theorem compatRev_bdims_right : ∀ (a b : List Nat), (∀ d ∈ a, 1 ≤ d) → (∀ d ∈ b, 1 ≤ d) → compatRev a b = true →
    compatRev b (bdimsRev a b) = true
  | [], [], _, _, _ => rfl
  | [], y :: ys, _, _, _ => by simp only [bdimsRev]; exact compatRev_self _
  | x :: xs, [], _, _, _ => by simp [compatRev]
  | x :: xs, y :: ys, ha, hb, h => by
    simp only [compatRev, Bool.and_eq_true, Bool.or_eq_true, beq_iff_eq] at h
    simp only [bdimsRev, compatRev, Bool.and_eq_true, Bool.or_eq_true, beq_iff_eq]
    have hx : 1 ≤ x := ha x (by simp)
    have hy : 1 ≤ y := hb y (by simp)
    refine ⟨?_, compatRev_bdims_right xs ys (fun d hd => ha d (by simp [hd])) (fun d hd => hb d (by simp [hd])) h.2⟩
    rcases h.1 with (h1 | h1) | h1
    · subst h1; left; left; simp
    · subst h1; left; left; omega
    · subst h1; left; right; rfl

theorem bdimsRev_absorb_right : ∀ (a b : List Nat), bdimsRev b (bdimsRev a b) = bdimsRev a b
  | [], [] => rfl
  | [], y :: ys => by
    have : bdimsRev [] (y :: ys) = y :: ys := rfl
    rw [this]; exact bdimsRev_self _
  | x :: xs, [] => by
    cases xs <;> simp [bdimsRev]
  | x :: xs, y :: ys => by
    simp only [bdimsRev, bdimsRev_absorb_right xs ys]
    congr 1; omega

theorem Compat_bdims_right (a b : List Nat) (ha : ∀ d ∈ a, 1 ≤ d) (hb : ∀ d ∈ b, 1 ≤ d) (h : Compat a b = true) :
    Compat b (bdims a b) = true := by
  simp only [Compat, bdims, List.reverse_reverse]
  exact compatRev_bdims_right _ _ (by simpa using ha) (by simpa using hb) h

theorem bdims_absorb_right (a b : List Nat) : bdims b (bdims a b) = bdims a b := by
  simp only [bdims, List.reverse_reverse, bdimsRev_absorb_right]

theorem Compat_bdims_left (a b : List Nat) (ha : ∀ d ∈ a, 1 ≤ d) (hb : ∀ d ∈ b, 1 ≤ d) (h : Compat a b = true) :
    Compat a (bdims a b) = true := by
  have hc : Compat b a = true := by simpa [Compat, compatRev_comm] using h
  have := Compat_bdims_right b a hb ha hc
  simpa [bdims, bdimsRev_comm] using this

theorem bdims_absorb_left (a b : List Nat) : bdims a (bdims a b) = bdims a b := by
  have := bdims_absorb_right b a
  simpa [bdims, bdimsRev_comm] using this

theorem Compat_comm (a b : List Nat) : Compat a b = Compat b a := by simp [Compat, compatRev_comm]
theorem bdims_comm (a b : List Nat) : bdims a b = bdims b a := by simp [bdims, bdimsRev_comm]

theorem bdims_ne_nil (a b : List Nat) (ha : a ≠ []) : bdims a b ≠ [] := by
  intro e
  have := bdims_length a b
  rw [e] at this
  have : a.length = 0 := by simp at this; omega
  exact ha (List.length_eq_zero_iff.mp this)

/-! ### the broadcast product with a constant is additive in the other operand -/

theorem Shaped.wf {d : List Nat} {x : Tensor S} (h : Shaped d x) (hd : ∀ k ∈ d, 1 ≤ k) : x.WF :=
  ⟨by rw [h.1]; exact hd, by rw [h.1]; exact h.2.symm⟩

theorem tadd_get [AddLaws S] (x y : Tensor S) (hd : x.dims = y.dims) (hl : x.vals.length = y.vals.length)
    (idx : List Nat) : (tadd x y).get idx = x.get idx + y.get idx := by
  simp only [Tensor.get]
  show (tadd x y).vals.getD (rowMajor x.dims idx) zero = _
  rw [tadd_getD x y hl, hd]

theorem specEwise_shaped (f : S → S → S) (a b : Tensor S) : Shaped (bdims a.dims b.dims) (specEwise f a b) := by
  simp [Shaped, specEwise, specEwise', Tensor.ofFn]

/-- `c ⊙ (x + y) = c ⊙ x + c ⊙ y` for an operation additive in its second argument -/
theorem specEwise_add_right [AddLaws S] (f : S → S → S) (hf : ∀ a p q, f a (p + q) = f a p + f a q)
    (c x y : Tensor S) (hd : x.dims = y.dims) (hl : x.vals.length = y.vals.length) :
    specEwise f c (tadd x y) = tadd (specEwise f c x) (specEwise f c y) := by
  have e1 : (tadd x y).dims = x.dims := rfl
  simp only [specEwise, specEwise', Tensor.ofFn, tadd, e1, ← hd]
  congr 1
  rw [zipWith_map_range]
  apply List.map_congr_left
  intro n _
  have := tadd_get x y hd hl (proj x.dims (unflatten (bdims c.dims x.dims) n))
  simp only [tadd] at this
  rw [this, hf, hd]

theorem specEwise_add_left [AddLaws S] (f : S → S → S) (hf : ∀ p q a, f (p + q) a = f p a + f q a)
    (c x y : Tensor S) (hd : x.dims = y.dims) (hl : x.vals.length = y.vals.length) :
    specEwise f (tadd x y) c = tadd (specEwise f x c) (specEwise f y c) := by
  have e1 : (tadd x y).dims = x.dims := rfl
  simp only [specEwise, specEwise', Tensor.ofFn, tadd, e1, ← hd]
  congr 1
  rw [zipWith_map_range]
  apply List.map_congr_left
  intro n _
  have := tadd_get x y hd hl (proj x.dims (unflatten (bdims x.dims c.dims) n))
  simp only [tadd] at this
  rw [this, hf, hd]

theorem tsmul_get [AddLaws S] [CommLaws S] (α : S) (x : Tensor S) (idx : List Nat) : (tsmul α x).get idx = α * x.get idx := by
  simp only [Tensor.get]
  exact tsmul_getD α x _

theorem specEwise_smul_right [AddLaws S] [CommLaws S] (f : S → S → S) (hfs : ∀ (α a p : S), f a (α * p) = α * f a p)
    (c : Tensor S) (α : S) (x : Tensor S) : specEwise f c (tsmul α x) = tsmul α (specEwise f c x) := by
  have e1 : (tsmul α x).dims = x.dims := rfl
  simp only [specEwise, specEwise', Tensor.ofFn, e1]
  simp only [tsmul, List.map_map]
  congr 1
  apply List.map_congr_left
  intro n _
  simp only [Function.comp]
  have := tsmul_get α x (proj x.dims (unflatten (bdims c.dims x.dims) n))
  simp only [tsmul] at this
  rw [this, hfs]

theorem specEwise_smul_left [AddLaws S] [CommLaws S] (f : S → S → S) (hfs : ∀ (α p a : S), f (α * p) a = α * f p a)
    (c : Tensor S) (α : S) (x : Tensor S) : specEwise f (tsmul α x) c = tsmul α (specEwise f x c) := by
  have e1 : (tsmul α x).dims = x.dims := rfl
  simp only [specEwise, specEwise', Tensor.ofFn, e1]
  simp only [tsmul, List.map_map]
  congr 1
  apply List.map_congr_left
  intro n _
  simp only [Function.comp]
  have := tsmul_get α x (proj x.dims (unflatten (bdims x.dims c.dims) n))
  simp only [tsmul] at this
  rw [this, hfs]

/-- `x ↦ f c x` (broadcast, `c` constant) as an entry: delta of shape `nd`, `c` fits `nd` -/
theorem linEntry_ewise_right [AddLaws S] [CommLaws S] (f : S → S → S) (hf : ∀ a p q, f a (p + q) = f a p + f a q)
    (hfs : ∀ (α a p : S), f a (α * p) = α * f a p)
    (c : Tensor S) (nd kd : List Nat) (hc : c.WF) (hcn : c.dims ≠ []) (hnd : ∀ d ∈ nd, 1 ≤ d) (hnn : nd ≠ [])
    (hcompat : Compat c.dims nd = true) (hb : bdims c.dims nd = nd) (hkd : ∀ d ∈ kd, 1 ≤ d) (hfit : Fits kd nd = true) :
    LinEntry (fun x => ewise f c x) nd kd := by
  refine ⟨nd, fun x => specEwise f c x, hnd, hkd, hfit, ?_, ?_, ?_⟩
  · intro x hx
    refine ⟨ewise_spec f c x hc (hx.wf hnd) hcn (by rw [hx.1]; exact hnn) (by rw [hx.1]; exact hcompat), ?_⟩
    have := specEwise_shaped f c x
    rwa [hx.1, hb] at this
  · intro x y hx hy
    exact specEwise_add_right f hf c x y (hx.1.trans hy.1.symm) (by rw [hx.2, hy.2])
  · intro α x hx
    exact specEwise_smul_right f hfs c α x

theorem linEntry_ewise_left [AddLaws S] [CommLaws S] (f : S → S → S) (hf : ∀ p q a, f (p + q) a = f p a + f q a)
    (hfs : ∀ (α p a : S), f (α * p) a = α * f p a)
    (c : Tensor S) (nd kd : List Nat) (hc : c.WF) (hcn : c.dims ≠ []) (hnd : ∀ d ∈ nd, 1 ≤ d) (hnn : nd ≠ [])
    (hcompat : Compat nd c.dims = true) (hb : bdims nd c.dims = nd) (hkd : ∀ d ∈ kd, 1 ≤ d) (hfit : Fits kd nd = true) :
    LinEntry (fun x => ewise f x c) nd kd := by
  refine ⟨nd, fun x => specEwise f x c, hnd, hkd, hfit, ?_, ?_, ?_⟩
  · intro x hx
    refine ⟨ewise_spec f x c (hx.wf hnd) hc (by rw [hx.1]; exact hnn) hcn (by rw [hx.1]; exact hcompat), ?_⟩
    have := specEwise_shaped f x c
    rwa [hx.1, hb] at this
  · intro x y hx hy
    exact specEwise_add_left f hf c x y (hx.1.trans hy.1.symm) (by rw [hx.2, hy.2])
  · intro α x hx
    exact specEwise_smul_left f hfs c α x

/-- pointwise maps that are additive: `x ↦ ⟨x.dims, map φ⟩` -/
theorem mapT_add [AddLaws S] (φ : S → S) (hφ : ∀ p q, φ (p + q) = φ p + φ q) (x y : Tensor S)
    (hl : x.vals.length = y.vals.length) : mapT φ (tadd x y) = tadd (mapT φ x) (mapT φ y) := by
  simp only [mapT, tadd]
  congr 1
  apply List.ext_getElem?
  intro m
  simp only [List.getElem?_map, List.getElem?_zipWith]
  cases x.vals[m]? <;> cases y.vals[m]? <;> simp [hφ]

theorem linEntry_mapT [AddLaws S] (φ : S → S) (hφ : ∀ p q, φ (p + q) = φ p + φ q) (hφs : ∀ α p : S, φ (α * p) = α * φ p)
    (nd : List Nat) (hnd : ∀ d ∈ nd, 1 ≤ d) :
    LinEntry (fun x => (pure (mapT φ x) : R (Tensor S))) nd nd := by
  refine ⟨nd, mapT φ, hnd, hnd, by simp [Fits, fitsRev_self], ?_, ?_, ?_⟩
  · intro x hx
    exact ⟨rfl, by simpa [Shaped, mapT] using hx⟩
  · intro x y hx hy
    exact mapT_add φ hφ x y (by rw [hx.2, hy.2])
  · intro α x _
    simp only [mapT, tsmul, List.map_map]
    congr 1
    apply List.map_congr_left
    intro p _
    simp [Function.comp, hφs]

/-- `mul_values(k, delta)` under the operand's dimensions -/
theorem linEntry_mulValuesL [AddLaws S] [MulLaws S] [CommLaws S] (k : List S) (nd : List Nat) (hnd : ∀ d ∈ nd, 1 ≤ d)
    (hk : k.length = prod nd) :
    LinEntry (fun x => Tensor.mk? nd (mulValues k x.vals)) nd nd := by
  refine ⟨nd, fun x => ⟨nd, mulValues k x.vals⟩, hnd, hnd, by simp [Fits, fitsRev_self], ?_, ?_, ?_⟩
  · intro x hx
    have hlen : (mulValues k x.vals).length = prod nd := by simp [mulValues, hk, hx.2]
    refine ⟨?_, rfl, hlen⟩
    have h1 : nd.all (fun d => decide (1 ≤ d)) = true := by simpa using hnd
    simp [Tensor.mk?, h1, hlen, pure, Except.pure]
  · intro x y hx hy
    simp only [tadd, mulValues]
    congr 1
    apply List.ext_getElem?
    intro m
    simp only [List.getElem?_zipWith]
    cases k[m]? <;> cases x.vals[m]? <;> cases y.vals[m]? <;> simp [MulLaws.left_distrib]
  · intro α x _
    simp only [tsmul, mulValues]
    congr 1
    apply List.ext_getElem?
    intro m
    simp only [List.getElem?_zipWith, List.getElem?_map]
    cases k[m]? <;> cases x.vals[m]? <;> simp
    rw [← CommLaws.mul_assoc, CommLaws.mul_comm _ α, CommLaws.mul_assoc]

theorem linEntry_mulValuesR [AddLaws S] [MulLaws S] [CommLaws S] (k : List S) (nd : List Nat) (hnd : ∀ d ∈ nd, 1 ≤ d)
    (hk : k.length = prod nd) :
    LinEntry (fun x => Tensor.mk? nd (mulValues x.vals k)) nd nd := by
  refine ⟨nd, fun x => ⟨nd, mulValues x.vals k⟩, hnd, hnd, by simp [Fits, fitsRev_self], ?_, ?_, ?_⟩
  · intro x hx
    have hlen : (mulValues x.vals k).length = prod nd := by simp [mulValues, hk, hx.2]
    refine ⟨?_, rfl, hlen⟩
    have h1 : nd.all (fun d => decide (1 ≤ d)) = true := by simpa using hnd
    simp [Tensor.mk?, h1, hlen, pure, Except.pure]
  · intro x y hx hy
    simp only [tadd, mulValues]
    congr 1
    apply List.ext_getElem?
    intro m
    simp only [List.getElem?_zipWith]
    cases k[m]? <;> cases x.vals[m]? <;> cases y.vals[m]? <;> simp [MulLaws.right_distrib]
  · intro α x _
    simp only [tsmul, mulValues]
    congr 1
    apply List.ext_getElem?
    intro m
    simp only [List.getElem?_zipWith, List.getElem?_map]
    cases x.vals[m]? <;> cases k[m]? <;> simp
    rw [CommLaws.mul_assoc]

end Corgi

namespace Corgi
variable {S : Type} [Add S] [Mul S] [Neg S] [Sub S] [ScalarOps S] [BEq S]

/-! ### closure shapes -/

theorem vjpLin_unary [AddLaws S] [MulLaws S] [CommLaws S] {cl : Closure S} {f0 : Bool} {nd k0 : List Nat} (g : Tensor S → R (Tensor S))
    (hcl : ∀ x, cl [f0] x = (g x).bind (fun r => .ok [some r])) (h : LinEntry g nd k0) : VjpLinear cl [f0] nd [k0] := by
  constructor
  · apply vjpLin_of1
    intro x y hx hy
    obtain ⟨d1, d2, d3, t1, t2, g1, g2, g3, r⟩ := h.use x y hx hy
    refine ⟨some d1, some d2, some d3, ?_, ?_, ?_, fun _ => ⟨d1, d2, d3, t1, t2, rfl, rfl, rfl, r⟩⟩
    · rw [hcl, g1]; rfl
    · rw [hcl, g2]; rfl
    · rw [hcl, g3]; rfl
  · intro α
    apply vjpHom_of1
    intro x hx
    obtain ⟨d1, d3, t1, g1, g3, r⟩ := h.useHom α x hx
    refine ⟨some d1, some d3, ?_, ?_, fun _ => ⟨d1, d3, t1, rfl, rfl, r⟩⟩
    · rw [hcl, g1]; rfl
    · rw [hcl, g3]; rfl

theorem vjpLin_when1 [AddLaws S] [MulLaws S] [CommLaws S] {cl : Closure S} {f0 : Bool} {nd k0 : List Nat} (g : Tensor S → R (Tensor S))
    (hcl : ∀ x, cl [f0] x = (whenT f0 (g x)).bind (fun r => .ok [r])) (h : f0 = true → LinEntry g nd k0) :
    VjpLinear cl [f0] nd [k0] := by
  constructor
  · apply vjpLin_of1
    intro x y hx hy
    obtain ⟨o1, o2, o3, g1, g2, g3, e⟩ := whenT_lin f0 g nd k0 h x y hx hy
    refine ⟨o1, o2, o3, ?_, ?_, ?_, e⟩
    · rw [hcl, g1]; rfl
    · rw [hcl, g2]; rfl
    · rw [hcl, g3]; rfl
  · intro α
    apply vjpHom_of1
    intro x hx
    obtain ⟨o1, o3, g1, g3, e⟩ := whenT_hom α f0 g nd k0 h x hx
    refine ⟨o1, o3, ?_, ?_, e⟩
    · rw [hcl, g1]; rfl
    · rw [hcl, g3]; rfl

theorem vjpLin_when2 [AddLaws S] [MulLaws S] [CommLaws S] {cl : Closure S} {f0 f1 : Bool} {nd k0 k1 : List Nat} (g0 g1 : Tensor S → R (Tensor S))
    (hcl : ∀ x, cl [f0, f1] x = (whenT f0 (g0 x)).bind (fun u => (whenT f1 (g1 x)).bind (fun v => .ok [u, v])))
    (h0 : f0 = true → LinEntry g0 nd k0) (h1 : f1 = true → LinEntry g1 nd k1) : VjpLinear cl [f0, f1] nd [k0, k1] := by
  constructor
  · apply vjpLin_of2
    intro x y hx hy
    obtain ⟨o1, o2, o3, a1, a2, a3, e⟩ := whenT_lin f0 g0 nd k0 h0 x y hx hy
    obtain ⟨p1, p2, p3, b1, b2, b3, e'⟩ := whenT_lin f1 g1 nd k1 h1 x y hx hy
    refine ⟨o1, o2, o3, p1, p2, p3, ?_, ?_, ?_, e, e'⟩
    · rw [hcl, a1, b1]; rfl
    · rw [hcl, a2, b2]; rfl
    · rw [hcl, a3, b3]; rfl
  · intro α
    apply vjpHom_of2
    intro x hx
    obtain ⟨o1, o3, a1, a3, e⟩ := whenT_hom α f0 g0 nd k0 h0 x hx
    obtain ⟨p1, p3, b1, b3, e'⟩ := whenT_hom α f1 g1 nd k1 h1 x hx
    refine ⟨o1, o3, p1, p3, ?_, ?_, e, e'⟩
    · rw [hcl, a1, b1]; rfl
    · rw [hcl, a3, b3]; rfl

/-- a valid dimension list for a node or an operand -/
def DimsOK (d : List Nat) : Prop := d ≠ [] ∧ ∀ k ∈ d, 1 ≤ k

/-- a well-formed stored operand of rank ≥ 1 -/
def OperandOK (a : Tensor S) : Prop := a.WF ∧ a.dims ≠ []

theorem OperandOK.dimsOK {a : Tensor S} (h : OperandOK a) : DimsOK a.dims := ⟨h.2, h.1.1⟩

theorem Fits_self (d : List Nat) : Fits d d = true := by simp [Fits, fitsRev_self]

theorem Compat_self (d : List Nat) : Compat d d = true := by simp [Compat, compatRev_self]

section tags
variable [AddLaws S] [MulLaws S] [CommLaws S]

theorem mul_smul_right (α a p : S) : a * (α * p) = α * (a * p) := by
  rw [← CommLaws.mul_assoc, CommLaws.mul_comm a α, CommLaws.mul_assoc]

theorem mul_smul_left (α p a : S) : (α * p) * a = α * (p * a) := CommLaws.mul_assoc α p a

theorem vjp_lin_add (a b self : Tensor S) (f0 f1 : Bool) (ha : OperandOK a) (hb : OperandOK b)
    (hc : Compat a.dims b.dims = true) :
    VjpLinear (vjp .add [a, b] self) [f0, f1] (bdims a.dims b.dims) [a.dims, b.dims] := by
  have hnd := bdims_pos a.dims b.dims ha.1.1 hb.1.1
  constructor
  · apply vjpLin_of2
    intro x y hx hy
    refine ⟨_, _, _, _, _, _, rfl, rfl, rfl, ?_, ?_⟩
    · exact pass_lin f0 _ _ hnd ha.1.1 (Fits_bdims_left _ _ ha.1.1 hc) x y hx hy
    · exact pass_lin f1 _ _ hnd hb.1.1 (Fits_bdims_right _ _ hb.1.1 hc) x y hx hy
  · intro α
    apply vjpHom_of2
    intro x hx
    refine ⟨_, _, _, _, rfl, rfl, ?_, ?_⟩
    · exact pass_hom α f0 _ _ hnd ha.1.1 (Fits_bdims_left _ _ ha.1.1 hc) x hx
    · exact pass_hom α f1 _ _ hnd hb.1.1 (Fits_bdims_right _ _ hb.1.1 hc) x hx

theorem vjp_lin_mul (a b self : Tensor S) (f0 f1 : Bool) (ha : OperandOK a) (hb : OperandOK b)
    (hc : Compat a.dims b.dims = true) :
    VjpLinear (vjp .mul [a, b] self) [f0, f1] (bdims a.dims b.dims) [a.dims, b.dims] := by
  have hnd := bdims_pos a.dims b.dims ha.1.1 hb.1.1
  have hnn := bdims_ne_nil a.dims b.dims ha.2
  refine vjpLin_when2 (fun x => mul b x) (fun x => mul a x) (fun x => rfl) (fun _ => ?_) (fun _ => ?_)
  · exact linEntry_ewise_right (· * ·) MulLaws.left_distrib mul_smul_right b _ _ hb.1 hb.2 hnd hnn
      (Compat_bdims_right _ _ ha.1.1 hb.1.1 hc) (bdims_absorb_right _ _) ha.1.1 (Fits_bdims_left _ _ ha.1.1 hc)
  · exact linEntry_ewise_right (· * ·) MulLaws.left_distrib mul_smul_right a _ _ ha.1 ha.2 hnd hnn
      (Compat_bdims_left _ _ ha.1.1 hb.1.1 hc) (bdims_absorb_left _ _) hb.1.1 (Fits_bdims_right _ _ hb.1.1 hc)

theorem mapT_wf (φ : S → S) (a : Tensor S) (h : a.WF) : (mapT φ a).WF := by
  simpa [Tensor.WF, mapT] using h

theorem vjp_lin_div (a b self : Tensor S) (f0 f1 : Bool) (ha : OperandOK a) (hb : OperandOK b)
    (hc : Compat a.dims b.dims = true) :
    VjpLinear (vjp .div [a, b] self) [f0, f1] (bdims a.dims b.dims) [a.dims, b.dims] := by
  have hnd := bdims_pos a.dims b.dims ha.1.1 hb.1.1
  have hnn := bdims_ne_nil a.dims b.dims ha.2
  -- the constant factor of the second entry
  have hq : div (neg a) (powf b (one + one)) = .ok (specEwise ScalarOps.div (neg a) (powf b (one + one))) :=
    ewise_spec _ _ _ (mapT_wf _ a ha.1) (mapT_wf _ b hb.1) ha.2 hb.2 hc
  generalize hQ : specEwise ScalarOps.div (neg a) (powf b (one + one)) = Q at hq
  have hQs : Shaped (bdims a.dims b.dims) Q := by
    rw [← hQ]; exact specEwise_shaped _ (neg a) (powf b (one + one))
  refine vjpLin_when2 (fun x => div x b) (fun x => mul Q x) (fun x => ?_) (fun _ => ?_) (fun _ => ?_)
  · simp only [vjp, kid, flag, getR, List.getElem?_cons_zero, List.getElem?_cons_succ, pure, Except.pure, bind,
      Except.bind, hq]
  · refine linEntry_ewise_left ScalarOps.div MulLaws.div_add CommLaws.div_smul b _ _ hb.1 hb.2 hnd hnn ?_ ?_ ha.1.1
      (Fits_bdims_left _ _ ha.1.1 hc)
    · rw [Compat_comm]; exact Compat_bdims_right _ _ ha.1.1 hb.1.1 hc
    · rw [bdims_comm]; exact bdims_absorb_right _ _
  · refine linEntry_ewise_right (· * ·) MulLaws.left_distrib mul_smul_right Q _ _ (hQs.wf hnd) (by rw [hQs.1]; exact hnn) hnd hnn
      (by rw [hQs.1]; exact Compat_self _) (by rw [hQs.1]; exact bdims_self _) hb.1.1 (Fits_bdims_right _ _ hb.1.1 hc)

/-- a unary closure `mul(K, delta)` with `K` of the operand's shape -/
theorem vjp_lin_constmul (cl : Closure S) (K a : Tensor S) (f0 : Bool) (ha : OperandOK a) (hK : Shaped a.dims K)
    (hcl : ∀ x, cl [f0] x = (mul K x).bind (fun r => .ok [some r])) : VjpLinear cl [f0] a.dims [a.dims] :=
  vjpLin_unary (fun x => mul K x) hcl
    (linEntry_ewise_right (· * ·) MulLaws.left_distrib mul_smul_right K _ _ (hK.wf ha.1.1) (by rw [hK.1]; exact ha.2) ha.1.1 ha.2
      (by rw [hK.1]; exact Compat_self _) (by rw [hK.1]; exact bdims_self _) ha.1.1 (Fits_self _))

theorem mapT_shaped (φ : S → S) (a : Tensor S) (h : a.WF) : Shaped a.dims (mapT φ a) := by
  simp [Shaped, mapT, h.2]

theorem vjp_lin_powf (e : S) (a self : Tensor S) (f0 : Bool) (ha : OperandOK a) :
    VjpLinear (vjp (.powf e) [a] self) [f0] a.dims [a.dims] :=
  vjp_lin_constmul _ (scale (powf a (e - one)) e) a f0 ha
    (by simp [Shaped, scale, powf, mapT, ha.1.2]) (fun x => rfl)

theorem vjp_lin_recip (a self : Tensor S) (f0 : Bool) (ha : OperandOK a) :
    VjpLinear (vjp .recip [a] self) [f0] a.dims [a.dims] :=
  vjp_lin_constmul _ (neg (powf (recip a) (one + one))) a f0 ha
    (by simp [Shaped, neg, scale, powf, recip, mapT, ha.1.2]) (fun x => rfl)

theorem vjp_lin_relu (a self : Tensor S) (f0 : Bool) (ha : OperandOK a) :
    VjpLinear (vjp .relu [a] self) [f0] a.dims [a.dims] :=
  vjp_lin_constmul _ ⟨a.dims, a.vals.map (fun v => if ScalarOps.pos v then one else zero)⟩ a f0 ha
    (by simp [Shaped, ha.1.2]) (fun x => rfl)

theorem vjp_lin_ln (a self : Tensor S) (f0 : Bool) (ha : OperandOK a) :
    VjpLinear (vjp .ln [a] self) [f0] a.dims [a.dims] :=
  vjpLin_unary (fun x => mul x (recip a)) (fun x => rfl)
    (linEntry_ewise_left (· * ·) MulLaws.right_distrib mul_smul_left (recip a) _ _ (mapT_wf _ a ha.1) ha.2 ha.1.1 ha.2
      (Compat_self _) (bdims_self _) ha.1.1 (Fits_self _))

theorem vjp_lin_neg (a self : Tensor S) (f0 : Bool) (ha : OperandOK a) :
    VjpLinear (vjp .neg [a] self) [f0] a.dims [a.dims] :=
  vjpLin_unary (fun x => pure (mapT (· * (-one)) x)) (fun x => rfl)
    (linEntry_mapT _ (fun p q => MulLaws.right_distrib p q _) (fun α p => mul_smul_left α p _) _ ha.1.1)

theorem vjp_lin_scale (s : S) (a self : Tensor S) (f0 : Bool) (ha : OperandOK a) :
    VjpLinear (vjp (.scale s) [a] self) [f0] a.dims [a.dims] :=
  vjpLin_unary (fun x => pure (mapT (· * s) x)) (fun x => rfl)
    (linEntry_mapT _ (fun p q => MulLaws.right_distrib p q _) (fun α p => mul_smul_left α p _) _ ha.1.1)

theorem vjp_lin_custom2 (a self : Tensor S) (f0 : Bool) (ha : OperandOK a) :
    VjpLinear (vjp (.custom 2) [a] self) [f0] a.dims [a.dims] :=
  vjpLin_when1 (fun x => pure (mapT (· * (one + one)) x)) (fun x => rfl)
    (fun _ => linEntry_mapT _ (fun p q => MulLaws.right_distrib p q _) (fun α p => mul_smul_left α p _) _ ha.1.1)

theorem vjp_lin_exp (a self : Tensor S) (f0 : Bool) (ha : OperandOK a) (hs : self.vals.length = prod a.dims) :
    VjpLinear (vjp .exp [a] self) [f0] a.dims [a.dims] :=
  vjpLin_unary (fun x => Tensor.mk? a.dims (mulValues x.vals self.vals)) (fun x => rfl)
    (linEntry_mulValuesR self.vals _ ha.1.1 hs)

theorem vjp_lin_sigmoid (a self : Tensor S) (f0 : Bool) (ha : OperandOK a) (hs : self.vals.length = prod a.dims) :
    VjpLinear (vjp .sigmoid [a] self) [f0] a.dims [a.dims] :=
  vjpLin_unary (fun x => Tensor.mk? a.dims (mulValues (self.vals.map (fun v => v * (one - v))) x.vals)) (fun x => rfl)
    (linEntry_mulValuesL _ _ ha.1.1 (by simpa using hs))

theorem vjp_lin_reshape (a self : Tensor S) (nd : List Nat) (f0 : Bool) (ha : OperandOK a) (hnd : DimsOK nd)
    (hp : prod nd = prod a.dims) : VjpLinear (vjp .reshape [a] self) [f0] nd [a.dims] := by
  refine vjpLin_when1 (fun x => reshape x a.dims) (fun x => rfl) (fun _ => ?_)
  refine ⟨a.dims, fun x => ⟨a.dims, x.vals⟩, ha.1.1, ha.1.1, Fits_self _, ?_, fun x y _ _ => rfl, fun α x _ => rfl⟩
  intro x hx
  have h1 : a.dims.all (fun d => decide (1 ≤ d)) = true := by simpa using ha.1.1
  have h2 : prod a.dims = x.vals.length := by rw [hx.2, hp]
  exact ⟨by simp [reshape, Tensor.mk?, h1, h2, pure, Except.pure], rfl, h2.symm⟩

end tags
end Corgi
