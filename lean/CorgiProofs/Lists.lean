/-
  CorgiProofs.Lists — list lemmas used across the proofs (blocks of equal length, tabulateM).
-/
import CorgiModel.Basic

namespace Corgi

/-- Element `i * m + r` of a concatenation of blocks of length `m` is element `r` of block `i`. -/
theorem getElem?_flatten_const {α} {bs : List (List α)} {m : Nat} (h : ∀ b ∈ bs, b.length = m)
    (i r : Nat) (hr : r < m) : bs.flatten[i * m + r]? = (bs[i]?).bind (·[r]?) := by
  induction bs generalizing i with
  | nil => simp
  | cons b bs ih =>
    have hb : b.length = m := h b (by simp)
    have hbs : ∀ b ∈ bs, b.length = m := fun x hx => h x (by simp [hx])
    cases i with
    | zero =>
      simp only [Nat.zero_mul, Nat.zero_add, List.flatten_cons, List.getElem?_cons_zero, Option.bind_some]
      rw [List.getElem?_append_left (by omega)]
    | succ i =>
      simp only [List.flatten_cons, List.getElem?_cons_succ]
      rw [List.getElem?_append_right (by rw [hb, Nat.succ_mul]; omega)]
      have : (i + 1) * m + r - b.length = i * m + r := by rw [hb, Nat.succ_mul]; omega
      rw [this]
      exact ih hbs i

theorem length_flatten_const {α} {bs : List (List α)} {m : Nat} (h : ∀ b ∈ bs, b.length = m) :
    bs.flatten.length = bs.length * m := by
  induction bs with
  | nil => simp
  | cons b bs ih =>
    have hb : b.length = m := h b (by simp)
    have := ih (fun x hx => h x (by simp [hx]))
    simp [List.length_flatten, hb] at this ⊢
    rw [Nat.succ_mul]; omega

/-- `tabulateM` succeeds with `[f 0, …, f (n-1)]` when every call succeeds. -/
theorem tabulateM_ok {α} (f : Nat → R α) (g : Nat → α) (n : Nat) (h : ∀ i, i < n → f i = .ok (g i)) :
    tabulateM f n = .ok ((List.range n).map g) := by
  induction n with
  | zero => simp [tabulateM, pure, Except.pure]
  | succ n ih =>
    simp only [tabulateM]
    rw [ih (fun i hi => h i (by omega)), h n (by omega)]
    simp [bind, Except.bind, pure, Except.pure, List.range_succ]

theorem tabulateM_error {α} (f : Nat → R α) (n i : Nat) (hi : i < n) (p : Panic) (h : f i = .error p) :
    ∃ q, tabulateM f n = .error q := by
  induction n with
  | zero => omega
  | succ n ih =>
    simp only [tabulateM]
    by_cases hin : i < n
    · obtain ⟨q, hq⟩ := ih hin
      exact ⟨q, by rw [hq]; rfl⟩
    · have : i = n := by omega
      subst this
      cases hx : tabulateM f i with
      | error q => exact ⟨q, rfl⟩
      | ok xs => exact ⟨p, by simp [bind, Except.bind, h]⟩

theorem mapR_ok {α β} (f : α → R β) (g : α → β) (l : List α) (h : ∀ x ∈ l, f x = .ok (g x)) :
    mapR f l = .ok (l.map g) := by
  induction l with
  | nil => simp [mapR, pure, Except.pure]
  | cons x xs ih =>
    simp only [mapR]
    rw [h x (by simp), ih (fun y hy => h y (by simp [hy]))]
    simp [bind, Except.bind, pure, Except.pure]

end Corgi
