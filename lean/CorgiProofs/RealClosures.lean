/-
  CorgiProofs.RealClosures — over ℝ, on same-shape operands, the backward closure of every
  point-wise operation returns `delta · f'(operand)` element by element, where `f'` is the
  mathematical derivative (`HasDerivAt`) of the forward function: the transpose of the diagonal
  Jacobian.  Binary operations: the two partial derivatives.  (Broadcast operands are reduced by
  `flatten_to`, which is the sum over the broadcast positions — `flattenTo_spec`.)
-/
import CorgiProofs.RealDeriv
import CorgiProofs.Pointwise
import CorgiModel.Vjp

set_option linter.unusedSectionVars false
set_option linter.unusedVariables false

namespace Corgi
open Real

noncomputable instance : BEq ℝ := ⟨fun a b => decide (a = b)⟩

/-- the delta times a per-element derivative -/
noncomputable def diag (D : ℝ → ℝ) (d : List Nat) (x c : Tensor ℝ) : Tensor ℝ :=
  ⟨d, List.zipWith (fun xj cj => xj * D cj) x.vals c.vals⟩

theorem mul_same_real (d : List Nat) (hne : d ≠ []) (hpos : ∀ k ∈ d, 1 ≤ k) (a b : Tensor ℝ)
    (ha : Shaped d a) (hb : Shaped d b) : mul a b = .ok ⟨d, List.zipWith (· * ·) a.vals b.vals⟩ := by
  rw [mul, ewise_same _ d hne hpos a b ha hb]; simp [tzip, ha.1]

theorem div_same_real (d : List Nat) (hne : d ≠ []) (hpos : ∀ k ∈ d, 1 ≤ k) (a b : Tensor ℝ)
    (ha : Shaped d a) (hb : Shaped d b) : div a b = .ok ⟨d, List.zipWith (· / ·) a.vals b.vals⟩ := by
  rw [div, ewise_same _ d hne hpos a b ha hb]; simp [tzip, ha.1]; rfl

theorem shaped_map (d : List Nat) (a : Tensor ℝ) (f : ℝ → ℝ) (ha : Shaped d a) : Shaped d (mapT f a) :=
  ⟨ha.1, by simpa [mapT] using ha.2⟩

theorem zipWith_map_l (f : ℝ → ℝ → ℝ) (g : ℝ → ℝ) (a b : List ℝ) :
    List.zipWith f (a.map g) b = List.zipWith (fun x y => f (g x) y) a b := by
  rw [List.zipWith_map_left]

theorem zipWith_swap (f : ℝ → ℝ → ℝ) (a b : List ℝ) :
    List.zipWith f a b = List.zipWith (fun y x => f x y) b a := by
  rw [List.zipWith_comm]

/-- `map` over the first list as a `zipWith` that ignores the second (same lengths) -/
theorem map_eq_zipWith_const (f : ℝ → ℝ) (a b : List ℝ) (h : a.length = b.length) :
    a.map f = List.zipWith (fun x _ => f x) a b := by
  apply List.ext_getElem?
  intro i
  simp only [List.getElem?_map, List.getElem?_zipWith]
  cases h1 : a[i]? with
  | none => simp
  | some v =>
    have : i < b.length := by rw [← h]; exact (List.getElem?_eq_some_iff.mp h1).1
    simp [List.getElem?_eq_getElem this]

theorem zipWith_congr_fun {f g : ℝ → ℝ → ℝ} (h : ∀ x y, f x y = g x y) (a b : List ℝ) :
    List.zipWith f a b = List.zipWith g a b := by
  have : f = g := by funext x y; exact h x y
  rw [this]

section closures
variable (d : List Nat) (c x self : Tensor ℝ)

/-- `neg`: derivative −1 -/
theorem closure_neg (hc : Shaped d c) (hx : Shaped d x) :
    vjp (.neg : OpTag ℝ) [c] self [true] x = .ok [some (diag (fun _ => -1) d x c)] ∧
    ∀ y : ℝ, HasDerivAt (fun y => -y) (-1) y := by
  refine ⟨?_, fun y => (hasDerivAt_id y).neg⟩
  simp only [vjp, neg, scale, mapT, diag, pure, Except.pure, hx.1]
  rw [map_eq_zipWith_const _ x.vals c.vals (by rw [hx.2, hc.2])]
  simp [ScalarOps.one]

/-- `scale s`: derivative `s` -/
theorem closure_scale (s : ℝ) (hc : Shaped d c) (hx : Shaped d x) :
    vjp (.scale s : OpTag ℝ) [c] self [true] x = .ok [some (diag (fun _ => s) d x c)] ∧
    ∀ y : ℝ, HasDerivAt (fun y => y * s) s y := by
  refine ⟨?_, fun y => by simpa using (hasDerivAt_id y).mul_const s⟩
  simp only [vjp, scale, mapT, diag, pure, Except.pure, hx.1]
  rw [map_eq_zipWith_const _ x.vals c.vals (by rw [hx.2, hc.2])]

/-- `powf e`: derivative `e · y^(e−1)` (any real exponent; at `y ≠ 0`, or `y = 0` when `e ≥ 1`) -/
theorem closure_powf (e : ℝ) (hne : d ≠ []) (hpos : ∀ k ∈ d, 1 ≤ k) (hc : Shaped d c) (hx : Shaped d x) :
    vjp (.powf e : OpTag ℝ) [c] self [true] x = .ok [some (diag (fun y => e * y ^ (e - 1)) d x c)] ∧
    ∀ y : ℝ, (y ≠ 0 ∨ 1 ≤ e) → HasDerivAt (fun y : ℝ => y ^ e) (e * y ^ (e - 1)) y := by
  refine ⟨?_, fun y h => Real.hasDerivAt_rpow_const h⟩
  simp only [vjp, kid, getR, List.getElem?_cons_zero, bind, Except.bind, pure, Except.pure]
  have hA : Shaped d (scale (powf c (e - one)) e) := shaped_map d _ _ (shaped_map d c _ hc)
  rw [mul_same_real d hne hpos _ x hA hx]
  simp only [scale, powf, mapT, List.map_map, diag, zipWith_map_l]
  rw [zipWith_swap]
  congr 4
  apply zipWith_congr_fun
  intro xj cj
  simp only [Function.comp, ScalarOps.powf, ScalarOps.one]
  ring

/-- `ln`: derivative `1/y` (at `y ≠ 0`) -/
theorem closure_ln (hne : d ≠ []) (hpos : ∀ k ∈ d, 1 ≤ k) (hc : Shaped d c) (hx : Shaped d x) :
    vjp (.ln : OpTag ℝ) [c] self [true] x = .ok [some (diag (fun y => 1 / y) d x c)] ∧
    ∀ y : ℝ, y ≠ 0 → HasDerivAt Real.log (1 / y) y := by
  refine ⟨?_, fun y h => by simpa [one_div] using Real.hasDerivAt_log h⟩
  simp only [vjp, kid, getR, List.getElem?_cons_zero, bind, Except.bind, pure, Except.pure]
  have hA : Shaped d (recip c) := shaped_map d c _ hc
  rw [mul_same_real d hne hpos x _ hx hA]
  simp only [recip, mapT, diag]
  rw [zipWith_swap, zipWith_map_l, zipWith_swap]
  congr 3

/-- `exp`: derivative `exp y`; the closure multiplies the delta by the cached forward value -/
theorem closure_exp (hne : d ≠ []) (hpos : ∀ k ∈ d, 1 ≤ k) (hc : Shaped d c) (hx : Shaped d x) :
    vjp (.exp : OpTag ℝ) [c] (exp c) [true] x = .ok [some (diag Real.exp d x c)] ∧
    ∀ y : ℝ, HasDerivAt Real.exp (Real.exp y) y := by
  refine ⟨?_, Real.hasDerivAt_exp⟩
  simp only [vjp, kid, getR, List.getElem?_cons_zero, bind, Except.bind, pure, Except.pure, exp, mapT, mulValues]
  have hlen : prod c.dims = (List.zipWith (· * ·) x.vals (c.vals.map ScalarOps.exp)).length := by
    simp [hc.1, hx.2, hc.2]
  have hall : c.dims.all (fun k => decide (1 ≤ k)) = true := by
    rw [hc.1]; simp only [List.all_eq_true, decide_eq_true_eq]; exact hpos
  unfold Tensor.mk?
  simp only [hall, Bool.not_true, Bool.false_eq_true, if_false, ← hlen, bne_self_eq_false, pure, Except.pure, diag]
  rw [zipWith_swap, zipWith_map_l, zipWith_swap, hc.1]
  rfl

/-- `reciprocal`: derivative `−1/y²` (at `y ≠ 0`) -/
theorem closure_recip (hne : d ≠ []) (hpos : ∀ k ∈ d, 1 ≤ k) (hc : Shaped d c) (hx : Shaped d x) :
    vjp (.recip : OpTag ℝ) [c] self [true] x = .ok [some (diag (fun y => -((1 / y) ^ (2 : ℝ))) d x c)] ∧
    ∀ y : ℝ, y ≠ 0 → HasDerivAt (fun y : ℝ => 1 / y) (-((1 / y) ^ (2 : ℝ))) y := by
  refine ⟨?_, fun y h => ?_⟩
  · simp only [vjp, kid, getR, List.getElem?_cons_zero, bind, Except.bind, pure, Except.pure]
    have hA : Shaped d (neg (powf (recip c) (one + one))) := shaped_map d _ _ (shaped_map d _ _ (shaped_map d c _ hc))
    rw [mul_same_real d hne hpos _ x hA hx]
    simp only [neg, scale, powf, recip, mapT, List.map_map, diag, zipWith_map_l]
    rw [zipWith_swap]
    congr 4
    apply zipWith_congr_fun
    intro xj cj
    simp only [Function.comp, ScalarOps.powf, ScalarOps.one, ScalarOps.div]
    have : (1 : ℝ) + 1 = 2 := by norm_num
    rw [this]; ring
  · have h2 : (fun y : ℝ => 1 / y) = fun y => y⁻¹ := by funext y; simp
    have hv : -((1 / y) ^ (2 : ℝ)) = -(y ^ 2)⁻¹ := by
      rw [Real.rpow_two]; field_simp
    rw [h2, hv]
    exact hasDerivAt_inv h

/-- `relu`: derivative `[y > 0]` (at `y ≠ 0`) -/
theorem closure_relu (hne : d ≠ []) (hpos : ∀ k ∈ d, 1 ≤ k) (hc : Shaped d c) (hx : Shaped d x) :
    vjp (.relu : OpTag ℝ) [c] self [true] x = .ok [some (diag (fun y => if 0 < y then 1 else 0) d x c)] ∧
    ∀ y : ℝ, y ≠ 0 → HasDerivAt (fun y : ℝ => if 0 < y then y else 0) (if 0 < y then 1 else 0) y := by
  refine ⟨?_, table_relu⟩
  simp only [vjp, kid, getR, List.getElem?_cons_zero, bind, Except.bind, pure, Except.pure]
  rw [mul_same_real d hne hpos ⟨c.dims, c.vals.map (fun v => if ScalarOps.pos v = true then one else zero)⟩ x
    ⟨hc.1, by simpa using hc.2⟩ hx]
  simp only [diag, zipWith_map_l]
  rw [zipWith_swap]
  congr 4
  apply zipWith_congr_fun
  intro xj cj
  simp only [ScalarOps.pos, ScalarOps.one, ScalarOps.zero, decide_eq_true_eq]
  split <;> ring

/-- `sigmoid`: derivative `σ(1−σ)`; the closure uses the cached forward value -/
theorem closure_sigmoid (hne : d ≠ []) (hpos : ∀ k ∈ d, 1 ≤ k) (hc : Shaped d c) (hx : Shaped d x) :
    vjp (.sigmoid : OpTag ℝ) [c] (sigmoid c) [true] x
      = .ok [some (diag (fun y => (1 / (1 + Real.exp (-y))) * (1 - 1 / (1 + Real.exp (-y)))) d x c)] ∧
    ∀ y : ℝ, HasDerivAt (fun y : ℝ => 1 / (1 + Real.exp (-y)))
      ((1 / (1 + Real.exp (-y))) * (1 - 1 / (1 + Real.exp (-y)))) y := by
  refine ⟨?_, table_sigmoid⟩
  simp only [vjp, kid, getR, List.getElem?_cons_zero, bind, Except.bind, pure, Except.pure, sigmoid, mapT, mulValues,
    List.map_map]
  have hlen : prod c.dims = (List.zipWith (· * ·) (c.vals.map ((fun v => v * (ScalarOps.one - v)) ∘ sigmoidS)) x.vals).length := by
    simp [hc.1, hx.2, hc.2]
  have hall : c.dims.all (fun k => decide (1 ≤ k)) = true := by
    rw [hc.1]; simp only [List.all_eq_true, decide_eq_true_eq]; exact hpos
  unfold Tensor.mk?
  simp only [hall, Bool.not_true, Bool.false_eq_true, if_false, ← hlen, bne_self_eq_false, pure, Except.pure, diag]
  rw [zipWith_map_l, zipWith_swap, hc.1]
  congr 4
  apply zipWith_congr_fun
  intro xj cj
  simp only [Function.comp, sigmoidS, ScalarOps.one, ScalarOps.div, ScalarOps.exp]
  ring

/-- `add`: both operands receive the delta (partial derivatives 1) -/
theorem closure_add (a b : Tensor ℝ) :
    vjp (.add : OpTag ℝ) [a, b] self [true, true] x = .ok [some x, some x] := by
  simp [vjp, flag, getR, bind, Except.bind, pure, Except.pure]

/-- `mul`: `∂(uv)/∂u = v`, `∂(uv)/∂v = u` -/
theorem closure_mul (a b : Tensor ℝ) (hne : d ≠ []) (hpos : ∀ k ∈ d, 1 ≤ k) (ha : Shaped d a) (hb : Shaped d b)
    (hx : Shaped d x) :
    vjp (.mul : OpTag ℝ) [a, b] self [true, true] x
      = .ok [some (diag (fun v => v) d x b), some (diag (fun u => u) d x a)] ∧
    ∀ u v : ℝ, HasDerivAt (fun u => u * v) v u ∧ HasDerivAt (fun v => u * v) u v := by
  refine ⟨?_, fun u v => ⟨by simpa using (hasDerivAt_id u).mul_const v, by simpa using (hasDerivAt_id v).const_mul u⟩⟩
  simp only [vjp, kid, flag, getR, List.getElem?_cons_zero, List.getElem?_cons_succ, bind, Except.bind, pure,
    Except.pure, whenT, if_true]
  rw [mul_same_real d hne hpos b x hb hx, mul_same_real d hne hpos a x ha hx]
  simp only [Except.map, diag]
  rw [zipWith_swap (fun x1 x2 => x1 * x2) b.vals, zipWith_swap (fun x1 x2 => x1 * x2) a.vals]
  have e : (fun (y x : ℝ) => x * y) = fun x1 x2 => x1 * x2 := by funext p q; ring
  rw [e]

/-- `div`: `∂(u/v)/∂u = 1/v`, `∂(u/v)/∂v = −u/v²` (at `v ≠ 0`) -/
theorem closure_div (a b : Tensor ℝ) (hne : d ≠ []) (hpos : ∀ k ∈ d, 1 ≤ k) (ha : Shaped d a) (hb : Shaped d b)
    (hx : Shaped d x) :
    vjp (.div : OpTag ℝ) [a, b] self [true, true] x
      = .ok [some (diag (fun v => 1 / v) d x b),
             some ⟨d, List.zipWith (· * ·) (List.zipWith (fun u v => -u / v ^ (2 : ℝ)) a.vals b.vals) x.vals⟩] ∧
    ∀ u v : ℝ, v ≠ 0 → HasDerivAt (fun u => u / v) (1 / v) u ∧ HasDerivAt (fun v => u / v) (-u / v ^ (2 : ℝ)) v := by
  refine ⟨?_, fun u v hv => ⟨by simpa using (hasDerivAt_id u).div_const v, ?_⟩⟩
  · simp only [vjp, kid, flag, getR, List.getElem?_cons_zero, List.getElem?_cons_succ, bind, Except.bind, pure,
      Except.pure, whenT, if_true]
    have hA : Shaped d (neg a) := shaped_map d a _ ha
    have hB : Shaped d (powf b (one + one)) := shaped_map d b _ hb
    rw [div_same_real d hne hpos x b hx hb, div_same_real d hne hpos _ _ hA hB]
    simp only [Except.map]
    rw [mul_same_real d hne hpos ⟨d, _⟩ x ⟨rfl, by simp [neg, scale, powf, mapT, ha.2, hb.2]⟩ hx]
    simp only [diag, neg, scale, powf, mapT, zipWith_map_l, List.zipWith_map_right]
    have h2 : (1 : ℝ) + 1 = 2 := by norm_num
    have e1 : (fun (x1 x2 : ℝ) => x1 / x2) = fun xj cj => xj * (1 / cj) := by funext p q; ring
    have e2 : (fun (x y : ℝ) => x * -ScalarOps.one / ScalarOps.powf y (ScalarOps.one + ScalarOps.one))
        = fun u v => -u / v ^ (2 : ℝ) := by
      funext p q; simp only [ScalarOps.powf, ScalarOps.one, h2]; ring
    rw [e1, e2]
  · have h := (hasDerivAt_const v u).div (hasDerivAt_id v) hv
    have hv2 : (0 * id v - u * 1) / id v ^ 2 = -u / v ^ (2 : ℝ) := by
      rw [Real.rpow_two]; simp
    rw [← hv2]
    exact h

end closures
end Corgi
