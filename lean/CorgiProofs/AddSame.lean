/-
  CorgiProofs.AddSame — the broadcasting `add` on two tensors of identical (valid) dimensions is the
  pointwise sum: the instance of C04 the engine relies on when it merges deltas and gradients.
-/
import CorgiProofs.Ewise
import CorgiProofs.Shaped

namespace Corgi
variable {S : Type} [Add S] [Mul S] [Neg S] [Sub S] [ScalarOps S] [BEq S]

theorem compatRev_self : ∀ (d : List Nat), compatRev d d = true
  | [] => rfl
  | x :: xs => by simp [compatRev, compatRev_self xs]

theorem bdimsRev_self : ∀ (d : List Nat), bdimsRev d d = d
  | [] => rfl
  | x :: xs => by simp [bdimsRev, bdimsRev_self xs]

theorem bdims_self (d : List Nat) : bdims d d = d := by simp [bdims, bdimsRev_self]

/-- projecting an in-range index onto the very dimensions it ranges over changes nothing -/
theorem proj_self : ∀ (d idx : List Nat), inRange d idx = true →
    (d.zip idx).map (fun p => if p.1 == 1 then 0 else p.2) = idx
  | [], [], _ => rfl
  | [], _ :: _, h => by simp [inRange] at h
  | _ :: _, [], h => by simp [inRange] at h
  | x :: xs, i :: is, h => by
    simp only [inRange, Bool.and_eq_true, decide_eq_true_eq] at h
    simp only [List.zip_cons_cons, List.map_cons, proj_self xs is h.2, List.cons.injEq, and_true]
    by_cases h1 : x = 1
    · subst h1; simp; omega
    · simp [h1]

theorem zipWith_eq_range_map (f : S → S → S) (a b : List S) (L : Nat) (ha : a.length = L) (hb : b.length = L) :
    List.zipWith f a b = (List.range L).map (fun m => f (a.getD m zero) (b.getD m zero)) := by
  apply List.ext_getElem?
  intro m
  by_cases hm : m < L
  · have h1 : m < a.length := by omega
    have h2 : m < b.length := by omega
    simp [List.getElem?_zipWith, List.getElem?_map, List.getElem?_range hm, List.getElem?_eq_getElem h1,
      List.getElem?_eq_getElem h2, List.getD_eq_getElem?_getD]
  · have h1 : a[m]? = none := by simp; omega
    have h3 : (List.range L)[m]? = none := by simp; omega
    simp [List.getElem?_zipWith, List.getElem?_map, h1, h3]

/-- **same-shape addition is pointwise** -/
theorem add_same (d : List Nat) (hne : d ≠ []) (hpos : ∀ x ∈ d, 1 ≤ x) (x y : Tensor S)
    (hx : Shaped d x) (hy : Shaped d y) : add x y = .ok (tadd x y) := by
  have hwx : x.WF := ⟨by rw [hx.1]; exact hpos, by rw [hx.1]; exact hx.2.symm⟩
  have hwy : y.WF := ⟨by rw [hy.1]; exact hpos, by rw [hy.1]; exact hy.2.symm⟩
  have hc : Compat x.dims y.dims = true := by rw [hx.1, hy.1]; exact compatRev_self _
  rw [add, ewise_spec _ x y hwx hwy (by rw [hx.1]; exact hne) (by rw [hy.1]; exact hne) hc]
  congr 1
  simp only [specEwise, specEwise', Tensor.ofFn, tadd, hx.1, hy.1, bdims_self]
  congr 1
  rw [zipWith_eq_range_map _ x.vals y.vals (prod d) hx.2 hy.2]
  apply List.map_congr_left
  intro m hm
  have hm' : m < prod d := by simpa using hm
  have hin := unflatten_inRange hpos hm'
  have hl := inRange_length hin
  have hproj : proj d (unflatten d m) = unflatten d m := by
    unfold proj
    rw [hl, Nat.sub_self, List.drop_zero]
    exact proj_self d _ hin
  simp only [Tensor.get, hx.1, hy.1, hproj, rowMajor_unflatten hm']

end Corgi
