/-
  CorgiProofs.Ewise — element-wise operations equal the broadcasting specification (C04).
-/
import CorgiProofs.SumSpec
import CorgiProofs.Broadcast

namespace Corgi

/-! ### arithmetic of the last dimension -/

theorem div_mod_last (q n i P : Nat) (hi : i < n) (hP : 0 < P) :
    (q * n + i) / (P * n) = q / P ∧ (q * n + i) % (P * n) = (q % P) * n + i := by
  have hn : 0 < n := by omega
  have hPn : 0 < P * n := Nat.mul_pos hP hn
  have hlt : (q % P) * n + i < P * n := by
    have h1 : q % P < P := Nat.mod_lt _ hP
    have h2 : (q % P + 1) * n ≤ P * n := Nat.mul_le_mul_right _ h1
    rw [Nat.add_mul, Nat.one_mul] at h2
    omega
  have hdecomp : q * n + i = (P * n) * (q / P) + ((q % P) * n + i) := by
    have := Nat.div_add_mod q P
    calc q * n + i = (P * (q / P) + q % P) * n + i := by rw [this]
      _ = (P * n) * (q / P) + ((q % P) * n + i) := by
        rw [Nat.add_mul, Nat.mul_assoc, Nat.mul_assoc, Nat.mul_comm (q / P) n, Nat.add_assoc]
  have hmod : (q * n + i) % (P * n) = (q % P) * n + i := by
    rw [hdecomp, Nat.mul_add_mod, Nat.mod_eq_of_lt hlt]
  have hdiv : (q * n + i) / (P * n) = q / P := by
    rw [hdecomp, Nat.mul_add_div hPn, Nat.div_eq_of_lt hlt, Nat.add_zero]
  exact ⟨hdiv, hmod⟩

/-- the multi-index of position `q * n + i` in `L ++ [n]` is the multi-index of `q` in `L`, then `i` -/
theorem unflatten_append_last : ∀ (L : List Nat) (n q i : Nat), (∀ d ∈ L, 1 ≤ d) → i < n → q < prod L →
    unflatten (L ++ [n]) (q * n + i) = unflatten L q ++ [i]
  | [], n, q, i, _, hi, hq => by
    have : q = 0 := by simp [prod] at hq; exact hq
    subst this
    simp [unflatten, prod]
  | d :: L, n, q, i, hpos, hi, _ => by
    have hP : 0 < prod L := prod_pos (fun x hx => hpos x (by simp [hx]))
    have ih := unflatten_append_last L n (q % prod L) i (fun x hx => hpos x (by simp [hx])) hi (Nat.mod_lt _ hP)
    obtain ⟨h1, h2⟩ := div_mod_last q n i (prod L) hi hP
    simp only [List.cons_append, unflatten, prod_append, prod, Nat.mul_one]
    rw [h1, h2, ih]

/-! ### projection onto an operand -/

/-- Horner form of the operand offset = row-major position of the projected index (pure algebra) -/
theorem horner_proj : ∀ (ds is : List Nat) (acc : Nat), ds.length = is.length →
    (ds.zip is).foldl (fun acc p => acc * p.1 + (if p.1 == 1 then 0 else p.2)) acc
      = acc * prod ds + rowMajor ds ((ds.zip is).map (fun p => if p.1 == 1 then 0 else p.2))
  | [], [], acc, _ => by simp [prod, rowMajor]
  | [], _ :: _, _, h => by simp at h
  | _ :: _, [], _, h => by simp at h
  | d :: ds, i :: is, acc, h => by
    have ih := horner_proj ds is (acc * d + (if d == 1 then 0 else i)) (by simpa using h)
    simp only [List.zip_cons_cons, List.foldl_cons, List.map_cons, prod, rowMajor]
    rw [ih, Nat.add_mul, Nat.mul_assoc]
    omega

theorem projOffset_eq_proj (ad idx : List Nat) (h : ad.length ≤ idx.length) :
    projOffset ad idx = rowMajor ad (proj ad idx) := by
  unfold projOffset proj
  rw [horner_proj ad (idx.drop (idx.length - ad.length)) 0 (by simp; omega)]
  simp

theorem proj_length (ad idx : List Nat) (h : ad.length ≤ idx.length) : (proj ad idx).length = ad.length := by
  simp [proj]; omega

/-- projecting an index ending in `i` onto dimensions ending in `sl` -/
theorem proj_append_last (alead I : List Nat) (sl i : Nat) (h : alead.length ≤ I.length) :
    proj (alead ++ [sl]) (I ++ [i]) = proj alead I ++ [if sl == 1 then 0 else i] := by
  unfold proj
  have h1 : (I ++ [i]).length - (alead ++ [sl]).length = I.length - alead.length := by simp
  rw [h1, List.drop_append_of_le_length (by omega)]
  rw [List.zip_append (by simp; omega)]
  simp

/-! ### operands that fit an output shape (right-aligned, equal or 1) -/

/-- `ad` fits `D`: not longer, and aligned from the last dimension every entry is `1` or equal -/
def fitsRev : List Nat → List Nat → Bool
  | [], _ => true
  | _ :: _, [] => false
  | d :: ds, e :: es => (d == 1 || d == e) && fitsRev ds es

def Fits (ad D : List Nat) : Bool := fitsRev ad.reverse D.reverse

theorem fitsRev_self : ∀ (l : List Nat), fitsRev l l = true
  | [] => rfl
  | x :: xs => by simp [fitsRev, fitsRev_self xs]

theorem fitsRev_bdims_left : ∀ (a b : List Nat), (∀ d ∈ a, 1 ≤ d) → compatRev a b = true →
    fitsRev a (bdimsRev a b) = true
  | [], _, _, _ => by simp [fitsRev]
  | x :: xs, [], _, _ => by
    simp only [bdimsRev, fitsRev, beq_self_eq_true, Bool.or_true, Bool.true_and]
    exact fitsRev_self xs
  | x :: xs, y :: ys, hpos, h => by
    simp only [compatRev, Bool.and_eq_true, Bool.or_eq_true, beq_iff_eq] at h
    simp only [bdimsRev, fitsRev, Bool.and_eq_true, Bool.or_eq_true, beq_iff_eq]
    have hx : 1 ≤ x := hpos x (by simp)
    refine ⟨?_, fitsRev_bdims_left xs ys (fun d hd => hpos d (by simp [hd])) h.2⟩
    rcases h.1 with (h1 | h1) | h1
    · subst h1; right; simp
    · left; exact h1
    · subst h1; right; omega

theorem Fits_bdims_left (a b : List Nat) (hpos : ∀ d ∈ a, 1 ≤ d) (h : Compat a b = true) :
    Fits a (bdims a b) = true := by
  simp only [Fits, bdims, List.reverse_reverse]
  exact fitsRev_bdims_left _ _ (by simpa using hpos) h

theorem Fits_bdims_right (a b : List Nat) (hpos : ∀ d ∈ b, 1 ≤ d) (h : Compat a b = true) :
    Fits b (bdims a b) = true := by
  have hc : Compat b a = true := by simpa [Compat, compatRev_comm] using h
  have := Fits_bdims_left b a hpos hc
  simpa [bdims, bdimsRev_comm] using this

end Corgi

namespace Corgi

/-! ### forward (aligned) view of "fits" -/

/-- `ad` against the last `ad.length` entries of `D`: every entry is `1` or equal -/
def alignedOK (ad D' : List Nat) : Bool := (ad.zip D').all (fun p => p.1 == 1 || p.1 == p.2)

theorem fitsRev_iff_aligned : ∀ (ar Dr : List Nat), fitsRev ar Dr = true ↔
    (ar.length ≤ Dr.length ∧ alignedOK ar (Dr.take ar.length) = true)
  | [], Dr => by simp [fitsRev, alignedOK]
  | _ :: _, [] => by simp [fitsRev]
  | d :: ds, e :: es => by
    simp only [fitsRev, Bool.and_eq_true, fitsRev_iff_aligned ds es, List.length_cons, Nat.add_le_add_iff_right,
      List.take_succ_cons, alignedOK, List.zip_cons_cons, List.all_cons]
    constructor
    · intro ⟨h1, h2, h3⟩; exact ⟨h2, h1, h3⟩
    · intro ⟨h2, h1, h3⟩; exact ⟨h1, h2, h3⟩

theorem alignedOK_reverse (a D' : List Nat) (h : a.length = D'.length) :
    alignedOK a.reverse D'.reverse = alignedOK a D' := by
  simp only [alignedOK, List.zip_eq_zipWith]
  rw [← List.reverse_zipWith h, List.all_reverse]

/-- `Fits` in forward form: `ad` is not longer than `D` and is aligned-OK with `D`'s last entries -/
theorem Fits_iff (ad D : List Nat) : Fits ad D = true ↔
    (ad.length ≤ D.length ∧ alignedOK ad (D.drop (D.length - ad.length)) = true) := by
  simp only [Fits, fitsRev_iff_aligned, List.length_reverse, List.take_reverse]
  constructor
  · intro ⟨h1, h2⟩
    refine ⟨h1, ?_⟩
    rw [alignedOK_reverse _ _ (by simp; omega)] at h2
    exact h2
  · intro ⟨h1, h2⟩
    refine ⟨h1, ?_⟩
    rw [alignedOK_reverse _ _ (by simp; omega)]
    exact h2

/-- the projected index is in range for the operand -/
theorem proj_inRange_aligned : ∀ (ad D' I' : List Nat), alignedOK ad D' = true → inRange D' I' = true →
    ad.length = D'.length → (∀ d ∈ ad, 1 ≤ d) →
    inRange ad ((ad.zip I').map (fun p => if p.1 == 1 then 0 else p.2)) = true
  | [], [], [], _, _, _, _ => rfl
  | [], _ :: _, _, _, _, h, _ => by simp at h
  | _ :: _, [], _, _, _, h, _ => by simp at h
  | _ :: _, _ :: _, [], _, h, _, _ => by simp [inRange] at h
  | [], [], _ :: _, _, h, _, _ => by simp [inRange] at h
  | d :: ds, e :: es, i :: is, hal, hin, hlen, hpos => by
    simp only [alignedOK, List.zip_cons_cons, List.all_cons, Bool.and_eq_true, Bool.or_eq_true, beq_iff_eq] at hal
    simp only [inRange, Bool.and_eq_true, decide_eq_true_eq] at hin
    have hd : 1 ≤ d := hpos d (by simp)
    simp only [List.zip_cons_cons, List.map_cons, inRange, Bool.and_eq_true, decide_eq_true_eq]
    refine ⟨?_, proj_inRange_aligned ds es is hal.2 hin.2 (by simpa using hlen) (fun x hx => hpos x (by simp [hx]))⟩
    by_cases h1 : d = 1
    · simp [h1]
    · have : d = e := by rcases hal.1 with h | h; exact absurd h h1; exact h
      simp [h1]; omega

theorem inRange_drop : ∀ (D I : List Nat) (k : Nat), inRange D I = true → inRange (D.drop k) (I.drop k) = true
  | D, I, 0, h => by simpa using h
  | [], [], _ + 1, _ => by simp [inRange]
  | [], _ :: _, _, h => by simp [inRange] at h
  | _ :: _, [], _, h => by simp [inRange] at h
  | d :: ds, i :: is, k + 1, h => by
    simp only [inRange, Bool.and_eq_true] at h
    simpa using inRange_drop ds is k h.2

theorem proj_inRange (ad D I : List Nat) (hf : Fits ad D = true) (hI : inRange D I = true) (hpos : ∀ d ∈ ad, 1 ≤ d) :
    inRange ad (proj ad I) = true := by
  obtain ⟨hle, hal⟩ := (Fits_iff ad D).mp hf
  have hl := inRange_length hI
  unfold proj
  rw [hl]
  exact proj_inRange_aligned ad (D.drop (D.length - ad.length)) (I.drop (D.length - ad.length)) hal
    (inRange_drop D I _ hI) (by simp; omega) hpos

end Corgi

namespace Corgi

/-- concatenating the blocks `[g (q*n), …, g (q*n + n-1)]` for `q < L` enumerates `g` below `L * n` -/
theorem flatten_range_blocks {α} (g : Nat → α) (n : Nat) :
    ∀ L, ((List.range L).map (fun q => (List.range n).map (fun i => g (q * n + i)))).flatten
      = (List.range (L * n)).map g := by
  intro L
  induction L with
  | zero => simp
  | succ L ih =>
    rw [List.range_succ, List.map_append, List.flatten_append, ih]
    simp only [List.map_cons, List.map_nil, List.flatten_cons, List.flatten_nil, List.append_nil]
    rw [Nat.succ_mul, List.range_add, List.map_append, List.map_map]
    rfl

variable {S : Type}

theorem slice_getElem? (v : List S) (off len j : Nat) (sl : List S) (h : slice v off len = .ok sl) (hj : j < len) :
    sl[j]? = v[off + j]? := by
  unfold slice at h
  split at h
  · simp only [pure, Except.pure, Except.ok.injEq] at h
    subst h
    rw [List.getElem?_take_of_lt hj, List.getElem?_drop]
  · simp [throw, throwThe, MonadExceptOf.throw] at h

theorem slice_ok (v : List S) (off len : Nat) (h : off + len ≤ v.length) :
    slice v off len = .ok ((v.drop off).take len) := by
  simp [slice, h, pure, Except.pure]

theorem getR_ok (v : List S) (i : Nat) (x : S) (h : v[i]? = some x) : getR v i = .ok x := by
  simp [getR, h, pure, Except.pure]

section
variable [Add S] [Mul S] [Neg S] [Sub S] [ScalarOps S]

/-- the element-wise slice operation on slices of the operands' last dimensions -/
theorem ewiseOp_ok (f : S → S → S) (sl ol n : Nat) (xa xb : List S) (hsl : 0 < sl) (hol : 0 < ol)
    (ha : xa.length = sl) (hb : xb.length = ol) :
    ewiseOp f sl ol n [xa, xb] = .ok ((List.range n).map (fun i => f (xa.getD (i % sl) zero) (xb.getD (i % ol) zero))) := by
  unfold ewiseOp
  apply tabulateM_ok
  intro i _
  have h1 : i % sl < xa.length := by rw [ha]; exact Nat.mod_lt _ hsl
  have h2 : i % ol < xb.length := by rw [hb]; exact Nat.mod_lt _ hol
  simp [getR, List.getElem?_eq_getElem h1, List.getElem?_eq_getElem h2, List.getD_eq_getElem?_getD, bind, Except.bind,
    pure, Except.pure]

end
end Corgi

namespace Corgi
variable {S : Type} [Add S] [Mul S] [Neg S] [Sub S] [ScalarOps S]

/-- the operand element the specification reads for output position `q * n + i` is the element the
    code reads: slice offset `projOffset aL (unflatten DL q) * sl`, position `i % sl` inside it -/
theorem operand_index (aL DL : List Nat) (sl n q i : Nat)
    (hfit : Fits (aL ++ [sl]) (DL ++ [n]) = true) (hposD : ∀ d ∈ DL, 1 ≤ d) (hn : 1 ≤ n)
    (hq : q < prod DL) (hi : i < n) :
    rowMajor (aL ++ [sl]) (proj (aL ++ [sl]) (unflatten (DL ++ [n]) (q * n + i)))
      = projOffset aL (unflatten DL q) * sl + i % sl := by
  obtain ⟨hle, hal⟩ := (Fits_iff _ _).mp hfit
  have hle' : aL.length ≤ DL.length := by simpa using hle
  have hIlen : (unflatten DL q).length = DL.length := unflatten_length _ _
  rw [unflatten_append_last DL n q i hposD hi hq, proj_append_last _ _ _ _ (by omega),
    rowMajor_append _ _ _ _ (proj_length _ _ (by omega)), projOffset_eq_proj _ _ (by omega)]
  simp only [prod, Nat.mul_one, rowMajor, Nat.add_zero]
  congr 1
  -- the last dimension: `sl = 1` or `sl = n`
  have hlast : sl = 1 ∨ sl = n := by
    simp only [alignedOK, List.length_append, List.length_cons, List.length_nil] at hal
    have hd : (DL ++ [n]).drop (DL.length + 1 - (aL.length + 1)) = DL.drop (DL.length - aL.length) ++ [n] := by
      rw [List.drop_append_of_le_length (by omega)]; congr 2; omega
    rw [hd, List.zip_append (by simp; omega), List.all_append] at hal
    simp only [Bool.and_eq_true, List.zip_cons_cons, List.zip_nil_right, List.all_cons, List.all_nil, Bool.and_true,
      Bool.or_eq_true, beq_iff_eq] at hal
    exact hal.2
  rcases hlast with h1 | h1
  · subst h1; simp [Nat.mod_one]
  · subst h1
    by_cases h2 : sl = 1
    · subst h2; have : i = 0 := by omega
      simp [this]
    · have : (sl == 1) = false := by simp [h2]
      simp [this, Nat.mod_eq_of_lt hi]

theorem operand_index_lt (aL DL : List Nat) (sl n q : Nat)
    (hfit : Fits (aL ++ [sl]) (DL ++ [n]) = true) (hposD : ∀ d ∈ DL, 1 ≤ d) (hposA : ∀ d ∈ aL, 1 ≤ d)
    (hq : q < prod DL) : projOffset aL (unflatten DL q) < prod aL ∨ aL = [] := by
  obtain ⟨hle, hal⟩ := (Fits_iff _ _).mp hfit
  have hle' : aL.length ≤ DL.length := by simpa using hle
  have hIlen : (unflatten DL q).length = DL.length := unflatten_length _ _
  rw [projOffset_eq_proj _ _ (by omega)]
  -- `aL` fits `DL`
  have hfitL : Fits aL DL = true := by
    refine (Fits_iff _ _).mpr ⟨hle', ?_⟩
    simp only [alignedOK, List.length_append, List.length_cons, List.length_nil] at hal ⊢
    have hd : (DL ++ [n]).drop (DL.length + 1 - (aL.length + 1)) = DL.drop (DL.length - aL.length) ++ [n] := by
      rw [List.drop_append_of_le_length (by omega)]; congr 2; omega
    rw [hd, List.zip_append (by simp; omega), List.all_append] at hal
    simp only [Bool.and_eq_true] at hal
    exact hal.1
  exact rowMajor_lt_prod (proj_inRange aL DL _ hfitL (unflatten_inRange hposD hq) hposA)

end Corgi

namespace Corgi
variable {S : Type} [Add S] [Mul S] [Neg S] [Sub S] [ScalarOps S]

theorem prod_snoc (L : List Nat) (n : Nat) : prod (L ++ [n]) = prod L * n := by
  simp [prod_append, prod]

theorem fitsRev_zip_all : ∀ (x y : List Nat), fitsRev x y = true →
    (x.zip y).all (fun p => p.1 == 1 || p.1 == p.2) = true
  | [], _, _ => by simp
  | _ :: _, [], h => by simp [fitsRev] at h
  | d :: ds, e :: es, h => by
    simp only [fitsRev, Bool.and_eq_true] at h
    simp only [List.zip_cons_cons, List.all_cons, Bool.and_eq_true]
    exact ⟨h.1, fitsRev_zip_all ds es h.2⟩

/-- the validity check of `sliced_op` for an operand that fits -/
theorem valid_of_fits (aL DL : List Nat) (sl n : Nat) (hfit : Fits (aL ++ [sl]) (DL ++ [n]) = true) :
    (((aL ++ [sl]).reverse.drop 1).zip ((DL ++ [n]).reverse.drop 1)).all (fun p => p.1 == 1 || p.1 == p.2) = true := by
  simp only [Fits, List.reverse_append, List.reverse_cons, List.reverse_nil, List.nil_append, List.cons_append,
    fitsRev, Bool.and_eq_true] at hfit
  simp only [List.reverse_append, List.reverse_cons, List.reverse_nil, List.nil_append, List.cons_append,
    List.drop_succ_cons, List.drop_zero]
  exact fitsRev_zip_all _ _ hfit.2

/-- one operand's slice at leading position `q` -/
theorem operand_slice (aL DL : List Nat) (sl n q : Nat) (av : List S)
    (hfit : Fits (aL ++ [sl]) (DL ++ [n]) = true) (hposD : ∀ d ∈ DL, 1 ≤ d) (hposA : ∀ d ∈ aL ++ [sl], 1 ≤ d)
    (hav : av.length = prod (aL ++ [sl])) (hq : q < prod DL) :
    slice av (projOffset ((aL ++ [sl]).take (min ((aL ++ [sl]).length - 1) DL.length)) (unflatten DL q)
        * prod ((aL ++ [sl]).reverse.take 1)) (prod ((aL ++ [sl]).reverse.take 1))
      = .ok ((av.drop (projOffset aL (unflatten DL q) * sl)).take sl)
      ∧ ((av.drop (projOffset aL (unflatten DL q) * sl)).take sl).length = sl := by
  obtain ⟨hle, _⟩ := (Fits_iff _ _).mp hfit
  have hle' : aL.length ≤ DL.length := by simpa using hle
  have hg : prod ((aL ++ [sl]).reverse.take 1) = sl := by simp [prod]
  have hmin : min ((aL ++ [sl]).length - 1) DL.length = aL.length := by simp; omega
  have htake : (aL ++ [sl]).take aL.length = aL := by simp
  rw [hg, hmin, htake]
  have hb : projOffset aL (unflatten DL q) * sl + sl ≤ av.length := by
    rw [hav, prod_snoc]
    rcases operand_index_lt aL DL sl n q hfit hposD (fun d hd => hposA d (by simp [hd])) hq with h | h
    · have : (projOffset aL (unflatten DL q) + 1) * sl ≤ prod aL * sl := Nat.mul_le_mul_right _ h
      rw [Nat.add_mul, Nat.one_mul] at this; exact this
    · subst h; simp [projOffset, prod]
  refine ⟨slice_ok _ _ _ hb, ?_⟩
  rw [List.length_take, List.length_drop]
  omega

/-- **Element-wise operation on operands that fit the output shape** (`D = DL ++ [n]`, at least one
    leading dimension): the result holds, at every multi-index, `f` of the operands' elements at the
    projected indices. -/
theorem ewise_core_loop (f : S → S → S) (aL bL DL : List Nat) (sl ol n : Nat) (av bv : List S)
    (hDL : DL ≠ []) (hposD : ∀ d ∈ DL ++ [n], 1 ≤ d)
    (hposA : ∀ d ∈ aL ++ [sl], 1 ≤ d) (hposB : ∀ d ∈ bL ++ [ol], 1 ≤ d)
    (hfa : Fits (aL ++ [sl]) (DL ++ [n]) = true) (hfb : Fits (bL ++ [ol]) (DL ++ [n]) = true)
    (hav : av.length = prod (aL ++ [sl])) (hbv : bv.length = prod (bL ++ [ol])) :
    slicedOp [⟨aL ++ [sl], av⟩, ⟨bL ++ [ol], bv⟩] (ewiseOp f sl ol n) (DL ++ [n]) (DL ++ [n]) 1 0
      = .ok (specEwise' f ⟨aL ++ [sl], av⟩ ⟨bL ++ [ol], bv⟩ (DL ++ [n])) := by
  have hposDL : ∀ d ∈ DL, 1 ≤ d := fun d hd => hposD d (by simp [hd])
  have hn : 1 ≤ n := hposD n (by simp)
  have hsl : 1 ≤ sl := hposA sl (by simp)
  have hol : 1 ≤ ol := hposB ol (by simp)
  have hlen1 : (DL ++ [n]).length - 1 = DL.length := by simp
  have htakeD : (DL ++ [n]).take ((DL ++ [n]).length - 1) = DL := by simp
  -- apply the loop lemma with tail `[n]`
  let blk : Nat → List S := fun q => (List.range n).map (fun i =>
    f (av.getD (projOffset aL (unflatten DL q) * sl + i % sl) zero) (bv.getD (projOffset bL (unflatten DL q) * ol + i % ol) zero))
  have hvalid : [(⟨aL ++ [sl], av⟩ : Tensor S), ⟨bL ++ [ol], bv⟩].all (fun v =>
      ((v.dims.reverse.drop 1).zip ((DL ++ [n]).reverse.drop 1)).all (fun p => p.1 == 1 || p.1 == p.2)) = true := by
    simp only [List.all_cons, List.all_nil, Bool.and_true, Bool.and_eq_true]
    exact ⟨valid_of_fits aL DL sl n hfa, valid_of_fits bL DL ol n hfb⟩
  have hblk : ∀ q, q < prod ((DL ++ [n]).take ((DL ++ [n]).length - 1)) →
      ∃ slc, slicesAt [(⟨aL ++ [sl], av⟩ : Tensor S), ⟨bL ++ [ol], bv⟩] 1 ((DL ++ [n]).length - 1)
          (unflatten ((DL ++ [n]).take ((DL ++ [n]).length - 1)) q) = .ok slc ∧
        ewiseOp f sl ol n slc = .ok (blk q) ∧ (blk q).length = prod [n] := by
    intro q hq
    rw [htakeD] at hq
    rw [htakeD, hlen1]
    let xa := (av.drop (projOffset aL (unflatten DL q) * sl)).take sl
    let xb := (bv.drop (projOffset bL (unflatten DL q) * ol)).take ol
    have hsa := operand_slice aL DL sl n q av hfa hposDL hposA hav hq
    have hsb := operand_slice bL DL ol n q bv hfb hposDL hposB hbv hq
    refine ⟨[xa, xb], ?_, ?_, by simp [blk, prod]⟩
    · simp only [slicesAt, mapR, bind, Except.bind, pure, Except.pure]
      rw [hsa.1]
      dsimp only []
      rw [hsb.1]
    · have hxa : xa.length = sl := hsa.2
      have hxb : xb.length = ol := hsb.2
      rw [ewiseOp_ok f sl ol n xa xb hsl hol hxa hxb]
      congr 1
      apply List.map_congr_left
      intro i _
      have h1 : i % sl < sl := Nat.mod_lt _ hsl
      have h2 : i % ol < ol := Nat.mod_lt _ hol
      simp only [xa, xb, List.getD_eq_getElem?_getD, List.getElem?_take_of_lt h1, List.getElem?_take_of_lt h2,
        List.getElem?_drop]
  have hmain := slicedOp_loop [(⟨aL ++ [sl], av⟩ : Tensor S), ⟨bL ++ [ol], bv⟩] (ewiseOp f sl ol n) (DL ++ [n]) [n] 1 0 blk
    hvalid (by rw [hlen1]; exact List.length_pos_iff.mpr hDL)
    (by rw [htakeD]; exact hposDL) (by intro d hd; simp at hd; omega) hblk
  rw [htakeD] at hmain
  rw [hmain]
  simp only [flattenTrailing, if_true, Except.bind, pure, Except.pure]
  -- the concatenated blocks are the specification's value list
  have hflat : ((List.range (prod DL)).map blk).flatten = (specEwise' f ⟨aL ++ [sl], av⟩ ⟨bL ++ [ol], bv⟩ (DL ++ [n])).vals := by
    have hg := flatten_range_blocks (fun m =>
      f (av.getD (rowMajor (aL ++ [sl]) (proj (aL ++ [sl]) (unflatten (DL ++ [n]) m))) zero)
        (bv.getD (rowMajor (bL ++ [ol]) (proj (bL ++ [ol]) (unflatten (DL ++ [n]) m))) zero)) n (prod DL)
    simp only [specEwise', Tensor.ofFn, Tensor.get, prod_snoc]
    rw [← hg]
    congr 1
    apply List.map_congr_left
    intro q hq
    have hq' : q < prod DL := by simpa using hq
    apply List.map_congr_left
    intro i hi
    have hi' : i < n := by simpa using hi
    rw [operand_index aL DL sl n q i hfa hposDL hn hq' hi', operand_index bL DL ol n q i hfb hposDL hn hq' hi']
  rw [hflat]
  have hwf : prod (DL ++ [n]) = (specEwise' f ⟨aL ++ [sl], av⟩ ⟨bL ++ [ol], bv⟩ (DL ++ [n])).vals.length := by
    simp [specEwise', Tensor.ofFn]
  unfold Tensor.mk?
  have hall : (DL ++ [n]).all (fun d => decide (1 ≤ d)) = true := by
    simp only [List.all_eq_true, decide_eq_true_eq]; exact hposD
  simp only [hall, Bool.not_true, Bool.false_eq_true, if_false, ← hwf, bne_self_eq_false, pure, Except.pure]
  rfl

end Corgi

namespace Corgi
variable {S : Type} [Add S] [Mul S] [Neg S] [Sub S] [ScalarOps S]

theorem bdimsRev_pos : ∀ (a b : List Nat), (∀ d ∈ a, 1 ≤ d) → (∀ d ∈ b, 1 ≤ d) → ∀ d ∈ bdimsRev a b, 1 ≤ d
  | [], [], _, _ => by simp [bdimsRev]
  | [], _ :: _, _, hb => by simpa [bdimsRev] using hb
  | _ :: _, [], ha, _ => by simpa [bdimsRev] using ha
  | x :: xs, y :: ys, ha, hb => by
    intro d hd
    simp only [bdimsRev, List.mem_cons] at hd
    rcases hd with rfl | hd
    · have := ha x (by simp); omega
    · exact bdimsRev_pos xs ys (fun d hd => ha d (by simp [hd])) (fun d hd => hb d (by simp [hd])) d hd

theorem bdims_pos (a b : List Nat) (ha : ∀ d ∈ a, 1 ≤ d) (hb : ∀ d ∈ b, 1 ≤ d) : ∀ d ∈ bdims a b, 1 ≤ d := by
  intro d hd
  simp only [bdims, List.mem_reverse] at hd
  exact bdimsRev_pos _ _ (by simpa using ha) (by simpa using hb) d hd

theorem bdimsRev_length : ∀ (a b : List Nat), (bdimsRev a b).length = max a.length b.length
  | [], [] => rfl
  | [], _ :: _ => by simp [bdimsRev]
  | _ :: _, [] => by simp [bdimsRev]
  | _ :: xs, _ :: ys => by simp [bdimsRev, bdimsRev_length xs ys]

theorem bdims_length (a b : List Nat) : (bdims a b).length = max a.length b.length := by
  simp [bdims, bdimsRev_length]

/-- rank-1 output: a single block -/
theorem ewise_core_single (f : S → S → S) (sl ol n : Nat) (av bv : List S)
    (hn : 1 ≤ n) (hsl : 1 ≤ sl) (hol : 1 ≤ ol)
    (hfa : Fits [sl] [n] = true) (hfb : Fits [ol] [n] = true)
    (hav : av.length = sl) (hbv : bv.length = ol) :
    slicedOp [⟨[sl], av⟩, ⟨[ol], bv⟩] (ewiseOp f sl ol n) [n] [n] 1 0
      = .ok (specEwise' f ⟨[sl], av⟩ ⟨[ol], bv⟩ [n]) := by
  have hvalid : [(⟨[sl], av⟩ : Tensor S), ⟨[ol], bv⟩].all (fun v =>
      ((v.dims.reverse.drop 1).zip (([n] : List Nat).reverse.drop 1)).all (fun p => p.1 == 1 || p.1 == p.2)) = true := by
    simp
  have hsl' : slicesAt [(⟨[sl], av⟩ : Tensor S), ⟨[ol], bv⟩] 1 0 [] = .ok [av, bv] := by
    simp [slicesAt, mapR, projOffset, prod, slice, hav, hbv, bind, Except.bind, pure, Except.pure]
    exact ⟨by rw [← hav]; exact List.take_length, by rw [← hbv]; exact List.take_length⟩
  rw [slicedOp_single _ _ [n] [n] 1 0 [av, bv] _ hvalid (by simp) hsl' (ewiseOp_ok f sl ol n av bv hsl hol hav hbv)
    (by simp [prod])]
  simp only [flattenTrailing, if_true, Except.bind, pure, Except.pure]
  have ha1 : sl = 1 ∨ sl = n := by
    simp [Fits, fitsRev] at hfa; exact hfa
  have hb1 : ol = 1 ∨ ol = n := by
    simp [Fits, fitsRev] at hfb; exact hfb
  have hvals : (List.range n).map (fun i => f (av.getD (i % sl) zero) (bv.getD (i % ol) zero))
      = (specEwise' f ⟨[sl], av⟩ ⟨[ol], bv⟩ [n]).vals := by
    simp only [specEwise', Tensor.ofFn, Tensor.get, prod, Nat.mul_one]
    apply List.map_congr_left
    intro i hi
    have hi' : i < n := by simpa using hi
    have key : ∀ (s : Nat), (s = 1 ∨ s = n) → rowMajor [s] (proj [s] (unflatten [n] i)) = i % s := by
      intro s hs
      simp only [unflatten, prod, Nat.div_one, proj, List.length_cons, List.length_nil, Nat.sub_self, List.drop_zero,
        List.zip_cons_cons, List.zip_nil_right, List.map_cons, List.map_nil, rowMajor, Nat.mul_one, Nat.add_zero]
      rcases hs with rfl | rfl
      · simp [Nat.mod_one]
      · by_cases h1 : s = 1
        · subst h1; have : i = 0 := by omega
          simp [this]
        · simp [h1, Nat.mod_eq_of_lt hi']
    rw [key sl ha1, key ol hb1]
  rw [hvals]
  unfold Tensor.mk?
  have hwf : prod [n] = (specEwise' f ⟨[sl], av⟩ ⟨[ol], bv⟩ [n]).vals.length := by
    simp [specEwise', Tensor.ofFn]
  have hall : ([n] : List Nat).all (fun d => decide (1 ≤ d)) = true := by simp; omega
  simp only [hall, Bool.not_true, Bool.false_eq_true, if_false, ← hwf, bne_self_eq_false, pure, Except.pure]
  rfl

end Corgi

namespace Corgi
variable {S : Type} [Add S] [Mul S] [Neg S] [Sub S] [ScalarOps S]

theorem split_last (l : List Nat) (h : l ≠ []) : ∃ L x, l = L ++ [x] :=
  ⟨l.dropLast, l.getLast h, (List.dropLast_concat_getLast h).symm⟩

theorem lastDim_snoc (L : List Nat) (x : Nat) : lastDim (L ++ [x]) = .ok x := by
  simp [lastDim, dimFromEnd, getR, pure, Except.pure]

/-- **C04, the element formula.**  For well-formed operands of rank ≥ 1 with broadcast-compatible
    dimensions, an element-wise operation returns the specification's tensor: pairwise-maximum
    dimensions, and at every multi-index `f` of the operands' elements at the projected indices. -/
theorem ewise_spec (f : S → S → S) (a b : Tensor S) (hwa : a.WF) (hwb : b.WF)
    (hna : a.dims ≠ []) (hnb : b.dims ≠ []) (hc : Compat a.dims b.dims = true) :
    ewise f a b = .ok (specEwise f a b) := by
  obtain ⟨aL, sl, hae⟩ := split_last a.dims hna
  obtain ⟨bL, ol, hbe⟩ := split_last b.dims hnb
  have hposA := hwa.1
  have hposB := hwb.1
  have hDpos := bdims_pos a.dims b.dims hposA hposB
  have hDne : bdims a.dims b.dims ≠ [] := by
    intro e
    have := bdims_length a.dims b.dims
    rw [e] at this
    have : a.dims.length = 0 := by simp at this; omega
    exact hna (List.length_eq_zero_iff.mp this)
  obtain ⟨DL, n, hDe⟩ := split_last _ hDne
  have hfa := Fits_bdims_left a.dims b.dims hposA hc
  have hfb := Fits_bdims_right a.dims b.dims hposB hc
  unfold ewise
  simp only [ewiseDims_spec, hc, if_true, bind, Except.bind]
  rw [hDe] at hfa hfb hDpos ⊢
  rw [hae] at hfa hposA
  rw [hbe] at hfb hposB
  simp only [hae, hbe, lastDim_snoc]
  have ha' : a = ⟨aL ++ [sl], a.vals⟩ := by
    cases a with
    | mk d v => simp only at hae; subst hae; rfl
  have hb' : b = ⟨bL ++ [ol], b.vals⟩ := by
    cases b with
    | mk d v => simp only at hbe; subst hbe; rfl
  have hav : a.vals.length = prod (aL ++ [sl]) := by rw [← hae]; exact hwa.2.symm
  have hbv : b.vals.length = prod (bL ++ [ol]) := by rw [← hbe]; exact hwb.2.symm
  have hspec : specEwise f a b = specEwise' f ⟨aL ++ [sl], a.vals⟩ ⟨bL ++ [ol], b.vals⟩ (DL ++ [n]) := by
    rw [specEwise, hDe, ← ha', ← hb']
  rw [hspec, ha', hb']
  simp only []
  by_cases hDL : DL = []
  · subst hDL
    -- rank-1 output: both operands have rank 1
    have haL : aL = [] := by
      have h1 := ((Fits_iff _ _).mp hfa).1
      simp only [List.length_append, List.length_cons, List.length_nil, List.nil_append] at h1
      exact List.length_eq_zero_iff.mp (by omega)
    have hbL : bL = [] := by
      have h1 := ((Fits_iff _ _).mp hfb).1
      simp only [List.length_append, List.length_cons, List.length_nil, List.nil_append] at h1
      exact List.length_eq_zero_iff.mp (by omega)
    subst haL hbL
    simp only [List.nil_append] at *
    exact ewise_core_single f sl ol n a.vals b.vals (hDpos n (by simp)) (hposA sl (by simp)) (hposB ol (by simp))
      hfa hfb (by simpa [prod] using hav) (by simpa [prod] using hbv)
  · exact ewise_core_loop f aL bL DL sl ol n a.vals b.vals hDL hDpos hposA hposB hfa hfb hav hbv

end Corgi
