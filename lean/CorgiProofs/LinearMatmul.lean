/-
  CorgiProofs.LinearMatmul — the closure of `matmul` (operands of rank ≥ 2, any batch shapes, both
  transpose flags, any additive term): each of the two products it computes with the delta is the
  specification's product (`matmul_spec_none`), which is additive in the delta; the additive term receives
  the delta itself.  All three answers reduce to the operands' shapes.
-/
import CorgiProofs.LinearTags
import CorgiProofs.Matmul

set_option linter.unusedSectionVars false
set_option linter.unusedVariables false

namespace Corgi
variable {S : Type} [Add S] [Mul S] [Neg S] [Sub S] [ScalarOps S] [BEq S]

theorem specMatmul_dims (a b : Tensor S) (ta tb : Bool) (c : Option (Tensor S)) (la lb : List Nat) (a1 a2 b1 b2 : Nat)
    (hda : a.dims = la ++ [a1, a2]) (hdb : b.dims = lb ++ [b1, b2]) :
    (specMatmul a ta b tb c).dims = bdims la lb ++ [if ta then a2 else a1, if tb then b1 else b2] := by
  simp only [specMatmul, Tensor.ofFn, hda, hdb]
  have e1 : (la ++ [a1, a2]).take ((la ++ [a1, a2]).length - 2) = la := by simp
  have e2 : (lb ++ [b1, b2]).take ((lb ++ [b1, b2]).length - 2) = lb := by simp
  have e3 : (la ++ [a1, a2]).drop ((la ++ [a1, a2]).length - 2) = [a1, a2] := by simp
  have e4 : (lb ++ [b1, b2]).drop ((lb ++ [b1, b2]).length - 2) = [b1, b2] := by simp
  simp only [e1, e2, e3, e4, List.getD_cons_zero, List.getD_cons_succ]

theorem specMatmul_shaped (a b : Tensor S) (ta tb : Bool) (c : Option (Tensor S)) :
    (specMatmul a ta b tb c).vals.length = prod (specMatmul a ta b tb c).dims := by
  simp [specMatmul, Tensor.ofFn]

section add
variable [AddLaws S] [MulLaws S] [CommLaws S]

theorem sumRange_add (k : Nat) (f g : Nat → S) : sumRange k (fun t => f t + g t) = sumRange k f + sumRange k g :=
  sumList_map_add f g (List.range k)

theorem zero_add_add (A B : S) : zero + (A + B) = (zero + A) + (zero + B) := by
  rw [AddLaws.zero_add, AddLaws.zero_add, AddLaws.zero_add]

/-- the product is additive in its left operand -/
theorem specMatmul_add_left (x y b : Tensor S) (tx tb : Bool) (hd : x.dims = y.dims)
    (hl : x.vals.length = y.vals.length) :
    specMatmul (tadd x y) tx b tb none = tadd (specMatmul x tx b tb none) (specMatmul y tx b tb none) := by
  have e1 : (tadd x y).dims = x.dims := rfl
  simp only [specMatmul, Tensor.ofFn, e1, ← hd, tadd]
  congr 1
  rw [zipWith_map_range]
  apply List.map_congr_left
  intro n _
  rw [← zero_add_add, ← sumRange_add]
  congr 1
  simp only [sumRange]
  congr 1
  apply List.map_congr_left
  intro t _
  have := tadd_get x y hd hl
  simp only [tadd] at this
  rw [this, MulLaws.right_distrib]

/-- the product is additive in its right operand -/
theorem specMatmul_add_right (a x y : Tensor S) (ta tx : Bool) (hd : x.dims = y.dims)
    (hl : x.vals.length = y.vals.length) :
    specMatmul a ta (tadd x y) tx none = tadd (specMatmul a ta x tx none) (specMatmul a ta y tx none) := by
  have e1 : (tadd x y).dims = x.dims := rfl
  simp only [specMatmul, Tensor.ofFn, e1, ← hd, tadd]
  congr 1
  rw [zipWith_map_range]
  apply List.map_congr_left
  intro n _
  rw [← zero_add_add, ← sumRange_add]
  congr 1
  simp only [sumRange]
  congr 1
  apply List.map_congr_left
  intro t _
  have := tadd_get x y hd hl
  simp only [tadd] at this
  rw [this, MulLaws.left_distrib]

theorem sumRange_smul (α : S) (k : Nat) (f : Nat → S) : sumRange k (fun t => α * f t) = α * sumRange k f :=
  sumList_smul α f (List.range k)

theorem zero_add_smul (α A : S) : zero + α * A = α * (zero + A) := by
  rw [AddLaws.zero_add, AddLaws.zero_add]

theorem specMatmul_smul_left (α : S) (x b : Tensor S) (tx tb : Bool) :
    specMatmul (tsmul α x) tx b tb none = tsmul α (specMatmul x tx b tb none) := by
  have e1 : (tsmul α x).dims = x.dims := rfl
  simp only [specMatmul, Tensor.ofFn, e1]
  simp only [tsmul, List.map_map]
  congr 1
  apply List.map_congr_left
  intro n _
  simp only [Function.comp]
  rw [← zero_add_smul, ← sumRange_smul]
  congr 1
  simp only [sumRange]
  congr 1
  apply List.map_congr_left
  intro t _
  have := tsmul_get α x
  simp only [tsmul] at this
  rw [this, CommLaws.mul_assoc]

theorem specMatmul_smul_right (α : S) (a x : Tensor S) (ta tx : Bool) :
    specMatmul a ta (tsmul α x) tx none = tsmul α (specMatmul a ta x tx none) := by
  have e1 : (tsmul α x).dims = x.dims := rfl
  simp only [specMatmul, Tensor.ofFn, e1]
  simp only [tsmul, List.map_map]
  congr 1
  apply List.map_congr_left
  intro n _
  simp only [Function.comp]
  rw [← zero_add_smul, ← sumRange_smul]
  congr 1
  simp only [sumRange]
  congr 1
  apply List.map_congr_left
  intro t _
  have := tsmul_get α x
  simp only [tsmul] at this
  rw [this, ← CommLaws.mul_assoc, CommLaws.mul_comm _ α, CommLaws.mul_assoc]

theorem pos_append2 {l : List Nat} {p q : Nat} (hl : ∀ d ∈ l, 1 ≤ d) (hp : 1 ≤ p) (hq : 1 ≤ q) :
    ∀ d ∈ l ++ [p, q], 1 ≤ d := by
  intro d hd
  simp only [List.mem_append, List.mem_cons, List.not_mem_nil, or_false] at hd
  rcases hd with h | rfl | rfl
  · exact hl d h
  · exact hp
  · exact hq

/-- `x ↦ matmul(x, b)` with the delta on the left -/
theorem linEntry_matmul_left (b : Tensor S) (tx tb : Bool) (lx lb : List Nat) (x1 x2 b1 b2 : Nat) (kd : List Nat)
    (hdb : b.dims = lb ++ [b1, b2]) (hwb : b.WF) (hposX : ∀ d ∈ lx ++ [x1, x2], 1 ≤ d) (hc : Compat lx lb = true)
    (hinner : (if tx then x1 else x2) = (if tb then b2 else b1)) (hkd : ∀ d ∈ kd, 1 ≤ d)
    (hfit : Fits kd (bdims lx lb ++ [if tx then x2 else x1, if tb then b1 else b2]) = true) :
    LinEntry (fun x => matmul x tx b tb none) (lx ++ [x1, x2]) kd := by
  have hposB : ∀ d ∈ lb ++ [b1, b2], 1 ≤ d := by rw [← hdb]; exact hwb.1
  refine ⟨_, fun x => specMatmul x tx b tb none, ?_, hkd, hfit, ?_, ?_, fun α x _ => specMatmul_smul_left α x b tx tb⟩
  · refine pos_append2 (bdims_pos lx lb (fun d hd => hposX d (by simp [hd])) (fun d hd => hposB d (by simp [hd]))) ?_ ?_
    · cases tx
      · exact hposX x1 (by simp)
      · exact hposX x2 (by simp)
    · cases tb
      · exact hposB b2 (by simp)
      · exact hposB b1 (by simp)
  · intro x hx
    refine ⟨matmul_spec_none x b tx tb lx lb x1 x2 b1 b2 hx.1 hdb (hx.wf hposX) hwb hc hinner, ?_, ?_⟩
    · exact specMatmul_dims x b tx tb none lx lb x1 x2 b1 b2 hx.1 hdb
    · rw [specMatmul_shaped, specMatmul_dims x b tx tb none lx lb x1 x2 b1 b2 hx.1 hdb]
  · intro x y hx hy
    exact specMatmul_add_left x y b tx tb (hx.1.trans hy.1.symm) (by rw [hx.2, hy.2])

/-- `x ↦ matmul(a, x)` with the delta on the right -/
theorem linEntry_matmul_right (a : Tensor S) (ta tx : Bool) (la lx : List Nat) (a1 a2 x1 x2 : Nat) (kd : List Nat)
    (hda : a.dims = la ++ [a1, a2]) (hwa : a.WF) (hposX : ∀ d ∈ lx ++ [x1, x2], 1 ≤ d) (hc : Compat la lx = true)
    (hinner : (if ta then a1 else a2) = (if tx then x2 else x1)) (hkd : ∀ d ∈ kd, 1 ≤ d)
    (hfit : Fits kd (bdims la lx ++ [if ta then a2 else a1, if tx then x1 else x2]) = true) :
    LinEntry (fun x => matmul a ta x tx none) (lx ++ [x1, x2]) kd := by
  have hposA : ∀ d ∈ la ++ [a1, a2], 1 ≤ d := by rw [← hda]; exact hwa.1
  refine ⟨_, fun x => specMatmul a ta x tx none, ?_, hkd, hfit, ?_, ?_, fun α x _ => specMatmul_smul_right α a x ta tx⟩
  · refine pos_append2 (bdims_pos la lx (fun d hd => hposA d (by simp [hd])) (fun d hd => hposX d (by simp [hd]))) ?_ ?_
    · cases ta
      · exact hposA a1 (by simp)
      · exact hposA a2 (by simp)
    · cases tx
      · exact hposX x2 (by simp)
      · exact hposX x1 (by simp)
  · intro x hx
    refine ⟨matmul_spec_none a x ta tx la lx a1 a2 x1 x2 hda hx.1 hwa (hx.wf hposX) hc hinner, ?_, ?_⟩
    · exact specMatmul_dims a x ta tx none la lx a1 a2 x1 x2 hda hx.1
    · rw [specMatmul_shaped, specMatmul_dims a x ta tx none la lx a1 a2 x1 x2 hda hx.1]
  · intro x y hx hy
    exact specMatmul_add_right a x y ta tx (hx.1.trans hy.1.symm) (by rw [hx.2, hy.2])

end add

/-! ### dimension bookkeeping -/

theorem fitsRev_append_same : ∀ (t a D : List Nat), fitsRev a D = true → fitsRev (t ++ a) (t ++ D) = true
  | [], _, _, h => h
  | x :: t, a, D, h => by
    simp only [List.cons_append, fitsRev, beq_self_eq_true, Bool.or_true, Bool.true_and]
    exact fitsRev_append_same t a D h

theorem Fits_append_tail (a D t : List Nat) (h : Fits a D = true) : Fits (a ++ t) (D ++ t) = true := by
  simp only [Fits, List.reverse_append] at *
  exact fitsRev_append_same _ _ _ h

theorem bdims_absorb_l (a b : List Nat) : bdims (bdims a b) b = bdims a b := by
  rw [bdims_comm (bdims a b) b]; exact bdims_absorb_right a b

theorem bdims_absorb_l' (a b : List Nat) : bdims (bdims a b) a = bdims a b := by
  rw [bdims_comm (bdims a b) a]; exact bdims_absorb_left a b

theorem Compat_bdims_l (a b : List Nat) (ha : ∀ d ∈ a, 1 ≤ d) (hb : ∀ d ∈ b, 1 ≤ d) (h : Compat a b = true) :
    Compat (bdims a b) b = true := by rw [Compat_comm]; exact Compat_bdims_right a b ha hb h

theorem Compat_bdims_l' (a b : List Nat) (ha : ∀ d ∈ a, 1 ≤ d) (hb : ∀ d ∈ b, 1 ≤ d) (h : Compat a b = true) :
    Compat (bdims a b) a = true := by rw [Compat_comm]; exact Compat_bdims_left a b ha hb h

/-- **the closure of a `matmul` node** with operands of rank ≥ 2 -/
theorem vjp_lin_matmul [AddLaws S] [MulLaws S] [CommLaws S] (ta tb : Bool) (a b cc self : Tensor S) (f0 f1 f2 : Bool)
    (la lb : List Nat) (a1 a2 b1 b2 : Nat)
    (hda : a.dims = la ++ [a1, a2]) (hdb : b.dims = lb ++ [b1, b2]) (hwa : a.WF) (hwb : b.WF)
    (hc : Compat la lb = true) (hinner : (if ta then a1 else a2) = (if tb then b2 else b1))
    (hcc : ∀ d ∈ cc.dims, 1 ≤ d)
    (hfc : Fits cc.dims (bdims la lb ++ [if ta then a2 else a1, if tb then b1 else b2]) = true) :
    VjpLinear (vjp (.matmul ta tb) [a, b, cc] self) [f0, f1, f2]
      (bdims la lb ++ [if ta then a2 else a1, if tb then b1 else b2]) [a.dims, b.dims, cc.dims] := by
  have hposA : ∀ d ∈ la ++ [a1, a2], 1 ≤ d := by rw [← hda]; exact hwa.1
  have hposB : ∀ d ∈ lb ++ [b1, b2], 1 ≤ d := by rw [← hdb]; exact hwb.1
  have hposLa : ∀ d ∈ la, 1 ≤ d := fun d hd => hposA d (by simp [hd])
  have hposLb : ∀ d ∈ lb, 1 ≤ d := fun d hd => hposB d (by simp [hd])
  have h_a1 : 1 ≤ a1 := hposA a1 (by simp)
  have h_a2 : 1 ≤ a2 := hposA a2 (by simp)
  have h_b1 : 1 ≤ b1 := hposB b1 (by simp)
  have h_b2 : 1 ≤ b2 := hposB b2 (by simp)
  have hposL := bdims_pos la lb hposLa hposLb
  have hposN : ∀ d ∈ bdims la lb ++ [if ta then a2 else a1, if tb then b1 else b2], 1 ≤ d :=
    pos_append2 hposL (by cases ta <;> simpa) (by cases tb <;> simpa)
  have hfa : Fits (la ++ [a1, a2]) (bdims la lb ++ [a1, a2]) = true :=
    Fits_append_tail _ _ _ (Fits_bdims_left la lb hposLa hc)
  have hfb : Fits (lb ++ [b1, b2]) (bdims la lb ++ [b1, b2]) = true :=
    Fits_append_tail _ _ _ (Fits_bdims_right la lb hposLb hc)
  -- the two products, as entries
  have e0 : f0 = true → LinEntry (fun x => if ta then matmul b tb x true none else matmul x false b (!tb) none)
      (bdims la lb ++ [if ta then a2 else a1, if tb then b1 else b2]) a.dims := by
    intro _
    rw [hda]
    cases ta with
    | false =>
      simp only [Bool.false_eq_true, if_false] at hinner ⊢
      refine linEntry_matmul_left b false (!tb) (bdims la lb) lb a1 _ b1 b2 _ hdb hwb hposN
        (Compat_bdims_l la lb hposLa hposLb hc) ?_ hposA ?_
      · cases tb <;> simp
      · rw [bdims_absorb_l]
        cases tb
        · simp only [Bool.not_false, if_true, Bool.false_eq_true, if_false] at hinner ⊢; rw [← hinner]; exact hfa
        · simp only [Bool.not_true, Bool.false_eq_true, if_false, if_true] at hinner ⊢; rw [← hinner]; exact hfa
    | true =>
      simp only [if_true] at hinner ⊢
      refine linEntry_matmul_right b tb true lb (bdims la lb) b1 b2 a2 _ _ hdb hwb hposN
        (by rw [Compat_comm]; exact Compat_bdims_l la lb hposLa hposLb hc) ?_ hposA ?_
      · cases tb <;> simp
      · rw [bdims_comm lb, bdims_absorb_l]
        simp only [if_true]
        rw [← hinner]; exact hfa
  have e1 : f1 = true → LinEntry (fun x => if tb then matmul x true a ta none else matmul a (!ta) x false none)
      (bdims la lb ++ [if ta then a2 else a1, if tb then b1 else b2]) b.dims := by
    intro _
    rw [hdb]
    cases tb with
    | false =>
      simp only [Bool.false_eq_true, if_false] at hinner ⊢
      refine linEntry_matmul_right a (!ta) false la (bdims la lb) a1 a2 _ b2 _ hda hwa hposN
        (by rw [Compat_comm]; exact Compat_bdims_l' la lb hposLa hposLb hc) ?_ hposB ?_
      · cases ta <;> simp
      · rw [bdims_comm la, bdims_absorb_l']
        cases ta
        · simp only [Bool.not_false, if_true, Bool.false_eq_true, if_false] at hinner ⊢; rw [hinner]; exact hfb
        · simp only [Bool.not_true, Bool.false_eq_true, if_false, if_true] at hinner ⊢; rw [hinner]; exact hfb
    | true =>
      simp only [if_true] at hinner ⊢
      refine linEntry_matmul_left a true ta (bdims la lb) la _ b1 a1 a2 _ hda hwa hposN
        (Compat_bdims_l' la lb hposLa hposLb hc) ?_ hposB ?_
      · cases ta <;> simp
      · rw [bdims_absorb_l']
        simp only [if_true]
        rw [hinner]; exact hfb
  constructor
  · apply vjpLin_of3
    intro x y hx hy
    obtain ⟨o1, o2, o3, a1', a2', a3', ea⟩ := whenT_lin f0 _ _ a.dims e0 x y hx hy
    obtain ⟨p1, p2, p3, b1', b2', b3', eb⟩ := whenT_lin f1 _ _ b.dims e1 x y hx hy
    refine ⟨o1, o2, o3, p1, p2, p3, _, _, _, ?_, ?_, ?_, ea, eb, pass_lin f2 _ _ hposN hcc hfc x y hx hy⟩
    · simp only [vjp, kid, flag, getR, List.getElem?_cons_zero, List.getElem?_cons_succ, pure, Except.pure, bind,
        Except.bind, a1', b1']
    · simp only [vjp, kid, flag, getR, List.getElem?_cons_zero, List.getElem?_cons_succ, pure, Except.pure, bind,
        Except.bind, a2', b2']
    · simp only [vjp, kid, flag, getR, List.getElem?_cons_zero, List.getElem?_cons_succ, pure, Except.pure, bind,
        Except.bind, a3', b3']
  · intro α
    apply vjpHom_of3
    intro x hx
    obtain ⟨o1, o3, a1', a3', ea⟩ := whenT_hom α f0 _ _ a.dims e0 x hx
    obtain ⟨p1, p3, b1', b3', eb⟩ := whenT_hom α f1 _ _ b.dims e1 x hx
    refine ⟨o1, o3, p1, p3, _, _, ?_, ?_, ea, eb, pass_hom α f2 _ _ hposN hcc hfc x hx⟩
    · simp only [vjp, kid, flag, getR, List.getElem?_cons_zero, List.getElem?_cons_succ, pure, Except.pure, bind,
        Except.bind, a1', b1']
    · simp only [vjp, kid, flag, getR, List.getElem?_cons_zero, List.getElem?_cons_succ, pure, Except.pure, bind,
        Except.bind, a3', b3']

end Corgi
