/-
  CorgiProofs.Sliced — what `sliced_op` computes: when input and output share their leading
  dimensions, the result is the concatenation, over the leading multi-indices in row-major order,
  of the blocks the slice operation produces.  Everything element-wise, `sum`, `matmul`,
  `unroll_blocks`, `roll_blocks` goes through this lemma.
-/
import CorgiProofs.Index
import CorgiProofs.Lists
import CorgiSpec.Ops

namespace Corgi

variable {S : Type}

theorem prod_append (a b : List Nat) : prod (a ++ b) = prod a * prod b := by
  induction a with
  | nil => simp [prod]
  | cons d ds ih => simp [prod, ih, Nat.mul_assoc]

theorem unflatten_zero (dims : List Nat) : unflatten dims 0 = List.replicate dims.length 0 := by
  induction dims with
  | nil => rfl
  | cons d ds ih => simp [unflatten, ih, List.replicate_succ]

theorem unflatten_length (dims : List Nat) (n : Nat) : (unflatten dims n).length = dims.length := by
  induction dims generalizing n with
  | nil => rfl
  | cons d ds ih => simp [unflatten, ih]

theorem rowMajor_append : ∀ (lead idx tail js : List Nat), idx.length = lead.length →
    rowMajor (lead ++ tail) (idx ++ js) = rowMajor lead idx * prod tail + rowMajor tail js
  | [], [], tail, js, _ => by simp [rowMajor]
  | [], _ :: _, _, _, h => by simp at h
  | _ :: _, [], _, _, h => by simp at h
  | d :: ds, i :: is, tail, js, h => by
    have ih := rowMajor_append ds is tail js (by simpa using h)
    simp only [List.cons_append, rowMajor, ih, prod_append]
    rw [Nat.add_mul, Nat.mul_assoc, Nat.add_assoc]

theorem rowMajor_zeros (tail : List Nat) : rowMajor tail (List.replicate tail.length 0) = 0 := by
  induction tail with
  | nil => rfl
  | cons d ds ih => simp [rowMajor, List.replicate_succ, ih]

theorem inRange_append : ∀ (lead idx tail js : List Nat), inRange lead idx = true → inRange tail js = true →
    inRange (lead ++ tail) (idx ++ js) = true
  | [], [], _, _, _, h2 => by simpa using h2
  | [], _ :: _, _, _, h1, _ => by simp [inRange] at h1
  | _ :: _, [], _, _, h1, _ => by simp [inRange] at h1
  | d :: ds, i :: is, tail, js, h1, h2 => by
    simp only [inRange, Bool.and_eq_true, decide_eq_true_eq] at h1
    simp only [List.cons_append, inRange, Bool.and_eq_true, decide_eq_true_eq]
    exact ⟨h1.1, inRange_append ds is tail js h1.2 h2⟩

theorem inRange_zeros (tail : List Nat) (h : ∀ d ∈ tail, 1 ≤ d) : inRange tail (List.replicate tail.length 0) = true := by
  induction tail with
  | nil => rfl
  | cons d ds ih =>
    have hd : 1 ≤ d := h d (by simp)
    simp only [List.length_cons, List.replicate_succ, inRange, Bool.and_eq_true, decide_eq_true_eq]
    exact ⟨by omega, ih (fun x hx => h x (by simp [hx]))⟩

/-- the output offset computed by `flatten_indices` for the `n`-th leading multi-index -/
theorem output_offset (lead tail : List Nat) (n extra : Nat) (hlead : lead ≠ [])
    (hposL : ∀ d ∈ lead, 1 ≤ d) (hposT : ∀ d ∈ tail, 1 ≤ d) (hn : n < prod lead) (hextra : tail.length ≤ extra) :
    flattenIndices ((unflatten lead n ++ List.replicate extra 0).take (lead ++ tail).length) (lead ++ tail)
      = .ok (n * prod tail) := by
  have hlen : (unflatten lead n).length = lead.length := unflatten_length lead n
  have htake : (unflatten lead n ++ List.replicate extra 0).take (lead ++ tail).length
      = unflatten lead n ++ List.replicate tail.length 0 := by
    rw [List.length_append, List.take_append]
    simp only [hlen, Nat.add_sub_cancel_left]
    rw [List.take_of_length_le (by omega)]
    simp [List.take_replicate, Nat.min_eq_left hextra]
  rw [htake]
  have hin : inRange (lead ++ tail) (unflatten lead n ++ List.replicate tail.length 0) = true :=
    inRange_append _ _ _ _ (unflatten_inRange hposL hn) (inRange_zeros tail hposT)
  rw [flattenIndices_eq_rowMajor hin (by simp [hlead])]
  rw [rowMajor_append _ _ _ _ hlen, rowMajor_unflatten hn, rowMajor_zeros]
  simp

section
variable [ScalarOps S]

/-- **`sliced_op`, loop branch.**  If the output dimensions are the shared leading dimensions
    followed by a tail, every dimension is ≥ 1, and at the `n`-th leading multi-index the operand
    slices exist and the slice operation returns a block `blk n` of the tail's size, then the result
    is the concatenation of the blocks under the (possibly flattened) output dimensions. -/
theorem slicedOp_loop (arrays : List (Tensor S)) (op : List (List S) → R (List S))
    (inDims tail : List Nat) (k flat : Nat) (blk : Nat → List S)
    (hvalid : arrays.all (fun v =>
      ((v.dims.reverse.drop k).zip (inDims.reverse.drop k)).all (fun p => p.1 == 1 || p.1 == p.2)) = true)
    (hlc : 0 < inDims.length - k)
    (hposL : ∀ d ∈ inDims.take (inDims.length - k), 1 ≤ d) (hposT : ∀ d ∈ tail, 1 ≤ d)
    (hblk : ∀ n, n < prod (inDims.take (inDims.length - k)) →
      ∃ sl, slicesAt arrays k (inDims.length - k) (unflatten (inDims.take (inDims.length - k)) n) = .ok sl ∧
        op sl = .ok (blk n) ∧ (blk n).length = prod tail) :
    slicedOp arrays op inDims (inDims.take (inDims.length - k) ++ tail) k flat
      = (flattenTrailing (inDims.take (inDims.length - k) ++ tail) flat).bind (fun d' =>
          Tensor.mk? d' ((List.range (prod (inDims.take (inDims.length - k)))).map blk).flatten) := by
  generalize hlead : inDims.take (inDims.length - k) = lead at *
  have hleadlen : lead.length = inDims.length - k := by
    rw [← hlead, List.length_take]; omega
  have hleadne : lead ≠ [] := by
    intro e; rw [e] at hleadlen; simp at hleadlen; omega
  have hpl : 1 ≤ prod lead := prod_pos hposL
  unfold slicedOp
  simp only [hvalid, Bool.not_true, Bool.false_eq_true, if_false, bind, Except.bind, pure, Except.pure]
  have hne0 : ¬ (inDims.length - k = 0) := by omega
  simp only [hne0, if_false, hlead]
  cases hft : flattenTrailing (lead ++ tail) flat with
  | error e => rfl
  | ok d' =>
    simp only []
    have hdrop : (lead ++ tail).drop (inDims.length - k) = tail := by
      rw [← hleadlen]; simp
    -- the slices of the first iteration
    obtain ⟨sl0, hsl0, _, _⟩ := hblk 0 (by omega)
    rw [unflatten_zero, hleadlen] at hsl0
    simp only [hsl0]
    -- the loop body at iteration n
    have hbody : ∀ n, n < prod lead → slicedBody arrays op inDims (lead ++ tail) k n = .ok (blk n) := by
      intro n hn
      obtain ⟨sl, hsl, hop, hlenb⟩ := hblk n hn
      have hoff := output_offset lead tail n (max inDims.length (lead ++ tail).length - (inDims.length - k)) hleadne hposL hposT hn
        (by simp only [List.length_append, hleadlen]; omega)
      have h1 : ¬ (n * prod tail + prod tail > prod lead * prod tail) := by
        have : (n + 1) * prod tail ≤ prod lead * prod tail := Nat.mul_le_mul_right _ hn
        rw [Nat.add_mul, Nat.one_mul] at this
        omega
      simp only [slicedBody, hlead, hsl, hoff, hdrop, hop, hlenb, bind, Except.bind, pure, Except.pure, prod_append]
      simp [h1]
    rw [tabulateM_ok _ blk (prod lead) hbody]
    simp only [hdrop, prod_append]
    simp

end
end Corgi

namespace Corgi
variable {S : Type} [ScalarOps S]

/-- **`sliced_op`, single-block branch** (no leading dimension): the slice operation is applied once
    to the operands' leading blocks. -/
theorem slicedOp_single (arrays : List (Tensor S)) (op : List (List S) → R (List S))
    (inDims outDims : List Nat) (k flat : Nat) (sl : List (List S)) (block : List S)
    (hvalid : arrays.all (fun v =>
      ((v.dims.reverse.drop k).zip (inDims.reverse.drop k)).all (fun p => p.1 == 1 || p.1 == p.2)) = true)
    (hz : inDims.length - k = 0) (hsl : slicesAt arrays k 0 [] = .ok sl) (hop : op sl = .ok block)
    (hlen : block.length = prod outDims) :
    slicedOp arrays op inDims outDims k flat
      = (flattenTrailing outDims flat).bind (fun d' => Tensor.mk? d' block) := by
  unfold slicedOp
  simp only [hvalid, Bool.not_true, Bool.false_eq_true, if_false, bind, Except.bind, pure, Except.pure, hz,
    if_true, List.drop_zero]
  cases flattenTrailing outDims flat with
  | error e => rfl
  | ok d' =>
    simp only [hsl, hop, hlen, Nat.lt_irrefl, if_false, Nat.sub_self, List.replicate_zero, List.append_nil]
    simp

end Corgi
