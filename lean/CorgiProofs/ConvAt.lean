/-
  CorgiProofs.ConvAt — the `convat` command answers with exactly the element that indexing the model's
  `conv` result returns (corollary of `conv_spec`, C06): so a run that compares the implementation's
  `conv(...)[idx]` with `convElem` compares it with the model's `conv`, at image sizes where building the
  model's whole result is out of reach.
-/
import CorgiProofs.Conv
import CorgiProofs.ShapeCheckSound
import CorgiSpec.ConvAt

set_option linter.unusedSectionVars false
set_option linter.unusedVariables false

namespace Corgi
variable {S : Type} [Add S] [Mul S] [Neg S] [Sub S] [ScalarOps S] [BEq S]

theorem ofFn_index (D : List Nat) (f : List Nat → S) (i : List Nat) (hne : D ≠ []) (hi : inRange D i = true) :
    (Tensor.ofFn D f).index i = .ok (f i) := by
  have hlt := rowMajor_lt_prod' hi hne
  simp only [Tensor.index, Tensor.ofFn, flattenIndices_eq_rowMajor hi hne, bind, Except.bind]
  apply getR_ok
  simp [List.getElem?_map, List.getElem?_range hlt, unflatten_rowMajor hi]

/-- **`convat` = indexing `conv`** for every valid configuration and every in-range output index -/
theorem convat_spec [AddLaws S] (img flt : Tensor S) (sr sc : Nat) (i : List Nat)
    (hv : convValidB img flt sr sc = true) (hi : inRange (convOutDims img flt sr sc) i = true) :
    ∃ t, conv img flt sr sc = .ok t ∧ t.index i = .ok (convElem img flt sr sc i) := by
  unfold convValidB at hv
  split at hv
  · rename_i B D R C K D' fr fc hs hf
    simp only [Bool.and_eq_true, beq_iff_eq, decide_eq_true_eq] at hv
    obtain ⟨⟨⟨⟨⟨⟨h1, h2⟩, h3⟩, h4⟩, h5⟩, h6⟩, h7⟩ := hv
    subst h3
    have hdi := split3_sound hs
    have ei := tensor_eta img _ hdi
    have ef := tensor_eta flt _ hf
    have hwi : (⟨B ++ [D', R, C], img.vals⟩ : Tensor S).WF := by rw [← ei]; exact wfB_sound h1
    have hwf : (⟨[K, D', fr, fc], flt.vals⟩ : Tensor S).WF := by rw [← ef]; exact wfB_sound h2
    have hc := conv_spec B D' R C K fr fc sr sc img.vals flt.vals hwi hwf h4 h5 h6 h7
    rw [← ei, ← ef] at hc
    refine ⟨_, hc, ?_⟩
    have hne : convOutDims img flt sr sc ≠ [] := by simp [convOutDims]
    exact ofFn_index (convOutDims img flt sr sc) _ i hne hi
  · cases hv

end Corgi

namespace Corgi
variable {S : Type} [Add S] [Mul S] [Neg S] [Sub S] [ScalarOps S] [BEq S]

/-- **`matmulat` = indexing `matmul`** (operands of rank ≥ 2, no additive term or a bias row) -/
theorem matmulat_spec (a b : Tensor S) (ta tb : Bool) (c : Option (Tensor S)) (i : List Nat)
    (hv : matmulValidB a ta b tb c = true) (hi : inRange (matmulOutDims a ta b tb) i = true) :
    ∃ t, matmul a ta b tb c = .ok t ∧ t.index i = .ok (matmulElem a ta b tb c i) := by
  unfold matmulValidB at hv
  split at hv
  · rename_i la a1 a2 lb b1 b2 ha hb
    simp only [Bool.and_eq_true, beq_iff_eq] at hv
    obtain ⟨⟨⟨⟨h1, h2⟩, h3⟩, h4⟩, h5⟩ := hv
    have hda := split2_sound ha
    have hdb := split2_sound hb
    have hne : matmulOutDims a ta b tb ≠ [] := by simp [matmulOutDims]
    cases c with
    | none =>
      refine ⟨_, matmul_spec_none a b ta tb la lb a1 a2 b1 b2 hda hdb (wfB_sound h1) (wfB_sound h2) h3 h4, ?_⟩
      exact ofFn_index (matmulOutDims a ta b tb) _ i hne hi
    | some c =>
      simp only [Bool.and_eq_true, beq_iff_eq] at h5
      refine ⟨_, matmul_spec_bias a b c ta tb la lb a1 a2 b1 b2 hda hdb (wfB_sound h1) (wfB_sound h2) h3 h4 h5.1
        (wfB_sound h5.2), ?_⟩
      exact ofFn_index (matmulOutDims a ta b tb) _ i hne hi
  · cases hv

end Corgi
