/-
  CorgiProofs.EngineFrame — what a pass does *not* touch: gradient cells of nodes that were never
  entered keep their value (no invariant needed: pure frame reasoning on `process` / `deliver`).
-/
import CorgiProofs.EngineProcess

set_option linter.unusedSectionVars false

namespace Corgi
variable {S : Type} [Add S] [Mul S] [Neg S] [Sub S] [ScalarOps S] [BEq S]

/-- log only grows; gradient cells of nodes outside the final log are unchanged -/
def Frame (σ σ' : EState S) : Prop :=
  (∀ x ∈ logN σ, x ∈ logN σ') ∧ (∀ m, m ∉ logN σ' → σ'.grad m = σ.grad m)

theorem Frame.refl (σ : EState S) : Frame σ σ := ⟨fun _ h => h, fun _ _ => rfl⟩

theorem Frame.trans {a b c : EState S} (h1 : Frame a b) (h2 : Frame b c) : Frame a c :=
  ⟨fun x hx => h2.1 x (h1.1 x hx), fun m hm => by
    rw [h2.2 m hm]; exact h1.2 m (fun hin => hm (h2.1 m hin))⟩

theorem deliver_frame (rec : Nat → Bool → EState S → R (EState S))
    (hrec : ∀ n keep σ σ', rec n keep σ = .ok σ' → Frame σ σ') :
    ∀ (ks : List Slot) (ds : List (Option (Tensor S))) (σ σ' : EState S),
      deliver rec ks ds σ = .ok σ' → Frame σ σ' := by
  intro ks ds
  induction ds generalizing ks with
  | nil => intro σ σ' h; rw [deliver_nil] at h; cases h; exact Frame.refl _
  | cons d ds ih =>
    intro σ σ' h
    cases ks with
    | nil =>
      cases d with
      | none => simp only [deliver] at h; exact ih [] σ σ' h
      | some d => simp [deliver, throw, throwThe, MonadExceptOf.throw] at h
    | cons s ss =>
      cases d with
      | none => rw [deliver_none] at h; exact ih ss σ σ' h
      | some d =>
        obtain ⟨nd, σ3, _, hrec', hrest⟩ := deliver_some_inv h
        have h3 : Frame σ σ3 := by
          by_cases h1 : σ.cnt s.node = 1
          · rw [if_pos h1] at hrec'
            have := hrec _ _ _ _ hrec'
            exact ⟨this.1, this.2⟩
          · rw [if_neg h1] at hrec'
            simp only [pure, Except.pure] at hrec'
            cases hrec'
            exact ⟨fun _ h => h, fun _ _ => rfl⟩
        exact h3.trans (ih ss σ3 σ' hrest)

theorem process_frame (G : Graph S) : ∀ (f n : Nat) (keep : Bool) (σ σ' : EState S),
    process G f n keep σ = .ok σ' → Frame σ σ' ∧ n ∈ logN σ' := by
  intro f
  induction f with
  | zero => intro n keep σ σ' h; simp [process, throw, throwThe, MonadExceptOf.throw] at h
  | succ f ih =>
    intro n keep σ σ' hok
    simp only [process] at hok
    cases hdel : σ.delta n with
    | none => simp [hdel, throw, throwThe, MonadExceptOf.throw] at hok
    | some x =>
      simp only [hdel, bind, Except.bind] at hok
      cases hm : enter G (process G f) n x { σ with delta := upd σ.delta n none, log := (n, x) :: σ.log } with
      | error e => simp [hm] at hok
      | ok σ1 =>
        simp only [hm] at hok
        -- entering: the log gets `n`, gradients untouched
        have h0 : Frame σ { σ with delta := upd σ.delta n none, log := (n, x) :: σ.log } :=
          ⟨fun y hy => by simp [logN] at hy ⊢; exact Or.inr hy, fun _ _ => rfl⟩
        have h1 : Frame { σ with delta := upd σ.delta n none, log := (n, x) :: σ.log } σ1 := by
          unfold enter at hm
          cases hv : G.vjp n with
          | some cl =>
            simp only [hv, bind, Except.bind] at hm
            cases hcl : cl ((G.kids n).map (·.tracked)) x with
            | error e => simp [hcl] at hm
            | ok ds =>
              simp only [hcl] at hm
              exact deliver_frame (process G f) (fun n keep σ σ' h => (ih n keep σ σ' h).1) _ _ _ _ hm
          | none =>
            simp only [hv] at hm
            split at hm
            · simp only [pure, Except.pure] at hm; cases hm; exact Frame.refl _
            · simp [throw, throwThe, MonadExceptOf.throw] at hm
        have hn1 : n ∈ logN σ1 := h1.1 n (by simp [logN])
        -- storing: only the cell of `n`, which is in the log
        have h2 : Frame σ1 σ' ∧ logN σ' = logN σ1 := by
          split at hok
          · simp only [storeGrad, bind, Except.bind] at hok
            cases hg : mergeDelta (σ1.grad n) x with
            | error e => simp [hg] at hok
            | ok g =>
              simp only [hg, pure, Except.pure] at hok
              cases hok
              refine ⟨⟨fun _ h => h, fun m hm' => ?_⟩, rfl⟩
              have : m ≠ n := fun e => hm' (e ▸ hn1)
              simp [upd, this]
          · simp only [pure, Except.pure] at hok; cases hok; exact ⟨Frame.refl _, rfl⟩
        exact ⟨(h0.trans h1).trans h2.1, by rw [h2.2]; exact hn1⟩

/-- a whole pass: gradients of nodes that were not entered are unchanged -/
theorem backward_frame (G : Graph S) (fuel root : Nat) (dims : List Nat) (keep : Bool)
    (seed : Option (Tensor S)) (σ σ' : EState S) (hok : backward G fuel root dims keep seed σ = .ok σ') :
    ∀ m, m ∉ logN σ' → σ'.grad m = σ.grad m := by
  unfold backward at hok
  cases hd : σ.delta root with
  | some x =>
    simp only [hd] at hok
    exact (process_frame G fuel root keep σ σ' hok).1.2
  | none =>
    simp only [hd, bind, Except.bind] at hok
    cases hx : seedOrOnes seed dims with
    | error e => simp [hx] at hok
    | ok x =>
      simp only [hx] at hok
      exact (process_frame G fuel root keep _ σ' hok).1.2

end Corgi
