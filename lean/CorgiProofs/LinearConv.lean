/-
  CorgiProofs.LinearConv — the closures of the two convolution stages.  `expand_conv`'s closure permutes
  the delta back (the inverse transposition); `unroll_blocks`' closure (`roll_blocks`, accumulating)
  adds every element of the unrolled delta onto the image position it was copied from — overlapping
  windows accumulate.  Both are total on deltas of the node's shape, shape-correct and additive.
-/
import CorgiProofs.LinearTags
import CorgiProofs.Conv

set_option linter.unusedSectionVars false
set_option linter.unusedVariables false

namespace Corgi
variable {S : Type} [Add S] [Mul S] [Neg S] [Sub S] [ScalarOps S] [BEq S]

/-! ### a per-block map through `sliced_op` -/

/-- `sliced_op` over one array whose trailing `inTail` dimensions form the block: the operation is applied
    to every block in turn -/
theorem slicedOp_blocks (x : Tensor S) (B inTail outTail : List Nat) (op : List (List S) → R (List S))
    (F : List S → List S) (hx : Shaped (B ++ inTail) x) (hposB : ∀ d ∈ B, 1 ≤ d) (hposO : ∀ d ∈ outTail, 1 ≤ d)
    (hop : ∀ blk : List S, blk.length = prod inTail → op [blk] = .ok (F blk) ∧ (F blk).length = prod outTail) :
    slicedOp [x] op x.dims (B ++ outTail) inTail.length 0
      = .ok ⟨B ++ outTail, ((List.range (prod B)).map (fun n =>
          F ((x.vals.drop (n * prod inTail)).take (prod inTail)))).flatten⟩ := by
  obtain ⟨hxd, hxl⟩ := hx
  have hlenk : x.dims.length - inTail.length = B.length := by rw [hxd]; simp
  have htake : x.dims.take (x.dims.length - inTail.length) = B := by rw [hlenk, hxd]; simp
  have hg : prod (x.dims.reverse.take inTail.length) = prod inTail := by
    rw [hxd, List.reverse_append, List.take_append_of_le_length (by simp)]
    rw [show inTail.reverse.take inTail.length = inTail.reverse from by
      rw [List.take_of_length_le (by simp)]]
    exact prod_reverse _
  have hvalid : [x].all (fun v =>
      ((v.dims.reverse.drop inTail.length).zip (x.dims.reverse.drop inTail.length)).all (fun p => p.1 == 1 || p.1 == p.2)) = true := by
    simp only [List.all_cons, List.all_nil, Bool.and_true, List.all_eq_true]
    intro p hp
    simp [mem_zip_self hp]
  have hxl' : x.vals.length = prod B * prod inTail := by rw [hxl, prod_append]
  let blkf : Nat → List S := fun n => F ((x.vals.drop (n * prod inTail)).take (prod inTail))
  have hblock : ∀ n, n < prod B →
      ∃ sl, slicesAt [x] inTail.length B.length (unflatten B n) = .ok sl ∧ op sl = .ok (blkf n) ∧
        (blkf n).length = prod outTail := by
    intro n hn
    have hoff : projOffset B (unflatten B n) = n := by
      rw [projOffset_full _ _ (unflatten_inRange hposB hn), rowMajor_unflatten hn]
    have hb : n * prod inTail + prod inTail ≤ x.vals.length := by
      rw [hxl']
      have : (n + 1) * prod inTail ≤ prod B * prod inTail := Nat.mul_le_mul_right _ hn
      rw [Nat.add_mul, Nat.one_mul] at this; exact this
    have hbl : ((x.vals.drop (n * prod inTail)).take (prod inTail)).length = prod inTail := by
      simp only [List.length_take, List.length_drop]; omega
    refine ⟨[(x.vals.drop (n * prod inTail)).take (prod inTail)], ?_, (hop _ hbl).1, (hop _ hbl).2⟩
    simp only [slicesAt, mapR, bind, Except.bind, pure, Except.pure, hlenk, Nat.min_self, hg]
    have : x.dims.take B.length = B := by rw [← hlenk]; exact htake
    rw [this, hoff, slice_ok _ _ _ hb]
  have hposAll : ∀ d ∈ B ++ outTail, 1 ≤ d := by
    intro d hd; rcases List.mem_append.mp hd with h | h
    · exact hposB d h
    · exact hposO d h
  by_cases hL : B = []
  · subst hL
    obtain ⟨sl, hsl, hopn, hlen⟩ := hblock 0 (by simp [prod])
    have := slicedOp_single [x] op x.dims ([] ++ outTail) inTail.length 0 sl (blkf 0) hvalid
      (by rw [hlenk]; rfl) (by simpa [unflatten] using hsl) hopn (by simpa using hlen)
    rw [this]
    simp only [flattenTrailing, if_true, Except.bind, pure, Except.pure, List.nil_append]
    rw [mkq_ok _ _ hposO (by simpa using hlen.symm)]
    simp [prod, blkf]
  · have hmain := slicedOp_loop [x] op x.dims outTail inTail.length 0 blkf hvalid
      (by rw [hlenk]; exact List.length_pos_iff.mpr hL) (by rw [htake]; exact hposB) hposO
      (by
        intro n hn
        rw [htake] at hn
        rw [htake, hlenk]
        exact hblock n hn)
    rw [htake] at hmain
    rw [hmain]
    simp only [flattenTrailing, if_true, Except.bind, pure, Except.pure]
    refine mkq_ok _ _ hposAll ?_
    rw [prod_append]
    have : ∀ P : Nat, (∀ n, n < P → (blkf n).length = prod outTail) →
        (((List.range P).map blkf).flatten).length = P * prod outTail := by
      intro P
      induction P with
      | zero => intro _; simp
      | succ P ih =>
        intro h
        rw [List.range_succ, List.map_append, List.flatten_append, List.length_append, ih (fun n hn => h n (by omega))]
        simp [h P (by omega), Nat.add_mul]
    rw [this (prod B) (fun n hn => (hblock n hn).choose_spec.2.2)]

/-- block-wise additivity lifts to the whole buffer -/
theorem blocks_add [AddLaws S] (F : List S → List S) (G : Nat)
    (hF : ∀ u v : List S, u.length = G → v.length = G → F (List.zipWith (· + ·) u v) = List.zipWith (· + ·) (F u) (F v))
    (hFl : ∀ u v : List S, u.length = G → v.length = G → (F u).length = (F v).length)
    (xv yv : List S) (P : Nat) (hx : xv.length = P * G) (hy : yv.length = P * G) :
    ((List.range P).map (fun n => F (((List.zipWith (· + ·) xv yv).drop (n * G)).take G))).flatten
      = List.zipWith (· + ·) ((List.range P).map (fun n => F ((xv.drop (n * G)).take G))).flatten
          ((List.range P).map (fun n => F ((yv.drop (n * G)).take G))).flatten := by
  have key : ∀ Q, Q ≤ P →
      ((List.range Q).map (fun n => F (((List.zipWith (· + ·) xv yv).drop (n * G)).take G))).flatten
        = List.zipWith (· + ·) ((List.range Q).map (fun n => F ((xv.drop (n * G)).take G))).flatten
            ((List.range Q).map (fun n => F ((yv.drop (n * G)).take G))).flatten ∧
      (((List.range Q).map (fun n => F ((xv.drop (n * G)).take G))).flatten).length
        = (((List.range Q).map (fun n => F ((yv.drop (n * G)).take G))).flatten).length := by
    intro Q
    induction Q with
    | zero => intro _; simp
    | succ Q ih =>
      intro hQ
      obtain ⟨e, l⟩ := ih (by omega)
      have hb : Q * G + G ≤ P * G := by
        have : (Q + 1) * G ≤ P * G := Nat.mul_le_mul_right _ hQ
        rw [Nat.add_mul, Nat.one_mul] at this; exact this
      have lx : ((xv.drop (Q * G)).take G).length = G := by simp only [List.length_take, List.length_drop]; omega
      have ly : ((yv.drop (Q * G)).take G).length = G := by simp only [List.length_take, List.length_drop]; omega
      simp only [List.range_succ, List.map_append, List.flatten_append, List.map_cons, List.map_nil, List.flatten_cons,
        List.flatten_nil, List.append_nil]
      refine ⟨?_, ?_⟩
      · rw [List.zipWith_append l, e]
        congr 1
        rw [List.drop_zipWith, List.take_zipWith]
        exact hF _ _ lx ly
      · simp only [List.length_append, l, hFl _ _ lx ly]
  exact (key P (Nat.le_refl _)).1

/-! ### `expand_conv` backward -/

theorem vjp_lin_expand [AddLaws S] [MulLaws S] [CommLaws S] (a self : Tensor S) (f0 : Bool) (B : List Nat) (w f rC cC : Nat)
    (hda : a.dims = B ++ [w, f]) (hwa : a.WF) (hrc : rC * cC = w) (hr : 1 ≤ rC) (hcc : 1 ≤ cC) :
    VjpLinear (vjp .expand [a] self) [f0] (B ++ [f, rC, cC]) [a.dims] := by
  have hposA : ∀ d ∈ B ++ [w, f], 1 ≤ d := by rw [← hda]; exact hwa.1
  have hw : 1 ≤ w := hposA w (by simp)
  have hf : 1 ≤ f := hposA f (by simp)
  have hL : 0 < w * f := Nat.mul_pos hw hf
  have hpa : prod a.dims = prod B * (w * f) := by rw [hda, prod_append, prod2]
  have hpn : prod (B ++ [f, rC, cC]) = prod B * (w * f) := by
    rw [prod_append, prod3, ← hrc]; congr 1
    simp only [Nat.mul_comm, Nat.mul_left_comm]
  refine vjpLin_unary (fun x => expandConvBack x a.dims) (fun x => rfl) ?_
  refine ⟨a.dims, fun x => ⟨a.dims, (List.range (prod a.dims)).map (fun o =>
      x.vals.getD (o / (w * f) * (w * f) + (o % (w * f) % f) * w + o % (w * f) / f) zero)⟩,
    hwa.1, hwa.1, Fits_self _, ?_, ?_, ?_⟩
  · intro x hx
    refine ⟨?_, rfl, by simp⟩
    unfold expandConvBack
    have d1 : dimFromEnd a.dims 1 = .ok f := by rw [hda]; exact dimFromEnd_snoc2_1 _ _ _
    have d2 : dimFromEnd a.dims 2 = .ok w := by rw [hda]; exact dimFromEnd_snoc2_2 _ _ _
    simp only [d1, d2, bind, Except.bind, pure, Except.pure]
    rw [tabulateM_ok _ (fun o => x.vals.getD (o / (w * f) * (w * f) + (o % (w * f) % f) * w + o % (w * f) / f) zero)]
    · simp only []
      exact mk?_ok'' _ _ hwa.1 (by simp)
    · intro o ho
      rw [hpa] at ho
      have h1 : o / (w * f) < prod B := (Nat.div_lt_iff_lt_mul hL).mpr ho
      have h2 : o % (w * f) < w * f := Nat.mod_lt _ hL
      have h3 : o % (w * f) % f < f := Nat.mod_lt _ hf
      have h4 : o % (w * f) / f < w := (Nat.div_lt_iff_lt_mul hf).mpr h2
      have h5 : (o % (w * f) % f) * w + o % (w * f) / f < f * w := idx2_lt _ _ _ _ h3 h4
      have h5' : (o % (w * f) % f) * w + o % (w * f) / f < w * f := by
        have := Nat.mul_comm w f; omega
      have h6 : o / (w * f) * (w * f) + ((o % (w * f) % f) * w + o % (w * f) / f) < prod B * (w * f) :=
        idx2_lt _ _ _ _ h1 h5'
      have hlt : o / (w * f) * (w * f) + (o % (w * f) % f) * w + o % (w * f) / f < x.vals.length := by
        rw [hx.2, hpn]; omega
      apply getR_ok
      rw [List.getD_eq_getElem?_getD, List.getElem?_eq_getElem hlt]; rfl
  · intro x y hx hy
    simp only [tadd]
    congr 1
    rw [zipWith_map_range]
    apply List.map_congr_left
    intro o _
    exact coord_zipWith_add _ x.vals y.vals (by rw [hx.2, hy.2])
  · intro α x _
    simp only [tsmul, List.map_map]
    congr 1
    apply List.map_congr_left
    intro o _
    exact tsmul_getD α x _
where
  mk?_ok'' (d : List Nat) (v : List S) (hpos : ∀ x ∈ d, 1 ≤ x) (hlen : prod d = v.length) :
      Tensor.mk? d v = .ok ⟨d, v⟩ := by
    have h1 : d.all (fun x => decide (1 ≤ x)) = true := by simpa using hpos
    simp [Tensor.mk?, h1, hlen, pure, Except.pure]

/-! ### `unroll_blocks` backward: accumulate every copy back onto its source -/

/-- the accumulation loop of `roll_blocks`, as a pure function -/
def rollPure (idx : Nat → Nat) : List S → Nat → List S → List S
  | [], _, out => out
  | x :: xs, q, out => rollPure idx xs (q + 1) (out.set (idx q) (out.getD (idx q) zero + x))

theorem rollPure_length (idx : Nat → Nat) : ∀ (xs : List S) (q : Nat) (out : List S),
    (rollPure idx xs q out).length = out.length
  | [], _, _ => rfl
  | x :: xs, q, out => by simp [rollPure, rollPure_length idx xs]

theorem rollLoop_ok (idx : Nat → Nat) : ∀ (xs : List S) (q : Nat) (out : List S),
    (∀ i, i < xs.length → idx (q + i) < out.length) →
    rollLoop true idx xs q out = .ok (rollPure idx xs q out)
  | [], _, _, _ => rfl
  | x :: xs, q, out, h => by
    have h0 : idx q < out.length := by simpa using h 0 (by simp)
    simp only [rollLoop, putAt, List.getElem?_eq_getElem h0, if_true, bind, Except.bind, pure, Except.pure, rollPure]
    have e : out.getD (idx q) zero = out[idx q] := by
      rw [List.getD_eq_getElem?_getD, List.getElem?_eq_getElem h0]; rfl
    rw [e]
    apply rollLoop_ok idx xs (q + 1)
    intro i hi
    have := h (i + 1) (by simp; omega)
    simp only [List.length_set]
    rw [show q + 1 + i = q + (i + 1) from by omega]; exact this

theorem rollPure_add [AddLaws S] (idx : Nat → Nat) : ∀ (u v : List S) (q : Nat) (o1 o2 : List S),
    u.length = v.length → o1.length = o2.length →
    rollPure idx (List.zipWith (· + ·) u v) q (List.zipWith (· + ·) o1 o2)
      = List.zipWith (· + ·) (rollPure idx u q o1) (rollPure idx v q o2)
  | [], [], _, _, _, _, _ => rfl
  | [], _ :: _, _, _, _, h, _ => by simp at h
  | _ :: _, [], _, _, _, h, _ => by simp at h
  | a :: u, b :: v, q, o1, o2, h, ho => by
    simp only [List.zipWith_cons_cons, rollPure]
    have hstep : (List.zipWith (· + ·) o1 o2).set (idx q) ((List.zipWith (· + ·) o1 o2).getD (idx q) zero + (a + b))
        = List.zipWith (· + ·) (o1.set (idx q) (o1.getD (idx q) zero + a)) (o2.set (idx q) (o2.getD (idx q) zero + b)) := by
      have hc : (List.zipWith (· + ·) o1 o2).getD (idx q) zero = o1.getD (idx q) zero + o2.getD (idx q) zero :=
        coord_zipWith_add (idx q) o1 o2 ho
      rw [hc, add4]
      apply List.ext_getElem?
      intro m
      simp only [List.getElem?_set, List.getElem?_zipWith, List.length_zipWith]
      by_cases hm : idx q = m
      · subst hm
        by_cases hlt : idx q < o1.length
        · have hlt2 : idx q < o2.length := by omega
          simp [hlt, hlt2, List.getElem?_eq_getElem hlt, List.getElem?_eq_getElem hlt2]
        · have h1 : o1[idx q]? = none := by simp; omega
          have h2 : o2[idx q]? = none := by simp; omega
          have : ¬ idx q < min o1.length o2.length := by omega
          simp [this, h1, h2, hlt]
      · simp [hm]
    rw [hstep]
    exact rollPure_add idx u v (q + 1) _ _ (by simpa using h) (by simp [ho])

theorem rollPure_smul [AddLaws S] [MulLaws S] [CommLaws S] (α : S) (idx : Nat → Nat) : ∀ (u : List S) (q : Nat) (o : List S),
    rollPure idx (u.map (α * ·)) q (o.map (α * ·)) = (rollPure idx u q o).map (α * ·)
  | [], _, _ => rfl
  | a :: u, q, o => by
    simp only [List.map_cons, rollPure]
    have hstep : (o.map (α * ·)).set (idx q) ((o.map (α * ·)).getD (idx q) zero + α * a)
        = (o.set (idx q) (o.getD (idx q) zero + a)).map (α * ·) := by
      have hc : (o.map (α * ·)).getD (idx q) zero = α * o.getD (idx q) zero :=
        coord_smul α (CommLaws.mul_zero α) (idx q) o
      rw [hc, ← MulLaws.left_distrib, List.map_set]
    rw [hstep]
    exact rollPure_smul α idx u (q + 1) _

/-- block-wise homogeneity lifts to the whole buffer -/
theorem blocks_smul (α : S) (F : List S → List S) (G : Nat)
    (hF : ∀ u : List S, F (u.map (α * ·)) = (F u).map (α * ·)) (xv : List S) (P : Nat) :
    ((List.range P).map (fun n => F (((xv.map (α * ·)).drop (n * G)).take G))).flatten
      = (((List.range P).map (fun n => F ((xv.drop (n * G)).take G))).flatten).map (α * ·) := by
  rw [List.map_flatten, List.map_map]
  congr 1
  apply List.map_congr_left
  intro n _
  simp only [Function.comp]
  rw [← List.map_drop, ← List.map_take, hF]

/-- every target position of `roll_blocks` lies inside the image -/
theorem rollIdx_lt (D R C sr sc fr fc q : Nat) (hfr : fr ≤ R) (hfc : fc ≤ C) (hfr1 : 1 ≤ fr) (hfc1 : 1 ≤ fc) (hD : 1 ≤ D)
    (hq : q < (((R - fr) / sr + 1) * ((C - fc) / sc + 1)) * (fr * fc) * D) :
    rollIdx D R C sr sc fr fc ((C - fc) / sc + 1) q < D * R * C := by
  unfold rollIdx
  have hsz : 0 < fr * fc := Nat.mul_pos hfr1 hfc1
  have hsd : 0 < fr * fc * D := Nat.mul_pos hsz hD
  have hoC : 0 < (C - fc) / sc + 1 := Nat.succ_pos _
  have hi : q / (fr * fc * D) < ((R - fr) / sr + 1) * ((C - fc) / sc + 1) := by
    apply (Nat.div_lt_iff_lt_mul hsd).mpr
    rw [← Nat.mul_assoc]; exact hq
  have hj : q % (fr * fc * D) < fr * fc * D := Nat.mod_lt _ hsd
  have hd : q % (fr * fc * D) / (fr * fc) < D := by
    apply (Nat.div_lt_iff_lt_mul hsz).mpr
    rw [Nat.mul_comm D]; exact hj
  have hfi : q % (fr * fc * D) % (fr * fc) < fr * fc := Nat.mod_lt _ hsz
  have hn : q % (fr * fc * D) % (fr * fc) % fc < fc := Nat.mod_lt _ (by omega)
  have hm : q % (fr * fc * D) % (fr * fc) / fc < fr := (Nat.div_lt_iff_lt_mul (by omega)).mpr hfi
  have hr : q / (fr * fc * D) / ((C - fc) / sc + 1) < (R - fr) / sr + 1 := (Nat.div_lt_iff_lt_mul hoC).mpr hi
  have hc : q / (fr * fc * D) % ((C - fc) / sc + 1) < (C - fc) / sc + 1 := Nat.mod_lt _ hoC
  have hcol := window_fits _ fc sc _ C hn hfc hc
  have hrow := window_fits _ fr sr _ R hm hfr hr
  have := idx3_lt _ C _ R _ D hcol hrow hd
  have e : q % (fr * fc * D) % (fr * fc) % fc + C * (q % (fr * fc * D) % (fr * fc) / fc)
        + R * C * (q % (fr * fc * D) / (fr * fc))
        + (C * sr * (q / (fr * fc * D) / ((C - fc) / sc + 1)) + sc * (q / (fr * fc * D) % ((C - fc) / sc + 1)))
      = q % (fr * fc * D) % (fr * fc) % fc + sc * (q / (fr * fc * D) % ((C - fc) / sc + 1))
        + C * (q % (fr * fc * D) % (fr * fc) / fc + sr * (q / (fr * fc * D) / ((C - fc) / sc + 1))
          + R * (q % (fr * fc * D) / (fr * fc))) := by ring
  rw [e]; exact this

theorem vjp_lin_unroll [AddLaws S] [MulLaws S] [CommLaws S] (a self : Tensor S) (f0 : Bool) (B : List Nat)
    (D R C sr sc fr fc : Nat) (hda : a.dims = B ++ [D, R, C]) (hwa : a.WF)
    (hfr : fr ≤ R) (hfc : fc ≤ C) (hfr1 : 1 ≤ fr) (hfc1 : 1 ≤ fc) (hsr : 1 ≤ sr) (hsc : 1 ≤ sc) :
    VjpLinear (vjp (.unroll D R C sr sc fr fc) [a] self) [f0]
      (B ++ [((R - fr) / sr + 1) * ((C - fc) / sc + 1), D * (fr * fc)]) [a.dims] := by
  have hposA : ∀ d ∈ B ++ [D, R, C], 1 ≤ d := by rw [← hda]; exact hwa.1
  have hposB : ∀ d ∈ B, 1 ≤ d := fun d hd => hposA d (by simp [hd])
  have hD : 1 ≤ D := hposA D (by simp)
  have hR : 1 ≤ R := hposA R (by simp)
  have hC : 1 ≤ C := hposA C (by simp)
  generalize hcount : ((R - fr) / sr + 1) * ((C - fc) / sc + 1) = count
  have hcount1 : 1 ≤ count := by
    rw [← hcount]; exact Nat.mul_pos (Nat.succ_pos _) (Nat.succ_pos _)
  have hposT : ∀ d ∈ [D, R, C], 1 ≤ d := fun d hd => hposA d (by simp at hd ⊢; right; exact hd)
  have hGin : prod [count, D * (fr * fc)] = count * (fr * fc) * D := by
    rw [prod2]; simp only [Nat.mul_comm, Nat.mul_left_comm]
  let F : List S → List S := fun blk =>
    rollPure (rollIdx D R C sr sc fr fc ((C - fc) / sc + 1)) (blk.take (count * (fr * fc) * D)) 0
      (List.replicate (D * R * C) zero)
  have hopF : ∀ blk : List S, blk.length = prod [count, D * (fr * fc)] →
      rollOp true D R C sr sc fr fc count ((C - fc) / sc + 1) [blk] = .ok (F blk) ∧ (F blk).length = prod [D, R, C] := by
    intro blk hb
    rw [hGin] at hb
    refine ⟨?_, by simp [F, rollPure_length, prod3]⟩
    have hnl : ¬ blk.length < count * (fr * fc) * D := by omega
    simp only [rollOp, hnl, if_false]
    apply rollLoop_ok
    intro i hi
    simp only [List.length_take, hb, Nat.min_self] at hi
    simp only [List.length_replicate, Nat.zero_add]
    exact rollIdx_lt D R C sr sc fr fc i hfr hfc hfr1 hfc1 hD (by rw [hcount]; exact hi)
  refine vjpLin_when1 (fun x => rollBlocks x D R C sr sc fr fc true) (fun x => rfl) (fun _ => ?_)
  refine ⟨a.dims, fun x => ⟨a.dims, ((List.range (prod B)).map (fun n =>
      F ((x.vals.drop (n * prod [count, D * (fr * fc)])).take (prod [count, D * (fr * fc)])))).flatten⟩,
    hwa.1, hwa.1, Fits_self _, ?_, ?_, ?_⟩
  · intro x hx
    have hrun : rollBlocks x D R C sr sc fr fc true = .ok ⟨a.dims, ((List.range (prod B)).map (fun n =>
        F ((x.vals.drop (n * prod [count, D * (fr * fc)])).take (prod [count, D * (fr * fc)])))).flatten⟩ := by
      unfold rollBlocks
      have d2 : dimFromEnd x.dims 2 = .ok count := by rw [hx.1]; exact dimFromEnd_snoc2_2 _ _ _
      have c1 : ¬ C < fc := by omega
      have c2 : ¬ sc = 0 := by omega
      have htk : x.dims.take (x.dims.length - 2) = B := by rw [hx.1]; simp
      simp only [d2, c1, c2, bind, Except.bind, pure, Except.pure, if_false, htk]
      have := slicedOp_blocks x B [count, D * (fr * fc)] [D, R, C]
        (rollOp true D R C sr sc fr fc count ((C - fc) / sc + 1)) F hx hposB hposT hopF
      rw [hda]
      exact this
    refine ⟨hrun, rfl, ?_⟩
    -- the length, from well-formedness of the result
    have hlen : ∀ P : Nat, (((List.range P).map (fun n =>
        F ((x.vals.drop (n * prod [count, D * (fr * fc)])).take (prod [count, D * (fr * fc)])))).flatten).length
          = P * (D * R * C) := by
      intro P
      induction P with
      | zero => simp
      | succ P ih =>
        rw [List.range_succ, List.map_append, List.flatten_append, List.length_append, ih]
        simp [F, rollPure_length, Nat.add_mul]
    simp only [hlen, hda, prod_append, prod3]
  · intro x y hx hy
    simp only [tadd]
    congr 1
    have hxl : x.vals.length = prod B * prod [count, D * (fr * fc)] := by rw [hx.2, prod_append]
    have hyl : y.vals.length = prod B * prod [count, D * (fr * fc)] := by rw [hy.2, prod_append]
    refine blocks_add F (prod [count, D * (fr * fc)]) ?_ ?_ x.vals y.vals (prod B) hxl hyl
    · intro u v hu hv
      simp only [F]
      rw [List.take_zipWith]
      have hz : (List.replicate (D * R * C) zero : List S)
          = List.zipWith (· + ·) (List.replicate (D * R * C) zero) (List.replicate (D * R * C) zero) := by
        simp [List.zipWith_replicate, AddLaws.zero_add]
      conv => lhs; rw [hz]
      exact rollPure_add _ _ _ 0 _ _ (by simp [hu, hv]) rfl
    · intro u v _ _
      simp [F, rollPure_length]
  · intro α x _
    simp only [tsmul]
    congr 1
    refine blocks_smul α F (prod [count, D * (fr * fc)]) ?_ x.vals (prod B)
    intro u
    simp only [F]
    rw [← List.map_take]
    have hz : (List.replicate (D * R * C) zero : List S) = (List.replicate (D * R * C) zero).map (α * ·) := by
      simp [CommLaws.mul_zero]
    conv => lhs; rw [hz]
    exact rollPure_smul α _ _ 0 _

end Corgi
