/-
  CorgiProofs.Instances — concrete instances used by non-vacuity examples: integers as scalars, and a
  self-product-shaped graph (every node consumes its predecessor twice) with a `Sem`.
-/
import CorgiProofs.PathSum

namespace Corgi

instance : ScalarOps Int where
  zero := 0
  one := 1
  ofNat n := (n : Int)
  div a b := a / b
  exp x := x
  ln x := x
  powf x _ := x
  pos x := decide (0 < x)

instance : AddLaws Int where
  add_comm := Int.add_comm
  add_assoc := Int.add_assoc
  zero_add := Int.zero_add

/-- node `n > 0` consumes node `n - 1` twice (2^n paths to node 0); closures pass the delta on -/
def chain2 : Graph Int where
  kids := fun n => if n = 0 then [] else [⟨n - 1, [1], true, true⟩, ⟨n - 1, [1], true, true⟩]
  vjp := fun n => if n = 0 then none else some (fun _ x => pure [some x, some x])

theorem chain2_wf : chain2.WF := by
  intro n s hs
  simp only [chain2] at hs
  split at hs
  · simp at hs
  · simp at hs; rcases hs with rfl | rfl <;> simp <;> omega

theorem chain2_lawful : chain2.Lawful := by
  intro n cl x ds hv hcl
  simp only [chain2] at hv hcl ⊢
  split at hv
  · simp at hv
  · simp at hv; subst hv
    rename_i hn
    simp [hn, pure, Except.pure] at hcl ⊢
    subst hcl; simp

theorem flattenTo_same (x : Tensor Int) : flattenTo x x.dims = .ok x := by
  simp [flattenTo, pure, Except.pure]

/-- the value-level description of `chain2`: every node has dimensions `[1]`, contributions are the
    delta itself -/
def chain2Sem : Sem chain2 where
  dimsOf := fun _ => [1]
  Λ := fun _ _ x => x
  κ := fun _ => true
  slotDims := by
    intro n s hs
    simp only [chain2] at hs
    split at hs
    · simp at hs
    · simp at hs; rcases hs with rfl | rfl <;> rfl
  dimsValid := fun _ => ⟨by simp, by simp⟩
  local_ := by
    intro n cl x ds hv hx hcl
    simp only [chain2] at hv hcl ⊢
    split at hv
    · simp at hv
    · rename_i hn
      simp at hv; subst hv
      simp [hn, pure, Except.pure] at hcl
      subst hcl
      refine ⟨by simp [hn], ?_⟩
      intro i s hs
      simp only [hn, if_false] at hs
      have hsd : s.dims = x.dims := by
        rw [hx.1]
        match i, hs with
        | 0, hs => simp at hs; subst hs; rfl
        | 1, hs => simp at hs; subst hs; rfl
        | i + 2, hs => simp at hs
      have hst : s.tracked = true := by
        match i, hs with
        | 0, hs => simp at hs; subst hs; rfl
        | 1, hs => simp at hs; subst hs; rfl
        | i + 2, hs => simp at hs
      constructor
      · intro h; rw [hst] at h; cases h
      · intro _
        refine ⟨x, ?_, ?_⟩
        · match i, hs with
          | 0, _ => rfl
          | 1, _ => rfl
          | i + 2, hs => simp at hs
        · intro t ht
          rw [hsd, flattenTo_same] at ht
          cases ht; rfl
  shapedΛ := by
    intro n i s x hs _ hx
    simp only [chain2] at hs
    split at hs
    · simp at hs
    · have : s.dims = [1] := by
        match i, hs with
        | 0, hs => simp at hs; subst hs; rfl
        | 1, hs => simp at hs; subst hs; rfl
        | i + 2, hs => simp at hs
      rw [this]; exact hx
  additive := fun _ _ _ _ _ _ _ _ => rfl

end Corgi
