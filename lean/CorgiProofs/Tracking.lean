/-
  CorgiProofs.Tracking — the "tracked iff some operand is tracked" rule (C09), for every handle-level
  operation including the composite ones (subtraction, axpy, softmax, conv, the costs, the layers).
-/
import CorgiModel.Program

set_option linter.unusedSectionVars false
set_option linter.unusedVariables false

namespace Corgi
variable {S : Type} [Add S] [Mul S] [Neg S] [Sub S] [ScalarOps S] [BEq S]

/-- whenever the operation succeeds, the result's tracking flag is `b` -/
def TrkIs (r : R (State S × Handle)) (b : Bool) : Prop := ∀ σ' h, r = .ok (σ', h) → h.tracked = b

theorem trk_pure (σ : State S) (h : Handle) : TrkIs (pure (σ, h)) h.tracked := by
  intro σ' h' e; simp only [pure, Except.pure, Except.ok.injEq, Prod.mk.injEq] at e; rw [← e.2]

theorem trk_alloc (σ : State S) (t : Tensor S) (kids : List Handle) (tag : Option (OpTag S)) (attach : Bool) (label : String) :
    TrkIs (pure (σ.alloc t kids tag attach label)) attach := by
  intro σ' h' e; simp only [pure, Except.pure, Except.ok.injEq] at e
  have := congrArg (fun p => p.2.tracked) e; simpa [State.alloc] using this.symm

theorem trk_bindR {α} (r : R α) (f : α → R (State S × Handle)) (b : Bool) (h : ∀ a, r = .ok a → TrkIs (f a) b) :
    TrkIs (r >>= f) b := by
  intro σ' h' e
  simp only [bind, Except.bind] at e
  cases hr : r with
  | error x => simp [hr] at e
  | ok v => simp only [hr] at e; exact h v hr σ' h' e

theorem trk_bind (r : R (State S × Handle)) (f : State S × Handle → R (State S × Handle)) (b1 b : Bool)
    (h1 : TrkIs r b1) (h2 : ∀ σ1 h, h.tracked = b1 → TrkIs (f (σ1, h)) b) : TrkIs (r >>= f) b := by
  intro σ' h' e
  simp only [bind, Except.bind] at e
  cases hr : r with
  | error x => simp [hr] at e
  | ok v =>
    obtain ⟨σ1, h⟩ := v
    simp only [hr] at e
    exact h2 σ1 h (h1 σ1 h hr) σ' h' e

theorem trk_hEwise (tag : OpTag S) (f : Tensor S → Tensor S → R (Tensor S)) (σ : State S) (a b : Handle) :
    TrkIs (hEwise tag f σ a b) (a.tracked || b.tracked) := by
  unfold hEwise; exact trk_bindR _ _ _ (fun t _ => trk_alloc σ t _ _ _ _)

theorem trk_hUnary (tag : OpTag S) (f : Tensor S → Tensor S) (σ : State S) (a : Handle) :
    TrkIs (hUnary tag f σ a) a.tracked := trk_alloc σ _ _ _ _ _

theorem trk_hSub (σ : State S) (a b : Handle) : TrkIs (hSub σ a b) (a.tracked || b.tracked) := by
  unfold hSub
  exact trk_bind _ _ b.tracked _ (trk_hUnary _ _ σ b) (fun σ1 nb hnb => by rw [← hnb]; exact trk_hEwise _ _ σ1 a nb)

theorem trk_hAxpy (σ : State S) (s : S) (x y : Handle) : TrkIs (hAxpy σ s x y) (x.tracked || y.tracked) := by
  unfold hAxpy
  exact trk_bind _ _ x.tracked _ (trk_hUnary _ _ σ x) (fun σ1 sx h => by rw [← h]; exact trk_hEwise _ _ σ1 sx y)

theorem trk_hSum (σ : State S) (a : Handle) (k : Nat) : TrkIs (hSum σ a k) a.tracked := by
  unfold hSum
  split
  · exact trk_pure σ a
  · exact trk_bindR _ _ _ (fun t _ => trk_alloc σ t _ _ _ _)

theorem trk_hReshape (σ : State S) (a : Handle) (dims : List Nat) : TrkIs (hReshape σ a dims) a.tracked := by
  unfold hReshape
  refine trk_bindR _ _ _ (fun t _ => ?_)
  intro σ' h' e; simp only [pure, Except.pure, Except.ok.injEq] at e
  have := congrArg (fun p => p.2.tracked) e; simpa [State.allocView] using this.symm

theorem trk_hSoftmax (σ : State S) (a : Handle) : TrkIs (hSoftmax σ a) a.tracked := by
  unfold hSoftmax
  refine trk_bind _ _ a.tracked _ (trk_hUnary _ _ σ a) (fun σ1 e he => ?_)
  refine trk_bind _ _ a.tracked _ (by rw [← he]; exact trk_hSum σ1 e 1) (fun σ2 s hs => ?_)
  have := trk_hEwise (.div : OpTag S) div σ2 e s
  rw [he, hs, Bool.or_self] at this
  exact this

theorem trk_hMatmul (σ : State S) (a : Handle) (ta : Bool) (b : Handle) (tb : Bool) (c : Option Handle) :
    TrkIs (hMatmul σ a ta b tb c) (a.tracked || b.tracked || (match c with | some c => c.tracked | none => false)) := by
  unfold hMatmul
  refine trk_bindR _ _ _ (fun t _ => ?_)
  cases c <;> exact trk_alloc _ t _ _ _ _

theorem trk_hUnroll (σ : State S) (image : Handle) (sr sc fr fc : Nat) : TrkIs (hUnroll σ image sr sc fr fc) image.tracked := by
  unfold hUnroll
  refine trk_bindR _ _ _ (fun t _ => ?_)
  refine trk_bindR _ _ _ (fun _ _ => ?_)
  refine trk_bindR _ _ _ (fun _ _ => ?_)
  refine trk_bindR _ _ _ (fun _ _ => ?_)
  exact trk_alloc σ t _ _ _ _

theorem trk_hExpand (σ : State S) (a : Handle) (r c : Nat) : TrkIs (hExpand σ a r c) a.tracked := by
  unfold hExpand; exact trk_bindR _ _ _ (fun t _ => trk_alloc σ t _ _ _ _)

/-- **conv**: tracked iff the image or the filters are -/
theorem trk_hConv (σ : State S) (image filters : Handle) (sr sc : Nat) :
    TrkIs (hConv σ image filters sr sc) (image.tracked || filters.tracked) := by
  unfold hConv
  refine trk_bindR _ _ _ (fun prm _ => ?_)
  refine trk_bind _ _ image.tracked _ (trk_hUnroll σ image sr sc _ _) (fun σ1 u hu => ?_)
  refine trk_bindR _ _ _ (fun _ _ => ?_)
  refine trk_bind _ _ filters.tracked _ (trk_hReshape σ1 filters _) (fun σ2 fm hfm => ?_)
  refine trk_bind _ _ (image.tracked || filters.tracked) _ ?_ (fun σ3 cv hcv => ?_)
  · have := trk_hMatmul σ2 u false fm true none
    simpa [hu, hfm] using this
  · rw [← hcv]; exact trk_hExpand σ3 cv _ _

theorem trk_hMse (σ : State S) (o t : Handle) : TrkIs (hMse σ o t) (t.tracked || o.tracked) := by
  unfold hMse
  refine trk_bind _ _ (t.tracked || o.tracked) _ (trk_hSub σ t o) (fun σ1 d hd => ?_)
  refine trk_bind _ _ (t.tracked || o.tracked) _ (by rw [← hd]; exact trk_hUnary _ _ σ1 d) (fun σ2 p hp => ?_)
  rw [← hp]; exact trk_hUnary _ _ σ2 p

theorem trk_hXent (σ : State S) (o t : Handle) : TrkIs (hXent σ o t) (t.tracked || o.tracked) := by
  unfold hXent
  refine trk_bindR _ _ _ (fun _ _ => ?_)
  refine trk_bind _ _ t.tracked _ (trk_hUnary _ _ σ t) (fun σ1 nt hnt => ?_)
  refine trk_bind _ _ o.tracked _ (trk_hUnary _ _ σ1 o) (fun σ2 lo hlo => ?_)
  refine trk_bind _ _ (t.tracked || o.tracked) _ (by rw [← hnt, ← hlo]; exact trk_hEwise _ _ σ2 nt lo) (fun σ3 p hp => ?_)
  rw [← hp]; exact trk_hUnary _ _ σ3 p

theorem trk_hAct (σ : State S) (act : Act) (a : Handle) : TrkIs (hAct σ act a) a.tracked := by
  cases act
  · exact trk_pure σ a
  · exact trk_hUnary _ _ σ a
  · exact trk_hUnary _ _ σ a
  · exact trk_hSoftmax σ a

/-- **layers**: the output is tracked iff the input or a parameter is -/
theorem trk_layerForward (σ : State S) (l : Layer) (input : Handle) :
    TrkIs (layerForward σ l input)
      (match l with
       | .dense w b _ => input.tracked || w.tracked || b.tracked
       | .conv f b _ _ _ => input.tracked || f.tracked || b.tracked) := by
  cases l with
  | dense w b act =>
    simp only [layerForward]
    exact trk_bind _ _ _ _ (trk_hMatmul σ input false w true (some b)) (fun σ1 r hr => by rw [← hr]; exact trk_hAct σ1 act r)
  | conv f b sr sc act =>
    simp only [layerForward]
    refine trk_bind _ _ _ _ (trk_hConv σ input f sr sc) (fun σ1 c hc => ?_)
    refine trk_bind _ _ (input.tracked || f.tracked || b.tracked) _ (by rw [← hc]; exact trk_hEwise _ _ σ1 c b) (fun σ2 r hr => ?_)
    rw [← hr]; exact trk_hAct σ2 act r

end Corgi
