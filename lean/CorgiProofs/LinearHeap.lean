/-
  CorgiProofs.LinearHeap — from the heap to `Sem`: in a state whose recorded nodes store operands of
  the shapes their forward operations left them with (`ShapeOK`), the recorded graph satisfies the
  value laws, with `Λ` = the stored closures' own (reduced) answers.
-/
import CorgiProofs.LinearAll
import CorgiProofs.Reachable

set_option linter.unusedSectionVars false
set_option linter.unusedVariables false

namespace Corgi
variable {S : Type} [Add S] [Mul S] [Neg S] [Sub S] [ScalarOps S] [BEq S]

/-- the dimensions recorded for node `n` (`[1]` for ids that are not nodes) -/
def State.dimsOf (σ : State S) (n : Nat) : List Nat :=
  match σ.nodes[n]? with
  | some r => r.dims
  | none => [1]

/-- every recorded node has valid dimensions, its stored operand handles carry the dimensions of the
    nodes they name, and the operands have the shapes the node's forward operation produced it from -/
structure ShapeOK (σ : State S) : Prop where
  nodeDims : ∀ (n : Nat) (r : NodeRec S), σ.nodes[n]? = some r → DimsOK r.dims
  kidDims : ∀ (n : Nat) (r : NodeRec S), σ.nodes[n]? = some r → ∀ k ∈ r.kids,
    ∃ rk : NodeRec S, σ.nodes[k.node]? = some rk ∧ k.dims = rk.dims
  shapes : ∀ (n : Nat) (r : NodeRec S) (tag : OpTag S), σ.nodes[n]? = some r → r.op = some tag →
    TagShape tag (r.kids.map σ.tensorOf) ⟨[], σ.bufs.getD r.selfBuf []⟩ r.dims

theorem linGraph_of_shapeOK [AddLaws S] [MulLaws S] [CommLaws S] (σ : State S) (hi : HeapInv σ) (hs : ShapeOK σ) :
    LinGraph σ.graph σ.dimsOf where
  slotDims := by
    intro n s hm
    simp only [State.graph] at hm
    cases hn : σ.nodes[n]? with
    | none => simp [hn] at hm
    | some r =>
      simp only [hn, List.mem_map] at hm
      obtain ⟨k, hk, rfl⟩ := hm
      obtain ⟨rk, h1, h2⟩ := hs.kidDims n r hn k hk
      simp [Handle.slot, State.dimsOf, h1, h2]
  dimsValid := by
    intro n
    simp only [State.dimsOf]
    cases hn : σ.nodes[n]? with
    | none => simp
    | some r => exact hs.nodeDims n r hn
  noop := by
    intro n hv
    simp only [State.graph] at hv ⊢
    cases hn : σ.nodes[n]? with
    | none => rfl
    | some r =>
      simp only [hn] at hv ⊢
      cases hop : r.op with
      | none => rw [hi.noop n r hn hop]; rfl
      | some tag => simp [hop] at hv
  lawful := graph_lawful σ hi
  lin := by
    intro n cl hv
    simp only [State.graph] at hv ⊢
    cases hn : σ.nodes[n]? with
    | none => simp [hn] at hv
    | some r =>
      simp only [hn] at hv ⊢
      cases hop : r.op with
      | none => simp [hop] at hv
      | some tag =>
        simp only [hop, Option.map_some, Option.some.injEq] at hv
        subst hv
        have h := vjp_lin tag (r.kids.map σ.tensorOf) ⟨[], σ.bufs.getD r.selfBuf []⟩ (r.kids.map (·.tracked))
          r.dims (hs.shapes n r tag hn hop) (by simp)
        have e1 : (r.kids.map Handle.slot).map (·.tracked) = r.kids.map (·.tracked) := by
          simp [Handle.slot]
        have e2 : (r.kids.map Handle.slot).map (·.dims) = (r.kids.map σ.tensorOf).map (·.dims) := by
          simp [Handle.slot, State.tensorOf]
        have e3 : σ.dimsOf n = r.dims := by simp [State.dimsOf, hn]
        rw [e1, e2, e3]
        exact h.1
  hom := by
    intro n cl hv α
    simp only [State.graph] at hv ⊢
    cases hn : σ.nodes[n]? with
    | none => simp [hn] at hv
    | some r =>
      simp only [hn] at hv ⊢
      cases hop : r.op with
      | none => simp [hop] at hv
      | some tag =>
        simp only [hop, Option.map_some, Option.some.injEq] at hv
        subst hv
        have h := vjp_lin tag (r.kids.map σ.tensorOf) ⟨[], σ.bufs.getD r.selfBuf []⟩ (r.kids.map (·.tracked))
          r.dims (hs.shapes n r tag hn hop) (by simp)
        have e1 : (r.kids.map Handle.slot).map (·.tracked) = r.kids.map (·.tracked) := by
          simp [Handle.slot]
        have e2 : (r.kids.map Handle.slot).map (·.dims) = (r.kids.map σ.tensorOf).map (·.dims) := by
          simp [Handle.slot, State.tensorOf]
        have e3 : σ.dimsOf n = r.dims := by simp [State.dimsOf, hn]
        rw [e1, e2, e3]
        exact h.2 α

/-- the value laws of a shape-consistent heap: `Λ n i x` is the reduced `i`-th answer of node `n`'s
    stored closure on `x` -/
def State.sem [AddLaws S] [MulLaws S] [CommLaws S] (σ : State S) (κ : Nat → Bool) (hi : HeapInv σ) (hs : ShapeOK σ) : Sem σ.graph :=
  Sem.ofLin κ (linGraph_of_shapeOK σ hi hs)

theorem State.sem_Λ [AddLaws S] [MulLaws S] [CommLaws S] (σ : State S) (κ : Nat → Bool) (hi : HeapInv σ) (hs : ShapeOK σ)
    (n i : Nat) (x : Tensor S) :
    (σ.sem κ hi hs).Λ n i x
      = contrib (σ.graph.vjp n) ((σ.graph.kids n).map (·.tracked)) ((σ.graph.kids n).map (·.dims)) i x := rfl

theorem State.sem_dimsOf [AddLaws S] [MulLaws S] [CommLaws S] (σ : State S) (κ : Nat → Bool) (hi : HeapInv σ) (hs : ShapeOK σ) :
    (σ.sem κ hi hs).dimsOf = σ.dimsOf := rfl

/-- the contributions of a shape-consistent heap commute with scaling the delta -/
theorem State.sem_smul [AddLaws S] [MulLaws S] [CommLaws S] (σ : State S) (κ : Nat → Bool) (hi : HeapInv σ) (hs : ShapeOK σ)
    (α : S) (n i : Nat) (s : Slot) (x : Tensor S) (hk : (σ.graph.kids n)[i]? = some s) (hx : Shaped (σ.dimsOf n) x) :
    (σ.sem κ hi hs).Λ n i (tsmul α x) = tsmul α ((σ.sem κ hi hs).Λ n i x) :=
  Sem.ofLin_smul κ (linGraph_of_shapeOK σ hi hs) α n i s x hk hx

end Corgi
