/-
  CorgiProofs.RealDeriv — the scalar derivative table of `CorgiSpec.Dual`, proved over ℝ against
  Mathlib's `HasDerivAt`: the tangent rule of every scalar function of the dual-number instance is
  the mathematical derivative of that function at every in-domain point.
-/
import CorgiSpec.Dual
import Mathlib.Analysis.SpecialFunctions.ExpDeriv
import Mathlib.Analysis.SpecialFunctions.Log.Deriv
import Mathlib.Analysis.SpecialFunctions.Pow.Deriv

namespace Corgi
open Real

/-- the real numbers as scalars: `exp`, `ln`, real power -/
noncomputable instance : ScalarOps ℝ where
  zero := 0
  one := 1
  ofNat n := (n : ℝ)
  div a b := a / b
  exp := Real.exp
  ln := Real.log
  powf x e := x ^ e
  pos x := decide (0 < x)

/-- `exp' = exp` — everywhere. -/
theorem table_exp (x : ℝ) : HasDerivAt Real.exp (ScalarOps.exp (⟨x, 1⟩ : Dual ℝ)).t x := by
  simpa [ScalarOps.exp] using Real.hasDerivAt_exp x

/-- `ln' = 1/x` — at every `x ≠ 0`. -/
theorem table_ln (x : ℝ) (hx : x ≠ 0) : HasDerivAt Real.log (ScalarOps.ln (⟨x, 1⟩ : Dual ℝ)).t x := by
  have := Real.hasDerivAt_log hx
  simpa [ScalarOps.ln, ScalarOps.div, one_div] using this

/-- `(x^e)' = e·x^(e-1)` — for every real exponent, at every `x ≠ 0`, and at `x = 0` when `e ≥ 1`. -/
theorem table_powf (x e : ℝ) (h : x ≠ 0 ∨ 1 ≤ e) :
    HasDerivAt (fun y : ℝ => y ^ e) (ScalarOps.powf (⟨x, 1⟩ : Dual ℝ) ⟨e, 0⟩).t x := by
  have := Real.hasDerivAt_rpow_const (p := e) h
  simpa [ScalarOps.powf, ScalarOps.one] using this

/-- `(1/x)' = −1/x²` — at every `x ≠ 0` (the dual quotient rule with a constant numerator). -/
theorem table_recip (x : ℝ) (hx : x ≠ 0) :
    HasDerivAt (fun y : ℝ => 1 / y) (ScalarOps.div (⟨1, 0⟩ : Dual ℝ) ⟨x, 1⟩).t x := by
  have h2 : (fun y : ℝ => 1 / y) = fun y => y⁻¹ := by funext y; simp
  have hval : (ScalarOps.div (⟨1, 0⟩ : Dual ℝ) ⟨x, 1⟩).t = -(x ^ 2)⁻¹ := by
    show (0 - 1 / x * 1) / x = -(x ^ 2)⁻¹
    field_simp
    ring
  rw [h2, hval]
  exact hasDerivAt_inv hx

/-- the quotient rule: `(a/b)' = (a' − (a/b)·b')/b` — at every `b ≠ 0`. -/
theorem table_div (f g : ℝ → ℝ) (f' g' x : ℝ) (hf : HasDerivAt f f' x) (hg : HasDerivAt g g' x) (hx : g x ≠ 0) :
    HasDerivAt (fun y => f y / g y) (ScalarOps.div (⟨f x, f'⟩ : Dual ℝ) ⟨g x, g'⟩).t x := by
  have hval : (ScalarOps.div (⟨f x, f'⟩ : Dual ℝ) ⟨g x, g'⟩).t = (f' * g x - f x * g') / g x ^ 2 := by
    show (f' - f x / g x * g') / g x = (f' * g x - f x * g') / g x ^ 2
    field_simp
  rw [hval]
  exact hf.div hg hx

/-- the product rule of dual multiplication -/
theorem table_mul (f g : ℝ → ℝ) (f' g' x : ℝ) (hf : HasDerivAt f f' x) (hg : HasDerivAt g g' x) :
    HasDerivAt (fun y => f y * g y) ((⟨f x, f'⟩ : Dual ℝ) * ⟨g x, g'⟩).t x :=
  hf.mul hg

/-- sigmoid: `σ' = σ(1 − σ)` — everywhere; the dual evaluation of `1/(1 + exp(−x))` gives it. -/
theorem table_sigmoid (x : ℝ) :
    HasDerivAt (fun y : ℝ => 1 / (1 + Real.exp (-y)))
      ((1 / (1 + Real.exp (-x))) * (1 - 1 / (1 + Real.exp (-x)))) x := by
  have h1 : HasDerivAt (fun y : ℝ => 1 + Real.exp (-y)) (-Real.exp (-x)) x := by
    have := ((hasDerivAt_id x).neg).exp
    simpa using this.const_add 1
  have hpos : (1 + Real.exp (-x)) ≠ 0 := by positivity
  have hval : (1 / (1 + Real.exp (-x))) * (1 - 1 / (1 + Real.exp (-x)))
      = (0 * (1 + Real.exp (-x)) - 1 * (-Real.exp (-x))) / (1 + Real.exp (-x)) ^ 2 := by
    field_simp
    ring
  rw [hval]
  exact (hasDerivAt_const x (1 : ℝ)).div h1 hpos

/-- relu: derivative 1 on the positive side, 0 on the negative side (not differentiable at 0). -/
theorem table_relu (x : ℝ) (hx : x ≠ 0) :
    HasDerivAt (fun y : ℝ => if 0 < y then y else 0) (if 0 < x then 1 else 0) x := by
  rcases lt_or_gt_of_ne hx with h | h
  · have : (fun y : ℝ => if 0 < y then y else 0) =ᶠ[nhds x] fun _ => (0 : ℝ) := by
      filter_upwards [gt_mem_nhds h] with y hy
      simp [not_lt.mpr (le_of_lt hy)]
    simpa [not_lt.mpr (le_of_lt h)] using (hasDerivAt_const x (0 : ℝ)).congr_of_eventuallyEq this
  · have : (fun y : ℝ => if 0 < y then y else 0) =ᶠ[nhds x] fun y => y := by
      filter_upwards [lt_mem_nhds h] with y hy
      simp [hy]
    simpa [h] using (hasDerivAt_id x).congr_of_eventuallyEq this

end Corgi
