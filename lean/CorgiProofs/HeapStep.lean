/-
  CorgiProofs.HeapStep — the heap invariant, together with validity of every root handle, is
  preserved by every command of the language, hence holds in every reachable state.
-/
import CorgiProofs.HeapOps
import CorgiModel.Step

set_option linter.unusedSectionVars false
set_option linter.unusedVariables false

namespace Corgi
variable {S : Type} [Add S] [Mul S] [Neg S] [Sub S] [ScalarOps S] [BEq S]

structure RootsValid (σ : State S) : Prop where
  env : ∀ p ∈ σ.env, p.2.Valid σ
  layers : ∀ p ∈ σ.layers, ∀ h ∈ layerParams p.2, h.Valid σ
  models : ∀ p ∈ σ.models, ∀ h, p.2.output = some h → h.Valid σ

/-- the invariant of reachable states -/
structure Good (σ : State S) : Prop where
  heap : HeapInv σ
  roots : RootsValid σ

theorem lookup_mem {α} (l : List (String × α)) (k : String) (v : α) (h : lookup l k = some v) : ∃ k', (k', v) ∈ l := by
  induction l with
  | nil => simp [lookup] at h
  | cons p l ih =>
    obtain ⟨k', v'⟩ := p
    simp only [lookup] at h
    split at h
    · cases h; exact ⟨k', by simp⟩
    · obtain ⟨k'', hk⟩ := ih h; exact ⟨k'', by simp [hk]⟩

theorem mem_insert {α} (l : List (String × α)) (k : String) (v : α) (p : String × α) (h : p ∈ insert l k v) :
    p = (k, v) ∨ p ∈ l := by
  induction l with
  | nil => simp [insert] at h; exact Or.inl h
  | cons q l ih =>
    obtain ⟨k', v'⟩ := q
    simp only [insert] at h
    split at h
    · simp at h; rcases h with h | h
      · exact Or.inl h
      · exact Or.inr (by simp [h])
    · simp at h; rcases h with h | h
      · exact Or.inr (by simp [h])
      · rcases ih h with h | h
        · exact Or.inl h
        · exact Or.inr (by simp [h])

theorem mem_erase {α} (l : List (String × α)) (k : String) (p : String × α) (h : p ∈ erase l k) : p ∈ l := by
  simp only [erase, List.mem_filter] at h; exact h.1

theorem valid_congr {σ σ' : State S} (hn : σ'.nodes.size = σ.nodes.size) (hb : σ'.bufs.size = σ.bufs.size) {h : Handle}
    (hv : h.Valid σ) : h.Valid σ' := by
  unfold Handle.Valid at *; omega

theorem valid_flags {σ : State S} {h : Handle} (hv : h.Valid σ) (t k : Bool) :
    ({ h with tracked := t, keep := k } : Handle).Valid σ := hv

theorem get_valid {σ : State S} (rv : RootsValid σ) {v : String} {h : Handle} (hg : σ.get v = .ok h) : h.Valid σ := by
  unfold State.get at hg
  cases hl : lookup σ.env v with
  | none => simp [hl, throw, throwThe, MonadExceptOf.throw] at hg
  | some x =>
    simp only [hl, pure, Except.pure, Except.ok.injEq] at hg
    subst hg
    obtain ⟨k', hk⟩ := lookup_mem _ _ _ hl
    exact rv.env _ hk

theorem mapR_get_valid {σ : State S} (rv : RootsValid σ) : ∀ (vs : List String) (hs : List Handle),
    mapR σ.get vs = .ok hs → ∀ h ∈ hs, h.Valid σ := by
  intro vs
  induction vs with
  | nil => intro hs e; simp [mapR, pure, Except.pure] at e; subst e; simp
  | cons v vs ih =>
    intro hs e
    simp only [mapR] at e
    obtain ⟨y, hy, e⟩ := bind_ok e
    obtain ⟨ys, hys, e⟩ := bind_ok e
    simp only [pure, Except.pure, Except.ok.injEq] at e
    subst e
    intro h hh
    simp at hh
    rcases hh with rfl | hh
    · exact get_valid rv hy
    · exact ih ys hys h hh

theorem rootsValid_mono {σ σ' : State S} (rv : RootsValid σ) (m : Mono σ σ') : RootsValid σ' :=
  ⟨fun p hp => m.valid (rv.env p (by rw [← m.env]; exact hp)),
   fun p hp h hh => m.valid (rv.layers p (by rw [← m.layers]; exact hp) h hh),
   fun p hp h hh => m.valid (rv.models p (by rw [← m.models]; exact hp) h hh)⟩

theorem rootsValid_bind {σ : State S} (rv : RootsValid σ) (w : String) {h : Handle} (hv : h.Valid σ) :
    RootsValid (σ.bind w h) :=
  ⟨fun p hp => by
     rcases mem_insert _ _ _ _ hp with rfl | hp
     · exact hv
     · exact rv.env p hp,
   rv.layers, rv.models⟩

theorem heapInv_bind {σ : State S} (hi : HeapInv σ) (w : String) (h : Handle) : HeapInv (σ.bind w h) :=
  ⟨hi.sizes, hi.older, hi.tags, hi.noop, hi.clean⟩

theorem good_bind {σ : State S} (g : Good σ) (w : String) {h : Handle} (hv : h.Valid σ) : Good (σ.bind w h) :=
  ⟨heapInv_bind g.heap w h, rootsValid_bind g.roots w hv⟩

/-- a command result is again a good state -/
def ResGood (r : R (State S × Out S)) : Prop := ∀ σ' o, r = .ok (σ', o) → Good σ'

theorem resGood_pure (σ1 : State S) (o : Out S) (g : Good σ1) : ResGood (pure (σ1, o)) := by
  intro σ' o' e; simp only [pure, Except.pure, Except.ok.injEq, Prod.mk.injEq] at e; rw [← e.1]; exact g

theorem resGood_throw (p : Panic) : ResGood (throw p : R (State S × Out S)) := by
  intro σ' o e; simp [throw, throwThe, MonadExceptOf.throw] at e

theorem resGood_bindR {α} (r : R α) (f : α → R (State S × Out S))
    (h2 : ∀ a, r = .ok a → ResGood (f a)) : ResGood (r >>= f) := by
  intro σ' o e
  simp only [bind, Except.bind] at e
  cases hr : r with
  | error x => simp [hr] at e
  | ok v => simp only [hr] at e; exact h2 v hr σ' o e

theorem resGood_bindShow (σ : State S) (g : Good σ) (w : String) (r : R (State S × Handle)) (h : OpInv σ r) :
    ResGood (bindShow w r) := by
  intro σ' o e
  simp only [bindShow, bind, Except.bind] at e
  cases hr : r with
  | error x => simp [hr] at e
  | ok v =>
    obtain ⟨σ1, hd⟩ := v
    simp only [hr, pure, Except.pure, Except.ok.injEq, Prod.mk.injEq] at e
    rw [← e.1]
    obtain ⟨hi1, hv1, m1⟩ := h σ1 hd hr
    exact good_bind ⟨hi1, rootsValid_mono g.roots m1⟩ w hv1

theorem resGood_setFlags (σ : State S) (g : Good σ) (v : String) (tr keep : Option Bool) (f : State S × Handle → R (State S × Out S))
    (hf : ∀ σ1 h, Good σ1 → ResGood (f (σ1, h))) : ResGood (setFlags σ v tr keep >>= f) := by
  apply resGood_bindR
  intro a ha
  simp only [setFlags, bind, Except.bind] at ha
  cases hg : σ.get v with
  | error e => simp [hg] at ha
  | ok h =>
    simp only [hg, pure, Except.pure, Except.ok.injEq] at ha
    rw [← ha]
    exact hf _ _ (good_bind g v (valid_flags (get_valid g.roots hg) _ _))

theorem good_leaf (σ : State S) (g : Good σ) (t : Tensor S) :
    OpInv σ (pure (hLeaf σ t)) := opInv_alloc σ g.heap t [] none false "" (by simp) (by simp)

end Corgi

namespace Corgi
variable {S : Type} [Add S] [Mul S] [Neg S] [Sub S] [ScalarOps S] [BEq S]

theorem mono_setGrad (σ : State S) (n : Nat) (g : Option (Tensor S)) : Mono σ (σ.setGrad n g) :=
  ⟨Nat.le_refl _, Nat.le_refl _, rfl, rfl, rfl⟩

theorem gather_inv (ps : List Handle) : ∀ (σ : State S), HeapInv σ →
    HeapInv (gdGather σ ps).1 ∧ Mono σ (gdGather σ ps).1 := by
  induction ps with
  | nil => intro σ hi; exact ⟨hi, Mono.refl σ⟩
  | cons p ps ih =>
    intro σ hi
    simp only [gdGather]
    cases σ.grad.getD p.node none with
    | none => exact ih σ hi
    | some g =>
      obtain ⟨a, b⟩ := ih (σ.setGrad p.node none) (heapInv_setGrad σ hi _ _)
      exact ⟨a, (mono_setGrad σ _ _).trans b⟩

theorem drain_inv (ps : List Handle) : ∀ (σ : State S) (fs : List Bool) (vals : List S) (σ' : State S) (hs : List Handle),
    HeapInv σ → (∀ p ∈ ps, p.Valid σ) → gdDrain σ ps fs vals = .ok (σ', hs) →
    HeapInv σ' ∧ Mono σ σ' ∧ ∀ h ∈ hs, h.Valid σ' := by
  induction ps with
  | nil => intro σ fs vals σ' hs hi hp h; simp [gdDrain, pure, Except.pure] at h; rw [← h.1, h.2]; exact ⟨hi, Mono.refl _, by simp⟩
  | cons p ps ih =>
    intro σ fs vals σ' hs hi hp h
    cases fs with
    | nil => simp [gdDrain, pure, Except.pure] at h; rw [← h.1, h.2]; exact ⟨hi, Mono.refl _, by simp⟩
    | cons f fs =>
      cases f with
      | true =>
        simp only [gdDrain, if_true, bind, Except.bind] at h
        cases hr : gdDrain σ ps fs vals with
        | error e => simp [hr] at h
        | ok r =>
          obtain ⟨a, b, c⟩ := ih σ fs vals r.1 r.2 hi (fun q hq => hp q (by simp [hq])) (by rw [hr])
          simp only [hr, pure, Except.pure, Except.ok.injEq, Prod.mk.injEq] at h
          rw [← h.1, ← h.2]
          refine ⟨a, b, ?_⟩
          intro x hx; simp at hx
          rcases hx with rfl | hx
          · exact b.valid (hp _ (by simp))
          · exact c x hx
      | false =>
        simp only [gdDrain, Bool.false_eq_true, if_false, bind, Except.bind] at h
        split at h
        · simp [throw, throwThe, MonadExceptOf.throw] at h
        · cases ht : Tensor.mk? p.dims (List.take (σ.tensorOf p).vals.length vals) with
          | error e => simp [ht] at h
          | ok t =>
            simp only [ht] at h
            obtain ⟨hi1, hv1, m1⟩ := heapInv_alloc σ hi t [] none false "" (by simp) (by simp)
            cases hr : gdDrain (σ.alloc t [] none false).1 ps fs (List.drop (σ.tensorOf p).vals.length vals) with
            | error e => simp [hr] at h
            | ok r =>
              obtain ⟨a, b, c⟩ := ih _ _ _ r.1 r.2 hi1 (fun q hq => m1.valid (hp q (by simp [hq]))) (by rw [hr])
              simp only [hr, pure, Except.pure, Except.ok.injEq, Prod.mk.injEq] at h
              rw [← h.1, ← h.2]
              refine ⟨a, m1.trans b, ?_⟩
              intro x hx; simp at hx
              rcases hx with rfl | hx
              · exact b.valid hv1
              · exact c x hx

theorem gdUpdate_inv (σ σ' : State S) (lr : S) (ps hs : List Handle) (hi : HeapInv σ) (hp : ∀ p ∈ ps, p.Valid σ)
    (h : gdUpdate σ lr ps = .ok (σ', hs)) : HeapInv σ' ∧ Mono σ σ' ∧ ∀ h ∈ hs, h.Valid σ' := by
  unfold gdUpdate at h
  obtain ⟨a, b⟩ := gather_inv ps σ hi
  obtain ⟨x, y, z⟩ := drain_inv ps (gdGather σ ps).1 _ _ σ' hs a (fun p hq => b.valid (hp p hq)) h
  exact ⟨x, b.trans y, z⟩

theorem good_fold_bind : ∀ (l : List (String × Handle)) (σ : State S), Good σ → (∀ p ∈ l, p.2.Valid σ) →
    Good (l.foldl (fun (s : State S) p => s.bind p.1 p.2) σ) := by
  intro l
  induction l with
  | nil => intro σ g _; exact g
  | cons p l ih =>
    intro σ g hl
    simp only [List.foldl_cons]
    exact ih _ (good_bind g p.1 (hl p (by simp))) (fun q hq => hl q (by simp [hq]))

theorem mem_zip_snd {α β} {l : List α} {m : List β} {p : α × β} (h : p ∈ l.zip m) : p.2 ∈ m :=
  (List.of_mem_zip h).2

theorem setLayerParams_sub (l : Layer) (a b : Handle) : ∀ h ∈ layerParams (setLayerParams l [a, b]), h = a ∨ h = b := by
  intro h hh
  cases l <;> simpa [setLayerParams, layerParams] using hh

theorem good_putParams (ls : List String) : ∀ (σ : State S) (hs : List Handle), Good σ → (∀ h ∈ hs, h.Valid σ) →
    Good (putParams σ ls hs) := by
  induction ls with
  | nil => intro σ hs g _; simpa [putParams] using g
  | cons l ls ih =>
    intro σ hs g hv
    match hs with
    | [] => simpa [putParams] using g
    | [_] => simpa [putParams] using g
    | a :: b :: rest =>
      simp only [putParams]
      split
      · rename_i lay hl
        refine ih _ rest ⟨⟨g.heap.sizes, g.heap.older, g.heap.tags, g.heap.noop, g.heap.clean⟩,
          ⟨g.roots.env, ?_, g.roots.models⟩⟩ (fun h hh => hv h (by simp [hh]))
        intro p hp h hh
        rcases mem_insert _ _ _ _ hp with rfl | hp
        · rcases setLayerParams_sub lay a b h hh with rfl | rfl
          · exact hv _ (by simp)
          · exact hv _ (by simp)
        · exact g.roots.layers p hp h hh
      · exact ih σ rest g (fun h hh => hv h (by simp [hh]))

theorem good_foldlM_layers (layers : List String) : ∀ (σ : State S) (h : Handle) (σ' : State S) (h' : Handle),
    Good σ → h.Valid σ →
    layers.foldlM (fun (p : State S × Handle) l =>
        match lookup p.1.layers l with
        | some lay => layerForward p.1 lay p.2
        | none => throw Panic.modelGap) (σ, h) = .ok (σ', h') → Good σ' ∧ h'.Valid σ' ∧ Mono σ σ' := by
  induction layers with
  | nil =>
    intro σ h σ' h' g hv e
    simp only [List.foldlM, pure, Except.pure, Except.ok.injEq, Prod.mk.injEq] at e
    rw [← e.1, ← e.2]; exact ⟨g, hv, Mono.refl σ⟩
  | cons l ls ih =>
    intro σ h σ' h' g hv e
    simp only [List.foldlM, bind, Except.bind] at e
    cases hl : lookup σ.layers l with
    | none => simp [hl, throw, throwThe, MonadExceptOf.throw] at e
    | some lay =>
      simp only [hl] at e
      cases hf : layerForward σ lay h with
      | error x => simp [hf] at e
      | ok v =>
        obtain ⟨σ1, h1⟩ := v
        simp only [hf] at e
        obtain ⟨k', hk⟩ := lookup_mem _ _ _ hl
        obtain ⟨hi1, hv1, m1⟩ := opInv_layerForward σ lay h g.heap hv (g.roots.layers _ hk) σ1 h1 hf
        obtain ⟨a, b, c⟩ := ih σ1 h1 σ' h' ⟨hi1, rootsValid_mono g.roots m1⟩ hv1 e
        exact ⟨a, b, m1.trans c⟩

theorem modelParams_valid (σ : State S) (rv : RootsValid σ) (names : List String) : ∀ h ∈ modelParams σ names, h.Valid σ := by
  intro h hh
  simp only [modelParams, List.mem_flatMap] at hh
  obtain ⟨l, _, hl⟩ := hh
  cases hk : lookup σ.layers l with
  | none => simp [hk] at hl
  | some lay =>
    simp only [hk] at hl
    obtain ⟨k', hk'⟩ := lookup_mem _ _ _ hk
    exact rv.layers _ hk' h hl

end Corgi

namespace Corgi
variable {S : Type} [Add S] [Mul S] [Neg S] [Sub S] [ScalarOps S] [BEq S]

theorem good_erase {σ : State S} (g : Good σ) (v : String) : Good ({ σ with env := erase σ.env v } : State S) :=
  ⟨⟨g.heap.sizes, g.heap.older, g.heap.tags, g.heap.noop, g.heap.clean⟩,
   ⟨fun p hp => g.roots.env p (mem_erase _ _ _ hp), g.roots.layers, g.roots.models⟩⟩

theorem good_setGrad {σ : State S} (g : Good σ) (n : Nat) (x : Option (Tensor S)) : Good (σ.setGrad n x) :=
  ⟨heapInv_setGrad σ g.heap n x, rootsValid_mono g.roots (mono_setGrad σ n x)⟩

theorem good_insert_model {σ : State S} (g : Good σ) (m : String) (mr : ModelRec S)
    (h : ∀ x, mr.output = some x → x.Valid σ) : Good ({ σ with models := insert σ.models m mr } : State S) :=
  ⟨⟨g.heap.sizes, g.heap.older, g.heap.tags, g.heap.noop, g.heap.clean⟩,
   ⟨g.roots.env, g.roots.layers, fun p hp x hx => by
     rcases mem_insert _ _ _ _ hp with rfl | hp
     · exact h x hx
     · exact g.roots.models p hp x hx⟩⟩

theorem good_insert_layer {σ : State S} (g : Good σ) (l : String) (lay : Layer)
    (h : ∀ x ∈ layerParams lay, x.Valid σ) : Good ({ σ with layers := insert σ.layers l lay } : State S) :=
  ⟨⟨g.heap.sizes, g.heap.older, g.heap.tags, g.heap.noop, g.heap.clean⟩,
   ⟨g.roots.env, fun p hp x hx => by
     rcases mem_insert _ _ _ _ hp with rfl | hp
     · exact h x hx
     · exact g.roots.layers p hp x hx, g.roots.models⟩⟩

theorem good_backward {σ σ' : State S} (g : Good σ) {h : Handle} (hv : h.Valid σ) (seed : Option (Tensor S))
    (hok : σ.backward h seed = .ok σ') : Good σ' := by
  obtain ⟨a, b⟩ := heapInv_backward σ σ' g.heap h hv.1 seed hok
  exact ⟨a, rootsValid_mono g.roots b⟩

theorem good_of_op {σ σ' : State S} (g : Good σ) {h : Handle} (x : HeapInv σ' ∧ h.Valid σ' ∧ Mono σ σ') : Good σ' :=
  ⟨x.1, rootsValid_mono g.roots x.2.2⟩

theorem good_gdUpdate_bind {σ σ1 : State S} (g : Good σ) (lr : S) (vs : List String) (hs hs' : List Handle)
    (hg : mapR σ.get vs = .ok hs) (hu : gdUpdate σ lr hs = .ok (σ1, hs')) :
    Good ((vs.zip hs').foldl (fun (s : State S) p => s.bind p.1 p.2) σ1) := by
  obtain ⟨a, b, c⟩ := gdUpdate_inv σ σ1 lr hs hs' g.heap (mapR_get_valid g.roots vs hs hg) hu
  exact good_fold_bind _ σ1 ⟨a, rootsValid_mono g.roots b⟩ (fun p hp => c _ (mem_zip_snd hp))

local macro "gb" x:ident h:ident : tactic => `(tactic| refine resGood_bindR _ _ (fun $x $h => ?_))
local macro "gp" : tactic => `(tactic| exact resGood_pure _ _ (by assumption))

/-- **Every command preserves the invariant.** -/
theorem exec_good (σ : State S) (g : Good σ) (c : Cmd S) : ResGood (exec σ c) := by
  have rv := g.roots
  cases c with
  | new v dims vals => simp only [exec]; gb t ht; exact resGood_bindShow σ g _ _ (good_leaf σ g t)
  | flat v vals => simp only [exec]; gb t ht; exact resGood_bindShow σ g _ _ (good_leaf σ g t)
  | zeros v dims => simp only [exec]; gb t ht; exact resGood_bindShow σ g _ _ (good_leaf σ g t)
  | nest v parts => simp only [exec]; gb hs hhs; gb t ht; exact resGood_bindShow σ g _ _ (good_leaf σ g t)
  | tracked v => simp only [exec]; exact resGood_setFlags σ g v _ _ _ (fun σ1 h g1 => resGood_pure _ _ g1)
  | untracked v => simp only [exec]; exact resGood_setFlags σ g v _ _ _ (fun σ1 h g1 => resGood_pure _ _ g1)
  | start v => simp only [exec]; exact resGood_setFlags σ g v _ _ _ (fun σ1 h g1 => resGood_pure _ _ g1)
  | stop v => simp only [exec]; exact resGood_setFlags σ g v _ _ _ (fun σ1 h g1 => resGood_pure _ _ g1)
  | clone w v => simp only [exec]; gb h hh; exact resGood_pure _ _ (good_bind g w (get_valid rv hh))
  | drop v => simp only [exec]; gb h hh; exact resGood_pure _ _ (good_erase g v)
  | move w v => simp only [exec]; gb h hh; exact resGood_pure _ _ (good_bind (good_erase g v) w (get_valid rv hh))
  | add w a b => simp only [exec]; gb x hx; gb y hy; exact resGood_bindShow σ g _ _ (opInv_hAdd σ x y g.heap (get_valid rv hx) (get_valid rv hy))
  | sub w a b => simp only [exec]; gb x hx; gb y hy; exact resGood_bindShow σ g _ _ (opInv_hSub σ x y g.heap (get_valid rv hx) (get_valid rv hy))
  | mul w a b => simp only [exec]; gb x hx; gb y hy; exact resGood_bindShow σ g _ _ (opInv_hMul σ x y g.heap (get_valid rv hx) (get_valid rv hy))
  | div w a b => simp only [exec]; gb x hx; gb y hy; exact resGood_bindShow σ g _ _ (opInv_hDiv σ x y g.heap (get_valid rv hx) (get_valid rv hy))
  | neg w a => simp only [exec]; gb x hx; exact resGood_bindShow σ g _ _ (opInv_hNeg σ x g.heap (get_valid rv hx))
  | ln w a => simp only [exec]; gb x hx; exact resGood_bindShow σ g _ _ (opInv_hLn σ x g.heap (get_valid rv hx))
  | exp w a => simp only [exec]; gb x hx; exact resGood_bindShow σ g _ _ (opInv_hExp σ x g.heap (get_valid rv hx))
  | recip w a => simp only [exec]; gb x hx; exact resGood_bindShow σ g _ _ (opInv_hRecip σ x g.heap (get_valid rv hx))
  | relu w a => simp only [exec]; gb x hx; exact resGood_bindShow σ g _ _ (opInv_hRelu σ x g.heap (get_valid rv hx))
  | sigmoid w a => simp only [exec]; gb x hx; exact resGood_bindShow σ g _ _ (opInv_hSigmoid σ x g.heap (get_valid rv hx))
  | softmax w a => simp only [exec]; gb x hx; exact resGood_bindShow σ g _ _ (opInv_hSoftmax σ x g.heap (get_valid rv hx))
  | scale w a s => simp only [exec]; gb x hx; exact resGood_bindShow σ g _ _ (opInv_hScale σ x s g.heap (get_valid rv hx))
  | powf w a e => simp only [exec]; gb x hx; exact resGood_bindShow σ g _ _ (opInv_hPowf σ x e g.heap (get_valid rv hx))
  | sum w a k => simp only [exec]; gb x hx; exact resGood_bindShow σ g _ _ (opInv_hSum σ x k g.heap (get_valid rv hx))
  | sumall a => simp only [exec]; gb x hx; gp
  | reshape w a dims => simp only [exec]; gb x hx; exact resGood_bindShow σ g _ _ (opInv_hReshape σ x dims g.heap (get_valid rv hx))
  | axpy w s a b => simp only [exec]; gb x hx; gb y hy; exact resGood_bindShow σ g _ _ (opInv_hAxpy σ s x y g.heap (get_valid rv hx) (get_valid rv hy))
  | matmul w a ta b tb c =>
    simp only [exec]
    split
    · gb q hq; gb ch hch; gb x hx; gb y hy
      refine resGood_bindShow σ g _ _ (opInv_hMatmul σ x ta y tb ch g.heap (get_valid rv hx) (get_valid rv hy) ?_)
      intro z hz
      simp only [pure, Except.pure, Except.ok.injEq] at hch
      subst hch; cases hz; exact get_valid rv hq
    · gb ch hch; gb x hx; gb y hy
      refine resGood_bindShow σ g _ _ (opInv_hMatmul σ x ta y tb ch g.heap (get_valid rv hx) (get_valid rv hy) ?_)
      intro z hz
      simp only [pure, Except.pure, Except.ok.injEq] at hch
      subst hch; cases hz
  | conv w a f sr sc => simp only [exec]; gb x hx; gb y hy; exact resGood_bindShow σ g _ _ (opInv_hConv σ x y sr sc g.heap (get_valid rv hx) (get_valid rv hy))
  | cop kind w args => simp only [exec]; gb hs hhs; exact resGood_bindShow σ g _ _ (opInv_hCustom σ kind w hs g.heap (mapR_get_valid rv args hs hhs))
  | backward v seed =>
    simp only [exec]; gb h hh
    split
    · gb sh hsh; gb s hs; gb σ1 h1
      exact resGood_pure _ _ (good_backward g (get_valid rv hh) _ h1)
    · gb s hs; gb σ1 h1
      exact resGood_pure _ _ (good_backward g (get_valid rv hh) _ h1)
  | backwardc v seed =>
    simp only [exec]; gb h hh; gb s hs; gb σ1 h1
    exact resGood_pure _ _ (good_backward g (get_valid rv hh) _ h1)
  | grad v => simp only [exec]; gb h hh; split <;> gp
  | takegrad w v =>
    simp only [exec]; gb h hh; split
    · exact resGood_bindShow σ g _ _ (good_leaf σ g _)
    · exact resGood_throw _
  | cleargrad v => simp only [exec]; gb h hh; exact resGood_pure _ _ (good_setGrad g _ _)
  | setgrad v w => simp only [exec]; gb h hh; gb k hk; exact resGood_pure _ _ (good_setGrad g _ _)
  | «show» v => simp only [exec]; gb h hh; gp
  | idx v i => simp only [exec]; gb h hh; gb x hx; gp
  | idxflat v i => simp only [exec]; gb h hh; gb x hx; gp
  | convat a f sr sc i => simp only [exec]; gb h hh; gb x hx; split; gp; exact resGood_throw _
  | matmulat a ta b tb c i =>
    simp only [exec]; gb h hh; gb x hx
    cases c with
    | none => simp only [pure, Except.pure, bind, Except.bind]; split; gp; exact resGood_throw _
    | some c => simp only []; gb y hy; simp only [pure, Except.pure, bind, Except.bind]; split; gp; exact resGood_throw _
  | eq a b => simp only [exec]; gb h hh; gb x hx; gp
  | same a b => simp only [exec]; gb h hh; gb x hx; gp
  | samegrad a b => simp only [exec]; gb h hh; gb x hx; gp
  | lin c al a be b => simp only [exec]; gb h hh; gb x hx; gb y hy; gp
  | sumgrad c parts => simp only [exec]; gb h hh; gb x hx; gp
  | probe v => simp only [exec]; gb h hh; gp
  | flags v => simp only [exec]; gb h hh; gp
  | probekid v i => simp only [exec]; gb h hh; split; split; gp; gp; gp
  | own v => simp only [exec]; gb h hh; split; exact resGood_pure _ _ (good_erase g v); exact resGood_throw _
  | log => simp only [exec]; gp
  | gdupdate lr vs =>
    simp only [exec]; gb hs hhs; gb r hr
    obtain ⟨σ1, hs'⟩ := r
    exact resGood_pure _ _ (good_gdUpdate_bind g lr vs hs hs' hhs hr)
  | gd gname lr => simp only [exec]; exact resGood_pure _ _ (good_insert_model g _ _ (by simp))
  | gdstep gname vs =>
    simp only [exec]
    split
    · gb hs hhs; gb r hr
      obtain ⟨σ1, hs'⟩ := r
      exact resGood_pure _ _ (good_gdUpdate_bind g _ vs hs hs' hhs hr)
    · exact resGood_throw _
  | cost w c o t =>
    simp only [exec]; gb x hx; gb y hy
    cases c
    · exact resGood_bindShow σ g _ _ (opInv_hMse σ x y g.heap (get_valid rv hx) (get_valid rv hy))
    · exact resGood_bindShow σ g _ _ (opInv_hXent σ x y g.heap (get_valid rv hx) (get_valid rv hy))
  | dense l inp out act w b =>
    simp only [exec]; gb wt hwt; gb bt hbt
    obtain ⟨hi1, hv1, m1⟩ := heapInv_alloc σ g.heap wt [] none false "" (by simp) (by simp)
    obtain ⟨hi2, hv2, m2⟩ := heapInv_alloc _ hi1 bt [] none false "" (by simp) (by simp)
    refine resGood_pure _ _ (good_insert_layer ⟨hi2, rootsValid_mono g.roots (m1.trans m2)⟩ l _ ?_)
    intro x hx
    simp only [layerParams, List.mem_cons, List.not_mem_nil, or_false] at hx
    rcases hx with rfl | rfl
    · exact m2.valid hv1
    · exact hv2
  | convl l f d r c sr sc act w b =>
    simp only [exec]; gb wt hwt; gb bt hbt
    obtain ⟨hi1, hv1, m1⟩ := heapInv_alloc σ g.heap wt [] none false "" (by simp) (by simp)
    obtain ⟨hi2, hv2, m2⟩ := heapInv_alloc _ hi1 bt [] none false "" (by simp) (by simp)
    refine resGood_pure _ _ (good_insert_layer ⟨hi2, rootsValid_mono g.roots (m1.trans m2)⟩ l _ ?_)
    intro x hx
    simp only [layerParams, List.mem_cons, List.not_mem_nil, or_false] at hx
    rcases hx with rfl | rfl
    · exact m2.valid hv1
    · exact hv2
  | lflag l which tr =>
    simp only [exec]
    split
    · rename_i lay hl
      split
      · rename_i a b hab
        obtain ⟨k, hk⟩ := lookup_mem _ _ _ hl
        have hva : a.Valid σ := rv.layers _ hk a (by rw [hab]; simp)
        have hvb : b.Valid σ := rv.layers _ hk b (by rw [hab]; simp)
        refine resGood_pure _ _ (good_insert_layer g l _ ?_)
        intro x hx
        rcases setLayerParams_sub lay _ _ x hx with rfl | rfl
        · split
          · exact hva
          · exact hva
        · split
          · exact hvb
          · exact hvb
      · exact resGood_throw _
    · exact resGood_throw _
  | lfwd w l a =>
    simp only [exec]
    split
    · rename_i lay hl
      gb x hx
      obtain ⟨k', hk⟩ := lookup_mem _ _ _ hl
      exact resGood_bindShow σ g _ _ (opInv_layerForward σ lay x g.heap (get_valid rv hx) (g.roots.layers _ hk))
    · exact resGood_throw _
  | model m cost lr layers => simp only [exec]; exact resGood_pure _ _ (good_insert_model g _ _ (by simp))
  | fwd w m a =>
    simp only [exec]
    split
    · gb x hx; gb r hr
      obtain ⟨σ1, out⟩ := r
      obtain ⟨g1, hv1, m1⟩ := good_foldlM_layers _ σ x σ1 out g (get_valid rv hx) hr
      refine resGood_pure _ _ (good_bind (good_insert_model g1 m _ ?_) w hv1)
      intro z hz; simp at hz; subst hz; exact hv1
    · exact resGood_throw _
  | bwd m t =>
    simp only [exec]
    split
    · rename_i mr hm
      split
      · rename_i out ho
        obtain ⟨k', hk⟩ := lookup_mem _ _ _ hm
        have hvo := g.roots.models _ hk out ho
        gb x hx
        split
        · gb r hr
          obtain ⟨σ1, err⟩ := r
          gb σ2 h2
          have h3 := opInv_hMse σ out x g.heap hvo (get_valid rv hx) σ1 err hr
          exact resGood_pure _ _ (good_backward (good_of_op g h3) h3.2.1 _ h2)
        · gb r hr
          obtain ⟨σ1, err⟩ := r
          gb σ2 h2
          have h3 := opInv_hXent σ out x g.heap hvo (get_valid rv hx) σ1 err hr
          exact resGood_pure _ _ (good_backward (good_of_op g h3) h3.2.1 _ h2)
      · exact resGood_throw _
    · exact resGood_throw _
  | update m =>
    simp only [exec]
    split
    · rename_i mr hm
      gb r hr
      obtain ⟨σ1, ps'⟩ := r
      obtain ⟨a, b, c⟩ := gdUpdate_inv σ σ1 mr.lr _ ps' g.heap (modelParams_valid σ rv mr.layers) hr
      exact resGood_pure _ _ (good_putParams _ σ1 ps' ⟨a, rootsValid_mono g.roots b⟩ c)
    · exact resGood_throw _
  | params m =>
    simp only [exec]
    split
    · gp
    · split
      · gp
      · exact resGood_throw _
  | ifgt v c n => simp only [exec]; gb h hh; gb x hx; gp
  | snapshot => simp only [exec]; gp

theorem step_good (σ : State S) (g : Good σ) (c : Cmd S) : Good (step σ c).1 := by
  unfold step
  cases h : exec σ c with
  | error p => exact g
  | ok r => obtain ⟨σ', o⟩ := r; exact exec_good σ g c σ' o h

theorem good_init : Good ({} : State S) :=
  ⟨⟨⟨rfl, rfl, rfl⟩, by intro n r h; simp at h, by intro n r t h; simp at h, by intro n r h; simp at h,
    ⟨fun i => by simp, fun i => by simp⟩⟩,
   ⟨by intro p hp; simp at hp, by intro p hp; simp at hp, by intro p hp; simp at hp⟩⟩

/-- the state after a history of commands from the empty program -/
def run (cs : List (Cmd S)) (σ : State S := {}) : State S := cs.foldl (fun s c => (step s c).1) σ

/-- **Every reachable state is good.** -/
theorem run_good (cs : List (Cmd S)) : ∀ σ : State S, Good σ → Good (run cs σ) := by
  induction cs with
  | nil => intro σ g; exact g
  | cons c cs ih => intro σ g; exact ih _ (step_good σ g c)

theorem reachable_good (cs : List (Cmd S)) : Good (run cs ({} : State S)) := run_good cs _ good_init

end Corgi
