/-
  CorgiProofs.Optim — `GradientDescent::update` is one step per parameter (C13).
-/
import CorgiModel.Program
import CorgiSpec.Index

set_option linter.unusedSectionVars false

namespace Corgi
variable {S : Type} [Add S] [Mul S] [Neg S] [Sub S] [ScalarOps S] [BEq S]

def gradOf (σ : State S) (p : Handle) : Option (Tensor S) := σ.grad.getD p.node none

theorem gradOf_setGrad_ne (σ : State S) (n : Nat) (g : Option (Tensor S)) (q : Handle) (h : q.node ≠ n) :
    gradOf (σ.setGrad n g) q = gradOf σ q := by
  simp only [gradOf, State.setGrad, Array.getD_eq_getD_getElem?]
  rw [Array.getElem?_setIfInBounds_ne (fun e => h e.symm)]

theorem tensorOf_setGrad (σ : State S) (n : Nat) (g : Option (Tensor S)) (q : Handle) :
    (σ.setGrad n g).tensorOf q = σ.tensorOf q := rfl

/-- values and gradient values of the parameters that hold a gradient, in order -/
def unfrozenBlocks (σ : State S) : List Handle → List (List S × List S)
  | [] => []
  | p :: ps => match gradOf σ p with
    | none => unfrozenBlocks σ ps
    | some g => ((σ.tensorOf p).vals, g.vals) :: unfrozenBlocks σ ps

theorem unfrozenBlocks_setGrad (σ : State S) (n : Nat) :
    ∀ (ps : List Handle), (∀ q ∈ ps, q.node ≠ n) → unfrozenBlocks (σ.setGrad n none) ps = unfrozenBlocks σ ps
  | [], _ => rfl
  | p :: ps, h => by
    simp only [unfrozenBlocks, gradOf_setGrad_ne σ n none p (h p (by simp)), tensorOf_setGrad]
    rw [unfrozenBlocks_setGrad σ n ps (fun q hq => h q (by simp [hq]))]

/-- **Gathering.**  With pairwise distinct parameter nodes: the frozen mask says exactly which
    parameters have no gradient, and the two flat buffers are the concatenations, in order, of the
    values and of the gradient values of the others; buffers are untouched. -/
theorem gdGather_spec : ∀ (ps : List Handle) (σ : State S), (ps.map (·.node)).Nodup →
    (gdGather σ ps).2.1 = ps.map (fun p => (gradOf σ p).isNone) ∧
    (gdGather σ ps).2.2.1 = (unfrozenBlocks σ ps).flatMap (·.1) ∧
    (gdGather σ ps).2.2.2 = (unfrozenBlocks σ ps).flatMap (·.2) ∧
    (gdGather σ ps).1.bufs = σ.bufs ∧
    (∀ q, (∀ p ∈ ps, p.node ≠ q.node) → gradOf (gdGather σ ps).1 q = gradOf σ q) ∧
    (∀ p ∈ ps, gradOf (gdGather σ ps).1 p = none)
  | [], σ, _ => by simp [gdGather, unfrozenBlocks]
  | p :: ps, σ, hnd => by
    simp only [List.map_cons, List.nodup_cons, List.mem_map, not_exists, not_and] at hnd
    obtain ⟨hp, hnd'⟩ := hnd
    have hne : ∀ q ∈ ps, q.node ≠ p.node := fun q hq e => hp q hq e
    cases hg : σ.grad.getD p.node none with
    | none =>
      have ih := gdGather_spec ps σ hnd'
      have hg' : gradOf σ p = none := hg
      simp only [gdGather, hg, unfrozenBlocks, hg', List.map_cons, Option.isNone_none]
      refine ⟨by rw [ih.1], ih.2.1, ih.2.2.1, ih.2.2.2.1, ?_, ?_⟩
      · intro q hq; exact ih.2.2.2.2.1 q (fun r hr => hq r (by simp [hr]))
      · intro r hr
        simp at hr
        rcases hr with rfl | hr
        · rw [ih.2.2.2.2.1 r (fun t ht => hne t ht)]; exact hg'
        · exact ih.2.2.2.2.2 r hr
    | some g =>
      have ih := gdGather_spec ps (σ.setGrad p.node none) hnd'
      have hg' : gradOf σ p = some g := hg
      simp only [gdGather, hg, unfrozenBlocks, hg', List.map_cons, Option.isNone_some, List.flatMap_cons]
      have hub := unfrozenBlocks_setGrad σ p.node ps hne
      have hmask : ps.map (fun q => (gradOf (σ.setGrad p.node none) q).isNone) = ps.map (fun q => (gradOf σ q).isNone) := by
        apply List.map_congr_left
        intro q hq
        rw [gradOf_setGrad_ne σ p.node none q (hne q hq)]
      refine ⟨by rw [ih.1, hmask], by rw [ih.2.1, hub], by rw [ih.2.2.1, hub], by rw [ih.2.2.2.1]; rfl, ?_, ?_⟩
      · intro q hq
        rw [ih.2.2.2.2.1 q (fun r hr => hq r (by simp [hr]))]
        exact gradOf_setGrad_ne σ p.node none q (fun e => hq p (by simp) e.symm)
      · intro r hr
        simp at hr
        rcases hr with rfl | hr
        · rw [ih.2.2.2.2.1 r (fun t ht => hne t ht)]
          simp only [gradOf, State.setGrad, Array.getD_eq_getD_getElem?]
          by_cases hb : r.node < σ.grad.size
          · rw [Array.getElem?_setIfInBounds_self_of_lt hb]; rfl
          · rw [Array.getElem?_eq_none (by simp; omega)]; rfl
        · exact ih.2.2.2.2.2 r hr

end Corgi

namespace Corgi
variable {S : Type} [Add S] [Mul S] [Neg S] [Sub S] [ScalarOps S] [BEq S]

/-- what draining is supposed to do: one fresh tracked array per unfrozen parameter, holding its block -/
def drainSpec (σ : State S) : List Handle → List Bool → List (List S) → State S × List Handle
  | p :: ps, true :: fs, blocks =>
    let r := drainSpec σ ps fs blocks
    (r.1, p :: r.2)
  | p :: ps, false :: fs, b :: blocks =>
    let a := σ.alloc ⟨p.dims, b⟩ [] none false
    let r := drainSpec a.1 ps fs blocks
    (r.1, { a.2 with tracked := true, keep := true } :: r.2)
  | _, _, _ => (σ, [])

theorem tensorOf_alloc_old (σ : State S) (t : Tensor S) (q : Handle) (hq : q.buf < σ.bufs.size) :
    (σ.alloc t [] none false).1.tensorOf q = σ.tensorOf q := by
  simp only [State.tensorOf, State.alloc, Array.getD_eq_getD_getElem?]
  rw [Array.getElem?_push_lt hq, Array.getElem?_eq_getElem hq]

theorem mk?_ok (d : List Nat) (v : List S) (h1 : ∀ x ∈ d, 1 ≤ x) (h2 : prod d = v.length) :
    Tensor.mk? d v = .ok ⟨d, v⟩ := by
  unfold Tensor.mk?
  have : d.all (fun x => decide (1 ≤ x)) = true := by simpa using h1
  simp [this, h2, pure, Except.pure]

/-- the blocks line up with the unfrozen parameters, each with its parameter's element count -/
def BlocksFit : List Handle → List Bool → List (List S) → Prop
  | [], [], [] => True
  | _ :: ps, true :: fs, bl => BlocksFit ps fs bl
  | p :: ps, false :: fs, b :: bl => b.length = prod p.dims ∧ BlocksFit ps fs bl
  | _, _, _ => False

/-- **Draining** refines `drainSpec` when every block has its parameter's size. -/
theorem gdDrain_spec : ∀ (ps : List Handle) (fs : List Bool) (blocks : List (List S)) (σ : State S),
    BlocksFit ps fs blocks → (∀ p ∈ ps, p.buf < σ.bufs.size) →
    (∀ p ∈ ps, (∀ x ∈ p.dims, 1 ≤ x) ∧ prod p.dims = (σ.tensorOf p).vals.length) →
    gdDrain σ ps fs blocks.flatten = .ok (drainSpec σ ps fs blocks)
  | [], [], [], σ, _, _, _ => by simp [gdDrain, drainSpec, pure, Except.pure]
  | [], [], _ :: _, _, h, _, _ => by simp [BlocksFit] at h
  | [], _ :: _, _, _, h, _, _ => by simp [BlocksFit] at h
  | _ :: _, [], _, _, h, _, _ => by simp [BlocksFit] at h
  | p :: ps, true :: fs, blocks, σ, hfit, hbuf, hwf => by
    have ih := gdDrain_spec ps fs blocks σ (by simpa [BlocksFit] using hfit)
      (fun q hq => hbuf q (by simp [hq])) (fun q hq => hwf q (by simp [hq]))
    simp only [gdDrain, if_true, bind, Except.bind, ih, drainSpec, pure, Except.pure]
  | p :: ps, false :: fs, [], σ, h, _, _ => by simp [BlocksFit] at h
  | p :: ps, false :: fs, b :: blocks, σ, hfit, hbuf, hwf => by
    simp only [BlocksFit] at hfit
    have hpw := hwf p (by simp)
    have hb : b.length = (σ.tensorOf p).vals.length := by rw [hfit.1, hpw.2]
    have hnl : ¬ ((b :: blocks).flatten.length < (σ.tensorOf p).vals.length) := by
      simp only [List.flatten_cons, List.length_append]; omega
    have htake : ((b :: blocks).flatten).take (σ.tensorOf p).vals.length = b := by
      rw [List.flatten_cons, ← hb, List.take_left']
      rfl
    have hdrop : ((b :: blocks).flatten).drop (σ.tensorOf p).vals.length = blocks.flatten := by
      rw [List.flatten_cons, ← hb, List.drop_left']
      rfl
    have hmk : Tensor.mk? p.dims b = .ok ⟨p.dims, b⟩ := mk?_ok _ _ hpw.1 hfit.1.symm
    let a := σ.alloc (⟨p.dims, b⟩ : Tensor S) [] none false
    have ih := gdDrain_spec ps fs blocks a.1 hfit.2
      (fun q hq => by
        have := hbuf q (by simp [hq])
        simp only [a, State.alloc, Array.size_push]; omega)
      (fun q hq => by
        rw [tensorOf_alloc_old σ _ q (hbuf q (by simp [hq]))]; exact hwf q (by simp [hq]))
    simp only [gdDrain, Bool.false_eq_true, if_false, bind, Except.bind, hnl, htake, hdrop, hmk]
    simp only [a] at ih
    rw [ih]
    simp [drainSpec, pure, Except.pure]

theorem step_blocks (f : S → S → S) :
    ∀ (blocks : List (List S × List S)), (∀ b ∈ blocks, b.1.length = b.2.length) →
      List.zipWith f (blocks.flatMap (·.1)) (blocks.flatMap (·.2)) = (blocks.map (fun b => List.zipWith f b.1 b.2)).flatten
  | [], _ => by simp
  | b :: bs, h => by
    have hb : b.1.length = b.2.length := h b (by simp)
    have ih := step_blocks f bs (fun x hx => h x (by simp [hx]))
    simp only [List.flatMap_cons, List.map_cons, List.flatten_cons]
    rw [List.zipWith_append hb, ih]

theorem flatMap_length_eq (blocks : List (List S × List S)) (h : ∀ b ∈ blocks, b.1.length = b.2.length) :
    (blocks.flatMap (·.1)).length = (blocks.flatMap (·.2)).length := by
  induction blocks with
  | nil => rfl
  | cons b bs ih =>
    simp only [List.flatMap_cons, List.length_append]
    rw [h b (by simp), ih (fun x hx => h x (by simp [hx]))]

/-- the stepped blocks fit the unfrozen parameters -/
theorem blocksFit_stepped (σ : State S) (f : S → S → S) : ∀ (ps : List Handle),
    (∀ p ∈ ps, ∀ g, gradOf σ p = some g → g.vals.length = (σ.tensorOf p).vals.length ∧ prod p.dims = (σ.tensorOf p).vals.length) →
    BlocksFit ps (ps.map (fun p => (gradOf σ p).isNone)) ((unfrozenBlocks σ ps).map (fun b => List.zipWith f b.1 b.2))
  | [], _ => by simp [BlocksFit, unfrozenBlocks]
  | p :: ps, h => by
    have ih := blocksFit_stepped σ f ps (fun q hq => h q (by simp [hq]))
    cases hg : gradOf σ p with
    | none => simpa [unfrozenBlocks, hg, BlocksFit] using ih
    | some g =>
      have := h p (by simp) g hg
      simp only [List.map_cons, hg, Option.isNone_some, unfrozenBlocks, BlocksFit]
      exact ⟨by simp [this.1, this.2], ih⟩

theorem unfrozenBlocks_aligned (σ : State S) : ∀ (ps : List Handle),
    (∀ p ∈ ps, ∀ g, gradOf σ p = some g → g.vals.length = (σ.tensorOf p).vals.length) →
    ∀ b ∈ unfrozenBlocks σ ps, b.1.length = b.2.length
  | [], _, b, hb => by simp [unfrozenBlocks] at hb
  | p :: ps, h, b, hb => by
    have ih := unfrozenBlocks_aligned σ ps (fun q hq => h q (by simp [hq]))
    simp only [unfrozenBlocks] at hb
    cases hg : gradOf σ p with
    | none => rw [hg] at hb; exact ih b hb
    | some g =>
      rw [hg] at hb
      simp only [List.mem_cons] at hb
      rcases hb with rfl | hb
      · exact (h p (by simp) g hg).symm
      · exact ih b hb

/-- **C13.**  For parameters with pairwise distinct nodes, valid handles, and gradients of their own
    length (C03): `update` gathers, steps and drains to exactly `drainSpec` on the blocks
    `old − lr·g` of the parameters that hold a gradient — one fresh tracked array per such parameter,
    every other parameter's handle unchanged, positions never mixed up whatever the number, shapes and
    frozen subset of the parameters. -/
theorem gdUpdate_spec (σ : State S) (lr : S) (ps : List Handle) (hnd : (ps.map (·.node)).Nodup)
    (hbuf : ∀ p ∈ ps, p.buf < σ.bufs.size)
    (hwf : ∀ p ∈ ps, (∀ x ∈ p.dims, 1 ≤ x) ∧ prod p.dims = (σ.tensorOf p).vals.length)
    (halign : ∀ p ∈ ps, ∀ g, gradOf σ p = some g → g.vals.length = (σ.tensorOf p).vals.length) :
    gdUpdate σ lr ps = .ok (drainSpec (gdGather σ ps).1 ps (ps.map (fun p => (gradOf σ p).isNone))
      ((unfrozenBlocks σ ps).map (fun b => List.zipWith (fun x g => x - lr * g) b.1 b.2))) := by
  obtain ⟨hmask, hV, hG, hbufs, _, _⟩ := gdGather_spec ps σ hnd
  have hbl := unfrozenBlocks_aligned σ ps halign
  unfold gdUpdate
  have hlenVG : (gdGather σ ps).2.2.1.length = (gdGather σ ps).2.2.2.length := by
    rw [hV, hG]; exact flatMap_length_eq _ hbl
  have hstep : List.zipWith (fun x g => x - lr * g) (gdGather σ ps).2.2.1 (gdGather σ ps).2.2.2
      ++ (gdGather σ ps).2.2.1.drop (gdGather σ ps).2.2.2.length
      = ((unfrozenBlocks σ ps).map (fun b => List.zipWith (fun x g => x - lr * g) b.1 b.2)).flatten := by
    rw [← hlenVG, List.drop_length, List.append_nil, hV, hG]
    exact step_blocks _ _ hbl
  simp only []
  rw [hstep, hmask]
  apply gdDrain_spec
  · exact blocksFit_stepped σ _ ps (fun p hp g hg => ⟨halign p hp g hg, (hwf p hp).2⟩)
  · intro p hp; rw [hbufs]; exact hbuf p hp
  · intro p hp
    have : (gdGather σ ps).1.tensorOf p = σ.tensorOf p := by simp [State.tensorOf, hbufs]
    rw [this]; exact hwf p hp

end Corgi

namespace Corgi
variable {S : Type} [Add S] [Mul S] [Neg S] [Sub S] [ScalarOps S] [BEq S]

/-- the per-parameter outcome of an update, read in the final state `σ'` -/
def DrainOK (σ' : State S) : List Handle → List Bool → List (List S) → List Handle → Prop
  | [], [], [], [] => True
  | p :: ps, true :: fs, bl, h :: hs => h = p ∧ DrainOK σ' ps fs bl hs
  | p :: ps, false :: fs, b :: bl, h :: hs =>
    (h.dims = p.dims ∧ h.tracked = true ∧ h.keep = true ∧ σ'.tensorOf h = ⟨p.dims, b⟩ ∧
      σ'.grad.getD h.node none = none ∧ (σ'.nodes[h.node]?).map (·.kids) = some []) ∧ DrainOK σ' ps fs bl hs
  | _, _, _, _ => False

/-- later allocations do not disturb what an earlier handle denotes -/
structure Ext (σ σ' : State S) : Prop where
  bufs : ∀ i, i < σ.bufs.size → σ'.bufs[i]? = σ.bufs[i]?
  grad : ∀ i, i < σ.grad.size → σ'.grad[i]? = σ.grad[i]?
  nodes : ∀ i, i < σ.nodes.size → σ'.nodes[i]? = σ.nodes[i]?
  sizes : σ.bufs.size ≤ σ'.bufs.size ∧ σ.grad.size ≤ σ'.grad.size ∧ σ.nodes.size ≤ σ'.nodes.size
  inv : σ.grad.size = σ.nodes.size → σ'.grad.size = σ'.nodes.size

theorem Ext.refl (σ : State S) : Ext σ σ := ⟨fun _ _ => rfl, fun _ _ => rfl, fun _ _ => rfl, ⟨Nat.le_refl _, Nat.le_refl _, Nat.le_refl _⟩, id⟩

theorem Ext.trans {a b c : State S} (h1 : Ext a b) (h2 : Ext b c) : Ext a c :=
  ⟨fun i hi => by rw [h2.bufs i (by have := h1.sizes.1; omega), h1.bufs i hi],
   fun i hi => by rw [h2.grad i (by have := h1.sizes.2.1; omega), h1.grad i hi],
   fun i hi => by rw [h2.nodes i (by have := h1.sizes.2.2; omega), h1.nodes i hi],
   ⟨Nat.le_trans h1.sizes.1 h2.sizes.1, Nat.le_trans h1.sizes.2.1 h2.sizes.2.1, Nat.le_trans h1.sizes.2.2 h2.sizes.2.2⟩,
   fun h => h2.inv (h1.inv h)⟩

theorem Ext.alloc (σ : State S) (t : Tensor S) : Ext σ (σ.alloc t [] none false).1 := by
  refine ⟨?_, ?_, ?_, ?_, ?_⟩
  · intro i hi; simp only [State.alloc]; rw [Array.getElem?_push_lt hi, Array.getElem?_eq_getElem hi]
  · intro i hi; simp only [State.alloc]; rw [Array.getElem?_push_lt hi, Array.getElem?_eq_getElem hi]
  · intro i hi; simp only [State.alloc]; rw [Array.getElem?_push_lt hi, Array.getElem?_eq_getElem hi]
  · simp [State.alloc]
  · intro h; simp [State.alloc, h]

theorem drainSpec_ext : ∀ (ps : List Handle) (fs : List Bool) (bl : List (List S)) (σ : State S),
    Ext σ (drainSpec σ ps fs bl).1
  | [], _, _, σ => by simp [drainSpec]; exact Ext.refl σ
  | _ :: _, [], _, σ => by simp [drainSpec]; exact Ext.refl σ
  | p :: ps, true :: fs, bl, σ => by simp only [drainSpec]; exact drainSpec_ext ps fs bl σ
  | p :: ps, false :: fs, [], σ => by simp [drainSpec]; exact Ext.refl σ
  | p :: ps, false :: fs, b :: bl, σ => by
    simp only [drainSpec]
    exact (Ext.alloc σ ⟨p.dims, b⟩).trans (drainSpec_ext ps fs bl _)

/-- **Every parameter gets exactly its own step**: frozen parameters keep their handle; each unfrozen
    parameter becomes a fresh leaf (no stored operands, no gradient) with the same dimensions, both
    flags set, holding its own block. -/
theorem drainSpec_ok : ∀ (ps : List Handle) (fs : List Bool) (bl : List (List S)) (σ : State S),
    BlocksFit ps fs bl → σ.grad.size = σ.nodes.size →
    DrainOK (drainSpec σ ps fs bl).1 ps fs bl (drainSpec σ ps fs bl).2
  | [], [], [], σ, _, _ => by simp [drainSpec, DrainOK]
  | [], [], _ :: _, _, h, _ => by simp [BlocksFit] at h
  | [], _ :: _, _, _, h, _ => by simp [BlocksFit] at h
  | _ :: _, [], _, _, h, _ => by simp [BlocksFit] at h
  | p :: ps, true :: fs, bl, σ, hfit, hsz => by
    simp only [drainSpec, DrainOK]
    exact ⟨trivial, drainSpec_ok ps fs bl σ (by simpa [BlocksFit] using hfit) hsz⟩
  | p :: ps, false :: fs, [], σ, h, _ => by simp [BlocksFit] at h
  | p :: ps, false :: fs, b :: bl, σ, hfit, hsz => by
    simp only [BlocksFit] at hfit
    simp only [drainSpec, DrainOK]
    let a := σ.alloc (⟨p.dims, b⟩ : Tensor S) [] none false
    have hsz1 : a.1.grad.size = a.1.nodes.size := (Ext.alloc σ _).inv hsz
    have hext := drainSpec_ext ps fs bl a.1
    refine ⟨⟨rfl, trivial, trivial, ?_, ?_, ?_⟩, drainSpec_ok ps fs bl a.1 hfit.2 hsz1⟩
    · -- the new buffer survives later allocations
      have hb : σ.bufs.size < a.1.bufs.size := by simp [a, State.alloc]
      have := hext.bufs σ.bufs.size hb
      simp only [State.tensorOf, Array.getD_eq_getD_getElem?]
      show Tensor.mk p.dims (((drainSpec a.1 ps fs bl).1.bufs[σ.bufs.size]?).getD []) = _
      rw [this]
      simp [a, State.alloc]
    · have hn : σ.nodes.size < a.1.grad.size := by simp [a, State.alloc, hsz]
      have := hext.grad σ.nodes.size hn
      simp only [Array.getD_eq_getD_getElem?]
      show ((drainSpec a.1 ps fs bl).1.grad[σ.nodes.size]?).getD none = none
      rw [this]
      simp [a, State.alloc, ← hsz]
    · have hn : σ.nodes.size < a.1.nodes.size := by simp [a, State.alloc]
      have := hext.nodes σ.nodes.size hn
      show ((drainSpec a.1 ps fs bl).1.nodes[σ.nodes.size]?).map (·.kids) = some []
      rw [this]
      simp [a, State.alloc]

end Corgi
