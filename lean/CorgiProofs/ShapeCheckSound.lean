/-
  CorgiProofs.ShapeCheckSound — the executable check decides the theorem's hypothesis:
  `shapeOKb σ = true → ShapeOK σ`.
-/
import CorgiProofs.LinearHeap
import CorgiSpec.ShapeCheck

set_option linter.unusedSectionVars false
set_option linter.unusedVariables false

namespace Corgi
variable {S : Type} [Add S] [Mul S] [Neg S] [Sub S] [ScalarOps S] [BEq S]

theorem wfB_sound {a : Tensor S} (h : wfB a = true) : a.WF := by
  simp only [wfB, Bool.and_eq_true, List.all_eq_true, decide_eq_true_eq, beq_iff_eq] at h
  exact ⟨h.1, h.2⟩

theorem operandOKB_sound {a : Tensor S} (h : operandOKB a = true) : OperandOK a := by
  simp only [operandOKB, Bool.and_eq_true, Bool.not_eq_true', List.isEmpty_eq_false_iff] at h
  exact ⟨wfB_sound h.1, h.2⟩

theorem dimsOKB_sound {d : List Nat} (h : dimsOKB d = true) : DimsOK d := by
  simp only [dimsOKB, Bool.and_eq_true, Bool.not_eq_true', List.isEmpty_eq_false_iff, List.all_eq_true,
    decide_eq_true_eq] at h
  exact h

theorem fitsRevB_eq : ∀ a D : List Nat, fitsRevB a D = fitsRev a D
  | [], _ => rfl
  | _ :: _, [] => rfl
  | d :: ds, e :: es => by simp [fitsRevB, fitsRev, fitsRevB_eq ds es]

theorem fitsB_eq (a D : List Nat) : fitsB a D = Fits a D := by simp [fitsB, Fits, fitsRevB_eq]

theorem split2_sound {d l : List Nat} {p q : Nat} (h : split2 d = some (l, p, q)) : d = l ++ [p, q] := by
  unfold split2 at h
  split at h
  · rename_i q' p' rl hr
    simp only [Option.some.injEq, Prod.mk.injEq] at h
    obtain ⟨rfl, rfl, rfl⟩ := h
    have := congrArg List.reverse hr
    simpa using this
  · cases h

theorem split3_sound {d l : List Nat} {p q r : Nat} (h : split3 d = some (l, p, q, r)) : d = l ++ [p, q, r] := by
  unfold split3 at h
  split at h
  · rename_i r' q' p' rl hr
    simp only [Option.some.injEq, Prod.mk.injEq] at h
    obtain ⟨rfl, rfl, rfl, rfl⟩ := h
    have := congrArg List.reverse hr
    simpa using this
  · cases h

theorem tagShapeB_sound (tag : OpTag S) (c : List (Tensor S)) (self : Tensor S) (nd : List Nat)
    (h : tagShapeB tag c self nd = true) : TagShape tag c self nd := by
  have bin : ∀ {c : List (Tensor S)}, (match c with
      | [a, b] => operandOKB a && operandOKB b && Compat a.dims b.dims && (nd == bdims a.dims b.dims)
      | _ => false) = true →
      ∃ a b, c = [a, b] ∧ OperandOK a ∧ OperandOK b ∧ Compat a.dims b.dims = true ∧ nd = bdims a.dims b.dims := by
    intro c h
    split at h
    · rename_i a b
      simp only [Bool.and_eq_true, beq_iff_eq] at h
      exact ⟨a, b, rfl, operandOKB_sound h.1.1.1, operandOKB_sound h.1.1.2, h.1.2, h.2⟩
    · cases h
  have un : ∀ {c : List (Tensor S)}, (match c with
      | [a] => operandOKB a && (nd == a.dims)
      | _ => false) = true → ∃ a, c = [a] ∧ OperandOK a ∧ nd = a.dims := by
    intro c h
    split at h
    · rename_i a
      simp only [Bool.and_eq_true, beq_iff_eq] at h
      exact ⟨a, rfl, operandOKB_sound h.1, h.2⟩
    · cases h
  have unS : ∀ {c : List (Tensor S)}, (match c with
      | [a] => operandOKB a && (nd == a.dims) && (self.vals.length == prod nd)
      | _ => false) = true → ∃ a, c = [a] ∧ OperandOK a ∧ nd = a.dims ∧ self.vals.length = prod nd := by
    intro c h
    split at h
    · rename_i a
      simp only [Bool.and_eq_true, beq_iff_eq] at h
      exact ⟨a, rfl, operandOKB_sound h.1.1, h.1.2, h.2⟩
    · cases h
  cases tag with
  | add => exact bin h
  | mul => exact bin h
  | div => exact bin h
  | neg => exact un h
  | scale s => exact un h
  | powf e => exact un h
  | ln => exact un h
  | recip => exact un h
  | relu => exact un h
  | exp => exact unS h
  | sigmoid => exact unS h
  | reshape =>
    simp only [tagShapeB] at h
    split at h
    · rename_i a
      simp only [Bool.and_eq_true, beq_iff_eq] at h
      exact ⟨a, rfl, operandOKB_sound h.1.1, dimsOKB_sound h.1.2, h.2⟩
    · cases h
  | sum k =>
    simp only [tagShapeB] at h
    split at h
    · rename_i a
      simp only [Bool.and_eq_true, beq_iff_eq, decide_eq_true_eq] at h
      exact ⟨a, rfl, operandOKB_sound h.1.1.1, h.1.1.2, h.1.2, h.2⟩
    · cases h
  | matmul ta tb =>
    simp only [tagShapeB] at h
    split at h
    · rename_i a b cc
      split at h
      · rename_i la a1 a2 lb b1 b2 ha hb
        simp only [Bool.and_eq_true, beq_iff_eq, List.all_eq_true, decide_eq_true_eq] at h
        obtain ⟨⟨⟨⟨⟨⟨h1, h2⟩, h3⟩, h4⟩, h5⟩, h6⟩, h7⟩ := h
        exact ⟨a, b, cc, la, lb, a1, a2, b1, b2, rfl, split2_sound ha, split2_sound hb, wfB_sound h1, wfB_sound h2, h3,
          h4, h5, by rw [← fitsB_eq]; exact h6, h7⟩
      · cases h
    · cases h
  | unroll D R C sr sc fr fc =>
    simp only [tagShapeB] at h
    split at h
    · rename_i a
      split at h
      · rename_i B D' R' C' ha
        simp only [Bool.and_eq_true, beq_iff_eq, decide_eq_true_eq] at h
        obtain ⟨⟨⟨⟨⟨⟨⟨⟨⟨⟨h1, h2⟩, h3⟩, h4⟩, h5⟩, h6⟩, h7⟩, h8⟩, h9⟩, h10⟩, h11⟩ := h
        subst h1 h2 h3
        exact ⟨a, B, rfl, split3_sound ha, wfB_sound h4, h5, h6, h7, h8, h9, h10, h11⟩
      · cases h
    · cases h
  | expand =>
    simp only [tagShapeB] at h
    split at h
    · rename_i a
      split at h
      · rename_i B w f B' f' rC cC ha hn
        simp only [Bool.and_eq_true, beq_iff_eq, decide_eq_true_eq] at h
        obtain ⟨⟨⟨⟨⟨h1, h2⟩, h3⟩, h4⟩, h5⟩, h6⟩ := h
        subst h1 h2
        exact ⟨a, B', w, f', rC, cC, rfl, split2_sound ha, wfB_sound h3, h4, h5, h6, split3_sound hn⟩
      · cases h
    · cases h
  | custom k =>
    simp only [tagShapeB] at h
    split at h
    · rename_i hk
      subst hk
      exact un h
    · cases h

/-- **the executable check is sound** -/
theorem shapeOKb_sound (σ : State S) (h : shapeOKb σ = true) : ShapeOK σ := by
  have hall : ∀ (n : Nat) (r : NodeRec S), σ.nodes[n]? = some r → nodeOKB σ r = true := by
    intro n r hn
    simp only [shapeOKb, List.all_eq_true] at h
    apply h
    have hlt : n < σ.nodes.size := by
      rcases Nat.lt_or_ge n σ.nodes.size with h' | h'
      · exact h'
      · rw [Array.getElem?_eq_none h'] at hn; cases hn
    rw [Array.getElem?_eq_getElem hlt] at hn
    cases hn
    exact Array.getElem_mem_toList hlt
  refine ⟨?_, ?_, ?_⟩
  · intro n r hn
    have := hall n r hn
    simp only [nodeOKB, Bool.and_eq_true] at this
    exact dimsOKB_sound this.1.1
  · intro n r hn k hk
    have := hall n r hn
    simp only [nodeOKB, Bool.and_eq_true, List.all_eq_true] at this
    have hk' := this.1.2 k hk
    split at hk'
    · rename_i rk hrk
      exact ⟨rk, hrk, by simpa using hk'⟩
    · cases hk'
  · intro n r tag hn hop
    have := hall n r hn
    simp only [nodeOKB, Bool.and_eq_true, hop] at this
    exact tagShapeB_sound tag _ _ _ this.2

end Corgi
