/-
  CorgiProofs.Composite — the handle-level composites the command interpreter actually runs
  (subtraction, axpy, softmax, conv, the costs) compute the tensor-level functions that the value
  theorems (C04, C06, C07, C15) are stated about: whenever the executed pipeline returns a handle, the
  tensor it denotes is the tensor-level function's result.
-/
import CorgiProofs.Frame

set_option linter.unusedSectionVars false
set_option linter.unusedVariables false

namespace Corgi
variable {S : Type} [Add S] [Mul S] [Neg S] [Sub S] [ScalarOps S] [BEq S]

theorem tensorOf_ext {σ σ' : State S} (hx : BufExt σ σ') (h : Handle) (hb : h.buf < σ.bufs.size) :
    σ'.tensorOf h = σ.tensorOf h := by
  simp only [State.tensorOf, Array.getD_eq_getD_getElem?, hx h.buf hb]

theorem tensorOf_alloc_new' (σ : State S) (t : Tensor S) (kids : List Handle) (tag : Option (OpTag S)) (attach : Bool)
    (label : String) : (σ.alloc t kids tag attach label).1.tensorOf (σ.alloc t kids tag attach label).2 = t := by
  simp [State.alloc, State.tensorOf, Array.getD_eq_getD_getElem?]

theorem alloc_buf_lt (σ : State S) (t : Tensor S) (kids : List Handle) (tag : Option (OpTag S)) (attach : Bool)
    (label : String) : (σ.alloc t kids tag attach label).2.buf < (σ.alloc t kids tag attach label).1.bufs.size := by
  simp [State.alloc]

/-- the executed operation `r` returns a handle denoting the value of the tensor-level computation `X`;
    it only extends the buffers, and the result's buffer exists -/
def Sound (σ : State S) (r : R (State S × Handle)) (X : R (Tensor S)) : Prop :=
  ∀ σ' h, r = .ok (σ', h) → X = .ok (σ'.tensorOf h) ∧ BufExt σ σ' ∧ h.buf < σ'.bufs.size

theorem sound_alloc (σ : State S) (t : Tensor S) (kids : List Handle) (tag : Option (OpTag S)) (attach : Bool) (label : String) :
    Sound σ (pure (σ.alloc t kids tag attach label)) (.ok t) := by
  intro σ' h e
  simp only [pure, Except.pure, Except.ok.injEq] at e
  have h1 := tensorOf_alloc_new' σ t kids tag attach label
  have h2 := bufExt_alloc σ t kids tag attach label
  have h3 := alloc_buf_lt σ t kids tag attach label
  rw [e] at h1 h2 h3
  exact ⟨by rw [h1], h2, h3⟩

theorem sound_hEwise (tag : OpTag S) (f : Tensor S → Tensor S → R (Tensor S)) (σ : State S) (a b : Handle) :
    Sound σ (hEwise tag f σ a b) (f (σ.tensorOf a) (σ.tensorOf b)) := by
  intro σ' h e
  simp only [hEwise, bind, Except.bind] at e
  cases hf : f (σ.tensorOf a) (σ.tensorOf b) with
  | error x => simp [hf] at e
  | ok t => simp only [hf] at e; exact sound_alloc σ t _ _ _ _ σ' h e

theorem sound_hUnary (tag : OpTag S) (f : Tensor S → Tensor S) (σ : State S) (a : Handle) :
    Sound σ (hUnary tag f σ a) (.ok (f (σ.tensorOf a))) := sound_alloc σ _ _ _ _ _

theorem sound_hSum (σ : State S) (a : Handle) (k : Nat) (ha : a.buf < σ.bufs.size) :
    Sound σ (hSum σ a k) (sum (σ.tensorOf a) k) := by
  intro σ' h e
  unfold hSum at e
  by_cases hk : k = 0
  · simp only [hk, if_true, pure, Except.pure, Except.ok.injEq, Prod.mk.injEq] at e
    rw [← e.1, ← e.2]
    exact ⟨by simp [sum, hk, pure, Except.pure], BufExt.refl σ, ha⟩
  · simp only [hk, if_false, bind, Except.bind] at e
    cases hs : sum (σ.tensorOf a) k with
    | error x => simp [hs] at e
    | ok t => simp only [hs] at e; exact sound_alloc σ t _ _ _ _ σ' h e

theorem sound_hReshape (σ : State S) (a : Handle) (dims : List Nat) (ha : a.buf < σ.bufs.size) :
    Sound σ (hReshape σ a dims) (reshape (σ.tensorOf a) dims) := by
  intro σ' h e
  simp only [hReshape, bind, Except.bind] at e
  cases hs : reshape (σ.tensorOf a) dims with
  | error x => simp [hs] at e
  | ok t =>
    simp only [hs, pure, Except.pure, Except.ok.injEq] at e
    have hv : t.vals = (σ.tensorOf a).vals := by
      unfold reshape Tensor.mk? at hs
      split at hs
      · simp [throw, throwThe, MonadExceptOf.throw] at hs
      · split at hs
        · simp [throw, throwThe, MonadExceptOf.throw] at hs
        · simp only [pure, Except.pure, Except.ok.injEq] at hs; rw [← hs]
    have e1 := congrArg Prod.fst e
    have e2 := congrArg Prod.snd e
    simp only [State.allocView] at e1 e2
    subst e1 e2
    refine ⟨?_, BufExt.of_eq rfl, ha⟩
    congr 1
    cases t with
    | mk d v => simp only at hv; subst hv; rfl

theorem sound_hMatmul (σ : State S) (a : Handle) (ta : Bool) (b : Handle) (tb : Bool) (c : Option Handle) :
    Sound σ (hMatmul σ a ta b tb c) (matmul (σ.tensorOf a) ta (σ.tensorOf b) tb (c.map σ.tensorOf)) := by
  intro σ' h e
  simp only [hMatmul, bind, Except.bind] at e
  cases hm : matmul (σ.tensorOf a) ta (σ.tensorOf b) tb (c.map σ.tensorOf) with
  | error x => simp [hm] at e
  | ok t =>
    simp only [hm] at e
    cases c with
    | some c => exact sound_alloc σ t _ _ _ _ σ' h e
    | none =>
      simp only [hLeaf] at e
      obtain ⟨h1, h2, h3⟩ := sound_alloc (σ.alloc ⟨[1], [zero]⟩ [] none false).1 t _ _ _ _ σ' h e
      exact ⟨h1, (bufExt_alloc σ _ _ _ _ _).trans h2, h3⟩

theorem sound_hUnroll (σ : State S) (image : Handle) (sr sc fr fc : Nat) :
    Sound σ (hUnroll σ image sr sc fr fc) (unrollBlocks (σ.tensorOf image) sr sc fr fc) := by
  intro σ' h e
  simp only [hUnroll, bind, Except.bind] at e
  cases hu : unrollBlocks (σ.tensorOf image) sr sc fr fc with
  | error x => simp [hu] at e
  | ok t =>
    simp only [hu] at e
    cases h3 : dimFromEnd (σ.tensorOf image).dims 3 with
    | error x => simp [h3] at e
    | ok d3 =>
      cases h2 : dimFromEnd (σ.tensorOf image).dims 2 with
      | error x => simp [h3, h2] at e
      | ok d2 =>
        cases h1 : dimFromEnd (σ.tensorOf image).dims 1 with
        | error x => simp [h3, h2, h1] at e
        | ok d1 => simp only [h3, h2, h1] at e; exact sound_alloc σ t _ _ _ _ σ' h e

theorem sound_hExpand (σ : State S) (a : Handle) (r c : Nat) :
    Sound σ (hExpand σ a r c) (expandConv (σ.tensorOf a) r c) := by
  intro σ' h e
  simp only [hExpand, bind, Except.bind] at e
  cases hx : expandConv (σ.tensorOf a) r c with
  | error x => simp [hx] at e
  | ok t => simp only [hx] at e; exact sound_alloc σ t _ _ _ _ σ' h e

end Corgi

namespace Corgi
variable {S : Type} [Add S] [Mul S] [Neg S] [Sub S] [ScalarOps S] [BEq S]

theorem bindOk {α β} {r : R α} {f : α → R β} {v : β} (h : (r >>= f) = .ok v) : ∃ a, r = .ok a ∧ f a = .ok v := by
  cases r with
  | error e => simp [bind, Except.bind] at h
  | ok a => exact ⟨a, rfl, by simpa [bind, Except.bind] using h⟩

/-- `a − b` as executed (negate, then add) is the tensor-level `sub` -/
theorem sound_hSub (σ : State S) (a b : Handle) (ha : a.buf < σ.bufs.size) :
    Sound σ (hSub σ a b) (sub (σ.tensorOf a) (σ.tensorOf b)) := by
  intro σ' h e
  unfold hSub at e
  obtain ⟨⟨σ1, nb⟩, e1, e2⟩ := bindOk e
  obtain ⟨v1, x1, b1⟩ := sound_hUnary _ _ σ b σ1 nb e1
  obtain ⟨v2, x2, b2⟩ := sound_hEwise _ _ σ1 a nb σ' h e2
  refine ⟨?_, x1.trans x2, b2⟩
  rw [← v2, tensorOf_ext x1 a ha]
  simp only [Except.ok.injEq] at v1
  rw [← v1]; rfl

/-- `α·x + y` as executed is the tensor-level `axpy` -/
theorem sound_hAxpy (σ : State S) (s : S) (x y : Handle) (hy : y.buf < σ.bufs.size) :
    Sound σ (hAxpy σ s x y) (axpy s (σ.tensorOf x) (σ.tensorOf y)) := by
  intro σ' h e
  unfold hAxpy at e
  obtain ⟨⟨σ1, sx⟩, e1, e2⟩ := bindOk e
  obtain ⟨v1, x1, b1⟩ := sound_hUnary _ _ σ x σ1 sx e1
  obtain ⟨v2, x2, b2⟩ := sound_hEwise _ _ σ1 sx y σ' h e2
  refine ⟨?_, x1.trans x2, b2⟩
  rw [← v2, tensorOf_ext x1 y hy]
  simp only [Except.ok.injEq] at v1
  rw [← v1]; rfl

/-- `softmax` as executed (exp, sum(1), divide) is the tensor-level `softmax` -/
theorem sound_hSoftmax (σ : State S) (a : Handle) :
    Sound σ (hSoftmax σ a) (softmax (σ.tensorOf a)) := by
  intro σ' h e
  unfold hSoftmax at e
  obtain ⟨⟨σ1, ex⟩, e1, e2⟩ := bindOk e
  obtain ⟨⟨σ2, sm⟩, e3, e4⟩ := bindOk e2
  obtain ⟨v1, x1, b1⟩ := sound_hUnary _ _ σ a σ1 ex e1
  obtain ⟨v2, x2, b2⟩ := sound_hSum σ1 ex 1 b1 σ2 sm e3
  obtain ⟨v3, x3, b3⟩ := sound_hEwise _ _ σ2 ex sm σ' h e4
  refine ⟨?_, (x1.trans x2).trans x3, b3⟩
  simp only [Except.ok.injEq] at v1
  unfold softmax
  simp only [v1, v2, bind, Except.bind]
  rw [← v3, tensorOf_ext x2 ex b1]

/-- the mean-squared-error cost as executed is the tensor-level `mse` -/
theorem sound_hMse (σ : State S) (o t : Handle) (ht : t.buf < σ.bufs.size) :
    Sound σ (hMse σ o t) (mse (σ.tensorOf o) (σ.tensorOf t)) := by
  intro σ' h e
  unfold hMse at e
  obtain ⟨⟨σ1, d⟩, e1, e2⟩ := bindOk e
  obtain ⟨⟨σ2, p⟩, e3, e4⟩ := bindOk e2
  obtain ⟨v1, x1, b1⟩ := sound_hSub σ t o ht σ1 d e1
  obtain ⟨v2, x2, b2⟩ := sound_hUnary _ _ σ1 d σ2 p e3
  obtain ⟨v3, x3, b3⟩ := sound_hUnary _ _ σ2 p σ' h e4
  refine ⟨?_, (x1.trans x2).trans x3, b3⟩
  simp only [Except.ok.injEq] at v2 v3
  unfold mse
  rw [v1]
  simp only [bind, Except.bind, pure, Except.pure]
  rw [← v3, ← v2]
  rfl

/-- the cross-entropy cost as executed is the tensor-level `crossEntropy` -/
theorem sound_hXent (σ : State S) (o t : Handle) (ho : o.buf < σ.bufs.size) :
    Sound σ (hXent σ o t) (crossEntropy (σ.tensorOf o) (σ.tensorOf t)) := by
  intro σ' h e
  unfold hXent at e
  obtain ⟨bsz, e0, e⟩ := bindOk e
  obtain ⟨⟨σ1, nt⟩, e1, e2⟩ := bindOk e
  obtain ⟨⟨σ2, lo⟩, e3, e4⟩ := bindOk e2
  obtain ⟨⟨σ3, p⟩, e5, e6⟩ := bindOk e4
  obtain ⟨v1, x1, b1⟩ := sound_hUnary _ _ σ t σ1 nt e1
  obtain ⟨v2, x2, b2⟩ := sound_hUnary _ _ σ1 o σ2 lo e3
  obtain ⟨v3, x3, b3⟩ := sound_hEwise _ _ σ2 nt lo σ3 p e5
  obtain ⟨v4, x4, b4⟩ := sound_hUnary _ _ σ3 p σ' h e6
  refine ⟨?_, ((x1.trans x2).trans x3).trans x4, b4⟩
  simp only [Except.ok.injEq] at v1 v2 v4
  have hdims : (σ.tensorOf o).dims = o.dims := rfl
  unfold crossEntropy
  rw [hdims, e0]
  simp only [bind, Except.bind, pure, Except.pure]
  have hlo : σ2.tensorOf lo = ln (σ.tensorOf o) := by rw [← v2, tensorOf_ext x1 o ho]
  have hnt : σ2.tensorOf nt = neg (σ.tensorOf t) := by rw [tensorOf_ext x2 nt b1, ← v1]
  rw [hlo, hnt] at v3
  rw [show mul (neg (σ.tensorOf t)) (ln (σ.tensorOf o)) = Except.ok (σ3.tensorOf p) from v3]
  simp only []
  rw [← v4]

end Corgi

namespace Corgi
variable {S : Type} [Add S] [Mul S] [Neg S] [Sub S] [ScalarOps S] [BEq S]

/-- **`conv` as executed** (im2col node, filter view, matmul node, transposition node) **is the
    tensor-level `conv`** that C06 is stated about -/
theorem sound_hConv (σ : State S) (image filters : Handle) (sr sc : Nat) (hf : filters.buf < σ.bufs.size) :
    Sound σ (hConv σ image filters sr sc) (conv (σ.tensorOf image) (σ.tensorOf filters) sr sc) := by
  intro σ' h e
  unfold hConv at e
  obtain ⟨prm, e0, e⟩ := bindOk e
  obtain ⟨⟨σ1, un⟩, e1, e⟩ := bindOk e
  obtain ⟨last, e2, e⟩ := bindOk e
  obtain ⟨⟨σ2, fm⟩, e3, e⟩ := bindOk e
  obtain ⟨⟨σ3, cv⟩, e4, e5⟩ := bindOk e
  obtain ⟨v1, x1, b1⟩ := sound_hUnroll σ image sr sc _ _ σ1 un e1
  obtain ⟨v3, x3, b3⟩ := sound_hReshape σ1 filters _ (Nat.lt_of_lt_of_le hf x1.size) σ2 fm e3
  obtain ⟨v4, x4, b4⟩ := sound_hMatmul σ2 un false fm true none σ3 cv e4
  obtain ⟨v5, x5, b5⟩ := sound_hExpand σ3 cv _ _ σ' h e5
  refine ⟨?_, ((x1.trans x3).trans x4).trans x5, b5⟩
  have hd1 : (σ.tensorOf image).dims = image.dims := rfl
  have hd2 : (σ.tensorOf filters).dims = filters.dims := rfl
  have hdu : (σ1.tensorOf un).dims = un.dims := rfl
  unfold conv
  simp only [hd1, hd2, e0, v1, bind, Except.bind, hdu, e2]
  rw [tensorOf_ext x1 filters hf] at v3
  simp only [v3]
  simp only [Option.map_none] at v4
  rw [tensorOf_ext x3 un b1] at v4
  simp only [v4]
  exact v5

/-- the layers as executed: matmul + bias (dense), conv + broadcast bias (conv layer), then the activation -/
theorem sound_hAct (σ : State S) (act : Act) (a : Handle) (ha : a.buf < σ.bufs.size) :
    Sound σ (hAct σ act a)
      (match act with
       | .none => .ok (σ.tensorOf a)
       | .relu => .ok (relu (σ.tensorOf a))
       | .sigmoid => .ok (sigmoid (σ.tensorOf a))
       | .softmax => softmax (σ.tensorOf a)) := by
  cases act
  · intro σ' h e
    simp only [hAct, pure, Except.pure, Except.ok.injEq, Prod.mk.injEq] at e
    rw [← e.1, ← e.2]; exact ⟨rfl, BufExt.refl σ, ha⟩
  · exact sound_hUnary _ _ σ a
  · exact sound_hUnary _ _ σ a
  · exact sound_hSoftmax σ a

end Corgi
