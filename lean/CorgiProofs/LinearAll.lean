/-
  CorgiProofs.LinearAll — `TagShape`: the shapes a node's forward operation leaves its stored operands
  with; `vjp_lin`: under `TagShape` the node's closure is total, shape-correct and additive.
-/
import CorgiProofs.LinearTags
import CorgiProofs.LinearSum
import CorgiProofs.LinearMatmul
import CorgiProofs.LinearConv

set_option linter.unusedSectionVars false
set_option linter.unusedVariables false

namespace Corgi
variable {S : Type} [Add S] [Mul S] [Neg S] [Sub S] [ScalarOps S] [BEq S]

/-- the stored operands have the shapes the forward operation left them with -/
def TagShape (tag : OpTag S) (c : List (Tensor S)) (self : Tensor S) (nd : List Nat) : Prop :=
  match tag with
  | .add | .mul | .div => ∃ a b, c = [a, b] ∧ OperandOK a ∧ OperandOK b ∧ Compat a.dims b.dims = true ∧ nd = bdims a.dims b.dims
  | .neg | .scale _ | .powf _ | .ln | .recip | .relu | .custom 2 => ∃ a, c = [a] ∧ OperandOK a ∧ nd = a.dims
  | .exp | .sigmoid => ∃ a, c = [a] ∧ OperandOK a ∧ nd = a.dims ∧ self.vals.length = prod nd
  | .reshape => ∃ a, c = [a] ∧ OperandOK a ∧ DimsOK nd ∧ prod nd = prod a.dims
  | .sum k => ∃ a, c = [a] ∧ OperandOK a ∧ 1 ≤ k ∧ k ≤ a.dims.length ∧ nd = a.dims.take (a.dims.length - k) ++ [1]
  | .matmul ta tb => ∃ a b cc la lb a1 a2 b1 b2, c = [a, b, cc] ∧ a.dims = la ++ [a1, a2] ∧ b.dims = lb ++ [b1, b2] ∧
      a.WF ∧ b.WF ∧ Compat la lb = true ∧ (if ta then a1 else a2) = (if tb then b2 else b1) ∧
      (∀ d ∈ cc.dims, 1 ≤ d) ∧ Fits cc.dims nd = true ∧
      nd = bdims la lb ++ [if ta then a2 else a1, if tb then b1 else b2]
  | .unroll D R C sr sc fr fc => ∃ a B, c = [a] ∧ a.dims = B ++ [D, R, C] ∧ a.WF ∧ fr ≤ R ∧ fc ≤ C ∧ 1 ≤ fr ∧ 1 ≤ fc ∧
      1 ≤ sr ∧ 1 ≤ sc ∧ nd = B ++ [((R - fr) / sr + 1) * ((C - fc) / sc + 1), D * (fr * fc)]
  | .expand => ∃ a B w f rC cC, c = [a] ∧ a.dims = B ++ [w, f] ∧ a.WF ∧ rC * cC = w ∧ 1 ≤ rC ∧ 1 ≤ cC ∧
      nd = B ++ [f, rC, cC]
  | _ => False

variable [AddLaws S] [MulLaws S] [CommLaws S]

/-- **every modelled point-wise / broadcast / reshape closure is total, shape-correct and additive** on the
    operands its forward operation stored -/
theorem vjp_lin (tag : OpTag S) (c : List (Tensor S)) (self : Tensor S) (t : List Bool) (nd : List Nat)
    (hs : TagShape tag c self nd) (ht : t.length = c.length) :
    VjpLinear (vjp tag c self) t nd (c.map (·.dims)) := by
  have two : ∀ {a b : Tensor S}, t.length = [a, b].length → ∃ f0 f1, t = [f0, f1] := by
    intro a b h
    match t, h with
    | [f0, f1], _ => exact ⟨f0, f1, rfl⟩
  have one : ∀ {a : Tensor S}, t.length = [a].length → ∃ f0, t = [f0] := by
    intro a h
    match t, h with
    | [f0], _ => exact ⟨f0, rfl⟩
  cases tag with
  | add => obtain ⟨a, b, rfl, ha, hb, hc, rfl⟩ := hs; obtain ⟨f0, f1, rfl⟩ := two ht; exact vjp_lin_add a b self f0 f1 ha hb hc
  | mul => obtain ⟨a, b, rfl, ha, hb, hc, rfl⟩ := hs; obtain ⟨f0, f1, rfl⟩ := two ht; exact vjp_lin_mul a b self f0 f1 ha hb hc
  | div => obtain ⟨a, b, rfl, ha, hb, hc, rfl⟩ := hs; obtain ⟨f0, f1, rfl⟩ := two ht; exact vjp_lin_div a b self f0 f1 ha hb hc
  | neg => obtain ⟨a, rfl, ha, rfl⟩ := hs; obtain ⟨f0, rfl⟩ := one ht; exact vjp_lin_neg a self f0 ha
  | scale s => obtain ⟨a, rfl, ha, rfl⟩ := hs; obtain ⟨f0, rfl⟩ := one ht; exact vjp_lin_scale s a self f0 ha
  | powf e => obtain ⟨a, rfl, ha, rfl⟩ := hs; obtain ⟨f0, rfl⟩ := one ht; exact vjp_lin_powf e a self f0 ha
  | ln => obtain ⟨a, rfl, ha, rfl⟩ := hs; obtain ⟨f0, rfl⟩ := one ht; exact vjp_lin_ln a self f0 ha
  | recip => obtain ⟨a, rfl, ha, rfl⟩ := hs; obtain ⟨f0, rfl⟩ := one ht; exact vjp_lin_recip a self f0 ha
  | relu => obtain ⟨a, rfl, ha, rfl⟩ := hs; obtain ⟨f0, rfl⟩ := one ht; exact vjp_lin_relu a self f0 ha
  | exp => obtain ⟨a, rfl, ha, rfl, hl⟩ := hs; obtain ⟨f0, rfl⟩ := one ht; exact vjp_lin_exp a self f0 ha hl
  | sigmoid => obtain ⟨a, rfl, ha, rfl, hl⟩ := hs; obtain ⟨f0, rfl⟩ := one ht; exact vjp_lin_sigmoid a self f0 ha hl
  | reshape => obtain ⟨a, rfl, ha, hnd, hp⟩ := hs; obtain ⟨f0, rfl⟩ := one ht; exact vjp_lin_reshape a self nd f0 ha hnd hp
  | custom k =>
    match k, hs with
    | 2, hs => obtain ⟨a, rfl, ha, rfl⟩ := hs; obtain ⟨f0, rfl⟩ := one ht; exact vjp_lin_custom2 a self f0 ha
  | sum k => obtain ⟨a, rfl, ha, hk, hkr, rfl⟩ := hs; obtain ⟨f0, rfl⟩ := one ht; exact vjp_lin_sum k a self f0 ha hk hkr
  | matmul ta tb =>
    obtain ⟨a, b, cc, la, lb, a1, a2, b1, b2, rfl, hda, hdb, hwa, hwb, hc, hin, hcc, hfc, rfl⟩ := hs
    match t, ht with
    | [f0, f1, f2], _ =>
      have := vjp_lin_matmul ta tb a b cc self f0 f1 f2 la lb a1 a2 b1 b2 hda hdb hwa hwb hc hin hcc hfc
      simpa using this
  | unroll D R C sr sc fr fc =>
    obtain ⟨a, B, rfl, hda, hwa, h1, h2, h3, h4, h5, h6, rfl⟩ := hs
    obtain ⟨f0, rfl⟩ := one ht
    exact vjp_lin_unroll a self f0 B D R C sr sc fr fc hda hwa h1 h2 h3 h4 h5 h6
  | expand =>
    obtain ⟨a, B, w, f, rC, cC, rfl, hda, hwa, h1, h2, h3, rfl⟩ := hs
    obtain ⟨f0, rfl⟩ := one ht
    exact vjp_lin_expand a self f0 B w f rC cC hda hwa h1 h2 h3


end Corgi
