/-
  CorgiProofs.Linear — the value laws `Sem` that the path-sum theorem assumes, *constructed* from the
  closures themselves.

  `VjpLin cl t nd kd` says of one closure `cl` (with saved flags `t`, node dimensions `nd`, operand
  dimensions `kd`): on every delta of the node's shape it answers; every answer for a tracked operand
  reduces (`flatten_to`) to a tensor of that operand's shape; and the reduced answer is additive in the
  delta.  `Sem.ofLin` turns a graph all of whose closures are `VjpLin` into a `Sem` whose `Λ n i x` *is*
  the reduced `i`-th answer of node `n`'s closure on `x` — so the path-sum theorem then speaks about the
  closures that are actually stored, with no assumption left.

  This file has the generic construction and the additive building blocks (pointwise maps, broadcast
  products, the broadcast reduction).  `LinearTags` proves `VjpLin` for the closures of `Vjp.lean`.
-/
import CorgiProofs.PathSum
import CorgiProofs.FlattenTo
import CorgiProofs.Pointwise

set_option linter.unusedSectionVars false
set_option linter.unusedVariables false

namespace Corgi
variable {S : Type} [Add S] [Mul S] [Neg S] [Sub S] [ScalarOps S] [BEq S]

/-- the ring laws the closures' additivity needs (hold in `Int`, `Rat`, `ℝ`; not in floats) -/
class MulLaws (S : Type) [Add S] [Mul S] [ScalarOps S] : Prop where
  left_distrib : ∀ a b c : S, a * (b + c) = a * b + a * c
  right_distrib : ∀ a b c : S, (a + b) * c = a * c + b * c
  div_add : ∀ a b c : S, ScalarOps.div (a + b) c = ScalarOps.div a c + ScalarOps.div b c

/-- what homogeneity of the closures needs on top (commutative ring laws) -/
class CommLaws (S : Type) [Add S] [Mul S] [ScalarOps S] : Prop where
  mul_comm : ∀ a b : S, a * b = b * a
  mul_assoc : ∀ a b c : S, a * b * c = a * (b * c)
  mul_zero : ∀ a : S, a * zero = zero
  div_smul : ∀ α a c : S, ScalarOps.div (α * a) c = α * ScalarOps.div a c

/-- one closure commutes with scaling the delta by `α` (after reduction to the operands' shapes) -/
def VjpHom (α : S) (cl : List Bool → Tensor S → R (List (Option (Tensor S)))) (t : List Bool) (nd : List Nat)
    (kd : List (List Nat)) : Prop :=
  ∀ x, Shaped nd x → ∃ dx dz, cl t x = .ok dx ∧ cl t (tsmul α x) = .ok dz ∧
    ∀ i : Nat, t[i]? = some true → ∃ (kdi : List Nat) (d1 d3 t1 : Tensor S), kd[i]? = some kdi ∧
      dx[i]? = some (some d1) ∧ dz[i]? = some (some d3) ∧
      flattenTo d1 kdi = .ok t1 ∧ flattenTo d3 kdi = .ok (tsmul α t1)

/-- one closure: total on shaped deltas, answers reducible to the operands' shapes, additive -/
def VjpLin (cl : List Bool → Tensor S → R (List (Option (Tensor S)))) (t : List Bool) (nd : List Nat)
    (kd : List (List Nat)) : Prop :=
  ∀ x y, Shaped nd x → Shaped nd y → ∃ dx dy dz, cl t x = .ok dx ∧ cl t y = .ok dy ∧ cl t (tadd x y) = .ok dz ∧
    ∀ i : Nat, t[i]? = some true → ∃ (kdi : List Nat) (d1 d2 d3 t1 t2 : Tensor S), kd[i]? = some kdi ∧
      dx[i]? = some (some d1) ∧ dy[i]? = some (some d2) ∧ dz[i]? = some (some d3) ∧
      flattenTo d1 kdi = .ok t1 ∧ flattenTo d2 kdi = .ok t2 ∧ flattenTo d3 kdi = .ok (tadd t1 t2) ∧
      Shaped kdi t1 ∧ Shaped kdi t2

/-- the reduced `i`-th answer of a closure, `⟨[], []⟩` where there is none -/
def contrib (cl : Option (Closure S)) (t : List Bool) (kd : List (List Nat)) (i : Nat) (x : Tensor S) : Tensor S :=
  match cl with
  | none => ⟨[], []⟩
  | some cl =>
    match cl t x with
    | .error _ => ⟨[], []⟩
    | .ok ds =>
      match ds[i]?, kd[i]? with
      | some (some d), some kdi =>
        match flattenTo d kdi with
        | .ok r => r
        | .error _ => ⟨[], []⟩
      | _, _ => ⟨[], []⟩

/-- what a graph must satisfy for its `Sem` to exist: every closure is `VjpLin` for the node's and the
    operands' dimensions, and nodes without a closure store no operands -/
structure LinGraph (G : Graph S) (dimsOf : Nat → List Nat) : Prop where
  slotDims : ∀ n s, s ∈ G.kids n → s.dims = dimsOf s.node
  dimsValid : ∀ n, dimsOf n ≠ [] ∧ ∀ d ∈ dimsOf n, 1 ≤ d
  noop : ∀ n, G.vjp n = none → G.kids n = []
  lawful : G.Lawful
  lin : ∀ n cl, G.vjp n = some cl →
    VjpLin cl ((G.kids n).map (·.tracked)) (dimsOf n) ((G.kids n).map (·.dims))
  hom : ∀ n cl, G.vjp n = some cl → ∀ α : S,
    VjpHom α cl ((G.kids n).map (·.tracked)) (dimsOf n) ((G.kids n).map (·.dims))

theorem tadd_nil : tadd (⟨[], []⟩ : Tensor S) ⟨[], []⟩ = ⟨[], []⟩ := rfl

/-- **The value laws hold of the stored closures.**  `Λ n i x` is the `i`-th answer of node `n`'s own
    closure on `x`, reduced to the operand's dimensions. -/
def Sem.ofLin {G : Graph S} {dimsOf : Nat → List Nat} (κ : Nat → Bool) (L : LinGraph G dimsOf) : Sem G where
  dimsOf := dimsOf
  Λ := fun n i x => contrib (G.vjp n) ((G.kids n).map (·.tracked)) ((G.kids n).map (·.dims)) i x
  κ := κ
  slotDims := L.slotDims
  dimsValid := L.dimsValid
  local_ := by
    intro n cl x ds hv hx hcl
    have hlaw := L.lawful n cl x ds hv hcl
    have hlen : ds.length = (G.kids n).length := by
      have := congrArg List.length hlaw; simpa using this
    refine ⟨hlen, ?_⟩
    intro i s hs
    have hflag : ((G.kids n).map (·.tracked))[i]? = some s.tracked := by simp [hs]
    have hiso : (ds.map Option.isSome)[i]? = some s.tracked := by rw [hlaw]; exact hflag
    simp only [List.getElem?_map] at hiso
    cases hd : ds[i]? with
    | none => simp [hd] at hiso
    | some o =>
      simp only [hd, Option.map_some, Option.some.injEq] at hiso
      constructor
      · intro ht
        rw [ht] at hiso
        cases o with
        | none => rfl
        | some _ => simp at hiso
      · intro ht
        rw [ht] at hiso
        cases o with
        | none => simp at hiso
        | some d =>
          refine ⟨d, rfl, ?_⟩
          intro r hr
          have hkd : ((G.kids n).map (·.dims))[i]? = some s.dims := by simp [hs]
          simp only [contrib, hv, hcl, hd, hkd, hr]
  shapedΛ := by
    intro n i s x hs ht hx
    cases hv : G.vjp n with
    | none => have := L.noop n hv; rw [this] at hs; simp at hs
    | some cl =>
      obtain ⟨dx, _, _, h1, _, _, hall⟩ := L.lin n cl hv x x hx hx
      have hflag : ((G.kids n).map (·.tracked))[i]? = some true := by simp [hs, ht]
      obtain ⟨kdi, d1, _, _, t1, _, hk, e1, _, _, f1, _, _, s1, _⟩ := hall i hflag
      have hkd : ((G.kids n).map (·.dims))[i]? = some s.dims := by simp [hs]
      rw [hkd] at hk; cases hk
      simp only [contrib, h1, e1, hkd, f1]
      exact s1
  additive := by
    intro n i s x y hs hx hy
    cases hv : G.vjp n with
    | none => have := L.noop n hv; rw [this] at hs; simp at hs
    | some cl =>
      obtain ⟨dx, dy, dz, h1, h2, h3, hall⟩ := L.lin n cl hv x y hx hy
      have hkd : ((G.kids n).map (·.dims))[i]? = some s.dims := by simp [hs]
      by_cases ht : s.tracked = true
      · have hflag : ((G.kids n).map (·.tracked))[i]? = some true := by simp [hs, ht]
        obtain ⟨kdi, d1, d2, d3, t1, t2, hk, e1, e2, e3, f1, f2, f3, _, _⟩ := hall i hflag
        rw [hkd] at hk; cases hk
        simp only [contrib, h1, h2, h3, e1, e2, e3, hkd, f1, f2, f3]
      · -- an untracked operand gets no answer at all
        have hf : s.tracked = false := by simpa using ht
        have p1 := L.lawful n cl x dx hv h1
        have p2 := L.lawful n cl y dy hv h2
        have p3 := L.lawful n cl (tadd x y) dz hv h3
        have none_at : ∀ (ds : List (Option (Tensor S))), ds.map Option.isSome = (G.kids n).map (·.tracked) →
            ds[i]? = some none := by
          intro ds hlaw
          have hiso : (ds.map Option.isSome)[i]? = some false := by rw [hlaw]; simp [hs, hf]
          simp only [List.getElem?_map] at hiso
          cases hd : ds[i]? with
          | none => simp [hd] at hiso
          | some o =>
            cases o with
            | none => rfl
            | some _ => simp [hd] at hiso
        simp only [contrib, h1, h2, h3, none_at dx p1, none_at dy p2, none_at dz p3]
        rfl

theorem tsmul_nil (α : S) : tsmul α (⟨[], []⟩ : Tensor S) = ⟨[], []⟩ := rfl

/-- the constructed contributions commute with scaling the delta -/
theorem Sem.ofLin_smul {G : Graph S} {dimsOf : Nat → List Nat} (κ : Nat → Bool) (L : LinGraph G dimsOf) (α : S)
    (n i : Nat) (s : Slot) (x : Tensor S) (hs : (G.kids n)[i]? = some s) (hx : Shaped (dimsOf n) x) :
    (Sem.ofLin κ L).Λ n i (tsmul α x) = tsmul α ((Sem.ofLin κ L).Λ n i x) := by
  show contrib _ _ _ i (tsmul α x) = tsmul α (contrib _ _ _ i x)
  cases hv : G.vjp n with
  | none => rfl
  | some cl =>
    obtain ⟨dx, dz, h1, h3, hall⟩ := L.hom n cl hv α x hx
    have hkd : ((G.kids n).map (·.dims))[i]? = some s.dims := by simp [hs]
    by_cases ht : s.tracked = true
    · have hflag : ((G.kids n).map (·.tracked))[i]? = some true := by simp [hs, ht]
      obtain ⟨kdi, d1, d3, t1, hk, e1, e3, f1, f3⟩ := hall i hflag
      rw [hkd] at hk; cases hk
      simp only [contrib, h1, h3, e1, e3, hkd, f1, f3]
    · have hf : s.tracked = false := by simpa using ht
      have p1 := L.lawful n cl x dx hv h1
      have p3 := L.lawful n cl (tsmul α x) dz hv h3
      have none_at : ∀ (ds : List (Option (Tensor S))), ds.map Option.isSome = (G.kids n).map (·.tracked) →
          ds[i]? = some none := by
        intro ds hlaw
        have hiso : (ds.map Option.isSome)[i]? = some false := by rw [hlaw]; simp [hs, hf]
        simp only [List.getElem?_map] at hiso
        cases hd : ds[i]? with
        | none => simp [hd] at hiso
        | some o =>
          cases o with
          | none => rfl
          | some _ => simp [hd] at hiso
      simp only [contrib, h1, h3, none_at dx p1, none_at dz p3]
      rfl

/-! ### additive building blocks -/

section blocks
variable [AddLaws S]

theorem foldl_add_map2 (f g : Nat → S) : ∀ (l : List Nat) (a b : S),
    (l.map (fun n => f n + g n)).foldl (· + ·) (a + b) = (l.map f).foldl (· + ·) a + (l.map g).foldl (· + ·) b
  | [], _, _ => rfl
  | n :: l, a, b => by
    simp only [List.map_cons, List.foldl_cons]
    rw [add4 a b (f n) (g n)]
    exact foldl_add_map2 f g l _ _

/-- `Σ (f + g) = Σ f + Σ g` -/
theorem sumList_map_add (f g : Nat → S) (l : List Nat) :
    sumList (l.map (fun n => f n + g n)) = sumList (l.map f) + sumList (l.map g) := by
  unfold sumList
  have := foldl_add_map2 f g l zero zero
  rwa [AddLaws.zero_add] at this

theorem tadd_getD (x y : Tensor S) (h : x.vals.length = y.vals.length) (n : Nat) :
    (tadd x y).vals.getD n zero = x.vals.getD n zero + y.vals.getD n zero :=
  coord_zipWith_add n x.vals y.vals h

theorem zipWith_map_range (f g : Nat → S) (L : Nat) :
    List.zipWith (· + ·) ((List.range L).map f) ((List.range L).map g) = (List.range L).map (fun n => f n + g n) := by
  apply List.ext_getElem?
  intro m
  simp only [List.getElem?_zipWith, List.getElem?_map]
  by_cases hm : m < L
  · simp [List.getElem?_range hm]
  · have : (List.range L)[m]? = none := by simp; omega
    simp [this]

/-- **the broadcast reduction is additive** -/
theorem sumBroadcast_add (u v : Tensor S) (dims : List Nat) (hd : u.dims = v.dims) (hl : u.vals.length = v.vals.length) :
    sumBroadcast (tadd u v) dims = tadd (sumBroadcast u dims) (sumBroadcast v dims) := by
  simp only [sumBroadcast, tadd]
  congr 1
  rw [← hd, zipWith_map_range]
  apply List.map_congr_left
  intro q _
  rw [← sumList_map_add]
  congr 1
  apply List.map_congr_left
  intro n _
  exact coord_zipWith_add n u.vals v.vals hl

theorem sumBroadcast_shaped (u : Tensor S) (dims : List Nat) : Shaped dims (sumBroadcast u dims) := by
  simp [Shaped, sumBroadcast]

/-- a pair of equally shaped tensors reduces to a pair of tensors of the target shape, additively -/
theorem flatten_additive (D kd : List Nat) (hD : ∀ d ∈ D, 1 ≤ d) (hk : ∀ d ∈ kd, 1 ≤ d) (hfit : Fits kd D = true)
    (u v : Tensor S) (hu : Shaped D u) (hv : Shaped D v) :
    ∃ t1 t2, flattenTo u kd = .ok t1 ∧ flattenTo v kd = .ok t2 ∧ flattenTo (tadd u v) kd = .ok (tadd t1 t2) ∧
      Shaped kd t1 ∧ Shaped kd t2 := by
  have huv : Shaped D (tadd u v) := hu.tadd hv
  by_cases he : (D == kd) = true
  · have e : D = kd := by simpa using he
    refine ⟨u, v, flattenTo_eqdims u kd (by rw [hu.1]; exact he), flattenTo_eqdims v kd (by rw [hv.1]; exact he),
      flattenTo_eqdims _ kd (by rw [huv.1]; exact he), e ▸ hu, e ▸ hv⟩
  · have hne : (D == kd) = false := by simpa using he
    have wf : ∀ w : Tensor S, Shaped D w → w.WF := fun w hw => ⟨by rw [hw.1]; exact hD, by rw [hw.1]; exact hw.2.symm⟩
    refine ⟨sumBroadcast u kd, sumBroadcast v kd, ?_, ?_, ?_, sumBroadcast_shaped u kd, sumBroadcast_shaped v kd⟩
    · exact flattenTo_spec u kd (wf u hu) (by rw [hu.1]; exact hne) (by rw [hu.1]; exact hfit) hk
    · exact flattenTo_spec v kd (wf v hv) (by rw [hv.1]; exact hne) (by rw [hv.1]; exact hfit) hk
    · rw [← sumBroadcast_add u v kd (hu.1.trans hv.1.symm) (by rw [hu.2, hv.2])]
      exact flattenTo_spec _ kd (wf _ huv) (by rw [huv.1]; exact hne) (by rw [huv.1]; exact hfit) hk

/-- `α · Σ = Σ α ·` -/
theorem foldl_smul [MulLaws S] (α : S) (f : Nat → S) : ∀ (l : List Nat) (a : S),
    (l.map (fun n => α * f n)).foldl (· + ·) (α * a) = α * (l.map f).foldl (· + ·) a
  | [], _ => rfl
  | n :: l, a => by
    simp only [List.map_cons, List.foldl_cons]
    rw [← MulLaws.left_distrib]
    exact foldl_smul α f l _

theorem sumList_smul [MulLaws S] [CommLaws S] (α : S) (f : Nat → S) (l : List Nat) :
    sumList (l.map (fun n => α * f n)) = α * sumList (l.map f) := by
  unfold sumList
  have := foldl_smul α f l zero
  rwa [CommLaws.mul_zero] at this

theorem tsmul_getD [CommLaws S] (α : S) (x : Tensor S) (n : Nat) :
    (tsmul α x).vals.getD n zero = α * x.vals.getD n zero :=
  coord_smul α (CommLaws.mul_zero α) n x.vals

/-- **the broadcast reduction commutes with scaling** -/
theorem sumBroadcast_smul [MulLaws S] [CommLaws S] (α : S) (u : Tensor S) (dims : List Nat) :
    sumBroadcast (tsmul α u) dims = tsmul α (sumBroadcast u dims) := by
  have e1 : (tsmul α u).dims = u.dims := rfl
  simp only [sumBroadcast, e1]
  simp only [tsmul, List.map_map]
  congr 1
  apply List.map_congr_left
  intro q _
  simp only [Function.comp]
  rw [← sumList_smul]
  congr 1
  apply List.map_congr_left
  intro n _
  exact tsmul_getD α u n

theorem flatten_hom [MulLaws S] [CommLaws S] (α : S) (D kd : List Nat) (hD : ∀ d ∈ D, 1 ≤ d) (hk : ∀ d ∈ kd, 1 ≤ d)
    (hfit : Fits kd D = true) (u : Tensor S) (hu : Shaped D u) :
    ∃ t1, flattenTo u kd = .ok t1 ∧ flattenTo (tsmul α u) kd = .ok (tsmul α t1) := by
  have hus : Shaped D (tsmul α u) := hu.tsmul α
  by_cases he : (D == kd) = true
  · exact ⟨u, flattenTo_eqdims u kd (by rw [hu.1]; exact he), flattenTo_eqdims _ kd (by rw [hus.1]; exact he)⟩
  · have hne : (D == kd) = false := by simpa using he
    have wf : ∀ w : Tensor S, Shaped D w → w.WF := fun w hw => ⟨by rw [hw.1]; exact hD, by rw [hw.1]; exact hw.2.symm⟩
    refine ⟨sumBroadcast u kd, flattenTo_spec u kd (wf u hu) (by rw [hu.1]; exact hne) (by rw [hu.1]; exact hfit) hk, ?_⟩
    rw [← sumBroadcast_smul]
    exact flattenTo_spec _ kd (wf _ hus) (by rw [hus.1]; exact hne) (by rw [hus.1]; exact hfit) hk

end blocks

/-- one entry of a closure as a total additive map: on deltas of shape `nd` the computation `g` answers
    with `L x`, of shape `D`, additively; `D` reduces to the operand's shape `kd` -/
structure LinEntry (g : Tensor S → R (Tensor S)) (nd kd : List Nat) : Prop where
  ex : ∃ (D : List Nat) (L : Tensor S → Tensor S), (∀ d ∈ D, 1 ≤ d) ∧ (∀ d ∈ kd, 1 ≤ d) ∧ Fits kd D = true ∧
    (∀ x, Shaped nd x → g x = .ok (L x) ∧ Shaped D (L x)) ∧
    (∀ x y, Shaped nd x → Shaped nd y → L (tadd x y) = tadd (L x) (L y)) ∧
    (∀ (α : S) x, Shaped nd x → L (tsmul α x) = tsmul α (L x))

/-- what `VjpLin` asks of one tracked operand, from a `LinEntry` -/
theorem LinEntry.use [AddLaws S] {g : Tensor S → R (Tensor S)} {nd kd : List Nat} (h : LinEntry g nd kd)
    (x y : Tensor S) (hx : Shaped nd x) (hy : Shaped nd y) :
    ∃ d1 d2 d3 t1 t2, g x = .ok d1 ∧ g y = .ok d2 ∧ g (tadd x y) = .ok d3 ∧
      flattenTo d1 kd = .ok t1 ∧ flattenTo d2 kd = .ok t2 ∧ flattenTo d3 kd = .ok (tadd t1 t2) ∧
      Shaped kd t1 ∧ Shaped kd t2 := by
  obtain ⟨D, L, hD, hk, hfit, hg, hadd, _⟩ := h.ex
  obtain ⟨g1, s1⟩ := hg x hx
  obtain ⟨g2, s2⟩ := hg y hy
  obtain ⟨g3, _⟩ := hg (tadd x y) (hx.tadd hy)
  obtain ⟨t1, t2, f1, f2, f3, q1, q2⟩ := flatten_additive D kd hD hk hfit (L x) (L y) s1 s2
  refine ⟨L x, L y, L (tadd x y), t1, t2, g1, g2, g3, f1, f2, ?_, q1, q2⟩
  rw [hadd x y hx hy]; exact f3

/-- what `VjpHom` asks of one tracked operand, from a `LinEntry` -/
theorem LinEntry.useHom [AddLaws S] [MulLaws S] [CommLaws S] {g : Tensor S → R (Tensor S)} {nd kd : List Nat}
    (h : LinEntry g nd kd) (α : S) (x : Tensor S) (hx : Shaped nd x) :
    ∃ d1 d3 t1, g x = .ok d1 ∧ g (tsmul α x) = .ok d3 ∧
      flattenTo d1 kd = .ok t1 ∧ flattenTo d3 kd = .ok (tsmul α t1) := by
  obtain ⟨D, L, hD, hk, hfit, hg, _, hsm⟩ := h.ex
  obtain ⟨g1, s1⟩ := hg x hx
  obtain ⟨g3, _⟩ := hg (tsmul α x) (hx.tsmul α)
  obtain ⟨t1, f1, f3⟩ := flatten_hom α D kd hD hk hfit (L x) s1
  refine ⟨L x, L (tsmul α x), t1, g1, g3, f1, ?_⟩
  rw [hsm α x hx]; exact f3

end Corgi
