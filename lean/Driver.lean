/-
  Driver — line-protocol interpreter of the model (one command in, one line out).
  `corgi_model` reads a command file on stdin; `mode exact` runs the model over `Rat`,
  `mode float` over `Float`, `mode f32` over `Float32`.  `case <id>` resets the state.
-/
import CorgiModel
import CorgiModel.Step
import CorgiSpec.Oracle
import CorgiSpec.ShapeCheck

open Corgi

/-! ### scalar instances -/

def ratPow (x : Rat) (n : Nat) : Rat := n.fold (fun _ _ acc => acc * x) 1

instance : ScalarOps Rat where
  zero := 0
  one := 1
  ofNat n := (n : Rat)
  div a b := a / b
  exp x := if x == 0 then 1 else 0          -- the exact channel never asks for more
  ln x := if x == 1 then 0 else 0
  powf x e :=
    if e.den == 1 then
      if e.num ≥ 0 then ratPow x e.num.toNat else ratPow (1 / x) (-e.num).toNat
    else 0
  pos x := decide (0 < x)

instance : ScalarOps Float where
  zero := 0.0
  one := 1.0
  ofNat n := n.toFloat
  div a b := a / b
  exp := Float.exp
  ln := Float.log
  powf := Float.pow
  pos x := x > 0.0

instance : ScalarOps Float32 where
  zero := 0.0
  one := 1.0
  ofNat n := n.toFloat32
  div a b := a / b
  exp := Float32.exp
  ln := Float32.log
  powf := Float32.pow
  pos x := x > 0.0

/-! ### parsing and printing -/

def hexDigit (n : Nat) : Char := if n < 10 then Char.ofNat (48 + n) else Char.ofNat (87 + n)

def toHex (width : Nat) (n : Nat) : String :=
  String.ofList ((List.range width).reverse.map (fun i => hexDigit ((n >>> (4 * i)) % 16)))

def parseHex (s : String) : Option Nat :=
  s.toList.foldl (fun acc c => acc.bind (fun a =>
    if '0' ≤ c ∧ c ≤ '9' then some (a * 16 + (c.toNat - 48))
    else if 'a' ≤ c ∧ c ≤ 'f' then some (a * 16 + (c.toNat - 87))
    else none)) (some 0)

structure Codec (S : Type) where
  parse : String → Option S
  render : S → String

def ratCodec : Codec Rat where
  parse s := match s.splitOn "/" with
    | [n] => n.toInt?.map (fun i => (i : Rat))
    | [n, d] => do
      let i ← n.toInt?; let k ← d.toNat?
      if k = 0 then none else some ((i : Rat) / (k : Rat))
    | _ => none
  render x := if x.den == 1 then toString x.num else s!"{x.num}/{x.den}"

def floatCodec : Codec Float where
  parse s := if s.startsWith "x" then (parseHex (s.drop 1).toString).map (fun n => Float.ofBits n.toUInt64) else none
  render x := "x" ++ toHex 16 x.toBits.toNat

def f32Codec : Codec Float32 where
  parse s := if s.startsWith "x" then (parseHex (s.drop 1).toString).map (fun n => Float32.ofBits n.toUInt32) else none
  render x := "x" ++ toHex 8 x.toBits.toNat

def parseList {α} (f : String → Option α) (s : String) : Option (List α) :=
  if s == "-" then some [] else (s.splitOn ",").mapM f

def parseNats (s : String) : Option (List Nat) := parseList String.toNat? s
def parseNames (s : String) : Option (List String) := parseList some s
def parseT (s : String) : Option Bool := if s == "T" then some true else if s == "N" then some false else none
def parseAct (s : String) : Option Act :=
  match s with
  | "none" => some .none | "relu" => some .relu | "sigmoid" => some .sigmoid | "softmax" => some .softmax
  | _ => none

def parseCmd {S} (cd : Codec S) (toks : List String) : Option (Cmd S) :=
  let sc := cd.parse
  let scs := parseList cd.parse
  match toks with
  | ["new", v, d, x] => do pure (.new v (← parseNats d) (← scs x))
  | ["flat", v, x] => do pure (.flat v (← scs x))
  | ["zeros", v, d] => do pure (.zeros v (← parseNats d))
  | ["nest", v, ps] => do pure (.nest v (← parseNames ps))
  | ["tracked", v] => some (.tracked v)
  | ["untracked", v] => some (.untracked v)
  | ["start", v] => some (.start v)
  | ["stop", v] => some (.stop v)
  | ["clone", w, v] => some (.clone w v)
  | ["drop", v] => some (.drop v)
  | ["move", w, v] => some (.move w v)
  | ["add", w, a, b] => some (.add w a b)
  | ["sub", w, a, b] => some (.sub w a b)
  | ["mul", w, a, b] => some (.mul w a b)
  | ["div", w, a, b] => some (.div w a b)
  | ["neg", w, a] => some (.neg w a)
  | ["ln", w, a] => some (.ln w a)
  | ["exp", w, a] => some (.exp w a)
  | ["recip", w, a] => some (.recip w a)
  | ["relu", w, a] => some (.relu w a)
  | ["sigmoid", w, a] => some (.sigmoid w a)
  | ["softmax", w, a] => some (.softmax w a)
  | ["scale", w, a, s] => do pure (.scale w a (← sc s))
  | ["powf", w, a, e] => do pure (.powf w a (← sc e))
  | ["sum", w, a, k] => do pure (.sum w a (← k.toNat?))
  | ["sumall", a] => some (.sumall a)
  | ["reshape", w, a, d] => do pure (.reshape w a (← parseNats d))
  | ["axpy", w, s, a, b] => do pure (.axpy w (← sc s) a b)
  | ["matmul", w, a, ta, b, tb, c] => do
    pure (.matmul w a (← parseT ta) b (← parseT tb) (if c == "-" then none else some c))
  | ["conv", w, a, f, sr, sc'] => do pure (.conv w a f (← sr.toNat?) (← sc'.toNat?))
  | ["matmulat", a, ta, b, tb, c, i] => do
    pure (.matmulat a (← parseT ta) b (← parseT tb) (if c == "-" then none else some c) (← parseNats i))
  | ["cop", k, w, args] => do pure (.cop (← k.toNat?) w (← parseNames args))
  | ["backward", v, s] => some (.backward v (if s == "-" then none else some s))
  | ["backwardc", v, s] => some (.backwardc v s)
  | ["grad", v] => some (.grad v)
  | ["takegrad", w, v] => some (.takegrad w v)
  | ["cleargrad", v] => some (.cleargrad v)
  | ["setgrad", v, w] => some (.setgrad v w)
  | ["show", v] => some (.show v)
  | ["idx", v, i] => do pure (.idx v (← parseNats i))
  | ["idxflat", v, i] => do pure (.idxflat v (← i.toNat?))
  | ["convat", a, f, sr, sc', i] => do pure (.convat a f (← sr.toNat?) (← sc'.toNat?) (← parseNats i))
  | ["eq", a, b] => some (.eq a b)
  | ["same", a, b] => some (.same a b)
  | ["samegrad", a, b] => some (.samegrad a b)
  | ["sumgrad", c, ps] => do pure (.sumgrad c (← parseNames ps))
  | ["lin", c, al, a, be, b] => do pure (.lin c (← sc al) a (← sc be) b)
  | ["probe", v] => some (.probe v)
  | ["flags", v] => some (.flags v)
  | ["probekid", v, i] => do pure (.probekid v (← i.toNat?))
  | ["own", v] => some (.own v)
  | ["log"] => some .log
  | ["gdupdate", lr, vs] => do pure (.gdupdate (← sc lr) (← parseNames vs))
  | ["gd", g, lr] => do pure (.gd g (← sc lr))
  | ["gdstep", g, vs] => do pure (.gdstep g (← parseNames vs))
  | ["cost", w, c, o, t] => do
    let c ← if c == "mse" then some Cost.mse else if c == "xent" then some Cost.xent else none
    pure (.cost w c o t)
  | ["dense", l, i, o, act, w, b] => do
    pure (.dense l (← i.toNat?) (← o.toNat?) (← parseAct act) (← scs w) (← scs b))
  | ["convl", l, f, d, r, c, sr, sc', act, w, b] => do
    pure (.convl l (← f.toNat?) (← d.toNat?) (← r.toNat?) (← c.toNat?) (← sr.toNat?) (← sc'.toNat?)
      (← parseAct act) (← scs w) (← scs b))
  | ["lfwd", w, l, a] => some (.lfwd w l a)
  | ["act", w, kind, a] =>
    -- the activation closures are the array methods (`hAct` = `hRelu` / `hSigmoid` / `hSoftmax`)
    if kind == "relu" then some (.relu w a) else if kind == "sigmoid" then some (.sigmoid w a)
    else if kind == "softmax" then some (.softmax w a) else none
  | ["lflag", l, which, tr] => do pure (.lflag l (← which.toNat?) (tr == "1"))
  | ["model", m, cost, lr, ls] => do
    let c ← if cost == "mse" then some Cost.mse else if cost == "xent" then some Cost.xent else none
    pure (.model m c (← sc lr) (← parseNames ls))
  | ["fwd", w, m, a] => some (.fwd w m a)
  | ["bwd", m, t] => some (.bwd m t)
  | ["update", m] => some (.update m)
  | ["params", m] => some (.params m)
  | ["ifgt", v, c, n] => do pure (.ifgt v (← sc c) (← n.toNat?))
  | ["snapshot"] => some .snapshot
  | _ => none

def b01 (b : Bool) : String := if b then "1" else "0"
def joinWith (sep : String) (l : List String) : String := sep.intercalate l

def renderT {S} (cd : Codec S) (t : Tensor S) : String :=
  "t " ++ joinWith "," (t.dims.map toString) ++ " | " ++ joinWith " " (t.vals.map cd.render)

def renderOT {S} (cd : Codec S) (t : Option (Tensor S)) : String :=
  match t with | some t => renderT cd t | none => "none"

def renderOut {S} (cd : Codec S) : Out S → String
  | .ok => "ok"
  | .tensor t tr => renderT cd t ++ " | tr=" ++ b01 tr
  | .noneOut => "none"
  | .scalar x => "s " ++ cd.render x
  | .bool b => "b " ++ b01 b
  | .flag b => "flag " ++ b01 b
  | .probe cnt pend tr keep kids rc =>
    s!"probe cnt={cnt} pend={b01 pend} tr={b01 tr} keep={b01 keep} kids={kids} rc={rc}"
  | .kid tr keep cnt pend => s!"kid tr={b01 tr} keep={b01 keep} cnt={cnt} pend={b01 pend}"
  | .flags tr keep kids => s!"flags tr={b01 tr} keep={b01 keep} kids={kids}"
  | .nokid => "nokid"
  | .owned vals => "own " ++ joinWith " " (vals.map cd.render)
  | .log entries =>
    "log " ++ joinWith " ; " ((sortByName entries).map (fun p => p.1 ++ ": " ++ renderT cd p.2))
  | .params ps => "params " ++ joinWith " ; " (ps.map (fun p => renderT cd p.1 ++ " g=" ++ renderOT cd p.2))
  | .snap es => "snap " ++ joinWith " ; " (es.map (fun p => p.1 ++ "=" ++ renderT cd p.2.1 ++ " g=" ++ renderOT cd p.2.2))
  | .skip n => s!"skip {n}"
  | .panic _ => "PANIC"

/-! ### the loop -/

structure Loop (S : Type) where
  σ : State S := {}
  o : OState S := {}
  skip : Nat := 0
  dead : Bool := false     -- a panic ends the case

variable {S : Type} [Add S] [Mul S] [Neg S] [Sub S] [ScalarOps S] [BEq S]

def handleLine (cd : Codec S) (useOracle : Bool) (l : Loop S) (line : String) : Loop S × List String :=
  let toks := (line.trimAscii.toString.splitOn " ").filter (· ≠ "")
  match toks with
  | [] => (l, [])
  | "case" :: _ => ({}, ["case"])
  | "#" :: _ => (l, [])
  | _ =>
    if l.dead then (l, ["-"])
    else if l.skip > 0 then ({ l with skip := l.skip - 1 }, ["-"])
    else match parseCmd cd toks with
      | none => (l, ["BADCMD"])
      | some c =>
        let (σ', out) := step l.σ c
        let (o', spec) := if useOracle then oracleStep l.o l.σ c out σ' else (l.o, none)
        let l' : Loop S := match out with
          | .panic _ => { l with dead := true }
          | .skip n => { l with σ := σ', o := o', skip := n }
          | _ => { l with σ := σ', o := o' }
        -- before every pass: is the state inside the hypothesis of the path-sum theorem (`ShapeOK`)?
        let ann := match c with
          | .backward _ _ | .backwardc _ _ | .bwd _ _ => " @@ shape=" ++ shapeClass l.σ
          | _ => ""
        (l', [renderOut cd out ++ (match spec with | some s => " ## " ++ renderOut cd s | none => "") ++ ann])

partial def loop (cd : Codec S) (useOracle : Bool) (h : IO.FS.Stream) (out : IO.FS.Stream) (l : Loop S) : IO Unit := do
  let line ← h.getLine
  if line.isEmpty then return ()
  let (l', outs) := handleLine cd useOracle l line
  for o in outs do out.putStrLn o
  loop cd useOracle h out l'

def main (args : List String) : IO Unit := do
  let stdin ← IO.getStdin
  let stdout ← IO.getStdout
  let orc := !(args.contains "nospec")
  match args.head? with
  | some "float" => loop floatCodec orc stdin stdout {}
  | some "f32" => loop f32Codec orc stdin stdout {}
  | _ => loop ratCodec orc stdin stdout {}
