import CorgiProps.C16
