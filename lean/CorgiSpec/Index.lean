/-
  CorgiSpec.Index — row-major layout, stated without reference to how the code computes it.
-/
import CorgiModel.Tensor
import CorgiModel.Walk

namespace Corgi

/-- Row-major position of the multi-index `idx` in an array of dimensions `dims`. -/
def rowMajor : List Nat → List Nat → Nat
  | _ :: ds, i :: is => i * prod ds + rowMajor ds is
  | _, _ => 0

/-- `idx` is a full, in-range multi-index for `dims`. -/
def inRange : List Nat → List Nat → Bool
  | [], [] => true
  | d :: ds, i :: is => decide (i < d) && inRange ds is
  | _, _ => false

/-- Well-formed tensor: every dimension ≥ 1 and the product of dimensions is the number of values. -/
def Tensor.WF {S} (t : Tensor S) : Prop := (∀ d ∈ t.dims, 1 ≤ d) ∧ prod t.dims = t.vals.length

/-- The element at a multi-index (the spec's view of a tensor). -/
def Tensor.get {S} [ScalarOps S] (t : Tensor S) (idx : List Nat) : S := t.vals.getD (rowMajor t.dims idx) zero

end Corgi
