/-
  CorgiSpec.Ops — what the properties say the operations compute, as functions of multi-indices.
  Nothing here mentions slices, odometers or offsets.
-/
import CorgiSpec.Index
import CorgiModel.Ops

namespace Corgi

variable {S : Type} [Add S] [Mul S] [Neg S] [Sub S] [ScalarOps S]

/-- The tensor whose element at every multi-index `idx` of `dims` is `f idx` (row-major). -/
def Tensor.ofFn (dims : List Nat) (f : List Nat → S) : Tensor S :=
  ⟨dims, (List.range (prod dims)).map (fun n => f (unflatten dims n))⟩

/-! ### broadcasting (C04) -/

/-- Right-aligned compatibility on reversed dimension lists: pairwise equal or 1. -/
def compatRev : List Nat → List Nat → Bool
  | x :: xs, y :: ys => (x == y || x == 1 || y == 1) && compatRev xs ys
  | _, _ => true

def Compat (a b : List Nat) : Bool := compatRev a.reverse b.reverse

/-- Pairwise maximum, right aligned. -/
def bdimsRev : List Nat → List Nat → List Nat
  | x :: xs, y :: ys => max x y :: bdimsRev xs ys
  | xs, [] => xs
  | [], ys => ys

def bdims (a b : List Nat) : List Nat := (bdimsRev a.reverse b.reverse).reverse

/-- The operand's own index for an output index: drop the surplus leading positions, use index 0
    along the operand's unit dimensions. -/
def proj (dims idx : List Nat) : List Nat :=
  (dims.zip (idx.drop (idx.length - dims.length))).map (fun p => if p.1 == 1 then 0 else p.2)

/-- Element-wise operation with output dimensions `D`: the element at `idx` is `f` of the operands'
    elements at the projected indices. -/
def specEwise' (f : S → S → S) (a b : Tensor S) (D : List Nat) : Tensor S :=
  Tensor.ofFn D (fun idx => f (a.get (proj a.dims idx)) (b.get (proj b.dims idx)))

/-- Element-wise operation under right-aligned broadcasting. -/
def specEwise (f : S → S → S) (a b : Tensor S) : Tensor S := specEwise' f a b (bdims a.dims b.dims)

/-- Sum of a delta over the broadcast positions of an operand of dimensions `dims` (C03). -/
def sumBroadcast (d : Tensor S) (dims : List Nat) : Tensor S :=
  ⟨dims, (List.range (prod dims)).map (fun q =>
    sumList (((List.range (prod d.dims)).filter (fun n => rowMajor dims (proj dims (unflatten d.dims n)) == q)).map
      (fun n => d.vals.getD n zero)))⟩

/-! ### reductions and maps (C07) -/

/-- `sum(k)`: the last `k` dimensions collapse into one unit dimension holding their sums. -/
def specSum (a : Tensor S) (k : Nat) : Tensor S :=
  if k = 0 then a
  else
    let lead := a.dims.take (a.dims.length - k)
    let blk := prod (a.dims.drop (a.dims.length - k))
    ⟨lead ++ [1], (List.range (prod lead)).map (fun q => sumList ((a.vals.drop (q * blk)).take blk))⟩

/-! ### matrix product (C05) -/

def sumRange (n : Nat) (f : Nat → S) : S := sumList ((List.range n).map f)

/-- Batched, optionally transposed product of operands of rank ≥ 2, plus the additive term
    broadcast over rows and batches. -/
def specMatmul (a : Tensor S) (ta : Bool) (b : Tensor S) (tb : Bool) (c : Option (Tensor S)) : Tensor S :=
  let la := a.dims.take (a.dims.length - 2)
  let lb := b.dims.take (b.dims.length - 2)
  let a2 := a.dims.drop (a.dims.length - 2)
  let b2 := b.dims.drop (b.dims.length - 2)
  let m := if ta then a2.getD 1 0 else a2.getD 0 0
  let kk := if ta then a2.getD 0 0 else a2.getD 1 0
  let n := if tb then b2.getD 0 0 else b2.getD 1 0
  let lead := bdims la lb
  Tensor.ofFn (lead ++ [m, n]) (fun idx =>
    let L := idx.take lead.length
    let r := idx.getD lead.length 0
    let j := idx.getD (lead.length + 1) 0
    let cterm : S := match c with
      | some c => c.get (proj c.dims idx)
      | none => zero
    cterm + sumRange kk (fun t =>
      a.get (proj la L ++ (if ta then [t, r] else [r, t])) * b.get (proj lb L ++ (if tb then [j, t] else [t, j]))))

/-! ### convolution (C06) -/

/-- Direct sliding-window definition. -/
def specConv (img flt : Tensor S) (sr sc : Nat) : Tensor S :=
  let n := img.dims.length
  let batch := img.dims.take (n - 3)
  let depth := img.dims.getD (n - 3) 0
  let rows := img.dims.getD (n - 2) 0
  let cols := img.dims.getD (n - 1) 0
  let count := flt.dims.getD 0 0
  let fr := flt.dims.getD 2 0
  let fc := flt.dims.getD 3 0
  let orows := (rows - fr) / sr + 1
  let ocols := (cols - fc) / sc + 1
  Tensor.ofFn (batch ++ [count, orows, ocols]) (fun idx =>
    let B := idx.take batch.length
    let f := idx.getD batch.length 0
    let y := idx.getD (batch.length + 1) 0
    let x := idx.getD (batch.length + 2) 0
    sumRange depth (fun k => sumRange fr (fun mm => sumRange fc (fun nn =>
      img.get (B ++ [k, y * sr + mm, x * sc + nn]) * flt.get [f, k, mm, nn]))))

end Corgi
