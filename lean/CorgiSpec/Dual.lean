/-
  CorgiSpec.Dual — dual numbers and the forward-mode reference gradient.

  Every specification operation is polymorphic in the scalar, so evaluating the recorded program
  over `Dual S` differentiates it: this is the "independent forward-mode evaluation" of C01.
  An operand whose stored handle was untracked at the time of use is a constant.
-/
import CorgiSpec.Ops
import CorgiModel.Program

namespace Corgi

structure Dual (S : Type) where
  p : S
  t : S
  deriving Repr

variable {S : Type} [Add S] [Mul S] [Neg S] [Sub S] [ScalarOps S]

instance : Add (Dual S) := ⟨fun a b => ⟨a.p + b.p, a.t + b.t⟩⟩
instance : Sub (Dual S) := ⟨fun a b => ⟨a.p - b.p, a.t - b.t⟩⟩
instance : Neg (Dual S) := ⟨fun a => ⟨-a.p, -a.t⟩⟩
instance : Mul (Dual S) := ⟨fun a b => ⟨a.p * b.p, a.t * b.p + a.p * b.t⟩⟩

/-- The derivative table of C02: `exp' = exp`, `ln' = 1/x`, `(x^e)' = e·x^(e-1)`,
    `(a/b)' = (a' − (a/b)·b') / b`. -/
instance : ScalarOps (Dual S) where
  zero := ⟨zero, zero⟩
  one := ⟨one, zero⟩
  ofNat n := ⟨ScalarOps.ofNat n, zero⟩
  div a b := ⟨ScalarOps.div a.p b.p, ScalarOps.div (a.t - ScalarOps.div a.p b.p * b.t) b.p⟩
  exp a := ⟨ScalarOps.exp a.p, a.t * ScalarOps.exp a.p⟩
  ln a := ⟨ScalarOps.ln a.p, ScalarOps.div a.t a.p⟩
  powf a e := ⟨ScalarOps.powf a.p e.p, a.t * (e.p * ScalarOps.powf a.p (e.p - one))⟩
  pos a := ScalarOps.pos a.p

def Dual.const (x : S) : Dual S := ⟨x, zero⟩
def constT (t : Tensor S) : Tensor (Dual S) := ⟨t.dims, t.vals.map Dual.const⟩
def primalT (t : Tensor (Dual S)) : Tensor S := ⟨t.dims, t.vals.map (·.p)⟩
/-- perturb element `j` -/
def seedT (t : Tensor S) (j : Nat) : Tensor (Dual S) :=
  ⟨t.dims, (List.range t.vals.length).map (fun i => ⟨t.vals.getD i zero, if i = j then one else zero⟩)⟩

/-- im2col as an index function (an internal node of `conv`). -/
def specUnroll {T} [ScalarOps T] (img : Tensor T) (sr sc fr fc : Nat) : Tensor T :=
  let n := img.dims.length
  let batch := img.dims.take (n - 3)
  let depth := img.dims.getD (n - 3) 0
  let rows := img.dims.getD (n - 2) 0
  let cols := img.dims.getD (n - 1) 0
  let orows := (rows - fr) / sr + 1
  let ocols := (cols - fc) / sc + 1
  Tensor.ofFn (batch ++ [orows * ocols, depth * fr * fc]) (fun idx =>
    let B := idx.take batch.length
    let w := idx.getD batch.length 0
    let q := idx.getD (batch.length + 1) 0
    img.get (B ++ [q / (fr * fc), (w / ocols) * sr + (q / fc) % fr, (w % ocols) * sc + q % fc]))

/-- per-image transpose `[windows, filters] → [filters, rows, cols]` as an index function -/
def specExpand {T} [ScalarOps T] (t : Tensor T) (outDims : List Nat) : Tensor T :=
  let n := outDims.length
  let ocols := outDims.getD (n - 1) 0
  Tensor.ofFn outDims (fun idx =>
    let B := idx.take (n - 3)
    t.get (B ++ [idx.getD (n - 2) 0 * ocols + idx.getD (n - 1) 0, idx.getD (n - 3) 0]))

/-- The specification of a recorded node, over any scalar type `T` (the captured scalar
    parameters are injected by `lift`). `none`: the oracle abstains. -/
def specNode {T} [Add T] [Mul T] [Neg T] [Sub T] [ScalarOps T] (lift : S → T)
    (tag : OpTag S) (kids : List (Tensor T)) (outDims : List Nat) : Option (Tensor T) :=
  let k0 := kids.getD 0 ⟨[], []⟩
  let k1 := kids.getD 1 ⟨[], []⟩
  let k2 := kids.getD 2 ⟨[], []⟩
  match tag with
  | .add => some (specEwise (· + ·) k0 k1)
  | .mul => some (specEwise (· * ·) k0 k1)
  | .div => some (specEwise ScalarOps.div k0 k1)
  | .neg => some (mapT (fun x => -x) k0)
  | .scale s => some (mapT (· * lift s) k0)
  | .powf e => some (mapT (fun x => ScalarOps.powf x (lift e)) k0)
  | .ln => some (mapT ScalarOps.ln k0)
  | .exp => some (mapT ScalarOps.exp k0)
  | .recip => some (mapT (fun x => ScalarOps.div one x) k0)
  | .sum k => some (specSum k0 k)
  | .reshape => some ⟨outDims, k0.vals⟩
  | .matmul ta tb =>
    if k0.dims.length ≥ 2 && k1.dims.length ≥ 2 then some (specMatmul k0 ta k1 tb (some k2)) else none
  | .unroll _ _ _ sr sc fr fc => some (specUnroll k0 sr sc fr fc)
  | .expand => some (specExpand k0 outDims)
  | .relu => some (mapT (fun x => if ScalarOps.pos x then x else zero) k0)
  | .sigmoid => some (mapT (fun x => ScalarOps.div one (one + ScalarOps.exp (-x))) k0)
  | .custom 0 => some ⟨k0.dims, kids.foldl (fun acc t => List.zipWith (· + ·) acc t.vals) (k0.vals.map (fun _ => zero))⟩
  | .custom 1 => some ⟨k0.dims, List.zipWith (· * ·) k0.vals k1.vals⟩
  | .custom 2 => some (mapT (fun x => x * (one + one)) k0)
  | .custom 3 => some ⟨k0.dims, List.zipWith (· + ·) (List.zipWith (· * ·) k0.vals k1.vals) k2.vals⟩
  | .custom _ => none

/-- Nodes reachable from `root` through tracked stored operands (descending sweep). -/
def reachable (σ : State S) (root : Nat) : Array Bool :=
  let n := σ.nodes.size
  (List.range n).reverse.foldl (fun (a : Array Bool) i =>
    if a.getD i false then
      match σ.nodes[i]? with
      | some r => r.kids.foldl (fun (a : Array Bool) k => if k.tracked then a.setIfInBounds k.node true else a) a
      | none => a
    else a) ((Array.replicate n false).setIfInBounds root true)

/-- Dual evaluation of the graph below `root`, perturbing element `j` of node `target`. -/
def evalDual (σ : State S) (reach : Array Bool) (root target j : Nat) : Option (Tensor (Dual S)) :=
  let vals : Array (Option (Tensor (Dual S))) :=
    (List.range (root + 1)).foldl (fun (acc : Array (Option (Tensor (Dual S)))) n =>
      let v : Option (Tensor (Dual S)) :=
        if !(reach.getD n false) then none
        else match σ.nodes[n]? with
          | none => none
          | some r =>
            let own : Tensor S := ⟨r.dims, σ.bufs.getD r.selfBuf []⟩
            if n = target then some (seedT own j)
            else match r.op with
              | none => some (constT own)
              | some tag =>
                let kids : Option (List (Tensor (Dual S))) := r.kids.mapM (fun k =>
                  if k.tracked then (acc.getD k.node none) else some (constT (σ.tensorOf k)))
                match kids with
                | some ks => specNode Dual.const tag ks r.dims
                | none => none
      acc.push v) #[]
  vals.getD root none

/-- The reference change of the gradient of `target` for one pass from `root` with `seed`:
    `Σ_i seed_i · ∂root_i/∂target_j`. -/
def refGrad (σ : State S) (reach : Array Bool) (root target : Nat) (seed : Tensor S) : Option (Tensor S) :=
  match σ.nodes[target]? with
  | none => none
  | some r =>
    let cnt := prod r.dims
    let cols : Option (List S) := (List.range cnt).mapM (fun j =>
      match evalDual σ reach root target j with
      | some out => some (sumList (List.zipWith (fun s d => s * d.t) seed.vals out.vals))
      | none => none)
    cols.map (fun vs => ⟨r.dims, vs⟩)

end Corgi
