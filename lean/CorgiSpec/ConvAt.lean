/-
  CorgiSpec.ConvAt — single elements of a convolution, computed from the sliding-window definition
  without building the result: the model's answer to the `convat` command, which lets the correspondence
  reach image sizes at which evaluating the whole model would take too long.  `CorgiProofs.ConvAt` proves
  that it is exactly what indexing the model's `conv` result returns (a corollary of C06).
-/
import CorgiSpec.Ops
import CorgiSpec.ShapeCheck

namespace Corgi
variable {S : Type} [Add S] [Mul S] [ScalarOps S]

/-- the dimensions of `conv`'s result -/
def convOutDims (img flt : Tensor S) (sr sc : Nat) : List Nat :=
  let n := img.dims.length
  let batch := img.dims.take (n - 3)
  let rows := img.dims.getD (n - 2) 0
  let cols := img.dims.getD (n - 1) 0
  let count := flt.dims.getD 0 0
  let fr := flt.dims.getD 2 0
  let fc := flt.dims.getD 3 0
  batch ++ [count, (rows - fr) / sr + 1, (cols - fc) / sc + 1]

/-- the element of the sliding-window definition at an output index -/
def convElem (img flt : Tensor S) (sr sc : Nat) (idx : List Nat) : S :=
  let n := img.dims.length
  let batch := img.dims.take (n - 3)
  let depth := img.dims.getD (n - 3) 0
  let fr := flt.dims.getD 2 0
  let fc := flt.dims.getD 3 0
  let B := idx.take batch.length
  let f := idx.getD batch.length 0
  let y := idx.getD (batch.length + 1) 0
  let x := idx.getD (batch.length + 2) 0
  sumRange depth (fun k => sumRange fr (fun mm => sumRange fc (fun nn =>
    img.get (B ++ [k, y * sr + mm, x * sc + nn]) * flt.get [f, k, mm, nn])))

/-- the configurations C06 speaks about: a well-formed image of rank ≥ 3, well-formed filters
    `[count, depth, fr, fc]` of the image's depth that fit the image, strides ≥ 1 -/
def convValidB (img flt : Tensor S) (sr sc : Nat) : Bool :=
  match split3 img.dims, flt.dims with
  | some (_, D, R, C), [_, D', fr, fc] =>
    wfB img && wfB flt && (D' == D) && decide (fr ≤ R) && decide (fc ≤ C) && decide (1 ≤ sr) && decide (1 ≤ sc)
  | _, _ => false

/-! ### single elements of a matrix product -/

/-- the dimensions of `matmul`'s result (operands of rank ≥ 2) -/
def matmulOutDims (a : Tensor S) (ta : Bool) (b : Tensor S) (tb : Bool) : List Nat :=
  let la := a.dims.take (a.dims.length - 2)
  let lb := b.dims.take (b.dims.length - 2)
  let a2 := a.dims.drop (a.dims.length - 2)
  let b2 := b.dims.drop (b.dims.length - 2)
  let m := if ta then a2.getD 1 0 else a2.getD 0 0
  let n := if tb then b2.getD 0 0 else b2.getD 1 0
  bdims la lb ++ [m, n]

/-- the element of the specification's product at an output index -/
def matmulElem (a : Tensor S) (ta : Bool) (b : Tensor S) (tb : Bool) (c : Option (Tensor S)) (idx : List Nat) : S :=
  let la := a.dims.take (a.dims.length - 2)
  let lb := b.dims.take (b.dims.length - 2)
  let a2 := a.dims.drop (a.dims.length - 2)
  let kk := if ta then a2.getD 0 0 else a2.getD 1 0
  let lead := bdims la lb
  let L := idx.take lead.length
  let r := idx.getD lead.length 0
  let j := idx.getD (lead.length + 1) 0
  let cterm : S := match c with
    | some c => c.get (proj c.dims idx)
    | none => zero
  cterm + sumRange kk (fun t =>
    a.get (proj la L ++ (if ta then [t, r] else [r, t])) * b.get (proj lb L ++ (if tb then [j, t] else [t, j])))

/-- the configurations the single-element command is defined on: well-formed operands of rank ≥ 2 with
    compatible leading and agreeing inner dimensions; no additive term, or a bias row -/
def matmulValidB (a : Tensor S) (ta : Bool) (b : Tensor S) (tb : Bool) (c : Option (Tensor S)) : Bool :=
  match split2 a.dims, split2 b.dims with
  | some (la, a1, a2), some (lb, b1, b2) =>
    wfB a && wfB b && Compat la lb && ((if ta then a1 else a2) == (if tb then b2 else b1)) &&
    (match c with
     | none => true
     | some c => (c.dims == [if tb then b1 else b2]) && wfB c)
  | _, _ => false

end Corgi
