/-
  CorgiSpec.Oracle — evaluates the *specification* of every command on the operands the model
  sees, so that each run also compares implementation and specification directly, and keeps the
  reference gradients (forward mode, `CorgiSpec.Dual`) accumulated since the last clear.
  `none` = the specification says nothing about this output (the oracle abstains).
-/
import CorgiModel.Step
import CorgiSpec.Dual

namespace Corgi

/-- Reference state: the gradient every node should hold (`none` entry = "no gradient"),
    and the nodes about which the oracle abstains. -/
structure OState (S : Type) where
  eg : List (Nat × Tensor S) := []
  unknown : List Nat := []

variable {S : Type} [Add S] [Mul S] [Neg S] [Sub S] [ScalarOps S] [BEq S]

def OState.get (o : OState S) (n : Nat) : Option (Option (Tensor S)) :=
  if o.unknown.contains n then none
  else some ((o.eg.find? (·.1 == n)).map (·.2))

def OState.set (o : OState S) (n : Nat) (g : Option (Tensor S)) : OState S :=
  let eg := o.eg.filter (·.1 != n)
  { o with eg := match g with | some g => (n, g) :: eg | none => eg }

def OState.forget (o : OState S) (n : Nat) : OState S := { o with unknown := n :: o.unknown }

def addSame (a b : Tensor S) : Tensor S := ⟨a.dims, List.zipWith (· + ·) a.vals b.vals⟩

/-- expected effect of one backward pass on the reference gradients -/
def OState.pass (o : OState S) (σ : State S) (h : Handle) (seed : Option (Tensor S)) : OState S :=
  let reach := reachable σ h.node
  let seedT : Tensor S := match seed with
    | some s => s
    | none => ⟨h.dims, List.replicate (prod h.dims) one⟩
  (List.range σ.nodes.size).foldl (fun (o : OState S) n =>
    if !(reach.getD n false) then o
    else match σ.nodes[n]? with
      | none => o
      | some r =>
        -- which handles reach this node, and do they agree on `keep`?
        let slots : List Handle := (List.range σ.nodes.size).flatMap (fun m =>
          if reach.getD m false then
            match σ.nodes[m]? with
            | some rm => rm.kids.filter (fun k => k.tracked && k.node == n)
            | none => []
          else [])
        let keeps := (if n == h.node then [h.keep] else []) ++ slots.map (·.keep)
        let stores := r.kids.isEmpty || keeps.all id
        let ambiguous := !r.kids.isEmpty && keeps.any id && !(keeps.all id)
        if ambiguous then o.forget n
        else if !stores then o
        else match refGrad σ reach h.node n seedT with
          | none => o.forget n
          | some d =>
            match o.get n with
            | none => o
            | some (some g) => o.set n (some (addSame g d))
            | some none => o.set n (some d)) o

def anyTracked (hs : List Handle) : Bool := hs.any (·.tracked)

def expectT (t : Tensor S) (tr : Bool) : Option (Out S) := some (.tensor t tr)

def wfDims (t : Tensor S) : Bool := t.dims.all (· ≥ 1) && prod t.dims == t.vals.length

/-- softmax over the last dimension -/
def specSoftmax (a : Tensor S) : Tensor S :=
  let last := a.dims.getLast?.getD 1
  ⟨a.dims, (List.range a.vals.length).map (fun i =>
    let row := (a.vals.drop (i / last * last)).take last
    ScalarOps.div (ScalarOps.exp (a.vals.getD i zero)) (sumList (row.map ScalarOps.exp)))⟩

def specAct (act : Act) (t : Tensor S) : Tensor S :=
  match act with
  | .none => t
  | .relu => mapT (fun x => if ScalarOps.pos x then x else zero) t
  | .sigmoid => mapT (fun x => ScalarOps.div one (one + ScalarOps.exp (-x))) t
  | .softmax => specSoftmax t

/-- matmul per C05; `none` = abstain, `some none` = must refuse -/
def specMatmulCmd (a : Tensor S) (ta : Bool) (b : Tensor S) (tb : Bool) (c : Option (Tensor S)) :
    Option (Option (Tensor S)) :=
  let ra := a.dims.length
  let rb := b.dims.length
  if ra ≥ 2 && rb ≥ 2 then
    let a2 := a.dims.drop (ra - 2)
    let b2 := b.dims.drop (rb - 2)
    let m := if ta then a2.getD 1 0 else a2.getD 0 0
    let ka := if ta then a2.getD 0 0 else a2.getD 1 0
    let kb := if tb then b2.getD 1 0 else b2.getD 0 0
    let n := if tb then b2.getD 0 0 else b2.getD 1 0
    if !(Compat (a.dims.take (ra - 2)) (b.dims.take (rb - 2))) || ka != kb then some none
    else match c with
      | none => some (some (specMatmul a ta b tb none))
      | some c =>
        if c.dims == [n] || c.dims == [m, n] || c.dims == [1, n] || c.dims == [1] then
          some (some (specMatmul a ta b tb (some c)))
        else none
  else if ra == 1 && rb ≥ 2 && !ta && c.isNone then
    -- a rank-1 operand next to a rank ≥ 2 operand behaves as a one-row matrix
    let kb := if tb then b.dims.getD (rb - 1) 0 else b.dims.getD (rb - 2) 0
    if a.dims != [kb] then some none
    else some (some (specMatmul ⟨[1, kb], a.vals⟩ false b tb none))
  else if ra == 1 && rb == 1 && !ta && !tb && c.isNone then
    -- two untransposed rank-1 operands give their dot product
    if a.dims != b.dims then some none
    else some (some ⟨[1], [sumList (List.zipWith (· * ·) a.vals b.vals)]⟩)
  else none

def specConvCmd (img flt : Tensor S) (sr sc : Nat) : Option (Option (Tensor S)) :=
  let n := img.dims.length
  if n < 3 || flt.dims.length < 3 then some none
  else if flt.dims.length != 4 then none
  else
    let depth := img.dims.getD (n - 3) 0
    let rows := img.dims.getD (n - 2) 0
    let cols := img.dims.getD (n - 1) 0
    if flt.dims.getD 1 0 != depth || flt.dims.getD 2 0 > rows || flt.dims.getD 3 0 > cols || sr == 0 || sc == 0 then some none
    else some (some (specConv img flt sr sc))

def specEwiseCmd (f : S → S → S) (a b : Tensor S) : Option (Tensor S) :=
  if Compat a.dims b.dims then some (specEwise f a b) else none

def outOf (r : Option (Option (Tensor S))) (tr : Bool) : Option (Out S) :=
  match r with
  | none => none
  | some none => some (.panic .incompatible)
  | some (some t) => some (.tensor t tr)

def specLayer (σ : State S) (l : Layer) (x : Tensor S) : Option (Option (Tensor S)) :=
  match l with
  | .dense w b act =>
    match specMatmulCmd x false (σ.tensorOf w) true none with
    | some (some y) =>
      -- `x Wᵀ + b`, one bias per output column
      some (some (specAct act (specEwise (· + ·) y (σ.tensorOf b))))
    | r => r
  | .conv f b sr sc act =>
    match specConvCmd x (σ.tensorOf f) sr sc with
    | some (some y) => some (some (specAct act (specEwise (· + ·) y (σ.tensorOf b))))
    | r => r

def specCost (c : Cost) (output target : Tensor S) : Option (Tensor S) :=
  match c with
  | .mse =>
    (specEwiseCmd (fun t o => (t - o) * (t - o) * ScalarOps.div one (ScalarOps.ofNat (prod output.dims))) target output)
  | .xent =>
    (specEwiseCmd (fun t o => (-t) * ScalarOps.ln o * ScalarOps.div one (ScalarOps.ofNat (output.dims.getD 0 1))) target output)

def sgdSpec (lr : S) (o : OState S) (σ : State S) (ps : List Handle) : Option (List (Tensor S × Option (Tensor S))) :=
  ps.mapM (fun p =>
    match o.get p.node with
    | none => none
    | some none => some (σ.tensorOf p, none)
    | some (some g) =>
      let t := σ.tensorOf p
      some (⟨t.dims, List.zipWith (fun x gi => x - lr * gi) t.vals g.vals⟩, none))

/-- One oracle step: the expected output (if the specification determines it) and the new
    reference state.  `σ` is the state before the command, `σ'` after, `out` the model's output
    (used only for the parts the specification leaves open). -/
def oracleStep (o : OState S) (σ : State S) (c : Cmd S) (out : Out S) (σ' : State S) : OState S × Option (Out S) :=
  let T := fun (v : String) => (lookup σ.env v).map σ.tensorOf
  let H := fun (v : String) => lookup σ.env v
  let tr2 := fun (a b : String) => match H a, H b with
    | some x, some y => x.tracked || y.tracked
    | _, _ => false
  let tr1 := fun (a : String) => match H a with | some x => x.tracked | none => false
  let ew := fun (f : S → S → S) (a b : String) => match T a, T b with
    | some x, some y => (match specEwiseCmd f x y with
        | some t => (o, expectT t (tr2 a b))
        | none => (o, some (.panic .incompatible)))
    | _, _ => (o, none)
  let un := fun (f : S → S) (a : String) => match T a with
    | some x => (o, expectT (mapT f x) (tr1 a))
    | none => (o, none)
  match c with
  | .add _ a b => ew (· + ·) a b
  | .sub _ a b => ew (· - ·) a b
  | .mul _ a b => ew (· * ·) a b
  | .div _ a b => ew ScalarOps.div a b
  | .axpy _ s a b => ew (fun x y => x * s + y) a b
  | .neg _ a => un (fun x => -x) a
  | .scale _ a s => un (· * s) a
  | .powf _ a e => un (fun x => ScalarOps.powf x e) a
  | .ln _ a => un ScalarOps.ln a
  | .exp _ a => un ScalarOps.exp a
  | .recip _ a => un (fun x => ScalarOps.div one x) a
  | .relu _ a => un (fun x => if ScalarOps.pos x then x else zero) a
  | .sigmoid _ a => un (fun x => ScalarOps.div one (one + ScalarOps.exp (-x))) a
  | .softmax _ a => match T a with
    | some x => (o, expectT (specSoftmax x) (tr1 a))
    | none => (o, none)
  | .sum _ a k => match T a with
    | some x => if k ≤ x.dims.length then (o, expectT (specSum x k) (tr1 a)) else (o, none)
    | none => (o, none)
  | .sumall a => match T a with
    | some x => (o, some (.scalar (sumList x.vals)))
    | none => (o, none)
  | .reshape _ a dims => match T a with
    | some x =>
      if dims.all (· ≥ 1) && prod dims == x.vals.length then (o, expectT ⟨dims, x.vals⟩ (tr1 a))
      else (o, some (.panic .countMismatch))
    | none => (o, none)
  | .matmul _ a ta b tb cn => match T a, T b with
    | some x, some y =>
      let ct := cn.bind T
      let tr := tr2 a b || (match cn with | some cn => tr1 cn | none => false)
      (o, outOf (specMatmulCmd x ta y tb ct) tr)
    | _, _ => (o, none)
  | .conv _ a f sr sc => match T a, T f with
    | some x, some y => (o, outOf (specConvCmd x y sr sc) (tr2 a f))
    | _, _ => (o, none)
  | .lfwd _ l a => match lookup σ.layers l, T a with
    | some lay, some x => (o, outOf (specLayer σ lay x) (tr1 a || (layerParams lay).any (·.tracked)))
    | _, _ => (o, none)
  | .fwd _ m a => match lookup σ.models m, T a with
    | some mr, some x =>
      let r := mr.layers.foldl (fun (acc : Option (Option (Tensor S))) l =>
        match acc, lookup σ.layers l with
        | some (some t), some lay => specLayer σ lay t
        | _, _ => none) (some (some x))
      let ptr := mr.layers.any (fun l => match lookup σ.layers l with
        | some lay => (layerParams lay).any (·.tracked)
        | none => false)
      (o, outOf r (tr1 a || ptr))
    | _, _ => (o, none)
  | .backward v seed => match H v, out with
    | some h, .ok => (o.pass σ h (seed.bind T), some .ok)
    | _, _ => (o, none)
  | .backwardc v seed => match H v, out with
    | some h, .ok => (o.pass σ h (T seed), some .ok)
    | _, _ => (o, none)
  | .bwd m t => match lookup σ.models m, T t, out with
    | some mr, some target, .scalar _ =>
      -- the loss is the sum of the cost array; the pass runs on the cost node, which is the
      -- newest node of the state after the command
      (match mr.output with
       | some oh =>
         let loss := (specCost mr.cost (σ.tensorOf oh) target).map (fun t => Out.scalar (sumList t.vals))
         let errNode := σ'.nodes.size - 1
         let eh : Handle := ⟨(σ'.nodes[errNode]?.map (·.dims)).getD [], 0, errNode, true, true⟩
         -- reference gradients are taken on the graph as it was built (before the pass ran,
         -- the graph part of the state is identical)
         (o.pass σ' eh none, loss)
       | none => (o, none))
    | _, _, _ => (o, none)
  | .grad v => match H v with
    | some h => (match o.get h.node with
        | some (some g) => (o, some (.tensor g false))
        | some none => (o, some .noneOut)
        | none => (o, none))
    | none => (o, none)
  | .cleargrad v => match H v with
    | some h => ({ (o.set h.node none) with unknown := o.unknown.filter (· != h.node) }, none)
    | none => (o, none)
  | .setgrad v w => match H v, T w with
    | some h, some g => ({ (o.set h.node (some g)) with unknown := o.unknown.filter (· != h.node) }, none)
    | _, _ => (o, none)
  | .gdupdate lr vs =>
    let hs := vs.filterMap H
    let exp := sgdSpec lr o σ hs
    -- a parameter that held a gradient is replaced by a fresh array; its node's gradient is taken
    let o' := hs.foldl (fun (o : OState S) h => o.set h.node none) o
    (o', exp.map (fun ps => .params ps))
  | .gdstep g vs => match lookup σ.models ("#gd:" ++ g) with
    | some mr =>
      let hs := vs.filterMap H
      let exp := sgdSpec mr.lr o σ hs
      let o' := hs.foldl (fun (o : OState S) h => o.set h.node none) o
      (o', exp.map (fun ps => .params ps))
    | none => (o, none)
  | .cost _ c output target => match T output, T target with
    | some ot, some tt => (match specCost c ot tt with
        | some t => (o, expectT t (tr2 output target))
        | none => (o, some (.panic .incompatible)))
    | _, _ => (o, none)
  | .update m => match lookup σ.models m with
    | some mr =>
      let hs := modelParams σ mr.layers
      let exp := sgdSpec mr.lr o σ hs
      let o' := hs.foldl (fun (o : OState S) h => o.set h.node none) o
      (o', exp.map (fun ps => .params ps))
    | none => (o, none)
  -- emitted by the generators only where the property demands equality
  | .same _ _ => (o, some (.bool true))
  | .samegrad _ _ => (o, some (.bool true))
  | .lin _ _ _ _ _ => (o, some (.bool true))
  | .sumgrad _ _ => (o, some (.bool true))
  | .probe _ => match out with
    | .probe _ _ tr keep kids rc => (o, some (.probe 0 false tr keep kids rc))
    | _ => (o, none)
  | _ => (o, none)

end Corgi
