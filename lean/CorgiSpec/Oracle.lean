/-
  CorgiSpec.Oracle — evaluates the *specification* of a command on the operands the model sees,
  so that every run also compares implementation and specification directly.
-/
import CorgiModel.Step

namespace Corgi

abbrev Oracle (S : Type) := State S → Cmd S → Out S → Option String

variable {S : Type} [Add S] [Mul S] [Neg S] [Sub S] [ScalarOps S] [BEq S]

def oracle (_render : S → String) : Oracle S := fun _ _ _ => none

end Corgi
