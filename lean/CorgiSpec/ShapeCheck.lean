/-
  CorgiSpec.ShapeCheck — an executable check of the hypothesis `ShapeOK` of the path-sum theorem
  (`C01_pathsum_of_stored_closures`): every recorded node has valid dimensions, its stored operand handles
  carry the dimensions of the nodes they name, and the operands have the shapes the node's operation
  produces it from.  `CorgiProofs.ShapeCheckSound` proves `shapeOKb σ = true → ShapeOK σ`; the driver
  evaluates `shapeClass` on the state before every pass, so every correspondence run reports on how many
  of the executed passes the theorem's hypothesis was *checked* to hold.
-/
import CorgiSpec.Ops
import CorgiModel.Program

namespace Corgi
variable {S : Type}

def wfB (a : Tensor S) : Bool := a.dims.all (fun d => decide (1 ≤ d)) && (prod a.dims == a.vals.length)
def operandOKB (a : Tensor S) : Bool := wfB a && !a.dims.isEmpty
def dimsOKB (d : List Nat) : Bool := !d.isEmpty && d.all (fun k => decide (1 ≤ k))

def fitsRevB : List Nat → List Nat → Bool
  | [], _ => true
  | _ :: _, [] => false
  | d :: ds, e :: es => (d == 1 || d == e) && fitsRevB ds es

def fitsB (ad D : List Nat) : Bool := fitsRevB ad.reverse D.reverse

/-- `d = l ++ [p, q]` -/
def split2 (d : List Nat) : Option (List Nat × Nat × Nat) :=
  match d.reverse with
  | q :: p :: rl => some (rl.reverse, p, q)
  | _ => none

/-- `d = l ++ [p, q, r]` -/
def split3 (d : List Nat) : Option (List Nat × Nat × Nat × Nat) :=
  match d.reverse with
  | r :: q :: p :: rl => some (rl.reverse, p, q, r)
  | _ => none

def tagShapeB (tag : OpTag S) (c : List (Tensor S)) (self : Tensor S) (nd : List Nat) : Bool :=
  match tag with
  | .add | .mul | .div =>
    match c with
    | [a, b] => operandOKB a && operandOKB b && Compat a.dims b.dims && (nd == bdims a.dims b.dims)
    | _ => false
  | .neg | .scale _ | .powf _ | .ln | .recip | .relu =>
    match c with
    | [a] => operandOKB a && (nd == a.dims)
    | _ => false
  | .exp | .sigmoid =>
    match c with
    | [a] => operandOKB a && (nd == a.dims) && (self.vals.length == prod nd)
    | _ => false
  | .reshape =>
    match c with
    | [a] => operandOKB a && dimsOKB nd && (prod nd == prod a.dims)
    | _ => false
  | .sum k =>
    match c with
    | [a] => operandOKB a && decide (1 ≤ k) && decide (k ≤ a.dims.length) && (nd == a.dims.take (a.dims.length - k) ++ [1])
    | _ => false
  | .matmul ta tb =>
    match c with
    | [a, b, cc] =>
      match split2 a.dims, split2 b.dims with
      | some (la, a1, a2), some (lb, b1, b2) =>
        wfB a && wfB b && Compat la lb && ((if ta then a1 else a2) == (if tb then b2 else b1)) &&
        cc.dims.all (fun d => decide (1 ≤ d)) && fitsB cc.dims nd &&
        (nd == bdims la lb ++ [if ta then a2 else a1, if tb then b1 else b2])
      | _, _ => false
    | _ => false
  | .unroll D R C sr sc fr fc =>
    match c with
    | [a] =>
      match split3 a.dims with
      | some (B, D', R', C') =>
        (D' == D) && (R' == R) && (C' == C) && wfB a && decide (fr ≤ R) && decide (fc ≤ C) && decide (1 ≤ fr) &&
        decide (1 ≤ fc) && decide (1 ≤ sr) && decide (1 ≤ sc) &&
        (nd == B ++ [((R - fr) / sr + 1) * ((C - fc) / sc + 1), D * (fr * fc)])
      | none => false
    | _ => false
  | .expand =>
    match c with
    | [a] =>
      match split2 a.dims, split3 nd with
      | some (B, w, f), some (B', f', rC, cC) =>
        (B' == B) && (f' == f) && wfB a && (rC * cC == w) && decide (1 ≤ rC) && decide (1 ≤ cC)
      | _, _ => false
    | _ => false
  | .custom k =>
    if k = 2 then
      match c with
      | [a] => operandOKB a && (nd == a.dims)
      | _ => false
    else false

def nodeOKB (σ : State S) (r : NodeRec S) : Bool :=
  dimsOKB r.dims &&
  r.kids.all (fun k => match σ.nodes[k.node]? with | some rk => k.dims == rk.dims | none => false) &&
  (match r.op with
   | some tag => tagShapeB tag (r.kids.map σ.tensorOf) ⟨[], σ.bufs.getD r.selfBuf []⟩ r.dims
   | none => true)

/-- the executable form of `ShapeOK` -/
def shapeOKb (σ : State S) : Bool := σ.nodes.toList.all (nodeOKB σ)

/-- why a state is outside the theorem's hypothesis: a harness-defined closure, a `matmul` with an operand
    of rank 1, an array without dimensions — or none of these -/
def outsideReason (σ : State S) : String :=
  if σ.nodes.toList.any (fun r => match r.op with | some (.custom k) => k != 2 | _ => false) then "custom"
  else if σ.nodes.toList.any (fun r => match r.op with
      | some (.matmul _ _) => (r.kids.take 2).any (fun k => k.dims.length < 2) | _ => false) then "rank1-matmul"
  else if σ.nodes.toList.any (fun r => r.dims.isEmpty) then "rank0"
  else "other"

/-- `ok`, or the reason the hypothesis does not apply -/
def shapeClass (σ : State S) : String := if shapeOKb σ then "ok" else outsideReason σ

end Corgi
