import CorgiSpec.Oracle
