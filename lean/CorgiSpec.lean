import CorgiSpec.Oracle
import CorgiSpec.Index
