import CorgiSpec.Index
import CorgiSpec.Ops
import CorgiSpec.Dual
import CorgiSpec.Oracle
import CorgiSpec.ShapeCheck
import CorgiSpec.ConvAt
