//! Correspondence harness: interprets the command language of /verif/lean/CorgiModel/Step.lean
//! against the real `corgi` crate (built from /repo's working tree, feature `verif` on) and prints
//! one canonical line per command.  `corgi-harness exact|float < file.cmds`.

#[macro_use]
extern crate corgi;

use corgi::activation::{self, Activation};
use corgi::array::*;
use corgi::cost::{self, CostFunction};
use corgi::initializer::Initializer;
use corgi::layer::conv::Conv;
use corgi::layer::dense::Dense;
use corgi::layer::Layer;
use corgi::model::Model;
use corgi::numbers::Float;
use corgi::optimizer::gd::GradientDescent;
use corgi::optimizer::Optimizer;

use std::cell::RefCell;
use std::collections::{BTreeMap, VecDeque};
use std::io::{self, BufRead, Write};
use std::panic::{self, AssertUnwindSafe};
use std::rc::Rc;

thread_local! {
    static LOG: RefCell<Vec<(String, Vec<usize>, Vec<Float>)>> = RefCell::new(Vec::new());
}

#[derive(Clone, Copy, PartialEq)]
enum Mode {
    Exact,
    Float,
}

#[cfg(not(feature = "f32"))]
fn bits_hex(x: Float) -> String {
    format!("x{:016x}", x.to_bits())
}
#[cfg(feature = "f32")]
fn bits_hex(x: Float) -> String {
    format!("x{:08x}", x.to_bits())
}
#[cfg(not(feature = "f32"))]
fn from_bits(n: u64) -> Float {
    f64::from_bits(n)
}
#[cfg(feature = "f32")]
fn from_bits(n: u64) -> Float {
    f32::from_bits(n as u32)
}

/// Exact rational rendering of a float: `n` or `n/d` in lowest terms (every finite float is dyadic).
fn render_exact(x: Float) -> String {
    let x = x as f64;
    if x.is_nan() {
        return "nan".to_string();
    }
    if x.is_infinite() {
        return if x > 0.0 { "inf".to_string() } else { "-inf".to_string() };
    }
    if x == 0.0 {
        return "0".to_string();
    }
    let bits = x.to_bits();
    let neg = bits >> 63 == 1;
    let exp = ((bits >> 52) & 0x7ff) as i64;
    let frac = bits & ((1u64 << 52) - 1);
    let (mut m, mut e) = if exp == 0 { (frac, -1074i64) } else { (frac | (1u64 << 52), exp - 1075) };
    while m % 2 == 0 {
        m >>= 1;
        e += 1;
    }
    let sign = if neg { "-" } else { "" };
    if e >= 0 {
        if e <= 70 {
            format!("{}{}", sign, (m as u128) << e)
        } else {
            format!("big{}", bits_hex(x as Float))
        }
    } else if -e <= 120 {
        format!("{}{}/{}", sign, m, 1u128 << (-e))
    } else {
        format!("tiny{}", bits_hex(x as Float))
    }
}

struct Ctx {
    mode: Mode,
}

impl Ctx {
    fn render(&self, x: Float) -> String {
        match self.mode {
            Mode::Exact => render_exact(x),
            Mode::Float => bits_hex(x),
        }
    }
    fn parse(&self, s: &str) -> Float {
        match self.mode {
            Mode::Exact => {
                let mut it = s.split('/');
                let n: i64 = it.next().unwrap().parse().unwrap();
                match it.next() {
                    Some(d) => (n as f64 / d.parse::<u64>().unwrap() as f64) as Float,
                    None => n as Float,
                }
            }
            Mode::Float => from_bits(u64::from_str_radix(&s[1..], 16).unwrap()),
        }
    }
    fn parse_list(&self, s: &str) -> Vec<Float> {
        if s == "-" {
            vec![]
        } else {
            s.split(',').map(|x| self.parse(x)).collect()
        }
    }
    fn render_t(&self, dims: &[usize], vals: &[Float]) -> String {
        format!(
            "t {} | {}",
            dims.iter().map(|d| d.to_string()).collect::<Vec<_>>().join(","),
            vals.iter().map(|v| self.render(*v)).collect::<Vec<_>>().join(" ")
        )
    }
    fn render_a(&self, a: &Array) -> String {
        self.render_t(a.dimensions(), a.values())
    }
    fn render_oa(&self, a: &Option<Array>) -> String {
        match a {
            Some(a) => self.render_a(a),
            None => "none".to_string(),
        }
    }
}

fn parse_nats(s: &str) -> Vec<usize> {
    if s == "-" {
        vec![]
    } else {
        s.split(',').map(|x| x.parse().unwrap()).collect()
    }
}
fn parse_names(s: &str) -> Vec<String> {
    if s == "-" {
        vec![]
    } else {
        s.split(',').map(|x| x.to_string()).collect()
    }
}
fn parse_t(s: &str) -> bool {
    match s {
        "T" => true,
        "N" => false,
        _ => panic!("bad transpose flag"),
    }
}

/// The tracking flag as the public API shows it (`Debug`).
fn is_tracked(a: &Array) -> bool {
    format!("{:?}", a).contains("tracked: Cell { value: true }")
}

fn b01(b: bool) -> &'static str {
    if b {
        "1"
    } else {
        "0"
    }
}

struct LayerBox {
    ptr: *mut dyn Layer,
}

struct ModelBox {
    model: Model<'static>,
    layers: Vec<String>,
}

#[derive(Default)]
struct State {
    env: BTreeMap<String, Array>,
    /// bitwise copy of (dimensions, values) taken when the name was bound: the immutability oracle
    shadow: BTreeMap<String, (Vec<usize>, Vec<Float>)>,
    layers: BTreeMap<String, LayerBox>,
    models: BTreeMap<String, ModelBox>,
    optimizers: BTreeMap<String, GradientDescent>,
    /// one cost closure per kind for the whole case (a cost closure is created once and called many times)
    costs: BTreeMap<String, CostFunction>,
}

impl State {
    fn get(&self, name: &str) -> &Array {
        self.env.get(name).unwrap_or_else(|| panic!("unknown name {}", name))
    }
    fn bind(&mut self, name: &str, a: Array) {
        self.shadow
            .insert(name.to_string(), (a.dimensions().to_vec(), a.values().to_vec()));
        self.env.insert(name.to_string(), a);
    }
    fn unbind(&mut self, name: &str) -> Array {
        self.shadow.remove(name);
        self.env.remove(name).unwrap_or_else(|| panic!("unknown name {}", name))
    }
    fn immut_violations(&self) -> Vec<String> {
        let mut out = vec![];
        for (name, a) in &self.env {
            let (d, v) = &self.shadow[name];
            let same = a.dimensions() == &d[..]
                && a.values().len() == v.len()
                && a.values().iter().zip(v).all(|(x, y)| x.to_bits() == y.to_bits());
            if !same {
                out.push(name.clone());
            }
        }
        out
    }
}

fn custom_op(kind: usize, label: &str, args: &[&Array]) -> Array {
    let forward: ForwardOp = match kind {
        0 => Rc::new(|x: &[&Array]| {
            let mut v: Vec<Float> = vec![0.0; x[0].values().len()];
            for t in x {
                v = v.iter().zip(t.values()).map(|(a, b)| a + b).collect();
            }
            Array::from((x[0].dimensions().to_vec(), v))
        }),
        1 => Rc::new(|x: &[&Array]| {
            let v: Vec<Float> = x[0].values().iter().zip(x[1].values()).map(|(a, b)| a * b).collect();
            Array::from((x[0].dimensions().to_vec(), v))
        }),
        2 => Rc::new(|x: &[&Array]| {
            let v: Vec<Float> = x[0].values().iter().map(|a| a * 2.0).collect();
            Array::from((x[0].dimensions().to_vec(), v))
        }),
        3 => Rc::new(|x: &[&Array]| {
            let p: Vec<Float> = x[0].values().iter().zip(x[1].values()).map(|(a, b)| a * b).collect();
            let v: Vec<Float> = p.iter().zip(x[2].values()).map(|(a, b)| a + b).collect();
            Array::from((x[0].dimensions().to_vec(), v))
        }),
        _ => panic!("unknown custom kind"),
    };
    let label = label.to_string();
    let prod = |a: &Array, d: &Array| -> Array {
        let v: Vec<Float> = a.values().iter().zip(d.values()).map(|(a, b)| a * b).collect();
        Array::from((d.dimensions().to_vec(), v))
    };
    let backward: BackwardOp = Rc::new(move |c: &[Array], t: &[bool], x: &Array| {
        LOG.with(|l| {
            l.borrow_mut()
                .push((label.clone(), x.dimensions().to_vec(), x.values().to_vec()))
        });
        match kind {
            0 => t.iter().map(|b| if *b { Some(x.clone()) } else { None }).collect(),
            1 => vec![
                if t[0] { Some(prod(&c[1], x)) } else { None },
                if t[1] { Some(prod(&c[0], x)) } else { None },
            ],
            2 => vec![if t[0] {
                Some(Array::from((
                    x.dimensions().to_vec(),
                    x.values().iter().map(|a| a * 2.0).collect::<Vec<Float>>(),
                )))
            } else {
                None
            }],
            _ => vec![
                if t[0] { Some(prod(&c[1], x)) } else { None },
                if t[1] { Some(prod(&c[0], x)) } else { None },
                if t[2] { Some(x.clone()) } else { None },
            ],
        }
    });
    Array::op(args, forward, Some(backward))
}

fn scripted_initializer(vals: Vec<Float>) -> &'static Initializer {
    let q = RefCell::new(VecDeque::from(vals));
    let f: Initializer = Box::new(move |_| q.borrow_mut().pop_front().expect("initializer exhausted"));
    Box::leak(Box::new(f))
}

fn make_activation(name: &str) -> Option<Activation> {
    match name {
        "none" => None,
        "relu" => Some(activation::relu()),
        "sigmoid" => Some(activation::sigmoid()),
        "softmax" => Some(activation::softmax()),
        _ => panic!("bad activation"),
    }
}

fn layer_params(ptr: *mut dyn Layer) -> Vec<Array> {
    // clones of the parameter handles (read-only use)
    let layer: &mut dyn Layer = unsafe { &mut *ptr };
    layer.parameters().into_iter().map(|p| p.clone()).collect()
}

fn exec(ctx: &Ctx, st: &mut State, toks: &[&str]) -> String {
    let show = |a: &Array| format!("{} | tr={}", ctx.render_a(a), b01(is_tracked(a)));
    macro_rules! bin {
        ($w:expr, $a:expr, $b:expr, $f:expr) => {{
            let r = { let f: fn(&Array, &Array) -> Array = $f; f(st.get($a), st.get($b)) };
            let s = show(&r);
            st.bind($w, r);
            s
        }};
    }
    macro_rules! un {
        ($w:expr, $a:expr, $f:expr) => {{
            let r = { let f: &dyn Fn(&Array) -> Array = &$f; f(st.get($a)) };
            let s = show(&r);
            st.bind($w, r);
            s
        }};
    }
    match toks {
        ["new", v, d, x] => {
            let r = Array::from((parse_nats(d), ctx.parse_list(x)));
            let s = show(&r);
            st.bind(v, r);
            s
        }
        ["flat", v, x] => {
            let r = Array::from(ctx.parse_list(x));
            let s = show(&r);
            st.bind(v, r);
            s
        }
        ["zeros", v, d] => {
            let r = Array::from(parse_nats(d));
            let s = show(&r);
            st.bind(v, r);
            s
        }
        ["nest", v, ps] => {
            let parts: Vec<Array> = parse_names(ps).iter().map(|p| st.get(p).clone()).collect();
            let r = Array::from(parts);
            let s = show(&r);
            st.bind(v, r);
            s
        }
        ["tracked", v] => {
            let a = st.unbind(v).tracked();
            st.bind(v, a);
            "ok".into()
        }
        ["untracked", v] => {
            let a = st.unbind(v).untracked();
            st.bind(v, a);
            "ok".into()
        }
        ["start", v] => format!("flag {}", b01(st.get(v).start_tracking())),
        ["stop", v] => format!("flag {}", b01(st.get(v).stop_tracking())),
        ["clone", w, v] => {
            let a = st.get(v).clone();
            st.bind(w, a);
            "ok".into()
        }
        ["drop", v] => {
            drop(st.unbind(v));
            "ok".into()
        }
        ["move", w, v] => {
            let a = st.unbind(v);
            st.bind(w, a);
            "ok".into()
        }
        ["add", w, a, b] => bin!(w, a, b, |x, y| x + y),
        ["sub", w, a, b] => bin!(w, a, b, |x, y| x - y),
        ["mul", w, a, b] => bin!(w, a, b, |x, y| x * y),
        ["div", w, a, b] => bin!(w, a, b, |x, y| x / y),
        ["neg", w, a] => un!(w, a, |x: &Array| -x),
        ["ln", w, a] => un!(w, a, |x: &Array| x.ln()),
        ["exp", w, a] => un!(w, a, |x: &Array| x.exp()),
        ["recip", w, a] => un!(w, a, |x: &Array| x.reciprocal()),
        ["relu", w, a] => un!(w, a, |x: &Array| x.relu()),
        ["sigmoid", w, a] => un!(w, a, |x: &Array| x.sigmoid()),
        ["softmax", w, a] => un!(w, a, |x: &Array| x.softmax()),
        ["scale", w, a, s] => {
            let s = ctx.parse(s);
            un!(w, a, move |x: &Array| x * s)
        }
        ["powf", w, a, e] => {
            let e = ctx.parse(e);
            un!(w, a, move |x: &Array| x.powf(e))
        }
        ["sum", w, a, k] => {
            let k: usize = k.parse().unwrap();
            un!(w, a, move |x: &Array| x.sum(k))
        }
        ["sumall", a] => format!("s {}", ctx.render(st.get(a).sum_all())),
        ["reshape", w, a, d] => {
            let d = parse_nats(d);
            un!(w, a, move |x: &Array| x.reshape(d.clone()))
        }
        ["axpy", w, s, a, b] => {
            let s = ctx.parse(s);
            let r = Array::axpy(s, st.get(a), st.get(b));
            let out = show(&r);
            st.bind(w, r);
            out
        }
        ["matmul", w, a, ta, b, tb, c] => {
            let r = {
                let cc = if *c == "-" { None } else { Some(st.get(c)) };
                Array::matmul((st.get(a), parse_t(ta)), (st.get(b), parse_t(tb)), cc)
            };
            let out = show(&r);
            st.bind(w, r);
            out
        }
        ["conv", w, a, f, sr, sc] => {
            let r = st.get(a).conv(st.get(f), (sr.parse().unwrap(), sc.parse().unwrap()));
            let out = show(&r);
            st.bind(w, r);
            out
        }
        ["matmulat", a, ta, b, tb, c, i] => {
            // one element of the product: the whole product is computed by the library, then indexed
            let r = {
                let cc = if *c == "-" { None } else { Some(st.get(c)) };
                Array::matmul((st.get(a), parse_t(ta)), (st.get(b), parse_t(tb)), cc)
            };
            format!("s {}", ctx.render(r[parse_nats(i)]))
        }
        ["convat", a, f, sr, sc, i] => {
            // one element of the convolution: the whole convolution is computed by the library, then indexed
            let r = st.get(a).conv(st.get(f), (sr.parse().unwrap(), sc.parse().unwrap()));
            format!("s {}", ctx.render(r[parse_nats(i)]))
        }
        ["cop", kind, w, args] => {
            let names = parse_names(args);
            let r = {
                let refs: Vec<&Array> = names.iter().map(|n| st.get(n)).collect();
                custom_op(kind.parse().unwrap(), w, &refs)
            };
            let out = show(&r);
            st.bind(w, r);
            out
        }
        ["backward", v, s] => {
            LOG.with(|l| l.borrow_mut().clear());
            let seed = if *s == "-" {
                None
            } else {
                let s = st.get(s);
                Some(Array::from((s.dimensions().to_vec(), s.values().to_vec())))
            };
            st.get(v).backward(seed);
            "ok".into()
        }
        ["backwardc", v, s] => {
            LOG.with(|l| l.borrow_mut().clear());
            let seed = st.get(s).clone();
            st.get(v).backward(Some(seed));
            "ok".into()
        }
        ["grad", v] => match &*st.get(v).gradient() {
            Some(g) => format!("{} | tr={}", ctx.render_a(g), b01(is_tracked(g))),
            None => "none".into(),
        },
        ["takegrad", w, v] => {
            let g = st.get(v).gradient().to_owned().unwrap();
            let out = show(&g);
            st.bind(w, g);
            out
        }
        ["cleargrad", v] => {
            st.get(v).replace_gradient();
            "ok".into()
        }
        ["setgrad", v, w] => {
            let g = {
                let g = st.get(w);
                Array::from((g.dimensions().to_vec(), g.values().to_vec()))
            };
            *st.get(v).gradient_mut() = Some(g);
            "ok".into()
        }
        ["show", v] => show(st.get(v)),
        ["idx", v, i] => format!("s {}", ctx.render(st.get(v)[parse_nats(i)])),
        ["idxflat", v, i] => format!("s {}", ctx.render(st.get(v)[i.parse::<usize>().unwrap()])),
        ["eq", a, b] | ["same", a, b] => format!("b {}", b01(st.get(a) == st.get(b))),
        ["sumgrad", c, ps] => {
            let gs: Vec<Array> = parse_names(ps)
                .iter()
                .filter_map(|n| st.get(n).gradient().to_owned())
                .collect();
            let gc = st.get(c).gradient().to_owned();
            let r = match (&gc, gs.split_first()) {
                (None, None) => true,
                (Some(g), Some((g0, rest))) => {
                    let mut acc: Vec<Float> = g0.values().to_vec();
                    for t in rest {
                        acc = acc.iter().zip(t.values()).map(|(x, y)| x + y).collect();
                    }
                    g.dimensions() == g0.dimensions() && g.values() == &acc[..]
                }
                _ => false,
            };
            format!("b {}", b01(r))
        }
        ["lin", c, al, a, be, b] => {
            let (al, be) = (ctx.parse(al), ctx.parse(be));
            let (gc, ga, gb) = (st.get(c).gradient(), st.get(a).gradient(), st.get(b).gradient());
            let r = match (&*gc, &*ga, &*gb) {
                (Some(gc), Some(ga), Some(gb)) => {
                    let v: Vec<Float> = ga.values().iter().zip(gb.values()).map(|(x, y)| al * x + be * y).collect();
                    gc.dimensions() == ga.dimensions() && gc.values() == &v[..]
                }
                (None, None, None) => true,
                _ => false,
            };
            format!("b {}", b01(r))
        }
        ["samegrad", a, b] => {
            let (ga, gb) = (st.get(a).gradient(), st.get(b).gradient());
            let r = match (&*ga, &*gb) {
                (Some(x), Some(y)) => x == y,
                (None, None) => true,
                _ => false,
            };
            format!("b {}", b01(r))
        }
        ["probe", v] => {
            let (cnt, pend, tr, keep, kids, rc, _) = st.get(v).verif_probe();
            format!(
                "probe cnt={} pend={} tr={} keep={} kids={} rc={}",
                cnt, b01(pend), b01(tr), b01(keep), kids, rc
            )
        }
        ["flags", v] => {
            let (_, _, tr, keep, kids, _, _) = st.get(v).verif_probe();
            format!("flags tr={} keep={} kids={}", b01(tr), b01(keep), kids)
        }
        ["probekid", v, i] => match st.get(v).verif_kid(i.parse().unwrap()) {
            Some(k) => {
                let (cnt, pend, tr, keep, _, _, _) = k.verif_probe();
                format!("kid tr={} keep={} cnt={} pend={}", b01(tr), b01(keep), cnt, b01(pend))
            }
            None => "nokid".into(),
        },
        ["own", v] => {
            let a = st.unbind(v);
            let vals: Vec<Float> = Vec::<Float>::from(a);
            format!("own {}", vals.iter().map(|x| ctx.render(*x)).collect::<Vec<_>>().join(" "))
        }
        ["log"] => {
            let mut entries: Vec<(String, String)> = LOG.with(|l| {
                l.borrow().iter().map(|(n, d, v)| (n.clone(), ctx.render_t(d, v))).collect()
            });
            entries.sort_by(|a, b| a.0.cmp(&b.0));
            format!(
                "log {}",
                entries.iter().map(|(n, t)| format!("{}: {}", n, t)).collect::<Vec<_>>().join(" ; ")
            )
        }
        ["gdupdate", lr, vs] => {
            let names = parse_names(vs);
            let mut arrays: Vec<Array> = names.iter().map(|n| st.unbind(n)).collect();
            GradientDescent::new(ctx.parse(lr)).update(arrays.iter_mut().collect());
            let parts: Vec<String> = arrays
                .iter()
                .map(|p| format!("{} g={}", ctx.render_a(p), ctx.render_oa(&p.gradient())))
                .collect();
            for (n, a) in names.iter().zip(arrays) {
                st.bind(n, a);
            }
            format!("params {}", parts.join(" ; "))
        }
        ["gd", g, lr] => {
            st.optimizers.insert(g.to_string(), GradientDescent::new(ctx.parse(lr)));
            "ok".into()
        }
        ["gdstep", g, vs] => {
            let names = parse_names(vs);
            let mut arrays: Vec<Array> = names.iter().map(|n| st.unbind(n)).collect();
            st.optimizers.get(*g).expect("unknown optimizer").update(arrays.iter_mut().collect());
            let parts: Vec<String> = arrays
                .iter()
                .map(|p| format!("{} g={}", ctx.render_a(p), ctx.render_oa(&p.gradient())))
                .collect();
            for (n, a) in names.iter().zip(arrays) {
                st.bind(n, a);
            }
            format!("params {}", parts.join(" ; "))
        }
        ["cost", w, c, o, t] => {
            if !st.costs.contains_key(*c) {
                let cf: CostFunction = match *c {
                    "mse" => cost::mse(),
                    "xent" => cost::cross_entropy(),
                    _ => panic!("bad cost"),
                };
                st.costs.insert(c.to_string(), cf);
            }
            let r = (st.costs[*c])(st.get(o), st.get(t));
            let out = show(&r);
            st.bind(w, r);
            out
        }
        ["dense", l, i, o, act, w, b] => {
            let mut vals = ctx.parse_list(w);
            vals.extend(ctx.parse_list(b));
            let (i, o): (usize, usize) = (i.parse().unwrap(), o.parse().unwrap());
            assert!(vals.len() == i * o + o, "bad parameter count");
            let init = scripted_initializer(vals);
            let act: Option<&'static Activation> = make_activation(act).map(|a| &*Box::leak(Box::new(a)));
            let layer: Box<dyn Layer> = Box::new(Dense::new(i, o, init, act));
            st.layers.insert(l.to_string(), LayerBox { ptr: Box::into_raw(layer) });
            "ok".into()
        }
        ["convl", l, f, d, r, c, sr, sc, act, w, b] => {
            let mut vals = ctx.parse_list(w);
            vals.extend(ctx.parse_list(b));
            let p = |s: &str| s.parse::<usize>().unwrap();
            assert!(vals.len() == p(f) * p(d) * p(r) * p(c) + p(f), "bad parameter count");
            let init = scripted_initializer(vals);
            let layer: Box<dyn Layer> = Box::new(Conv::new(
                (p(f), p(d), p(r), p(c)),
                (p(sr), p(sc)),
                init,
                make_activation(act),
            ));
            st.layers.insert(l.to_string(), LayerBox { ptr: Box::into_raw(layer) });
            "ok".into()
        }
        ["act", w, kind, a] => {
            // the activation closures of `corgi::activation` applied directly (what the layers call)
            // the argument is handed over by value as a fresh same-dimension view (a handle nobody else holds),
            // the way `activation(x.reshape(..))` or a layer hands over its intermediate
            let f = make_activation(kind).expect("no activation");
            let arg = {
                let x = st.get(a);
                x.reshape(x.dimensions().to_vec())
            };
            let r = f(arg);
            let out = show(&r);
            st.bind(w, r);
            out
        }
        ["lflag", l, which, tr] => {
            // stop_tracking() / start_tracking() on the parameters of a layer (0: first, 1: second, 2: both)
            let ptr = st.layers.get(*l).expect("unknown layer").ptr;
            let which: usize = which.parse().unwrap();
            for (i, p) in unsafe { &mut *ptr }.parameters().into_iter().enumerate() {
                if which == 2 || which == i {
                    if *tr == "1" {
                        p.start_tracking();
                    } else {
                        p.stop_tracking();
                    }
                }
            }
            "ok".into()
        }
        ["lfwd", w, l, a] => {
            let ptr = st.layers.get(*l).expect("unknown layer").ptr;
            let r = unsafe { &*ptr }.forward(st.get(a).clone());
            let out = show(&r);
            st.bind(w, r);
            out
        }
        ["model", m, cost, lr, ls] => {
            let names = parse_names(ls);
            let layers: Vec<&'static mut dyn Layer> = names
                .iter()
                .map(|n| unsafe { &mut *st.layers.get(n).expect("unknown layer").ptr })
                .collect();
            let gd: &'static GradientDescent = Box::leak(Box::new(GradientDescent::new(ctx.parse(lr))));
            let cf: &'static CostFunction = Box::leak(Box::new(match *cost {
                "mse" => cost::mse(),
                "xent" => cost::cross_entropy(),
                _ => panic!("bad cost"),
            }));
            st.models.insert(m.to_string(), ModelBox { model: Model::new(layers, gd, cf), layers: names });
            "ok".into()
        }
        ["fwd", w, m, a] => {
            let input = st.get(a).clone();
            let r = st.models.get_mut(*m).expect("unknown model").model.forward(input);
            let out = show(&r);
            st.bind(w, r);
            out
        }
        ["bwd", m, t] => {
            let target = st.get(t).clone();
            let loss = st.models.get_mut(*m).expect("unknown model").model.backward(target);
            format!("s {}", ctx.render(loss))
        }
        ["update", m] => {
            st.models.get_mut(*m).expect("unknown model").model.update();
            let names = st.models.get(*m).unwrap().layers.clone();
            let mut parts = vec![];
            for n in names {
                for p in layer_params(st.layers.get(&n).expect("unknown layer").ptr) {
                    parts.push(format!("{} g={}", ctx.render_a(&p), ctx.render_oa(&p.gradient())));
                }
            }
            format!("params {}", parts.join(" ; "))
        }
        ["params", m] => {
            let names: Vec<String> = match st.models.get(*m) {
                Some(mb) => mb.layers.clone(),
                None => vec![m.to_string()],
            };
            let mut parts = vec![];
            for n in names {
                for p in layer_params(st.layers.get(&n).expect("unknown layer").ptr) {
                    parts.push(format!("{} g={}", ctx.render_a(&p), ctx.render_oa(&p.gradient())));
                }
            }
            format!("params {}", parts.join(" ; "))
        }
        ["ifgt", v, c, n] => {
            let n: usize = n.parse().unwrap();
            format!("skip {}", if st.get(v)[0] > ctx.parse(c) { 0 } else { n })
        }
        ["snapshot"] => {
            let parts: Vec<String> = st
                .env
                .iter()
                .map(|(n, a)| format!("{}={} g={}", n, ctx.render_a(a), ctx.render_oa(&a.gradient())))
                .collect();
            format!("snap {}", parts.join(" ; "))
        }
        _ => "BADCMD".into(),
    }
}

fn main() {
    let _ = arr![0.0];
    let mode = match std::env::args().nth(1).as_deref() {
        Some("float") | Some("f32") => Mode::Float,
        _ => Mode::Exact,
    };
    let ctx = Ctx { mode };
    panic::set_hook(Box::new(|_| {}));
    let stdin = io::stdin();
    let stdout = io::stdout();
    let mut out = io::BufWriter::new(stdout.lock());
    let mut st = State::default();
    let mut dead = false;
    let mut skip = 0usize;
    for line in stdin.lock().lines() {
        let line = line.unwrap();
        let toks: Vec<&str> = line.split_whitespace().collect();
        if toks.is_empty() || toks[0] == "#" {
            continue;
        }
        if toks[0] == "case" {
            // leak the old state: a poisoned post-panic state is never touched again
            let old = std::mem::take(&mut st);
            if dead {
                std::mem::forget(old);
            }
            dead = false;
            skip = 0;
            writeln!(out, "case").unwrap();
            continue;
        }
        if dead {
            writeln!(out, "-").unwrap();
            continue;
        }
        if skip > 0 {
            skip -= 1;
            writeln!(out, "-").unwrap();
            continue;
        }
        let res = panic::catch_unwind(AssertUnwindSafe(|| exec(&ctx, &mut st, &toks)));
        match res {
            Ok(mut s) => {
                if let Some(rest) = s.strip_prefix("skip ") {
                    skip = rest.parse().unwrap();
                }
                let bad = st.immut_violations();
                if !bad.is_empty() {
                    s.push_str(&format!(" !!IMMUT:{}", bad.join(",")));
                }
                writeln!(out, "{}", s).unwrap();
            }
            Err(_) => {
                dead = true;
                writeln!(out, "PANIC").unwrap();
            }
        }
    }
    out.flush().unwrap();
}
