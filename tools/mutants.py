#!/usr/bin/env python3
"""Self-test: apply each seeded change (seeded/<id>/patch.diff or a given patch) to /repo, run the quick
checks, undo it straight afterwards.  usage: mutants.py <patch.diff> [Cxx ...]   (never commits to /repo)"""
import subprocess, sys, os, re, time
from concurrent.futures import ThreadPoolExecutor
ROOT = os.path.dirname(os.path.dirname(os.path.abspath(__file__)))
patch = sys.argv[1]
props = sys.argv[2:] or ["C%02d" % i for i in range(1, 20)]
tier = os.environ.get("TIER", "quick")
assert subprocess.run(["git", "-C", "/repo", "status", "--porcelain", "--untracked-files=no"], stdout=subprocess.PIPE).stdout.strip() == b"", "/repo not clean"
r = subprocess.run(["git", "-C", "/repo", "apply", patch])
if r.returncode != 0:
    print("PATCH DOES NOT APPLY"); sys.exit(2)
try:
    t0 = time.time()
    # build the harness once, then the checks in parallel
    subprocess.run([os.path.join(ROOT, "check"), props[0], "--tier", tier], stdout=subprocess.PIPE, stderr=subprocess.STDOUT)
    def run(p):
        r = subprocess.run([os.path.join(ROOT, "check"), p, "--tier", tier], stdout=subprocess.PIPE, stderr=subprocess.STDOUT, universal_newlines=True)
        v = [l for l in r.stdout.splitlines() if l.startswith("VIOLATION")]
        return p, r.returncode, v
    with ThreadPoolExecutor(8) as ex:
        res = list(ex.map(run, props))
    hit = [p for p, rc, v in res if rc != 0]
    print("flagged by:", " ".join(hit) if hit else "NONE", "(%.0fs)" % (time.time() - t0))
    for p, rc, v in res:
        for l in v[:1]:
            print("  ", l)
finally:
    subprocess.run(["git", "-C", "/repo", "checkout", "--", "."])
    # evidence files were rewritten against a mutated tree: restore the committed ones
    subprocess.run(["git", "-C", ROOT, "checkout", "--", "evidence"])
