"""Which correspondence families serve which property, with budgets (number of *random* cases on top
of each family's exhaustive part) per tier."""
import gen

TOL = {"exact": 0.0, "float": 1e-9, "f32": 2e-4}

F64_NOTE = ("theorems are over an arbitrary scalar type / commutative ring / the reals; f64 rounding is outside them "
            "(exact channel: integer and dyadic data, where f64 arithmetic is exact and the comparison is equality; "
            "float channel: tolerance 1e-9 relative, NaN/inf cases discarded as out of domain)")
SEED_NOTE = "seeds passed to backward are plain untracked arrays (a tracked seed is outside the properties' quantifiers)"
BYVALUE_NOTE = ("pending deltas and stored gradients are modelled by value: buffer sharing between a gradient cell and a handle "
                "fetched from it is not modelled (observed directly on the implementation by the harness's bitwise shadow copies)")


def fam(name, genf, quick, thorough, **kw):
    d = {"name": name, "gen": genf, "quick": quick, "thorough": thorough}
    d.update(kw)
    return d


def g(f, **kw):
    return lambda rng, n, tier: f(rng, n, tier, **kw)


PROPS = {
    "C01": {
        "families": [
            fam("bigshare", g(gen.fam_bigshare), 0, 0, view="values+nospec", kinds=["impl-vs-model", "crash", "length", "immut"], rule="tracked arrays of 4096 / 8192 / 8200 elements with a plain and a row-broadcasting consumer, both arrival orders, two passes: implementation against the model (no forward-mode reference at this size)"),
            fam("dag", g(gen.fam_dag), 250, 6000, view="values", rule="distinct (topology, shapes, flags) of random programs with fan-out >= 2 and a tracked leaf; plus self-product chains to depth 45/60"),
            fam("dag-float", g(gen.fam_dag, mode="float"), 120, 3000, mode="float", view="values", rule="as dag, non-ring operations included"),
            fam("customlog", g(gen.fam_customlog), 80, 2000, view="values", rule="distinct Array::op programs"),
            fam("selfviews", g(gen.fam_selfviews), 60, 1500, view="values", rule="distinct (shape, op, kind of second handle of the same array: clone / column / row / flat view / sum(0), operand order, flag state), then a product further down"),
            fam("selfviews-float", g(gen.fam_selfviews, mode="float"), 30, 600, mode="float", view="values", rule="as above incl. div"),
            fam("ewise-grad", g(gen.fam_ewise, grads=True), 60, 1500, view="values", rule="distinct (op, shape pair)"),
            fam("train", g(gen.fam_train), 40, 400, view="values", rule="graphs built by layers and models: tracked inputs (the gradient reaching the input batch), parameters, several iterations"),
        ],
        "assumptions": [F64_NOTE, SEED_NOTE, "user closures given to Array::op are lawful (the harness's are, by inspection and by correspondence)"],
    },
    "C02": {
        "families": [
            fam("ewise-grad", g(gen.fam_ewise, grads=True), 80, 2000, view="values", rule="distinct (op, broadcast shape pair, number of uses)"),
            fam("ewise-grad-float", g(gen.fam_ewise, mode="float", grads=True), 60, 1500, mode="float", view="values", rule="as above incl. div"),
            fam("selfviews", g(gen.fam_selfviews), 40, 1000, view="values", rule="an operation applied to an array and another handle of itself (clone, views with a different alignment)"),
            fam("matmul-grad", g(gen.fam_matmul, grads=True), 60, 1500, view="values", rule="distinct (leading dims, sizes, transposes, additive term)"),
            fam("conv-grad", g(gen.fam_conv, grads=True), 150, 2500, view="values", rule="distinct (batch, depth, image, filters, strides); overlapping and uneven strides tagged"),
            fam("reduce-grad", g(gen.fam_reduce, grads=True), 0, 0, view="values", rule="distinct (shape, k) / reshape targets / element maps, non-uniform seeds"),
            fam("reduce-grad-float", g(gen.fam_reduce, mode="float", grads=True), 0, 0, mode="float", view="values", rule="as above, all element maps, exponents in [-3,3]"),
            fam("edges-float", g(gen.fam_scalar_edges, mode="float"), 0, 0, mode="float", view="values", relative=True, rule="every scalar function at magnitudes 1e-30..1e30 (value and gradient), binary operations across magnitudes, costs on probabilities near 0 and 1"),
            fam("sizes-grad", g(gen.fam_sizes, grads=True), 0, 0, view="values", rule="lengths 5..65 that are not small powers of two (loop remainders): gradients of reductions, maps, element-wise operations, matmul (all flags, additive term), conv"),
        ],
        "assumptions": [F64_NOTE, SEED_NOTE, "x = 0 with an exponent below 1 is outside powf's differentiable domain"],
    },
    "C03": {
        "families": [
            fam("bigshare", g(gen.fam_bigshare), 0, 0, view="values+nospec", kinds=["impl-vs-model", "crash", "length", "immut"], rule="long broadcast operands with several consumers (see C01)"),
            fam("bcast-add", g(gen.fam_bcast_add), 150, 3000, view="values", rule="distinct (add|sub, broadcast-compatible shape pair with a != b, uses in 1..4): gradient dimensions and values (= sum of the seed over the broadcast positions) of both operands"),
            fam("ewise-grad-shape", g(gen.fam_ewise, grads=True), 100, 2000, view="shape", rule="distinct (op, shape pair, uses): only the *dimensions* of the stored gradients are compared"),
            fam("dag-shape", g(gen.fam_dag), 150, 3000, view="shape", rule="distinct random programs; only the dimensions of every stored gradient are compared"),
            fam("sizes-grad", g(gen.fam_sizes, part="ewise", grads=True), 0, 0, view="values", rule="lengths 5..65 and long leading dimensions (127..258; to 385 thorough): gradients of broadcast operands = sums over many broadcast positions"),
        ],
        "assumptions": [F64_NOTE, SEED_NOTE],
    },
    "C04": {
        "families": [
            fam("ewise", g(gen.fam_ewise), 400, 20000, view="values", rule="distinct ordered shape pairs (exhaustive rank<=3 size<=2 quick / rank<=4 size<=3 thorough, plus random rank<=5 size<=5); compatible pairs run add, sub, mul, div, axpy; incompatible pairs one op each"),
            fam("ewise-float", g(gen.fam_ewise, mode="float"), 150, 3000, mode="float", view="values", rule="as above on arbitrary doubles"),
            fam("sizes", g(gen.fam_sizes, part="ewise"), 0, 0, view="values", rule="lengths 5..65 that are not small powers of two (loop remainders): element-wise operations incl. unit-dimension operands on either side"),
        ],
        "assumptions": [F64_NOTE],
    },
    "C05": {
        "families": [
            fam("matmul", g(gen.fam_matmul), 300, 8000, view="values", rule="distinct (leading dims a, leading dims b, m, k, n, ta, tb, additive-term form), rank-1 forms, inner mismatches"),
            fam("matmul-float", g(gen.fam_matmul, mode="float"), 60, 1500, mode="float", view="values", rule="as above on arbitrary doubles"),
            fam("sizes", g(gen.fam_sizes, part="matmul"), 0, 0, view="values", rule="lengths 5..65 that are not small powers of two (loop remainders): inner length, row count, column count x all flags x additive term, batched"),
            fam("selfviews", g(gen.fam_selfviews), 0, 0, view="values", rule="an array multiplied (matmul, all four flag combinations, both operand orders) with another handle of itself: a clone, a same-shape view, views whose leading dimensions cross-broadcast with the original's"),
            fam("matmul-large", g(gen.fam_matmul_large), 0, 0, view="values", rule="products of 2^12 .. 2^24 multiply-adds (matrices up to 1030 x 260 x 70, batched / broadcast leading dimensions, all flags, bias): single elements of the implementation's whole product against `matmulElem` (= indexing the model's matmul, C05_matmulat)"),
        ],
        "assumptions": [F64_NOTE],
    },
    "C06": {
        "families": [
            fam("conv", g(gen.fam_conv), 300, 4000, view="values", rule="distinct (batch, depth, rows, cols, count, frows, fcols, sr, sc); refusals"),
            fam("conv-float", g(gen.fam_conv, mode="float"), 60, 800, mode="float", view="values", rule="as above on arbitrary doubles"),
            fam("sizes", g(gen.fam_sizes, part="conv"), 0, 0, view="values", rule="lengths 5..65 that are not small powers of two (loop remainders): image rows / columns of awkward length, non-square window grids, rectangular filters and strides"),
            fam("conv-large", g(gen.fam_conv_large), 0, 0, view="values", rule="images of 10^2..2*10^5 elements (unrolled sizes per image 2^10 .. >2^20), unequal strides: single output elements of the implementation's whole convolution against `convElem` (= indexing the model's conv, C06_convat)"),
        ],
        "assumptions": [F64_NOTE],
    },
    "C07": {
        "families": [
            fam("reduce", g(gen.fam_reduce), 0, 0, view="values", rule="every shape rank<=3 (quick) / rank<=4 (thorough) size<=3: every k in 0..rank+1, reshape to every 1/2-factor shape and a wrong count, every exact element map"),
            fam("reduce-float", g(gen.fam_reduce, mode="float"), 0, 0, mode="float", view="values", rule="as above with ln, exp, recip, sigmoid, softmax, real exponents"),
            fam("sizes", g(gen.fam_sizes, part="reduce"), 0, 0, view="values", rule="lengths 5..65 that are not small powers of two (loop remainders): sum(k) / sum_all over groups of awkward length, every exact element map"),
            fam("sizes-float", g(gen.fam_sizes, mode="float", part="reduce"), 0, 0, mode="float", view="values", rule="as above with exp, ln, recip, sigmoid, softmax rows of awkward length"),
            fam("maps-edges", g(gen.fam_scalar_edges, part="maps"), 0, 0, mode="float", view="values", relative=True, rule="every element map at magnitudes 1e-200..1e200, powf with whole exponents around and beyond 2^24 / 2^31 / 2^32 / 2^53 on bases of both signs and bases next to one: forward values (and gradients), relative comparison"),
            fam("softmax-edges", g(gen.fam_scalar_edges, part="softmax"), 0, 0, mode="float", view="values", rule="softmax at magnitudes 1e-200..1e200 and batches of rows at very different levels (+-700, +-385, +-210, 30, 0): every row normalises on its own, row sums read back"),
        ],
        "assumptions": [F64_NOTE, "softmax rows sum to one only up to rounding in floats; the oracle compares with exp(x)/sum exp(x) under the float tolerance"],
    },
    "C08": {
        "families": [
            fam("history", g(gen.fam_history), 150, 5000, view="none", kinds=["immut"], rule="distinct histories with at least one pass; after every command the harness compares every live handle with the bitwise copy taken when it was bound; only that verdict is decisive"),
            fam("optim", g(gen.fam_optim), 60, 1500, view="none", kinds=["immut"], rule="distinct parameter lists; older clones of updated parameters re-read"),
            fam("train", g(gen.fam_train), 40, 800, view="none", kinds=["immut"], rule="distinct training runs with >= 2 iterations"),
            fam("transparent", g(gen.fam_transparent), 60, 1500, view="none", kinds=["immut"], rule="programs with clones, views, drops and re-binding"),
            fam("alias", g(gen.fam_alias), 200, 6000, view="none", kinds=["immut"], rule="distinct histories around shared storage: reshaped views, clones, gradients fetched from cells, seeds passed as clones, followed by further passes and optimizer updates"),
            fam("alias-float", g(gen.fam_alias, mode="float"), 60, 1500, mode="float", view="none", kinds=["immut"], rule="as above with the non-ring operations"),
            fam("optim-holds", g(gen.fam_optim_holds), 10, 300, view="none", kinds=["immut"], rule="every assignment of {nothing, a clone, a live result, a reshaped view} to the parameters of lists of 2-3 (random to 5): which parameters are still named by another handle when the step runs, gradients set directly or left by real passes whose results were dropped; a twin list without other handles stepped next to it, compared parameter by parameter, two steps"),
        ],
        "assumptions": [F64_NOTE, BYVALUE_NOTE, "Rust's guarantee that a shared Rc<Vec<_>> without interior mutability cannot be written in safe code"],
    },
    "C09": {
        "families": [
            fam("flags", g(gen.fam_flags), 80, 2000, view="flags", rule="every operand flag assignment (6 ways of setting a flag) of every binary/unary op and matmul's 8 assignments; random programs with an untracked intermediate"),
            fam("flags-float", g(gen.fam_flags, mode="float"), 30, 600, mode="float", view="flags", rule="as above with the non-ring operations"),
            fam("history", g(gen.fam_history), 100, 3000, view="flags", rule="distinct histories with start/stop/tracked/untracked on handles and clones between passes; only flags, gradient presence and stored-operand flags are compared"),
            fam("train", g(gen.fam_train), 40, 400, view="flags", rule="models fed tracked and untracked inputs: the input keeps its flags through forward / backward / update, gradients appear exactly on tracked inputs and parameters"),
        ],
        "assumptions": [F64_NOTE, SEED_NOTE, BYVALUE_NOTE],
    },
    "C10": {
        "families": [
            fam("bigpasses", g(gen.fam_bigpasses), 0, 0, mode="float", view="values", rule="element maps on 1024 / 1100 elements differentiated three times with different seeds"),
            fam("accumulate", g(gen.fam_accumulate), 200, 6000, view="cntpend", rule="distinct (program, pass sequence, clear point): 2-4 passes (same result again / interior node then containing result / shared sub-graphs) next to one fresh instance per pass; every gradient = sum of the single-pass gradients since the last clear (the implementation against itself), counters and pending flags of every node after every pass"),
            fam("history", g(gen.fam_history), 150, 4000, view="cntpend", rule="distinct histories; counters and pending flags of every live node after every pass"),
        ],
        "assumptions": [F64_NOTE, SEED_NOTE],
    },
    "C11": {
        "families": [
            fam("customlog", g(gen.fam_customlog), 150, 5000, view="log", kinds=["impl-vs-spec", "impl-vs-model", "model-vs-spec", "timeout", "crash", "length"], rule="exhaustive Array::op DAGs up to 3 (quick) / 4 (thorough) nodes, random ones up to 40 nodes; the invocation log of the user closures (label, received delta) is compared as a sorted list"),
            fam("chains", g(gen.fam_chains), 0, 0, view="log", kinds=["impl-vs-spec", "impl-vs-model", "model-vs-spec", "timeout", "crash", "length"], rule="self-product chains of user operations to depth 45 (quick) / 60 (thorough): 2^depth paths"),
        ],
        "assumptions": [F64_NOTE, "user closures are lawful"],
    },
    "C12": {
        "families": [
            fam("transparent", g(gen.fam_transparent), 400, 8000, view="meta", rule="distinct (program, set of edit kinds) with at least one edit: operand -> clone, drop after last use, re-bind, pass from a clone"),
            fam("optim-holds", g(gen.fam_optim_holds), 20, 600, view="meta", rule="every assignment of {nothing, a clone, a live result, a reshaped view} to the parameters of lists of 2-3 (random to 5): which parameters are still named by another handle when the step runs, gradients set directly or left by real passes whose results were dropped; a twin list without other handles stepped next to it, compared parameter by parameter, two steps"),
        ],
        "assumptions": [F64_NOTE, SEED_NOTE],
    },
    "C13": {
        "families": [
            fam("optim", g(gen.fam_optim, frompass=False), 150, 4000, view="update", rule="every frozen subset of 1-4 parameters, random lists of 1-6, repeated updates, gradients from real passes"),
            fam("optim-float", g(gen.fam_optim, mode="float", frompass=False), 50, 1000, mode="float", view="update", rule="arbitrary learning rates"),
            fam("optim-holds", g(gen.fam_optim_holds), 20, 600, view="update", rule="every assignment of {nothing, a clone, a live result, a reshaped view} to the parameters of lists of 2-3 (random to 5): which parameters are still named by another handle when the step runs, gradients set directly or left by real passes whose results were dropped; a twin list without other handles stepped next to it, compared parameter by parameter, two steps"),
            fam("train", g(gen.fam_train), 60, 600, view="update", rule="the optimizer as the model drives it: parameters (values and gradient presence) after every `update`, whoever produced the gradients (Model::backward or the caller's own backward), updates before the first pass and repeated updates"),
        ],
        "assumptions": [F64_NOTE],
    },
    "C14": {
        "families": [
            fam("train", g(gen.fam_train), 120, 3000, view="values", rule="distinct (layer stack, activations, cost, batch, iterations >= 2)"),
            fam("train-float", g(gen.fam_train, mode="float"), 80, 2000, mode="float", view="values", rule="sigmoid / softmax / cross-entropy included"),
        ],
        "assumptions": [F64_NOTE],
    },
    "C15": {
        "families": [
            fam("cost", g(gen.fam_cost), 0, 0, view="values", rule="mse on every shape of rank<=3 (4 thorough) with a power-of-two element count"),
            fam("cost-float", g(gen.fam_cost, mode="float"), 0, 0, mode="float", view="values", rule="mse and cross-entropy on every shape of rank 1..4"),
            fam("cost-edges", g(gen.fam_scalar_edges, part="cost"), 0, 0, mode="float", view="values", relative=True, rule="both costs on probabilities from 1e-300 to 1-1e-7 (far below the machine epsilon included), saturated softmax outputs under cross-entropy: values and gradients, relative comparison"),
            fam("forward", g(gen.fam_train, forward_only=True), 150, 4000, view="values", rule="distinct layer stacks evaluated layer by layer"),
            fam("forward-float", g(gen.fam_train, mode="float", forward_only=True), 100, 2500, mode="float", view="values", rule="all activations"),
            fam("train", g(gen.fam_train), 40, 1000, view="values", rule="loss values and model forward"),
            fam("train-float", g(gen.fam_train, mode="float"), 40, 1000, mode="float", view="values", rule="both costs"),
        ],
        "assumptions": [F64_NOTE],
    },
    "C16": {
        "families": [fam("construct", gen.fam_construct, 80, 400,
                         rule="distinct (shape) / (nesting) / (malformed input) keys; every in-range multi-index and flat index of each shape is read"),
                     fam("special", g(gen.fam_special), 0, 0, mode="float", view="full+nf",
                         rule="infinities, signed zeros, NaN, largest / smallest doubles at the first or last place: equality with a copy, a clone, a tracked clone, a view reshaped back, arrays differing at one place; flat reads (no arithmetic, so non-finite values are in scope)")],
        "assumptions": ["rank-0 arrays (empty dimension list) are outside the property's quantifier and are not generated", F64_NOTE],
    },
    "C17": {
        "families": [
            fam("linear", g(gen.fam_linear), 150, 5000, view="meta", rule="distinct (program, alpha, beta) with (alpha, beta) != (0, 0): three fresh instances with s1, s2, alpha*s1+beta*s2, and a pair omitted-seed vs ones"),
        ],
        "assumptions": [F64_NOTE, SEED_NOTE],
    },
    "C18": {
        "families": [
            fam("release-float", g(gen.fam_release, mode="float"), 150, 4000, mode="float", view="rc", rule="as release, with every operation (div, ln, exp, reciprocal, sigmoid, softmax, powf)"),
            fam("release", g(gen.fam_release), 200, 6000, view="rc", rule="distinct programs: build, pass(es), drop every derived result in random order, then Vec::from on every leaf; Rc owner counts compared after every drop"),
            fam("train", g(gen.fam_train), 60, 1500, view="rc", rule="training runs: the previous iteration's input is owned again after the next forward"),
            fam("history", g(gen.fam_history), 60, 1500, view="rc", rule="owner counts after every pass"),
        ],
        "assumptions": [F64_NOTE, BYVALUE_NOTE, "Rc's own correctness; reachable references = strong_count (no cycles, no Weak), compared numerically on every probe"],
    },
    "C19": {
        "variants": ["f64", "f32"],
        "families": [
            fam("ewise-f32", g(gen.fam_ewise), 100, 3000, variant="f32", baseline_variant="f64", rule="distinct shape pairs, exact channel (integers < 2^24) against the f32 build"),
            fam("matmul-f32", g(gen.fam_matmul), 60, 1500, variant="f32", baseline_variant="f64", rule="distinct configurations, exact channel"),
            fam("conv-f32", g(gen.fam_conv), 60, 800, variant="f32", baseline_variant="f64", rule="distinct configurations, exact channel"),
            fam("reduce-f32", g(gen.fam_reduce), 0, 0, variant="f32", baseline_variant="f64", rule="every shape / k / map, exact channel"),
            fam("dag-f32", g(gen.fam_dag), 80, 2000, variant="f32", baseline_variant="f64", rule="distinct programs with gradients, exact channel"),
            fam("ewise-grad-f32", g(gen.fam_ewise, grads=True), 40, 1000, variant="f32", baseline_variant="f64", rule="gradients of broadcast pairs"),
            fam("reduce-f32-float", g(gen.fam_reduce, mode="f32"), 0, 0, mode="f32", variant="f32", baseline_variant="f64", rule="non-ring maps against Lean Float32 with tolerance 2e-4"),
            fam("dag-f32-float", g(gen.fam_dag, mode="f32"), 60, 1500, mode="f32", variant="f32", baseline_variant="f64", rule="random programs against Lean Float32"),
            fam("edges-f32-float", g(gen.fam_scalar_edges, mode="f32"), 0, 0, mode="f32", variant="f32", baseline_variant="f64", relative=True, rule="every scalar function at magnitudes 1e-30..1e30 (value and gradient), binary operations across magnitudes, costs on probabilities near 0 and 1: against Lean Float32"),
            fam("sizes-f32", g(gen.fam_sizes), 0, 0, variant="f32", baseline_variant="f64", rule="lengths 5..65 that are not small powers of two (loop remainders): every part, exact channel on the f32 build"),
            fam("sizes-grad-f32", g(gen.fam_sizes, grads=True), 0, 0, variant="f32", baseline_variant="f64", rule="as above with gradients"),
            fam("optim-f32", g(gen.fam_optim), 30, 400, variant="f32", baseline_variant="f64", view="update", rule="the optimizer on the f32 build: frozen subsets, repeated updates, one optimizer object stepping different parameter lists of equal sizes in turn (exact channel)"),
            fam("train-f32", g(gen.fam_train), 25, 400, variant="f32", baseline_variant="f64", view="values", rule="training loops on the f32 build (exact channel: small integers, power-of-two divisors)"),
            fam("special-f32", g(gen.fam_special, mode="f32"), 0, 0, mode="f32", variant="f32", view="full+nf", rule="equality / reading of infinities, signed zeros, NaN, extreme f32 values"),
            # "every guarantee above holds unchanged": the structural families once more on the f32 build (exact
            # channel), so that a width-specific branch anywhere - flags, views, counters, ownership, layers,
            # costs, construction - shows as a difference from the f64 build
            fam("flags-f32", g(gen.fam_flags), 10, 200, variant="f32", baseline_variant="f64", view="flags", rule="tracking rule on the f32 build"),
            fam("alias-f32", g(gen.fam_alias), 10, 200, variant="f32", baseline_variant="f64", rule="immutability / views on the f32 build"),
            fam("history-f32", g(gen.fam_history), 20, 300, variant="f32", baseline_variant="f64", rule="pass sequences (counters, pending deltas, accumulation) on the f32 build"),
            fam("accumulate-f32", g(gen.fam_accumulate), 10, 200, variant="f32", baseline_variant="f64", rule="accumulation across passes on the f32 build"),
            fam("release-f32", g(gen.fam_release), 10, 200, variant="f32", baseline_variant="f64", view="rc", rule="ownership after drops on the f32 build"),
            fam("construct-f32", gen.fam_construct, 30, 200, variant="f32", baseline_variant="f64", rule="construction / indexing / equality on the f32 build"),
            fam("cost-f32", g(gen.fam_cost), 0, 0, variant="f32", baseline_variant="f64", view="values", rule="cost formulas on the f32 build (exact channel)"),
            fam("forward-f32", g(gen.fam_train, forward_only=True), 30, 400, variant="f32", baseline_variant="f64", view="values", rule="layer stacks on the f32 build"),
            fam("customlog-f32", g(gen.fam_customlog), 10, 200, variant="f32", baseline_variant="f64", view="log", rule="closure invocation logs on the f32 build"),
            fam("transparent-f32", g(gen.fam_transparent), 10, 200, variant="f32", baseline_variant="f64", rule="clone / drop / flag transparency on the f32 build"),
        ],
        "assumptions": ["the 'within single-precision rounding' half is validated by differential runs only (no IEEE rounding theory in Lean here): labelled partial",
                        "exact channel on the f32 build: integers below 2^24, where f32 arithmetic is exact"],
    },
}

# thorough tier: the random budgets are multiplied so that each thorough command spends minutes, not
# seconds (the systematic grids of the generators are already at their thorough size)
THOROUGH_SCALE = {"C01": 4, "C02": 2, "C03": 1, "C04": 4, "C05": 6, "C06": 5, "C07": 1, "C08": 5, "C09": 6, "C10": 4,
                  "C11": 6, "C12": 6, "C13": 8, "C14": 6, "C15": 6, "C16": 1, "C17": 6, "C18": 5, "C19": 3}
for _pid, _k in THOROUGH_SCALE.items():
    for _f in PROPS[_pid]["families"]:
        _f["thorough"] = _f["thorough"] * _k
