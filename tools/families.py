"""Which correspondence families serve which property, with budgets (number of *random* cases on top
of each family's exhaustive part) per tier."""
import gen

TOL = {"exact": 0.0, "float": 1e-9, "f32": 2e-4}

F64_NOTE = "theorems are over an arbitrary commutative ring / field; f64 rounding is outside them (exact channel: integer and dyadic data, where f64 arithmetic is exact)"


def fam(name, genf, quick, thorough, **kw):
    d = {"name": name, "gen": genf, "quick": quick, "thorough": thorough}
    d.update(kw)
    return d


PROPS = {
    "C16": {
        "families": [fam("construct", gen.fam_construct, 80, 400,
                         rule="distinct (shape) / (nesting) / (malformed input) keys; every in-range multi-index and flat index of each shape is read")],
        "assumptions": ["rank-0 arrays (empty dimension list) are outside the property's quantifier and are not generated",
                        F64_NOTE],
    },
}
