#!/usr/bin/env python3
"""Regenerates /verif/MANIFEST.json from the table below (kept in one place so it stays valid)."""
import json
import os
import subprocess
import sys

ROOT = os.path.dirname(os.path.dirname(os.path.abspath(__file__)))
sys.path.insert(0, os.path.join(ROOT, "tools"))
import claims  # noqa: E402

repo_commits = subprocess.run(["git", "-C", "/repo", "log", "--format=%h %s", "fe7144a..HEAD"], stdout=subprocess.PIPE,
                              universal_newlines=True).stdout.strip().splitlines()

checks = []
for pid in sorted(claims.CLAIMS):
    c = claims.CLAIMS[pid]
    checks.append({
        "property_id": pid,
        "quick_cmd": "./check %s --tier quick" % pid,
        "thorough_cmd": "./check %s --tier thorough" % pid,
        "evidence_file": "/verif/evidence/%s.json" % pid,
        "replay_cmd_template": "./check %s --replay {path}" % pid,
        "engine": "lean-model+correspondence",
        "level_claimed": {"category": "proof", "text": c["text"], "design_ref": c.get("design_ref", "DESIGN.md §8 " + pid)},
        "level_note": c["note"],
        "technique": c.get("technique", "Lean 4 theorems about a hand-written executable model; model tied to the Rust source by a differential correspondence check (impl vs model vs executable spec) on every run"),
    })

all_ids = ["C%02d" % i for i in range(1, 20)]
manifest = {
    "version": 1,
    "setup_cmd": "cd /verif && ./check --setup",
    "hooks": {
        "guard": "cargo feature `verif` of the corgi crate",
        "enable": "the harness crate /verif/harness depends on corgi = { path = \"/repo\", features = [\"verif\"] }; checks rebuild it from /repo's working tree on every run",
        "baseline_off_cmd": "cd /repo && cargo test --offline",
        "source_commits": repo_commits,
        "add_only": True,
    },
    "engines": [{
        "name": "lean-model+correspondence",
        "path": "/verif/lean, /verif/harness, /verif/tools",
        "serves_properties": sorted(claims.CLAIMS),
        "kind_free_text": "Lean 4 model + spec + theorems (lake project, core Lean; Mathlib single modules only in proof files); Rust harness interpreting the same command language against the real crate; python orchestration",
    }],
    "checks": checks,
    "not_applicable": [{"property_id": p, "reason": claims.NOT_YET.get(p, "not yet built in this session; see DESIGN.md §8 for the plan")}
                       for p in all_ids if p not in claims.CLAIMS],
    "notes": "fix: commits in /repo repair defects D1-D9 of DESIGN.md §9 (listed as fixed in known_findings.json); the hook commit adds read-only probes behind the cargo feature `verif`.",
}
json.dump(manifest, open(os.path.join(ROOT, "MANIFEST.json"), "w"), indent=1)
print("MANIFEST.json: %d checks, %d not_applicable" % (len(checks), len(manifest["not_applicable"])))
