"""Case generators for the correspondence check (python3 stdlib only).

A *case* is a list of command lines (see lean/CorgiModel/Step.lean) plus a `key` used to count
distinct cases and `tags` used for histograms.  Every random choice comes from the `random.Random`
instance handed in, which is seeded from VERIF_SEED, so a run replays exactly.

Exact channel: values are small integers / dyadic rationals, so f64 arithmetic is exact and the
model over `Rat` must agree bit for bit.  Float channel: arbitrary in-domain doubles, hex bit
patterns, compared under a tolerance.
"""
import itertools
import struct
from fractions import Fraction


class Case:
    __slots__ = ("lines", "key", "tags", "mode", "nontrivial")

    def __init__(self, lines, key, tags=(), mode="exact", nontrivial=True):
        self.lines = lines
        self.key = key
        self.tags = list(tags)
        self.mode = mode
        self.nontrivial = nontrivial


# ---------------------------------------------------------------- helpers

def prod(ds):
    p = 1
    for d in ds:
        p *= d
    return p


def dims_s(ds):
    return ",".join(str(d) for d in ds) if ds else "-"


def fhex(x):
    return "x%016x" % struct.unpack("<Q", struct.pack("<d", x))[0]


def f32hex(x):
    return "x%08x" % struct.unpack("<I", struct.pack("<f", x))[0]


def sc(x, mode):
    """render a scalar for the command file"""
    if mode == "exact":
        if isinstance(x, Fraction):
            return str(x.numerator) if x.denominator == 1 else "%d/%d" % (x.numerator, x.denominator)
        return str(int(x))
    if mode == "f32":
        return f32hex(float(x))
    return fhex(float(x))


def vals_s(vs, mode):
    return ",".join(sc(v, mode) for v in vs) if vs else "-"


def ints(rng, n, lo=-6, hi=6, nonzero=False):
    out = []
    for _ in range(n):
        v = rng.randint(lo, hi)
        while nonzero and v == 0:
            v = rng.randint(lo, hi)
        out.append(v)
    return out


def floats(rng, n, lo=-4.0, hi=4.0):
    return [rng.uniform(lo, hi) for _ in range(n)]


def posfloats(rng, n, lo=0.25, hi=4.0):
    return [rng.uniform(lo, hi) for _ in range(n)]


def gen_vals(rng, n, mode, kind="any"):
    """kind: any | nonzero | pos | pow2 (divisors that keep the exact channel exact)"""
    if mode == "exact":
        if kind == "pow2":
            return [rng.choice([1, 2, 4, -1, -2, -4, Fraction(1, 2)]) for _ in range(n)]
        if kind == "pos":
            return ints(rng, n, 1, 6)
        if kind == "nonzero":
            return ints(rng, n, nonzero=True)
        return ints(rng, n)
    if kind in ("pos", "pow2"):
        return posfloats(rng, n)
    if kind == "nonzero":
        return [v if abs(v) > 0.25 else 0.5 for v in floats(rng, n)]
    return floats(rng, n)


def all_shapes(maxrank, maxsize):
    out = []
    for r in range(1, maxrank + 1):
        for t in itertools.product(range(1, maxsize + 1), repeat=r):
            out.append(list(t))
    return out


def compat(a, b):
    r = max(len(a), len(b))
    out = []
    for i in range(1, r + 1):
        x = a[-i] if i <= len(a) else 1
        y = b[-i] if i <= len(b) else 1
        if x != y and x != 1 and y != 1:
            return None
        out.append(max(x, y))
    return out[::-1]


def rand_shape(rng, maxrank=4, maxsize=3, minrank=1):
    return [rng.randint(1, maxsize) for _ in range(rng.randint(minrank, maxrank))]


def rand_compat_pair(rng, maxrank=4, maxsize=4):
    """a random broadcast-compatible pair with interesting unit / missing dimensions"""
    out = rand_shape(rng, maxrank, maxsize)

    def degrade(s):
        s = [1 if rng.random() < 0.35 else d for d in s]
        cut = rng.randint(0, len(s) - 1) if rng.random() < 0.5 else 0
        return s[cut:]
    a, b = degrade(out), degrade(out)
    if rng.random() < 0.5:
        a = list(out)
    else:
        b = list(out)
    return a, b


# ---------------------------------------------------------------- family: construct (C16)

def fam_construct(rng, n, tier):
    cases = []
    shapes = all_shapes(4, 3) if tier == "thorough" else all_shapes(3, 3) + [s for s in all_shapes(4, 2)]
    for s in shapes:
        cnt = prod(s)
        vals = [((i * 7 + 3) % 13) - 6 for i in range(cnt)]
        L = ["new a %s %s" % (dims_s(s), vals_s(vals, "exact")), "show a"]
        for idx in itertools.product(*[range(d) for d in s]):
            L.append("idx a %s" % dims_s(idx))
        for i in range(cnt):
            L.append("idxflat a %d" % i)
        L.append("new b %s %s" % (dims_s(s), vals_s(vals, "exact")))
        L.append("eq a b")
        L.append("tracked b")
        L.append("eq a b")
        L.append("scale c b 1")       # b now carries a graph consumer; equality ignores it
        L.append("eq c a")
        L.append("backward c -")
        L.append("eq a b")             # b holds a gradient now
        if cnt > 1:
            v2 = list(vals)
            v2[rng.randrange(cnt)] += 1
            L.append("new d %s %s" % (dims_s(s), vals_s(v2, "exact")))
            L.append("eq a d")
        L.append("new e %s %s" % (dims_s(s + [1]), vals_s(vals, "exact")))
        L.append("eq a e")             # same values, different dimensions
        L.append("zeros z %s" % dims_s(s))
        L.append("flat f %s" % vals_s(vals, "exact"))
        L.append("eq f a")
        cases.append(Case(L, ("shape", tuple(s)), ["rank%d" % len(s), "valid"]))
    # nesting (arr! of arr!) up to depth 4
    for _ in range(max(20, n // 4)):
        inner = rand_shape(rng, 3, 3)
        k = rng.randint(1, 3)
        L = []
        for j in range(k):
            L.append("new p%d %s %s" % (j, dims_s(inner), vals_s(ints(rng, prod(inner)), "exact")))
        L.append("nest q %s" % ",".join("p%d" % j for j in range(k)))
        for idx in itertools.product(*[range(d) for d in [k] + inner]):
            L.append("idx q %s" % dims_s(idx))
        L.append("nest r q,q")
        L.append("show r")
        L.append("idx r %s" % dims_s([1] + [0] * (len(inner) + 1)))
        cases.append(Case(L, ("nest", k, tuple(inner)), ["nest", "valid"]))
    # malformed stream: one refusal per case
    bad = []
    for s in all_shapes(3, 2):
        for z in range(len(s)):
            t = list(s)
            t[z] = 0
            bad.append(["new a %s %s" % (dims_s(t), vals_s([0] * max(1, prod(t)), "exact"))])
            bad.append(["zeros a %s" % dims_s(t)])
        bad.append(["new a %s %s" % (dims_s(s), vals_s([1] * (prod(s) + 1), "exact"))])
        if prod(s) > 1:
            bad.append(["new a %s %s" % (dims_s(s), vals_s([1] * (prod(s) - 1), "exact"))])
        v = vals_s([1] * prod(s), "exact")
        bad.append(["new a %s %s" % (dims_s(s), v), "idxflat a %d" % prod(s)])
        bad.append(["new a %s %s" % (dims_s(s), v), "idx a %s" % dims_s([d for d in s[:-1]] + [s[-1] * prod(s)])])
        if len(s) > 1:
            bad.append(["new a %s %s" % (dims_s(s), v), "idx a %s" % dims_s(s[1:])])
        t = list(s)
        t[-1] += 1
        bad.append(["new a %s %s" % (dims_s(s), v), "new b %s %s" % (dims_s(t), vals_s([1] * prod(t), "exact")), "nest c a,b"])
    bad.append(["nest c -"])
    for i, L in enumerate(bad):
        cases.append(Case(L, ("bad", i, tuple(L)), ["malformed"]))
    return cases


# ---------------------------------------------------------------- family: ewise (C04, C03)

EW_OPS = ["add", "sub", "mul", "div", "axpy"]


def ewise_case(rng, a, b, mode, ops=EW_OPS, grads=False, uses=1):
    L = []
    L.append("new a %s %s" % (dims_s(a), vals_s(gen_vals(rng, prod(a), mode), mode)))
    bk = "pow2" if "div" in ops else "any"
    L.append("new b %s %s" % (dims_s(b), vals_s(gen_vals(rng, prod(b), mode, bk), mode)))
    out = compat(a, b)
    if grads:
        L.append("tracked a")
        L.append("tracked b")
    for op in ops:
        if op == "axpy":
            L.append("axpy r_%s %s a b" % (op, sc(rng.choice([2, -3, 1, Fraction(1, 2)]) if mode == "exact" else rng.uniform(-2, 2), mode)))
        else:
            L.append("%s r_%s a b" % (op, op))
        if out is None:
            break
        if grads:
            r = "r_%s" % op
            for u in range(1, uses):
                L.append("%s t%d a b" % (op if op != "axpy" else "add", u))
                L.append("add %s %s t%d" % (r, r, u))
            L.append("new s %s %s" % (dims_s(out), vals_s(gen_vals(rng, prod(out), mode), mode)))
            L.append("backward %s s" % r)
            L.append("grad a")
            L.append("grad b")
            L.append("cleargrad a")
            L.append("cleargrad b")
    return L


def fam_ewise(rng, n, tier, mode="exact", grads=False):
    cases = []
    if tier == "thorough":
        shapes = all_shapes(4, 3)
    else:
        shapes = all_shapes(3, 2)
    for a in shapes:
        for b in shapes:
            ok = compat(a, b) is not None
            if ok:
                if grads:
                    for op in (["mul", "add"] if tier == "quick" else ["mul", "add", "sub", "div"]):
                        cases.append(Case(ewise_case(rng, a, b, mode, [op], True, rng.choice([1, 2, 3])),
                                          ("g", op, tuple(a), tuple(b)), ["compat", op, "grad"], mode,
                                          nontrivial=(a != b)))
                else:
                    cases.append(Case(ewise_case(rng, a, b, mode), ("p", tuple(a), tuple(b)),
                                      ["compat", "bcast" if a != b else "same"], mode, nontrivial=(a != b)))
            elif not grads:
                op = rng.choice(EW_OPS)
                cases.append(Case(ewise_case(rng, a, b, mode, [op]), ("i", op, tuple(a), tuple(b)),
                                  ["incompatible", op], mode))
    for _ in range(n):
        if rng.random() < 0.8:
            a, b = rand_compat_pair(rng, 5 if tier == "thorough" else 4, 5)
        else:
            a, b = rand_shape(rng, 4, 4), rand_shape(rng, 4, 4)
        ok = compat(a, b) is not None
        if grads and not ok:
            continue
        ops = [rng.choice(["mul", "add", "div", "sub"])] if grads else (EW_OPS if ok else [rng.choice(EW_OPS)])
        cases.append(Case(ewise_case(rng, a, b, mode, ops, grads, rng.choice([1, 2, 3])),
                          ("r", tuple(ops), tuple(a), tuple(b), grads),
                          ["compat" if ok else "incompatible", "random"], mode, nontrivial=(a != b)))
    return cases


# ---------------------------------------------------------------- family: matmul (C05)

LEADS_Q = [[], [1], [2], [1, 2], [2, 1], [2, 3]]
LEADS_T = [[], [1], [2], [3], [1, 2], [2, 1], [2, 3], [1, 1], [3, 2]]


def matmul_case(rng, la, lb, m, k, n, ta, tb, cform, mode, grads=False, kmis=0):
    ad = la + ([k, m] if ta else [m, k])
    kb = k + kmis
    bd = lb + ([n, kb] if tb else [kb, n])
    L = ["new a %s %s" % (dims_s(ad), vals_s(gen_vals(rng, prod(ad), mode), mode)),
         "new b %s %s" % (dims_s(bd), vals_s(gen_vals(rng, prod(bd), mode), mode))]
    cd = {0: None, 1: [n], 2: [m, n], 3: [1, n], 4: [1]}[cform]
    if cd is not None:
        L.append("new c %s %s" % (dims_s(cd), vals_s(gen_vals(rng, prod(cd), mode), mode)))
    if grads:
        L += ["tracked a", "tracked b"] + (["tracked c"] if cd is not None else [])
    L.append("matmul r a %s b %s %s" % ("T" if ta else "N", "T" if tb else "N", "c" if cd is not None else "-"))
    lead = compat(la, lb)
    if grads and lead is not None and kmis == 0:
        od = lead + [m, n]
        L.append("new s %s %s" % (dims_s(od), vals_s(gen_vals(rng, prod(od), mode), mode)))
        L.append("backward r s")
        L += ["grad a", "grad b"] + (["grad c"] if cd is not None else [])
    return L


def fam_matmul(rng, n, tier, mode="exact", grads=False):
    cases = []
    leads = LEADS_T if tier == "thorough" else LEADS_Q
    sizes = [1, 2, 3] if tier == "thorough" else [1, 2]
    for la in leads:
        for lb in leads:
            for ta in (False, True):
                for tb in (False, True):
                    combos = [(m, k, nn) for m in sizes for k in sizes for nn in sizes]
                    if tier != "thorough":
                        combos = rng.sample(combos, 2)
                    for (m, k, nn) in combos:
                        cf = rng.randrange(5)
                        cases.append(Case(matmul_case(rng, la, lb, m, k, nn, ta, tb, cf, mode, grads),
                                          ("mm", tuple(la), tuple(lb), m, k, nn, ta, tb, cf, grads),
                                          ["lead%d%d" % (len(la), len(lb)), "t%d%d" % (ta, tb), "c%d" % cf,
                                           "refuse" if compat(la, lb) is None else "ok"], mode))
    # additive term forms on the 2-D core, exhaustively
    for ta in (False, True):
        for tb in (False, True):
            for cf in range(5):
                for (m, k, nn) in [(2, 3, 2), (1, 2, 3), (3, 1, 2)]:
                    cases.append(Case(matmul_case(rng, [], [], m, k, nn, ta, tb, cf, mode, grads),
                                      ("mm2", m, k, nn, ta, tb, cf, grads), ["core", "c%d" % cf], mode))
    if not grads:
        # inner mismatch is refused
        for ta in (False, True):
            for tb in (False, True):
                for la in ([], [2]):
                    cases.append(Case(matmul_case(rng, la, la, 2, 2, 2, ta, tb, 0, mode, False, kmis=1),
                                      ("mmbad", ta, tb, tuple(la)), ["innermismatch"], mode))
        # rank-1 forms
        for k in (1, 2, 3):
            for nn in (1, 2, 3):
                v = vals_s(gen_vals(rng, k, mode), mode)
                M = vals_s(gen_vals(rng, k * nn, mode), mode)
                cases.append(Case(["new a %d %s" % (k, v), "new b %s %s" % (dims_s([k, nn]), M), "matmul r a N b N -"],
                                  ("r1a", k, nn), ["rank1"], mode))
                cases.append(Case(["new a %d %s" % (k, v), "new b %s %s" % (dims_s([nn, k]), M), "matmul r a N b T -"],
                                  ("r1at", k, nn), ["rank1"], mode))
                cases.append(Case(["new a %d %s" % (k, v), "new b %s %s" % (dims_s([2, k, nn]), vals_s(gen_vals(rng, 2 * k * nn, mode), mode)),
                                   "matmul r a N b N -"], ("r1ab", k, nn), ["rank1"], mode))
                cases.append(Case(["new b %d %s" % (k, v), "new a %s %s" % (dims_s([nn, k]), M), "matmul r a N b T -"],
                                  ("r1b", k, nn), ["rank1"], mode))
            w = vals_s(gen_vals(rng, k, mode), mode)
            cases.append(Case(["new a %d %s" % (k, v), "new b %d %s" % (k, w), "matmul r a N b N -"],
                              ("dot", k), ["rank1", "dot"], mode))
    for _ in range(n):
        la, lb = rng.choice(LEADS_T), rng.choice(LEADS_T)
        if rng.random() < 0.7:
            lead = rand_shape(rng, 2, 3)
            la = [1 if rng.random() < 0.3 else d for d in lead][rng.randint(0, len(lead) - 1) if rng.random() < 0.4 else 0:]
            lb = [1 if rng.random() < 0.3 else d for d in lead][rng.randint(0, len(lead) - 1) if rng.random() < 0.4 else 0:]
        m, k, nn = rng.randint(1, 4), rng.randint(1, 4), rng.randint(1, 4)
        ta, tb, cf = rng.random() < 0.5, rng.random() < 0.5, rng.randrange(5)
        cases.append(Case(matmul_case(rng, la, lb, m, k, nn, ta, tb, cf, mode, grads),
                          ("mmr", tuple(la), tuple(lb), m, k, nn, ta, tb, cf, grads),
                          ["random", "t%d%d" % (ta, tb), "c%d" % cf], mode))
    return cases


# ---------------------------------------------------------------- family: conv (C06)

def conv_case(rng, batch, depth, rows, cols, count, fr, fc, sr, sc_, mode, grads=False):
    idims = batch + [depth, rows, cols]
    fdims = [count, depth, fr, fc]
    L = ["new a %s %s" % (dims_s(idims), vals_s(gen_vals(rng, prod(idims), mode), mode)),
         "new f %s %s" % (dims_s(fdims), vals_s(gen_vals(rng, prod(fdims), mode), mode))]
    if grads:
        L += ["tracked a", "tracked f"]
    L.append("conv r a f %d %d" % (sr, sc_))
    if grads and fr <= rows and fc <= cols and sr >= 1 and sc_ >= 1:
        od = batch + [count, (rows - fr) // sr + 1, (cols - fc) // sc_ + 1]
        L.append("new s %s %s" % (dims_s(od), vals_s(gen_vals(rng, prod(od), mode), mode)))
        L.append("backward r s")
        L += ["grad a", "grad f"]
    return L


def fam_conv(rng, n, tier, mode="exact", grads=False):
    cases = []
    batches = [[], [1], [2], [3], [2, 2]] if tier == "thorough" else [[], [1], [2]]
    grid = []
    for batch in batches:
        for depth in (1, 2):
            for rows in range(1, 5):
                for cols in range(1, 5):
                    for count in (1, 2):
                        for fr in range(1, min(rows, 3) + 1):
                            for fc in range(1, min(cols, 3) + 1):
                                for sr in (1, 2):
                                    for sc_ in (1, 2, 3):
                                        grid.append((batch, depth, rows, cols, count, fr, fc, sr, sc_))
    if tier != "thorough":
        grid = rng.sample(grid, min(len(grid), max(150, n)))
    for g in grid:
        cases.append(Case(conv_case(rng, *g, mode=mode, grads=grads), ("cv",) + tuple(map(str, g)) + (grads,),
                          ["batch%d" % len(g[0]), "overlap" if (g[7] < g[5] or g[8] < g[6]) else "disjoint",
                           "uneven" if ((g[2] - g[5]) % g[7] or (g[3] - g[6]) % g[8]) else "even"], mode))
    for _ in range(n):
        batch = rng.choice([[], [1], [2], [3], [2, 2]])
        depth, count = rng.randint(1, 3), rng.randint(1, 3)
        rows, cols = rng.randint(1, 6), rng.randint(1, 6)
        fr, fc = rng.randint(1, min(rows, 3)), rng.randint(1, min(cols, 3))
        sr, sc_ = rng.randint(1, 3), rng.randint(1, 3)
        g = (batch, depth, rows, cols, count, fr, fc, sr, sc_)
        cases.append(Case(conv_case(rng, *g, mode=mode, grads=grads), ("cvr",) + tuple(map(str, g)) + (grads,),
                          ["random", "batch%d" % len(batch)], mode))
    if not grads:
        # refusals: filter larger than the image, too few dimensions, zero stride
        cases.append(Case(conv_case(rng, [], 1, 2, 2, 1, 3, 1, 1, 1, mode), ("cvbad", 1), ["refuse"], mode))
        cases.append(Case(conv_case(rng, [], 1, 2, 2, 1, 1, 3, 1, 1, mode), ("cvbad", 2), ["refuse"], mode))
        cases.append(Case(conv_case(rng, [], 1, 2, 2, 1, 1, 1, 0, 1, mode), ("cvbad", 3), ["refuse"], mode))
        cases.append(Case(["new a 2,2 1,2,3,4", "new f 1,1,1,1 1", "conv r a f 1 1"], ("cvbad", 4), ["refuse"], mode))
        cases.append(Case(["new a 1,2,2 1,2,3,4", "new f 1,1 1", "conv r a f 1 1"], ("cvbad", 5), ["refuse"], mode))
    return cases


# ---------------------------------------------------------------- family: reduce-map (C07)

MAPS_EXACT = ["neg", "relu"]
MAPS_FLOAT = ["neg", "relu", "ln", "exp", "recip", "sigmoid", "softmax"]


def fam_reduce(rng, n, tier, mode="exact", grads=False):
    cases = []
    shapes = all_shapes(4, 3) if tier == "thorough" else all_shapes(3, 3)
    for s in shapes:
        cnt = prod(s)
        kind = "pos" if mode != "exact" else "any"
        L = ["new a %s %s" % (dims_s(s), vals_s(gen_vals(rng, cnt, mode, kind), mode))]
        if grads:
            L.append("tracked a")
        for k in range(0, len(s) + 1):
            L.append("sum r%d a %d" % (k, k))
            if grads:
                L.append("new s%d %s %s" % (k, dims_s(s if k == 0 else s[:len(s) - k] + [1]),
                                            vals_s(gen_vals(rng, cnt if k == 0 else prod(s[:len(s) - k]), mode), mode)))
                L.append("backward r%d s%d" % (k, k))
                L.append("grad a")
                L.append("cleargrad a")
        L.append("sumall a")
        if not grads:
            L.append("sum rx a %d" % (len(s) + 1))
        cases.append(Case(L, ("sum", tuple(s), mode, grads), ["sum", "rank%d" % len(s)], mode))
        # reshape: every factorisation into <= 3 factors, and a wrong count
        L = ["new a %s %s" % (dims_s(s), vals_s(gen_vals(rng, cnt, mode), mode))]
        if grads:
            L.append("tracked a")
        facts = [[cnt]] + [[d, cnt // d] for d in range(1, cnt + 1) if cnt % d == 0]
        for i, f in enumerate(facts[:6]):
            L.append("reshape v%d a %s" % (i, dims_s(f)))
            if grads:
                L.append("new s%d %s %s" % (i, dims_s(f), vals_s(gen_vals(rng, cnt, mode), mode)))
                L.append("backward v%d s%d" % (i, i))
                L.append("grad a")
                L.append("cleargrad a")
        if not grads:
            L.append("reshape w a %s" % dims_s([cnt + 1]))
        cases.append(Case(L, ("reshape", tuple(s), mode, grads), ["reshape"], mode))
        # element maps
        maps = MAPS_EXACT if mode == "exact" else MAPS_FLOAT
        L = ["new a %s %s" % (dims_s(s), vals_s(gen_vals(rng, cnt, mode, kind), mode))]
        if grads:
            L.append("tracked a")
        steps = [(m, "%s m_%s a" % (m, m)) for m in maps]
        steps.append(("scale", "scale m_scale a %s" % sc(rng.choice([2, -3, Fraction(1, 2), 0]) if mode == "exact" else rng.uniform(-3, 3), mode)))
        for e in ([0, 1, 2, 3] if mode == "exact" else [rng.uniform(-3, 3), 2.0, 0.5, 3.0, -1.0]):
            steps.append(("powf", "powf m_powf a %s" % sc(e, mode)))
        for (m, line) in steps:
            L.append(line)
            if grads:
                L.append("new sd %s %s" % (dims_s(s), vals_s(gen_vals(rng, cnt, mode), mode)))
                L.append("backward m_%s sd" % m)
                L.append("grad a")
                L.append("cleargrad a")
        cases.append(Case(L, ("maps", tuple(s), mode, grads), ["maps"], mode))
    return cases


FAMILIES = {
    "construct": fam_construct,
    "ewise": fam_ewise,
    "matmul": fam_matmul,
    "conv": fam_conv,
    "reduce": fam_reduce,
}
